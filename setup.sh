#!/bin/sh
# Offline setup: rustpython rlibs for Verus' toolchain (AST units), replay runner, Kani crate warm-up.
set -e
cd "$(dirname "$0")"
export CARGO_NET_OFFLINE=true
mkdir -p build evidence/replay
cp /repo/Cargo.lock deps/astdeps/Cargo.lock
( cd deps/astdeps && CARGO_TARGET_DIR=../../build/astdeps-target cargo +1.98.1-x86_64-unknown-linux-gnu build --offline --quiet )
python3 tools/gen_astspec.py
python3 tools/gen_lspspec.py
python3 tools/gen_lspspec_main.py
python3 tools/gen_lspspec_completion.py
python3 tools/gen_lspspec_init.py
python3 tools/gen_lspspec_dispatch.py
cp /repo/Cargo.lock replay/Cargo.lock
( cd replay && CARGO_TARGET_DIR=../build/replay-target cargo build --offline --quiet )
# the server binary for handler-level (stdio JSON-RPC) replays
( cd /repo && CARGO_TARGET_DIR=/verif/build/lsp-target cargo build --offline --quiet --bin pytest-language-server )
if [ -f kani/Cargo.toml ]; then
  # warm the Kani build of the harness crate (cheap: the crate has no dependencies)
  ( cd kani && CARGO_TARGET_DIR=../build/kani-target cargo kani --harness scope_order_complete > /dev/null 2>&1 || true )
fi
echo setup done
