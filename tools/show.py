import json,sys
d=json.load(sys.stdin)
print('verified',d['verified'],'errors',d['errors'],'wall',d['wall_s'],'smt_ms',d.get('smt_ms'))
for f in d['failures']: print('FAIL',f['fn'],'|',f['kind'],'|',f['clause'][:140],'|',f['where'],f['others'])
for u in d['undecided']: print('UNDEC',u[:400])
print('canaries',d['canaries'])
