#!/usr/bin/env python3
"""Generate build/lspspec.rs: Verus `external_type_specification`s for the REAL LSP data types the request
handlers of /repo/src/providers touch (crate `ls_types` = ls-types 0.0.2, which tower-lsp-server re-exports
as `tower_lsp_server::ls_types`; the rlib is built by setup.sh in build/astdeps-target with Verus' toolchain
and passed by `tools/vrun.py --ast` as `--extern ls_types=...`).  Handler units splice the file with
`//@include build/lspspec.rs` (inside `verus! { pub mod pre { .. } }`).

How (same method as tools/gen_astspec.py): the set of types is closed mechanically over Verus' own
"`X` is not supported" diagnostics, starting from the parameter / result types of the handlers (SEEDS): every
type Verus meets while checking the specifications written so far gets a specification of its own, until Verus
is silent.  A type is transparent (fields / variants visible: the extracted handler code builds and reads the
real structs) unless it is listed in OPAQUE (representation private or irrelevant) -- those get
`external_body` and are only ever compared / passed on.

Idempotent: the first line of the output carries a key (rlib identity + this script + verus version); when
the file exists with the same key nothing is run.  Exit 0 = file is up to date, 2 = could not be produced
(no rlib / closure does not converge) -- units that include the file are then UNDECIDED through the missing
include.

usage: python3 tools/gen_lspspec.py [--force] [--quiet]
"""
import hashlib
import os
import re
import subprocess
import sys
import tempfile

VERIF = os.path.dirname(os.path.dirname(os.path.abspath(__file__)))
BUILD = os.path.join(VERIF, 'build')
ASTDEPS = os.path.join(BUILD, 'astdeps-target', 'debug', 'deps')
OUT = os.path.join(BUILD, 'lspspec.rs')

# parameter and result types of the handlers in src/providers/{definition,references,code_lens,call_hierarchy,
# implementation,inlay_hint,hover}.rs (GotoImplementationParams / -Response and CallHierarchyPrepareParams are
# aliases of / structurally reach the same types)
SEEDS = ['GotoDefinitionParams', 'GotoDefinitionResponse', 'ReferenceParams', 'Location', 'CodeLensParams', 'CodeLens',
         'CallHierarchyPrepareParams', 'CallHierarchyItem', 'CallHierarchyIncomingCallsParams',
         'CallHierarchyIncomingCall', 'CallHierarchyOutgoingCallsParams', 'CallHierarchyOutgoingCall',
         'InlayHintParams', 'InlayHint', 'HoverParams', 'Hover',
         # units handlers_diag: diagnostics.rs, document_symbol.rs, workspace_symbol.rs, code_action.rs
         'Diagnostic', 'DocumentSymbolParams', 'DocumentSymbolResponse', 'WorkspaceSymbolParams', 'SymbolInformation',
         'CodeActionParams', 'CodeActionOrCommand']

# types whose representation is private (newtypes over i32 with associated consts: SymbolKind, SymbolTag,
# InlayHintKind, DiagnosticSeverity, DiagnosticTag, CodeActionKind, CodeActionTriggerKind), foreign (serde_json::Value, fluent_uri inside Uri) or irrelevant to the handlers
OPAQUE = ('Uri', 'Value', 'SymbolKind', 'SymbolTag', 'InlayHintKind', 'ProgressToken',
          'MarkedString', 'LanguageString', 'InlayHintLabelPart',
          'DiagnosticSeverity', 'DiagnosticTag', 'CodeActionKind', 'CodeActionTriggerKind', 'DocumentChanges',
          'ChangeAnnotation', 'CodeActionDisabled')

# public modules of ls_types (everything else is `mod x; pub use x::*;`, i.e. public as ls_types::Name)
PUBLIC_MODS = ('request', 'notification', 'error_codes', 'lsif')


def log(*a):
    if '--quiet' not in sys.argv:
        print(*a, file=sys.stderr)


def find_rlib():
    if not os.path.isdir(ASTDEPS):
        return None
    rl = sorted(f for f in os.listdir(ASTDEPS) if re.match(r'libls_types-[0-9a-f]+\.rlib$', f))
    return os.path.join(ASTDEPS, rl[0]) if rl else None


def cache_key(rlib):
    h = hashlib.sha256()
    st = os.stat(rlib)
    h.update(f'{os.path.basename(rlib)}:{st.st_size}:{st.st_mtime_ns}'.encode())
    h.update(open(os.path.abspath(__file__), 'rb').read())
    try:
        h.update(subprocess.run(['verus', '--version'], capture_output=True, text=True).stdout.encode())
    except OSError:
        pass
    return h.hexdigest()[:32]


def public_path(p):
    """the path a diagnostic prints (definition path, through private modules) -> a path that can be written"""
    if p == 'serde_json::value::Value':
        return 'ls_types::LSPAny'          # `pub type LSPAny = serde_json::Value;` (serde_json is not an --extern)
    parts = p.split('::')
    if parts[0] == 'ls_types' and len(parts) == 3 and parts[1] not in PUBLIC_MODS:
        return 'ls_types::' + parts[2]
    return p


def items(known, opaque_paths):
    out = []
    for path, name in known.items():
        attrs = '#[verifier::external_type_specification]\n'
        if path in opaque_paths:
            attrs += '#[verifier::external_body]\n'
        out.append(f'{attrs}pub struct Ex{name}({path});')
    return '\n'.join(out) + '\n'


def run_verus(text, rlib, workdir):
    f = os.path.join(workdir, 'lspspec_probe.rs')
    open(f, 'w').write('#![allow(unused_imports)]\nuse vstd::prelude::*;\nverus! {\n' + text + '\n} // verus!\nfn main() {}\n')
    p = subprocess.run(['verus', f, '--triggers-mode', 'silent', '--extern', f'ls_types={rlib}',
                        '-L', f'dependency={ASTDEPS}'], capture_output=True, text=True, cwd=workdir)
    return p.returncode, p.stdout + p.stderr


def main():
    rlib = find_rlib()
    if rlib is None:
        print('gen_lspspec: ls_types rlib missing (run setup.sh first)', file=sys.stderr)
        return 2
    key = cache_key(rlib)
    if '--force' not in sys.argv and os.path.exists(OUT):
        first = open(OUT).readline()
        if first.strip() == f'// lspspec-key: {key}':
            log('gen_lspspec: build/lspspec.rs is up to date')
            return 0
    known = {}
    opaque_paths = set()
    for name in SEEDS:
        known['ls_types::' + name] = name
    with tempfile.TemporaryDirectory(prefix='lspspec') as wd:
        for it in range(40):
            rc, out = run_verus(items(known, opaque_paths), rlib, wd)
            new = set(re.findall(r'error: `([\w:]+)` is not supported', out))
            other = [l for l in out.splitlines() if l.startswith('error') and 'is not supported' not in l
                     and 'aborting' not in l]
            log(f'gen_lspspec: iteration {it}: {len(known)} types, {len(new)} new')
            if not new:
                if rc != 0 or other:
                    print('gen_lspspec: closure stopped with errors:\n' + out[-3000:], file=sys.stderr)
                    return 2
                break
            for p in sorted(new):
                name = p.split('::')[-1]
                pub = public_path(p)
                if pub in known:
                    print(f'gen_lspspec: {p} reported again (path mapping wrong?)', file=sys.stderr)
                    return 2
                known[pub] = name
                if name in OPAQUE or not p.startswith('ls_types::'):
                    opaque_paths.add(pub)
        else:
            print('gen_lspspec: closure did not converge', file=sys.stderr)
            return 2
        body = (f'// lspspec-key: {key}\n'
                f'// GENERATED by tools/gen_lspspec.py from {os.path.basename(rlib)} -- do not edit.\n'
                f'// {len(known)} type specifications of the real LSP types (opaque: '
                f'{", ".join(sorted(known[p] for p in opaque_paths))}), closed over Verus\' diagnostics.\n'
                + items(known, opaque_paths))
        rc, out = run_verus(body, rlib, wd)
        if rc != 0:
            print('gen_lspspec: final file rejected by verus:\n' + out[-3000:], file=sys.stderr)
            return 2
    os.makedirs(BUILD, exist_ok=True)
    tmp = OUT + '.tmp'
    open(tmp, 'w').write(body)
    os.replace(tmp, OUT)
    log(f'gen_lspspec: wrote build/lspspec.rs ({len(known)} types)')
    return 0


if __name__ == '__main__':
    sys.exit(main())
