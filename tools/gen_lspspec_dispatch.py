#!/usr/bin/env python3
"""Generate build/lspspec_dispatch.rs: the type specifications of build/lspspec.rs (tools/gen_lspspec.py, same method,
same opaque list) PLUS what the request forwarders of src/main.rs (`impl LanguageServer for Backend`: initialized,
goto_definition .. outgoing_calls; unit handlers_dispatch) hand through in addition: CompletionParams / CompletionResponse
(with the opaque list of tools/gen_lspspec_completion.py), InitializedParams, MessageType and WorkspaceSymbolResponse
(which `symbol` builds: `WorkspaceSymbolResponse::Flat`; its other variant reaches WorkspaceSymbol and the generic OneOf).
A separate output file, so that the registered handler units keep including files this script never touches; unit
handlers_dispatch includes build/lspspec_dispatch.rs INSTEAD of build/lspspec.rs (a type may be specified only once per
crate).

usage: python3 tools/gen_lspspec_dispatch.py [--force] [--quiet]      (after tools/gen_lspspec.py in setup.sh)
"""
import os
import sys

sys.path.insert(0, os.path.dirname(os.path.abspath(__file__)))
import gen_lspspec as g  # noqa: E402

EXTRA = ['CompletionParams', 'CompletionResponse', 'InitializedParams', 'MessageType', 'WorkspaceSymbolResponse']
EXTRA_OPAQUE = ('CompletionItemKind', 'InsertTextFormat', 'InsertTextMode', 'CompletionItemTag',
                'CompletionTriggerKind', 'MessageType')
# generic types of ls_types the closure meets (gen_lspspec.items writes `Name(path)` without parameters)
GENERIC = {'OneOf': ('A', 'B')}
g.SEEDS = list(g.SEEDS) + EXTRA
g.OPAQUE = tuple(g.OPAQUE) + EXTRA_OPAQUE


def items(known, opaque_paths):
    """as gen_lspspec.items, plus (as tools/gen_lspspec_init.py): a SEED that is in the opaque list gets `external_body`
    too (gen_lspspec.main only checks discovered types), and generic types get their parameters"""
    out = []
    for path, name in known.items():
        attrs = '#[verifier::external_type_specification]\n'
        if path in opaque_paths or name in g.OPAQUE:
            attrs += '#[verifier::external_body]\n'
        gen = GENERIC.get(name)
        if gen:
            attrs += ''.join(f'#[verifier::reject_recursive_types({x})]\n' for x in gen)
            ps = '<' + ', '.join(gen) + '>'
            out.append(f'{attrs}pub struct Ex{name}{ps}({path}{ps});')
        else:
            out.append(f'{attrs}pub struct Ex{name}({path});')
    return '\n'.join(out) + '\n'


g.items = items
g.OUT = os.path.join(g.BUILD, 'lspspec_dispatch.rs')
_key = g.cache_key
g.cache_key = lambda rlib: _key(rlib)[:24] + 'disp' + str(len(EXTRA) + len(EXTRA_OPAQUE)).zfill(4)

if __name__ == '__main__':
    sys.exit(g.main())
