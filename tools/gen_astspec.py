#!/usr/bin/env python3
"""Generate build/astspec.rs: Verus `external_type_specification`s for the REAL rustpython AST types
(the rlibs built by setup.sh in build/astdeps-target) + the few assumed specifications needed to read
AST nodes.  Units splice it with `//@include build/astspec.rs` (inside `verus! { pub mod pre { .. } }`).

How: the set of types is closed mechanically over Verus' own "`X` is not supported" diagnostics, starting
from Stmt / Expr / TextRange: every type Verus meets while checking the type specifications written so far
gets a specification of its own, until Verus is silent.  A type is made transparent (fields / variants
visible, so `match` works on the real enum) unless it is listed in OPAQUE.

Idempotent: the first line of the output carries a key (rlib identity + this script + verus version); when
the file exists with the same key nothing is run.  Exit 0 = file is up to date, 2 = could not be produced
(no rlib / no registry sources / closure does not converge) -- units that include the file are then
UNDECIDED through the missing include.

usage: python3 tools/gen_astspec.py [--force] [--quiet]
"""
import glob
import hashlib
import os
import re
import subprocess
import sys
import tempfile

VERIF = os.path.dirname(os.path.dirname(os.path.abspath(__file__)))
BUILD = os.path.join(VERIF, 'build')
ASTDEPS = os.path.join(BUILD, 'astdeps-target', 'debug', 'deps')
OUT = os.path.join(BUILD, 'astspec.rs')

# types whose representation is irrelevant to (or unreadable for) Verus: opaque, accessed through
# the assumed accessors below
OPAQUE = ('TextRange', 'TextSize', 'BigInt', 'Int', 'Identifier', 'EmptyRange')
SEEDS = [('rustpython_parser::ast::Expr', 'Expr', True), ('rustpython_parser::ast::Stmt', 'Stmt', True),
         ('rustpython_parser::text_size::TextRange', 'TextRange', False),
         ('rustpython_parser::text_size::TextSize', 'TextSize', False),
         ('rustpython_parser::ast::Identifier', 'Identifier', False)]

# internal crate paths (what the diagnostics print) -> the public re-export paths of rustpython_parser
PATH_MAP = [
    ('rustpython_ast::generic::', 'rustpython_parser::ast::'),
    ('rustpython_ast::builtin::', 'rustpython_parser::ast::'),
    ('rustpython_ast::ranged::', 'rustpython_parser::ast::'),
    ('rustpython_ast::', 'rustpython_parser::ast::'),
    ('malachite_bigint::bigint::', 'rustpython_parser::ast::bigint::'),
    ('rustpython_parser_core::format::', 'rustpython_parser::ast::'),
    ('rustpython_parser_core::', 'rustpython_parser::'),
    ('rustpython_parser_vendored::text_size::range::', 'rustpython_parser::text_size::'),
    ('rustpython_parser_vendored::text_size::size::', 'rustpython_parser::text_size::'),
]

# ---- hand-written part: the assumed specifications needed to READ the AST (trusted base A3) -----------
HAND = r'''
// ---- assumed accessors of the opaque leaf types (trusted base A3) ------------------------------------
/// the text of an identifier (`Identifier` wraps a String)
pub uninterp spec fn idv(i: &rustpython_parser::ast::Identifier) -> Seq<char>;
pub assume_specification<'a>[ rustpython_parser::ast::Identifier::as_str ](i: &'a rustpython_parser::ast::Identifier) -> (r: &'a str)
    ensures r@ == idv(i);
/// `identifier.to_string()` (ToString through Display, which writes the wrapped string): vstd gives the blanket
/// impl the postcondition `to_string_from_display_ensures(t, res)`; this pins it down for Identifier
pub mod astspec_ax {
    use super::*;
    pub broadcast axiom fn axiom_identifier_to_string(t: &rustpython_parser::ast::Identifier, res: String)
        ensures #[trigger] vstd::string::to_string_from_display_ensures::<rustpython_parser::ast::Identifier>(t, res) <==> (idv(t) == res@);
}
pub use astspec_ax::*;
/// a byte offset into the source text
pub uninterp spec fn tsv(t: rustpython_parser::text_size::TextSize) -> usize;
pub assume_specification[ rustpython_parser::text_size::TextSize::to_usize ](t: &rustpython_parser::text_size::TextSize) -> (r: usize)
    ensures r == tsv(*t);
/// a source range = (start offset, end offset)
pub uninterp spec fn tr_start(r: rustpython_parser::text_size::TextRange) -> rustpython_parser::text_size::TextSize;
pub uninterp spec fn tr_end(r: rustpython_parser::text_size::TextRange) -> rustpython_parser::text_size::TextSize;
pub assume_specification[ rustpython_parser::text_size::TextRange::start ](r: rustpython_parser::text_size::TextRange) -> (s: rustpython_parser::text_size::TextSize)
    ensures s == tr_start(r);
pub assume_specification[ rustpython_parser::text_size::TextRange::end ](r: rustpython_parser::text_size::TextRange) -> (s: rustpython_parser::text_size::TextSize)
    ensures s == tr_end(r);
'''


def log(*a):
    if '--quiet' not in sys.argv:
        print(*a, file=sys.stderr)


def find_rlib():
    if not os.path.isdir(ASTDEPS):
        return None
    rl = sorted(f for f in os.listdir(ASTDEPS) if re.match(r'librustpython_parser-[0-9a-f]+\.rlib$', f))
    return os.path.join(ASTDEPS, rl[0]) if rl else None


def cache_key(rlib):
    h = hashlib.sha256()
    st = os.stat(rlib)
    h.update(f'{os.path.basename(rlib)}:{st.st_size}:{st.st_mtime_ns}'.encode())
    h.update(open(os.path.abspath(__file__), 'rb').read())
    try:
        h.update(subprocess.run(['verus', '--version'], capture_output=True, text=True).stdout.encode())
    except OSError:
        pass
    return h.hexdigest()[:32]


def decls():
    """simple type name -> has generic parameters? (from the crates' sources in the cargo registry)"""
    srcs = []
    for crate in ('rustpython-ast-0.4.0', 'rustpython-parser-core-0.4.0', 'rustpython-parser-vendored-0.4.0'):
        srcs += glob.glob(os.path.expanduser(f'~/.cargo/registry/src/*/{crate}/src/**/*.rs'), recursive=True)
    d = {}
    for f in srcs:
        t = open(f, encoding='utf-8').read()
        for m in re.finditer(r'pub (struct|enum) (\w+)(<[^>{(;]*>)?', t):
            d.setdefault(m.group(2), bool(m.group(3)))
    return d


def public_path(p):
    for a, b in PATH_MAP:
        if p.startswith(a):
            return b + p[len(a):]
    return p


def items(known, opaque_paths):
    out = []
    for path, (name, gen) in known.items():
        attrs = '#[verifier::external_type_specification]\n'
        if path in opaque_paths:
            attrs += '#[verifier::external_body]\n'
        if gen:
            out.append(f'{attrs}#[verifier::reject_recursive_types(R)]\npub struct Ex{name}<R>({path}<R>);')
        else:
            out.append(f'{attrs}pub struct Ex{name}({path});')
    return '\n'.join(out) + '\n'


def run_verus(text, rlib, workdir):
    f = os.path.join(workdir, 'astspec_probe.rs')
    open(f, 'w').write('#![allow(unused_imports)]\nuse vstd::prelude::*;\nverus! {\n' + text + '\n} // verus!\nfn main() {}\n')
    p = subprocess.run(['verus', f, '--triggers-mode', 'silent', '--extern', f'rustpython_parser={rlib}',
                        '-L', f'dependency={ASTDEPS}'], capture_output=True, text=True, cwd=workdir)
    return p.returncode, p.stdout + p.stderr


def main():
    rlib = find_rlib()
    if rlib is None:
        print('gen_astspec: rustpython rlibs missing (run setup.sh first)', file=sys.stderr)
        return 2
    key = cache_key(rlib)
    if '--force' not in sys.argv and os.path.exists(OUT):
        first = open(OUT).readline()
        if first.strip() == f'// astspec-key: {key}':
            log('gen_astspec: build/astspec.rs is up to date')
            return 0
    dec = decls()
    if 'Stmt' not in dec:
        print('gen_astspec: rustpython-ast sources not found in the cargo registry', file=sys.stderr)
        return 2
    known = {}
    opaque_paths = set()
    for path, name, gen in SEEDS:
        known[path] = (name, gen)
        if name in OPAQUE:
            opaque_paths.add(path)
    with tempfile.TemporaryDirectory(prefix='astspec') as wd:
        for it in range(40):
            rc, out = run_verus(items(known, opaque_paths), rlib, wd)
            new = set(re.findall(r'error: `([\w:]+)` is not supported', out))
            other = [l for l in out.splitlines() if l.startswith('error') and 'is not supported' not in l
                     and 'aborting' not in l]
            log(f'gen_astspec: iteration {it}: {len(known)} types, {len(new)} new')
            if not new:
                if rc != 0 or other:
                    print('gen_astspec: closure stopped with errors:\n' + out[-3000:], file=sys.stderr)
                    return 2
                break
            for p in sorted(new):
                name = p.split('::')[-1]
                pub = public_path(p)
                if pub in known:
                    print(f'gen_astspec: {p} reported again (path mapping wrong?)', file=sys.stderr)
                    return 2
                known[pub] = (name, dec.get(name, False))
                if name in OPAQUE or 'num_bigint' in p or 'malachite' in p:
                    opaque_paths.add(pub)
        else:
            print('gen_astspec: closure did not converge', file=sys.stderr)
            return 2
        body = (f'// astspec-key: {key}\n'
                f'// GENERATED by tools/gen_astspec.py from {os.path.basename(rlib)} -- do not edit.\n'
                f'// {len(known)} type specifications of the real rustpython AST (opaque: '
                f'{", ".join(sorted(known[p][0] for p in opaque_paths))}), closed over Verus\' diagnostics.\n'
                + items(known, opaque_paths) + HAND)
        # the complete file (types + assumed accessors) must be accepted as it stands
        rc, out = run_verus(body, rlib, wd)
        if rc != 0:
            print('gen_astspec: final file rejected by verus:\n' + out[-3000:], file=sys.stderr)
            return 2
    os.makedirs(BUILD, exist_ok=True)
    tmp = OUT + '.tmp'
    open(tmp, 'w').write(body)
    os.replace(tmp, OUT)
    log(f'gen_astspec: wrote build/astspec.rs ({len(known)} types)')
    return 0


if __name__ == '__main__':
    sys.exit(main())
