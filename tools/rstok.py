"""Minimal Rust tokenizer: good enough to find items, match braces, and locate
loops / closures / returns without being fooled by strings, chars, lifetimes or comments.

Token = (kind, text, start, end) with kind in
  ws, lcomment, bcomment, str, char, lifetime, ident, num, punct
"""
import re

IDENT_RE = re.compile(r'[A-Za-z_][A-Za-z0-9_]*')
NUM_RE = re.compile(r'[0-9][0-9A-Za-z_]*(\.[0-9][0-9A-Za-z_]*)?')
PUNCT3 = ('<<=', '>>=', '...', '..=')
PUNCT2 = ('::', '->', '=>', '==', '!=', '<=', '>=', '&&', '||', '+=', '-=', '*=', '/=', '%=', '^=',
          '&=', '|=', '<<', '>>', '..')


class Tok:
    __slots__ = ('kind', 'text', 'start', 'end')

    def __init__(self, kind, text, start, end):
        self.kind, self.text, self.start, self.end = kind, text, start, end

    def __repr__(self):
        return f'{self.kind}:{self.text!r}@{self.start}'


def tokenize(src):
    toks = []
    i, n = 0, len(src)
    while i < n:
        c = src[i]
        if c.isspace():
            j = i
            while j < n and src[j].isspace():
                j += 1
            toks.append(Tok('ws', src[i:j], i, j)); i = j; continue
        if src.startswith('//', i):
            j = src.find('\n', i)
            j = n if j < 0 else j
            toks.append(Tok('lcomment', src[i:j], i, j)); i = j; continue
        if src.startswith('/*', i):
            depth, j = 1, i + 2
            while j < n and depth:
                if src.startswith('/*', j): depth += 1; j += 2
                elif src.startswith('*/', j): depth -= 1; j += 2
                else: j += 1
            toks.append(Tok('bcomment', src[i:j], i, j)); i = j; continue
        # raw strings r"..", r#".."#, br".."
        m = re.match(r'(b?r)(#*)"', src[i:i + 12])
        if m:
            hashes = m.group(2)
            close = '"' + hashes
            j = src.find(close, i + len(m.group(0)))
            j = n if j < 0 else j + len(close)
            toks.append(Tok('str', src[i:j], i, j)); i = j; continue
        if c == '"' or (c == 'b' and i + 1 < n and src[i + 1] == '"'):
            j = i + (2 if c == 'b' else 1)
            while j < n and src[j] != '"':
                j += 2 if src[j] == '\\' else 1
            j += 1
            toks.append(Tok('str', src[i:j], i, j)); i = j; continue
        if c == "'" or (c == 'b' and i + 1 < n and src[i + 1] == "'"):
            k = i + (1 if c == 'b' else 0)
            # char literal: '\..' or 'x' followed by '
            if k + 1 < n and src[k + 1] == '\\':
                j = src.find("'", k + 3)
                j = j + 1
                toks.append(Tok('char', src[i:j], i, j)); i = j; continue
            if k + 2 < n and src[k + 2] == "'":
                j = k + 3
                toks.append(Tok('char', src[i:j], i, j)); i = j; continue
            # multi-byte char literal e.g. 'é' (python str index = 1 char) handled above; lifetime otherwise
            m = IDENT_RE.match(src, k + 1)
            if m:
                toks.append(Tok('lifetime', src[i:m.end()], i, m.end())); i = m.end(); continue
        m = IDENT_RE.match(src, i)
        if m:
            toks.append(Tok('ident', m.group(0), i, m.end())); i = m.end(); continue
        m = NUM_RE.match(src, i)
        if m:
            # do not swallow `..` of ranges: 0..n
            txt = m.group(0)
            if '.' in txt and src.startswith('..', i + txt.index('.')):
                txt = txt[:txt.index('.')]
            toks.append(Tok('num', txt, i, i + len(txt))); i += len(txt); continue
        for p in PUNCT3:
            if src.startswith(p, i):
                toks.append(Tok('punct', p, i, i + 3)); i += 3; break
        else:
            for p in PUNCT2:
                if src.startswith(p, i):
                    toks.append(Tok('punct', p, i, i + 2)); i += 2; break
            else:
                toks.append(Tok('punct', c, i, i + 1)); i += 1
    return toks


def sig(toks):
    """indices of significant tokens (no whitespace/comments)"""
    return [k for k, t in enumerate(toks) if t.kind not in ('ws', 'lcomment', 'bcomment')]


OPEN = {'(': ')', '[': ']', '{': '}'}
CLOSE = {v: k for k, v in OPEN.items()}


def match_close(toks, k):
    """toks[k] is an opening bracket; return index of the matching close."""
    depth = 0
    for j in range(k, len(toks)):
        t = toks[j]
        if t.kind != 'punct':
            continue
        if t.text in OPEN:
            depth += 1
        elif t.text in CLOSE:
            depth -= 1
            if depth == 0:
                return j
    raise ValueError('unbalanced')
