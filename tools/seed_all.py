#!/usr/bin/env python3
"""Run the registered checks against every seeded change (apply to /repo, check, undo) and record the outcome in
seeded/<id>/meta.json and seeded/RESULTS.md.   usage: seed_all.py [id ...]"""
import glob, json, os, subprocess, sys
EXTRA = {'C01': ['C02', 'C08'], 'C04': ['C06'], 'C06': ['C04', 'C07'], 'C07': ['C06'], 'C16': []}
ids = sys.argv[1:] or sorted(os.path.basename(d) for d in glob.glob('/verif/seeded/C*-*'))
claimed = {c['property_id'] for c in json.load(open('/verif/MANIFEST.json'))['checks']}
rows = []
for i in ids:
    d = f'/verif/seeded/{i}'
    meta = json.load(open(f'{d}/meta.json'))
    prop = meta['property']
    props = [p for p in [prop] + EXTRA.get(prop, []) if p in claimed]
    st = subprocess.run(['git', '-C', '/repo', 'status', '--porcelain', '--', 'src'], capture_output=True, text=True).stdout
    if st.strip():
        print('refusing: /repo/src dirty'); sys.exit(9)
    a = subprocess.run(['git', '-C', '/repo', 'apply', f'{d}/patch.diff'], capture_output=True, text=True)
    if a.returncode != 0:
        meta['checks'] = {'error': 'patch does not apply to the current /repo: ' + a.stderr[:200]}
    else:
        try:
            for p in props:
                r = subprocess.run(['./check', p, 'quick'], cwd='/verif', capture_output=True, text=True, env=dict(__import__('os').environ, VERIF_EVIDENCE_DIR='/verif/build/seed-evidence'))
                lines = [l for l in r.stdout.split('\n') if l.startswith(('VIOLATION', 'UNDECIDED'))]
                first = lines[0][:300] if lines else ''
                ob = ''
                if r.returncode == 1 and lines:
                    try:
                        rp = lines[0].split('replay=')[1].split()[0]
                        rj = json.load(open(rp))
                        ob = f"{rj['obligation']} @ {rj['where']}"
                    except Exception:
                        pass
                meta['checks'][p] = {'exit': r.returncode, 'verdict': {0: 'MISSED', 1: 'DETECTED', 2: 'UNDECIDED'}.get(r.returncode, '?'),
                                     'first_line': first, 'obligation': ob}
        finally:
            subprocess.run(['git', '-C', '/repo', 'checkout', '--', '.'])
    json.dump(meta, open(f'{d}/meta.json', 'w'), indent=1)
    rows.append((i, meta))
    print(i, {p: v.get('verdict') for p, v in meta['checks'].items() if isinstance(v, dict)})
with open('/verif/seeded/RESULTS.md', 'w') as f:
    f.write('| id | property | what the change does | needs | verdicts (per check) | failed obligation |\n|---|---|---|---|---|---|\n')
    for d in sorted(glob.glob('/verif/seeded/C*-*')):
        m = json.load(open(f'{d}/meta.json'))
        v = ', '.join(f"{p}: {c.get('verdict')}" for p, c in m['checks'].items() if isinstance(c, dict))
        ob = '; '.join(c.get('obligation', '') for c in m['checks'].values() if isinstance(c, dict) and c.get('obligation'))[:200]
        f.write(f"| {m['id']} | {m['property']} | {str(m['summary'])[:220].replace('|', '/')} | {str(m['needs_to_manifest'])[:160].replace('|', '/')} | {v} | {ob.replace('|', '/')} |\n")
