#!/usr/bin/env python3
"""Run the registered checks against every seeded change (apply to /repo, check, undo) and record the outcome in
seeded/<id>/meta.json and seeded/RESULTS.md.   usage: seed_all.py [id ...]"""
import glob, json, os, subprocess, sys
EXTRA = {'C01': ['C02', 'C08', 'C14'], 'C02': ['C01', 'C04', 'C06'], 'C03': ['C06', 'C15'], 'C04': ['C06'], 'C06': ['C04', 'C07'], 'C07': ['C06'], 'C14': ['C01'], 'C16': [], 'C18': ['C05', 'C06'], 'C19': ['C07', 'C06'], 'C20': ['C04'], 'C05': ['C07', 'C06', 'C18'], 'C08': ['C01', 'C16', 'C20'], 'C10': ['C04', 'C06'], 'C11': ['C03', 'C15', 'C18'], 'C12': ['C14'], 'C15': ['C03', 'C11'], 'C17': ['C03', 'C06', 'C18']}
INPLACE = '--inplace' in sys.argv
OWN = '--own' in sys.argv   # only the check of the property the change was aimed at (its support units included); resets the recorded verdicts
sys.argv = [a for a in sys.argv if a not in ('--inplace', '--own')]
ids = sys.argv[1:] or sorted(os.path.basename(d) for d in glob.glob('/verif/seeded/C*-*'))
claimed = {c['property_id'] for c in json.load(open('/verif/MANIFEST.json'))['checks']}
rows = []
for i in ids:
    d = f'/verif/seeded/{i}'
    meta = json.load(open(f'{d}/meta.json'))
    if meta.get('obsolete'):
        print(i, 'obsolete: skipped'); continue
    prop = meta['property']
    props = [p for p in [prop] + ([] if OWN else EXTRA.get(prop, [])) if p in claimed]
    if OWN:
        meta['checks'] = {}
    # plus every property decided by a unit that extracts code from a file the change touches
    import re as _re
    changed = set(_re.findall(r'^\+\+\+ b/(\S+)', open(f'{d}/patch.diff').read(), _re.M))
    units = json.load(open('/verif/units/units.json'))
    for un, ud in ({} if OWN else units).items():
        txt = open(os.path.join('/verif', ud['template'])).read()
        files = set(_re.findall(r'/\*@ extract (\S+)', txt)) | set(_re.findall(r'^[ \t]*//@item (\S+)', txt, _re.M))
        if files & changed:
            for p in ud['properties']:
                if p in claimed and p not in props and p not in ('C11', 'C12'):
                    props.append(p)
    import shutil
    env_extra = {}
    if INPLACE:
        st = subprocess.run(['git', '-C', '/repo', 'status', '--porcelain', '--', 'src'], capture_output=True, text=True).stdout
        if st.strip():
            print('refusing: /repo/src dirty'); sys.exit(9)
        a = subprocess.run(['git', '-C', '/repo', 'apply', f'{d}/patch.diff'], capture_output=True, text=True)
    else:
        # scratch mode: the units are generated from a patched copy of the sources (VERIF_REPO); /repo is untouched
        # (Kani harnesses and replay scenarios still read /repo, so only Verus-decided obligations can go red)
        scratch = f'/verif/build/scratch/seed-{i}/repo'
        shutil.rmtree(os.path.dirname(scratch), ignore_errors=True)
        os.makedirs(scratch)
        shutil.copytree('/repo/src', scratch + '/src')
        a = subprocess.run(['patch', '-p1', '-s', '-d', scratch, '-i', f'{d}/patch.diff'], capture_output=True, text=True)
        env_extra = {'VERIF_REPO': scratch, 'VERIF_SKIP_KANI': '1'}
    if a.returncode != 0:
        meta['checks'] = {'error': 'patch does not apply to the current /repo: ' + a.stderr[:200]}
    else:
        try:
            for p in props:
                r = subprocess.run(['./check', p, 'quick'], cwd='/verif', capture_output=True, text=True, env=dict(os.environ, VERIF_EVIDENCE_DIR='/verif/build/seed-evidence', **env_extra))
                lines = [l for l in r.stdout.split('\n') if l.startswith(('VIOLATION', 'UNDECIDED'))]
                first = lines[0][:300] if lines else ''
                ob = ''
                if r.returncode == 1 and lines:
                    try:
                        rp = lines[0].split('replay=')[1].split()[0]
                        rj = json.load(open(rp))
                        ob = f"{rj['obligation']} @ {rj['where']}"
                    except Exception:
                        pass
                meta['checks'][p] = {'exit': r.returncode, 'verdict': {0: 'MISSED', 1: 'DETECTED', 2: 'UNDECIDED'}.get(r.returncode, '?'),
                                     'first_line': first, 'obligation': ob}
        finally:
            if INPLACE:
                subprocess.run(['git', '-C', '/repo', 'checkout', '--', '.'])
            else:
                shutil.rmtree(f'/verif/build/scratch/seed-{i}', ignore_errors=True)
                import hashlib
                shutil.rmtree('/verif/build/units-' + hashlib.sha1(scratch.encode()).hexdigest()[:8], ignore_errors=True)
    json.dump(meta, open(f'{d}/meta.json', 'w'), indent=1)
    rows.append((i, meta))
    print(i, {p: v.get('verdict') for p, v in meta['checks'].items() if isinstance(v, dict)})
with open('/verif/seeded/RESULTS.md', 'w') as f:
    f.write('| id | property | what the change does | needs | verdicts (per check) | failed obligation |\n|---|---|---|---|---|---|\n')
    for d in sorted(glob.glob('/verif/seeded/C*-*')):
        m = json.load(open(f'{d}/meta.json'))
        v = ', '.join(f"{p}: {c.get('verdict')}" for p, c in m['checks'].items() if isinstance(c, dict))
        ob = '; '.join(c.get('obligation', '') for c in m['checks'].values() if isinstance(c, dict) and c.get('obligation'))[:200]
        f.write(f"| {m['id']} | {m['property']} | {str(m['summary'])[:220].replace('|', '/')} | {str(m['needs_to_manifest'])[:160].replace('|', '/')} | {v} | {ob.replace('|', '/')} |\n")
