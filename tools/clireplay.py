"""Witness inputs for the command-line interface (`"kind": "cli"`): the binary built from /repo's working tree (the same
build lspreplay uses) is run on a scenario's files; each step `{"label", "cwd", "argv"}` observes
{"exit": code, "stdout": text, "json": parsed stdout or null}.  `${ROOT}` in argv / cwd is the scenario's temp root.
Conditions are those of replayrun (`defect_when` all / `defect_when_any` one).  A driver error is `reproduces: null`."""
import json
import os
import shutil
import subprocess
import sys
import tempfile

sys.path.insert(0, os.path.dirname(os.path.abspath(__file__)))
from replayrun import holds  # noqa: E402
import lspreplay  # noqa: E402

VERIF = os.path.dirname(os.path.dirname(os.path.abspath(__file__)))
BIN = os.environ.get('VERIF_CLI_BIN') or os.path.join(lspreplay.TARGET, 'debug', 'pytest-language-server')


def run_one(sc):
    root = os.path.realpath(tempfile.mkdtemp(prefix='plsverif-cli-'))
    try:
        for name, text in (sc.get('files') or {}).items():
            p = os.path.join(root, name)
            os.makedirs(os.path.dirname(p), exist_ok=True)
            open(p, 'w').write(text.replace('${ROOT}', root))
        observed = []
        for st in sc.get('steps', []):
            argv = [a.replace('${ROOT}', root) for a in st['argv']]
            cwd = os.path.join(root, st.get('cwd', '.').replace('${ROOT}', root))
            p = subprocess.run([BIN] + argv, cwd=cwd, capture_output=True, text=True, timeout=120,
                               env=dict(os.environ, NO_COLOR='1', RUST_LOG='off'))
            out = p.stdout.replace(root + '/', '${ROOT}/')
            try:
                js = json.loads(out)
            except Exception:
                js = None
            observed.append({'label': st.get('label'), 'op': 'cli', 'value': {'exit': p.returncode, 'stdout': out[:4000], 'json': js}})
        conds = sc.get('defect_when', [])
        anyc = sc.get('defect_when_any', [])
        return {'reproduces': (bool(conds) and all(holds(c, observed) for c in conds)) or any(holds(c, observed) for c in anyc),
                'observed': observed}
    finally:
        shutil.rmtree(root, ignore_errors=True)


def run_scenarios(paths):
    out = {}
    paths = [p for p in paths if p]
    if not paths:
        return out
    if not os.environ.get('VERIF_CLI_BIN') and not lspreplay.build():
        return {p: {'reproduces': None, 'error': 'binary does not build: ' + lspreplay._built['err']} for p in paths}
    for q in paths:
        try:
            out[q] = run_one(json.load(open(os.path.join(VERIF, q))))
        except Exception as e:  # a broken driver must never look like a failing witness
            out[q] = {'reproduces': None, 'error': f'{type(e).__name__}: {e}', 'observed': []}
    return out


if __name__ == '__main__':
    print(json.dumps(run_scenarios(sys.argv[1:]), indent=1))
