#!/usr/bin/env python3
"""Regenerate MANIFEST.json from the table below + units/units.json (keeps the two consistent)."""
import json
import os

VERIF = os.path.dirname(os.path.dirname(os.path.abspath(__file__)))
UNITS = json.load(open(os.path.join(VERIF, 'units', 'units.json')))
KH = json.load(open(os.path.join(VERIF, 'kani', 'harnesses.json')))

TECH = 'contract-based deductive verification (Verus) of functions extracted mechanically from /repo on every run'

CLAIMS = {
    'C01': ('proof', 'The real resolver find_closest_definition_with_filter (and its two callers) is proved equal to an operational spec op_resolve for every index state, path and filter; pure lemmas prove the clauses of pytest\'s shadowing order (same file/last redefinition, nearest conftest, plugin before third-party, visibility) over op_resolve. The visibility clause holds only under a stated hypothesis on the import branch: known finding F-01.',
            'trusted: extractor T1-T10, sequential view, std Path/iterator/DashMap shims, is_fixture_imported_in_file abstract, goto handler glue and word-at-cursor lookup not covered', '§5-C01'),
    'C02': ('proof', 'find_closest_definition_excluding is proved to compute op_resolve with the filter d != D; lemmas: the answer is never D, always a registered definition passing the filter.',
            'as C01; references handler glue not covered', '§5-C02'),
    'C03': ('proof', 'AST -> record, for ALL rustpython ASTs (real AST types linked with --extern): the whole of decorators.rs (fixture / mark recognisers, name= / scope= / autouse= extraction, usefixtures names incl. nested lists/tuples, indirect parametrize), find_yield_line / find_yield_in_stmt / find_yield_in_expr, contains_yield, extract_docstring, extract_return_type / extract_yielded_type and collect_module_level_names are proved equal to recursive spec functions written from the documented forms; lemmas: exactly the documented decorator forms (look-alikes rejected), keyword extraction ignores non-constants, the two yield searches agree (false before the contains_yield fix). The visitors visit_stmt / visit_assignment_fixture / visit_pytestmark_assignment / all_args are proved against visit_defs / visit_uses (every field of every recorded definition and usage, recording order, class recursion; lemmas: plain functions/classes/nested code record nothing, dependencies = parameters minus self/request in order, name= wins, spans). The comparison with CPython\'s parser is out of reach.',
            'trusted: generated AST type specs (tools/gen_astspec.py), iterator wrapper specs, string rendering uninterpreted', '§5-C03'),
    'C04': ('proof', 'find_references_for_definition is proved to return exactly the reverse-index bucket of the definition\'s name filtered by "this usage resolves to the definition" (op_refs), find_fixture_definition (go-to-definition) is proved to resolve the first recorded usage under the cursor with the same resolve_usage function; lemmas: an entry is listed iff it resolves to D, unresolved usages are listed nowhere, one list element per index entry, goto on a usage == resolve_usage of that usage. The mirror between usages and usage_by_fixture is proved per mutator (unit index_maint). Unit position: find_fixture_at_position (the name handed to the resolvers by the references handler) == first recorded usage covering the cursor, else the word on a definition line; find_fixture_references == every usage of that name exactly once; find_containing_function == spec over the AST.',
            'trusted: as C01; wf clause unique_at_line assumed; code-lens / call-hierarchy / CLI counts glue not covered', '§5-C04'),
    'C16': ('proof', 'Scope mismatch: detect_scope_mismatches_in_file (after fix 898ebb4) is proved sound AND complete against is_mismatch — a pair (F, D) is reported iff D is the definition the proved resolver selects from F\'s file for one of F\'s dependencies (own name -> overridden parent) and rank(F.scope) > rank(D.scope). Cycles: compute_fixture_cycles is proved SOUND (every reported path is a closed chain of the first-definition name graph, reported on the right fixture) and terminating (lexicographic measure over the explicit DFS stack); completeness and run-independence do not hold on the real code: known findings F-16b (graph from first()) and F-16c (hash-ordered DFS roots).',
            'trusted: as C01; HashMap/HashSet shims; sort/join key model; derive(PartialOrd) via Kani', '§5-C16'),
    'C17': ('proof', 'Precision clause, availability part: is_available_fixture is proved to return true exactly when some registered definition of the name is in the same file, in a conftest.py whose directory is a prefix of the file path, a plugin or third-party definition; lemmas: a name no fixture carries is never available, a name is never available merely because an unrelated module defines it. Scanner (unit undeclared_scan): scan_function_body_for_undeclared_fixtures, collect_local_variables, bind_local, visit_stmt_for_names, visit_expr_for_names are proved equal to recursive spec functions over the real AST (every field of every pushed finding, frame); lemmas from the property text: a finding is never a declared parameter, a module-level/imported name, an unavailable name, or a name with a recorded binder on an earlier line however often it is re-bound (after fixes F-17a/b); every plain use in the visited forms (call target/argument incl. keyword/starred, attribute base, boolean/conditional/binary/unary/compare operand, subscript/slice, list/tuple/set/dict element; in expression/assignment/return/if/while/for/with/try/raise/assert statements) is flagged at exactly (line, col(start), col(end)) (after fix F-17c); what remains unvisited/unrecorded is stated as lemmas and listed as known findings F-17d/F-17e. The quick-fix handler (unit handlers_diag) is under contract structurally: one action per matching undeclared diagnostic, one empty-range TextEdit on the enclosing function\'s recorded line; the text search that places it is uninterpreted (not covered).',
            'trusted: as C01 plus Path helper expressions moved into external_body helpers with assumed contracts', '§5-C17'),
    'C18': ('proof', 'The offered-set algebra of completion is proved exactly: filter_and_enrich_fixtures returns available filtered by !excluded in order, is_fixture_excluded/should_exclude_fixture/fixture_sort_priority equal their specs (self/cls, declared params, current fixture, narrower scope; same-file 0 < project 1 < plugin 2 < third-party 3); lemmas: every name once, excluded never offered. The AST path of get_completion_context (get_func_context, get_function_completion_context, check_decorator_context, cursor_inside_usefixtures_call) is proved exactly: first enclosing test/fixture function in statement order incl. class recursion, declared_params = all parameter kinds, scope of the first scoped fixture decorator; the text fallback is uninterpreted.',
            'trusted: extractor incl. //@item, format! builders uninterpreted, derive(PartialOrd) via Kani', '§5-C18'),
    'C19': ('proof', 'Config::from_raw is proved to keep exactly the valid diagnostic codes and valid glob patterns element-wise (order preserved, other settings passed through) and is_diagnostic_disabled to be membership; lemmas: bad entries are ignored individually, settings are independent. Config::load and Config::parse are under contract: the configuration is a function of the whole pyproject.toml text, defaults when the file is missing, unreadable or does not parse (no panic; lemma: under the defaults no code is disabled). Every analysis moves the version that keys the diagnostic caches (unit analyze); closing / evicting touches no index map (unit memo). The publish handler is under contract (unit handlers_diag): what publish_diagnostics_for_file hands to the client is, field by field, the undeclared findings of the file ++ its cycles ++ its scope mismatches, each kind present exactly when its code is not disabled (lemmas: a disabled code contributes nothing and does not affect the other kinds; every finding is published with exactly its range; no findings -> the empty list, i.e. cleared). main.rs did_open/did_change glue and the TOML library are not covered.',
            'trusted: glob::Pattern::new abstract, slice::contains / String==str / filter_map wrapper assumed', '§5-C19'),
    'C05': ('proof', 'compute_available_fixtures (ten hash-ordered loops, the conftest walk, the final sort) is proved against avail_post: sorted by name, one entry per name, every entry is avail_pick of its name (soundness) and every visible name has an entry (completeness); resolve_fixture_for_file == op_resolve_ff; lemmas: the per-file view agrees with go-to-definition (op_resolve) whenever the file defines the name at most once and the import tests agree — the hypotheses are exactly the known findings F-05a (same-file redefinition: first vs last) and F-05b (resolve_fixture_for_file is a different resolver).',
            'trusted: as C01 plus sort/Path specs; the handlers\' choice of resolver is a table, not proved', '§5-C05'),
    'C06': ('proof', 'analyze_file_internal is proved, for every text and every index state, to (i) keep the whole index when the text does not parse, (ii) otherwise replace exactly the analysed file\'s entries: the index is the old one with F\'s definitions/usages cleaned (exact postconditions of cleanup_definitions_for_file / cleanup_usages_for_file, proved in unit index_maint) plus what the visitors record for the current text; lemmas: under the reverse-index invariant W1 the entries of F after an analysis are exactly those of the current text whatever was there before, other files\' entries are untouched in order. The visitors are under contract in unit visit (analyze uses their proved contract).',
            'trusted: extractor, sequential view, DashMap/HashSet shims, parser abstract (parse_ok/ast_of), visitors abstract (vdefs/vuses, A7)', '§5-C06'),
    'C07': ('proof', 'The memo wrappers get_available_fixtures and detect_fixture_cycles are proved to return what a recomputation returns (warm == cold) under a cache invariant, and to re-establish it; analyze_file_internal is proved to move definitions_version on every call (after fix), which is what keeps the invariant across edits. Three genuine defects found on the way were repaired (F-07a/b/c).',
            'trusted: as C06; compute_* abstract; get_imported_fixtures memo and eviction not under contract', '§5-C07'),
    'C08': ('proof', 'Order independence is a lemma over the proved operational spec of resolution: two registration orders that only interleave files differently (the only effect a scan schedule has on definitions[name]) give the same answer, provided the three first-come-first-served choices agree (import branch, several plugins, several third-party packages defining the name) — these hypotheses name exactly the order-dependent sites; hash-ordered loops under contract are verified for every enumeration order. Known findings: F-01 (import branch), F-16b (cycle graph).',
            'as C01; the model of a schedule (interleaving of per-file sub-sequences) is taken from the property text', '§5-C08'),
    'C11': ('proof', 'Function level: every real function under contract (all units, ~100 functions incl. AST visitors, position queries, analysis, resolution, references, completion filter, CLI counts, import closure, cycle detection, line/column arithmetic) is verified panic-free for ALL inputs without idealising machine arithmetic: index bounds, usize/u32 overflow and underflow, unwrap on Some only; the byte-slicing string utilities are checked by Kani harnesses on the real file (bounded by string length; labelled bounded in the evidence, not counted as proved for all inputs). Four genuine panics found this way were repaired (F-11a-d).',
            'process liveness, handler bodies in providers/, scanner.rs and rayon isolation are not covered; string functions only up to the stated byte bound', '§5-C11'),
    'C12': ('proof', 'Termination: every loop and recursion of every function under contract (all units) carries a decreases measure that Verus discharges — the conftest walk (path length), all for-loops over vectors / hash enumerations. Lock discipline: the mutators are verified in &mut-receiver form with write operations of the DashMap shim taking &mut self, so Rust\'s borrow checker (run by Verus) rejects a write while a guard of the same map is alive and any self-call while a write guard is alive; a lexical lint covers the remaining pattern (another map touched inside a get_mut guard). Read-under-read nesting is argued in DESIGN, not proved.',
            'no thread model; providers/ and scanner.rs are not under contract', '§5-C12'),
    'C14': ('proof', 'Closure part: get_imported_fixtures / compute_imported_fixtures / is_fixture_imported_in_file (mutually recursive through the visited set) are proved to terminate on every import graph incl. cycles and self imports (measure: readable files not yet visited), to return only names of the import closure of the file (star imports and pytest_plugins entries transitively, explicit imports by name) and, for a top-level call under an exact memo, exactly that closure (DFS completeness); memo discipline proved (only top-level results are stored, keyed by content hash + version). Extraction part (unit imports_extract): extract_fixture_imports / extract_pytest_plugins / is_standard_library_module are proved equal to spec functions over the real AST (top-level import / from-import statements incl. star and relative forms, stdlib filter on the first component, the last non-annotated pytest_plugins assignment with string / list / tuple forms). Module resolution on the file system and venv/plugin discovery are not covered; the composition of the two units is not mechanised.',
            'trusted: parser, module resolution on the file system (abstract), string-operation specs of the extraction unit, finite universe of readable files, HashSet shim', '§5-C14'),
    'C15': ('proof', 'Line/column arithmetic is proved exactly: build_line_index == the ascending newline positions (+1), get_line_from_offset / get_char_position_from_offset return the unique (line, column) with line_start + column == offset, for every offset (no panic); lemmas: monotone, single-line tokens give start <= end with the token length, round trip; the column is the BYTE count since the line start — equal to the UTF-16 column only for ASCII prefixes: known finding F-15a with a proved counterexample. Unit visit: every recorded span (definition name, parameters, usefixtures / indirect string content) as a function of the parser ranges; unit position: a cursor is attributed to a usage iff start_char <= character < end_char on its line.',
            'trusted: memchr_iter / binary_search assumed specs; handler-built ranges are under contract in units handlers_nav / handlers_nav2 / handlers_diag (columns passed through unchanged; u32 truncation excluded by explicit hypotheses)', '§5-C15'),
    'C10': ('proof', 'Sequential clauses only: the contract of analyze_file_internal gives, for both orders of {scan analyses F from disk, editor analyses F from the buffer}, the resulting entries of F; lemma restore: one further analyze_file(F, t) makes F\'s entries exactly those of t; lemma fresh-keeps-old: analyze_file_fresh on a non-empty index keeps the old entries — known finding F-10 (open then scan yields both).',
            'no thread model: interleavings are out of reach (see DESIGN §2)', '§5-C10'),
    'C20': ('proof', 'compute_definition_usage_counts (including its resolution memo) and get_unused_fixtures are proved exactly: a key (file, name) has a count iff a definition of the name lives in the file, the count is the number of recorded usages whose resolution (the same resolve_usage as go-to-definition / find-references) lands in that file under that name, and the unused list is the sorted listing of the project, non-autouse definitions whose key has count 0; lemmas: listed iff ..., count == |references| when the file defines the name once, result is a function of the index (reproducible). Known finding F-20: same-file redefinitions share a count.',
            'trusted: std HashMap / sort_by / Ord shims; printing and exit codes in main.rs not covered', '§5-C20'),
}

NOT_APPLICABLE = {
    'C09': 'quantifies over interleavings of individual DashMap operations of concurrent analyses; function contracts describe one sequential call, Kani has no threads and the real DashMap crashes the Kani compiler (DESIGN §6)',
    'C13': 'the selection logic is inline in a walkdir loop over the real file system (scanner.rs:102-168); relocation invariance and fault isolation quantify over the file system, which no contract within reach expresses (DESIGN §6)',
}


def main():
    checks = []
    served = {}
    for u, d in UNITS.items():
        for p in d['properties']:
            served.setdefault(p, []).append(u)
    for h in KH:
        for p in h['properties']:
            served.setdefault(p, []).append('kani:' + h['harness'])
    for p in sorted(CLAIMS):
        if p not in served:
            continue
        cat, text, note, ref = CLAIMS[p]
        checks.append({
            'property_id': p, 'quick_cmd': f'./check {p} quick', 'thorough_cmd': f'./check {p} thorough',
            'evidence_file': f'/verif/evidence/{p}.json', 'engine': 'verus-units',
            'replay_cmd_template': 'cat {path}',
            'level_claimed': {'category': cat, 'text': text, 'design_ref': 'DESIGN.md ' + ref},
            'level_note': note, 'technique': TECH})
    na = [{'property_id': p, 'reason': r} for p, r in sorted(NOT_APPLICABLE.items())]
    all_ids = [json.loads(l)['id'] for l in open(os.path.join(VERIF, 'properties.jsonl'))]
    for p in all_ids:
        if p not in [c['property_id'] for c in checks] and p not in NOT_APPLICABLE:
            na.append({'property_id': p, 'reason': 'not yet claimed: the unit deciding it has not been built in this tree (see DESIGN.md §5)'})
    m = {
        'version': 1,
        'setup_cmd': './setup.sh',
        'hooks': {'guard': 'plsverif',
                  'enable': 'none needed: Verus works on functions extracted from /repo at run time; Kani and the replay runner include/link the real files by path',
                  'baseline_off_cmd': 'cd /repo && cargo test --workspace --no-fail-fast --offline',
                  'source_commits': [], 'add_only': True},
        'engines': [{'name': 'verus-units', 'path': 'check', 'serves_properties': sorted(c['property_id'] for c in checks),
                     'kind_free_text': 'contract-based deductive verification: Verus on mechanically extracted real functions; Kani harnesses on the real files as bounded stand-in / counterexample source; replay runner through the public API'}],
        'checks': checks,
        'not_applicable': sorted(na, key=lambda x: x['property_id']),
        'notes': 'exit 2 of a check = undecided (lost anchor, unsupported construct, solver limit, vacuity guard); never an alarm',
    }
    json.dump(m, open(os.path.join(VERIF, 'MANIFEST.json'), 'w'), indent=1)
    print('checks:', [c['property_id'] for c in checks])


if __name__ == '__main__':
    main()
