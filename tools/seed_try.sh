#!/bin/sh
# usage: seed_try.sh <patch.diff> <prop>...   scratch-mode trial of a change (does not touch /repo)
patch="$1"; shift
s=/verif/build/scratch/try-$$/repo
mkdir -p $s && cp -r /repo/src $s/ && patch -p1 -s -d $s -i "$patch" || { echo "patch failed"; exit 3; }
for p in "$@"; do
  out=$(cd /verif && VERIF_REPO=$s VERIF_SKIP_KANI=1 VERIF_EVIDENCE_DIR=/verif/build/seed-evidence ./check $p quick 2>&1)
  rc=$?
  echo "$p: exit=$rc $(echo "$out" | grep -E '^(VIOLATION|UNDECIDED)' | head -2 | cut -c1-250 | tr '\n' '|')"
done
rm -rf /verif/build/scratch/try-$$ /verif/build/units-$(printf %s "$s" | sha1sum | cut -c1-8)
