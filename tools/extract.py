"""Mechanical extraction of real functions from /repo into a Verus unit file.

A unit template (units/<unit>.rs) is Verus source with directive blocks

    /*@ extract <repo-relative file> <fn name> [#k]
    @recv mut
    @rename <ident> <ident>
    @replace <N> `<old tokens>` => `<new text>`
    @sig
        requires ... ensures ... decreases ...
    @loop <N>
        invariant ... decreases ...
    @loopvar <N> <name>
    @closure <N> <new closure header, e.g. |d: &T| -> (r: bool) ensures r == ...>
    @return <N|tail>
        proof text placed in front of the N-th `return` / the tail expression
    @before <ident> <N>
    @after <ident> <N>
        text placed before/after the statement containing the N-th occurrence of <ident>
    @*/

and  //@include <path relative to /verif>   lines.

Everything the extractor does to the function text is one of T1..T9 of DESIGN.md §3.1.  Anything it
cannot do (missing function, missing anchor, impure logging argument) raises Unsupported -> exit 2.
"""
import os
import re
import sys

sys.path.insert(0, os.path.dirname(__file__))
from rstok import tokenize, sig, match_close, Tok  # noqa: E402

REPO = os.environ.get('VERIF_REPO', '/repo')
VERIF = os.path.dirname(os.path.dirname(os.path.abspath(__file__)))

LOG_MACROS = {'debug', 'info', 'warn', 'error', 'trace'}
MUTATING_METHODS = {'push', 'insert', 'remove', 'retain', 'clear', 'pop', 'entry', 'get_mut', 'extend',
                    'fetch_add', 'store', 'swap', 'take', 'drain', 'truncate', 'sort', 'sort_by', 'lock'}


class Unsupported(Exception):
    pass


# --------------------------------------------------------------------------------------------
# locating a function

def find_fn(src, name, occurrence=1):
    """Return (start, end, body_open, body_close) char offsets of the `occurrence`-th `fn name`
    item, including leading attributes / doc comments / visibility."""
    toks = tokenize(src)
    s = sig(toks)
    seen = 0
    for idx, k in enumerate(s):
        t = toks[k]
        if t.kind == 'ident' and t.text == 'fn' and idx + 1 < len(s) and toks[s[idx + 1]].text == name \
                and toks[s[idx + 1]].kind == 'ident':
            seen += 1
            if seen != occurrence:
                continue
            # body: first `{` after the signature at bracket depth 0 (skip generics `<..>` is not
            # needed: `{` cannot occur in a signature outside const generics, which the repo does not use)
            j = idx + 2
            depth = 0
            while True:
                tt = toks[s[j]]
                if tt.kind == 'punct':
                    if tt.text in '([':
                        depth += 1
                    elif tt.text in ')]':
                        depth -= 1
                    elif tt.text == '{' and depth == 0:
                        break
                    elif tt.text == ';' and depth == 0:
                        raise Unsupported(f'fn {name}: declaration without body')
                j += 1
            body_open = s[j]
            body_close = match_close(toks, body_open)
            # walk back over visibility / qualifiers / attributes / doc comments
            b = idx
            while b > 0:
                p = toks[s[b - 1]]
                if p.kind == 'ident' and p.text in ('pub', 'async', 'const', 'unsafe', 'extern'):
                    b -= 1
                    continue
                if p.kind == 'punct' and p.text == ')' and b >= 3:
                    # pub(crate) / pub(super)
                    q = b - 1
                    while q > 0 and toks[s[q]].text != '(':
                        q -= 1
                    if q > 0 and toks[s[q - 1]].text == 'pub':
                        b = q - 1
                        continue
                    break
                if p.kind == 'punct' and p.text == ']':
                    # attribute #[...]
                    q = b - 1
                    depth = 0
                    while q >= 0:
                        tx = toks[s[q]].text
                        if tx == ']':
                            depth += 1
                        elif tx == '[':
                            depth -= 1
                            if depth == 0:
                                break
                        q -= 1
                    if q > 0 and toks[s[q - 1]].text == '#':
                        b = q - 1
                        continue
                    break
                break
            start_tok = s[b]
            # include directly preceding doc comments
            k2 = start_tok - 1
            first = start_tok
            while k2 >= 0 and toks[k2].kind in ('ws', 'lcomment'):
                if toks[k2].kind == 'lcomment' and toks[k2].text.startswith('///'):
                    first = k2
                elif toks[k2].kind == 'lcomment':
                    break
                k2 -= 1
            return toks[first].start, toks[body_close].end, toks[body_open].start, toks[body_close].start
    raise Unsupported(f'function {name} (occurrence {occurrence}) not found')


# --------------------------------------------------------------------------------------------
# anchors inside a function

class FnText:
    def __init__(self, src_file, src, start, end, body_open, body_close, name):
        self.file = src_file
        self.name = name
        self.text = src[start:end]
        self.base_line = src.count('\n', 0, start) + 1
        self.body_open = body_open - start
        self.body_close = body_close - start
        self.toks = tokenize(self.text)
        self.s = sig(self.toks)
        self.edits = []  # (start, end, replacement, origin)

    # helpers --------------------------------------------------------------
    def stok(self, i):
        return self.toks[self.s[i]]

    def body_sig_range(self):
        lo = next(i for i in range(len(self.s)) if self.stok(i).start == self.body_open)
        hi = next(i for i in range(len(self.s)) if self.stok(i).start == self.body_close)
        return lo, hi

    def match(self, i):
        """matching close (sig index) of the bracket at sig index i"""
        depth = 0
        for j in range(i, len(self.s)):
            t = self.stok(j)
            if t.kind != 'punct':
                continue
            if t.text in '([{':
                depth += 1
            elif t.text in ')]}':
                depth -= 1
                if depth == 0:
                    return j
        raise Unsupported(f'{self.name}: unbalanced brackets')

    # T2 -------------------------------------------------------------------
    def strip_logging(self):
        lo, hi = self.body_sig_range()
        i = lo
        n = 0
        while i < hi:
            t = self.stok(i)
            if t.kind == 'ident' and t.text in LOG_MACROS and self.stok(i + 1).text == '!' \
                    and self.stok(i + 2).text == '(':
                close = self.match(i + 2)
                # purity check of the argument tokens
                for j in range(i + 3, close):
                    a = self.stok(j)
                    if a.kind == 'punct' and a.text in ('=', '+=', '-=', '*=', '/=', '|=', '&='):
                        raise Unsupported(f'{self.name}: assignment inside {t.text}!() argument')
                    if a.kind == 'ident' and a.text in MUTATING_METHODS and self.stok(j - 1).text == '.' \
                            and self.stok(j + 1).text == '(':
                        raise Unsupported(f'{self.name}: mutating call .{a.text}() inside {t.text}!()')
                end = close
                if self.stok(close + 1).text == ';':
                    end = close + 1
                self.edits.append((t.start, self.stok(end).end, '', ('T2', t.text)))
                n += 1
                i = end + 1
                continue
            i += 1
        return n

    # T3 -------------------------------------------------------------------
    def recv_mut(self):
        for i in range(len(self.s) - 1):
            if self.stok(i).text == '&' and self.stok(i + 1).text == 'self':
                if self.stok(i + 1).start > self.body_open:
                    break
                self.edits.append((self.stok(i).start, self.stok(i + 1).end, '&mut self', ('T3', '')))
                return
        raise Unsupported(f'{self.name}: no &self receiver for @recv mut')

    # T15 ------------------------------------------------------------------
    def wildparam(self, name):
        """T15 `@wildparam name`: the first wildcard parameter `_: T` of the SIGNATURE becomes `name: T` (Verus demands a
        plain identifier pattern for every function parameter).  Giving an unused parameter a name does not change the
        function; a name that already occurs in the function is refused."""
        for i in range(len(self.s)):
            if self.stok(i).kind == 'ident' and self.stok(i).text == name:
                raise Unsupported(f'{self.name}: @wildparam: `{name}` already occurs in the function')
        i = 0
        while self.stok(i).start < self.body_open:
            t = self.stok(i)
            if t.kind == 'ident' and t.text == '_' and self.stok(i + 1).text == ':' and self.stok(i - 1).text in ('(', ','):
                self.edits.append((t.start, t.end, name, ('T15', 'wildparam')))
                return
            i += 1
        raise Unsupported(f'{self.name}: @wildparam: no `_: T` parameter in the signature')

    def name_ret(self, name):
        """`-> T` in the signature becomes `-> (name: T)` so that ensures clauses can mention the result"""
        depth = 0
        i = 0
        while self.stok(i).start < self.body_open:
            t = self.stok(i)
            if t.kind == 'punct' and t.text in '([':
                depth += 1
            elif t.kind == 'punct' and t.text in ')]':
                depth -= 1
            elif t.kind == 'punct' and t.text == '->' and depth == 0:
                j = i + 1
                while self.stok(j).start < self.body_open and not (self.stok(j).kind == 'ident' and self.stok(j).text == 'where'):
                    j += 1
                a = self.stok(i + 1).start
                b = self.stok(j - 1).end
                self.edits.append((a, a, f'({name}: ', ('T4', 'ret')))
                self.edits.append((b, b, ')', ('T4', 'ret')))
                return
            i += 1
        raise Unsupported(f'{self.name}: @ret: no return type')

    # T13 ------------------------------------------------------------------
    def strip_async(self):
        """T13: `async fn` -> `fn`, every `.await` dropped.  The generated function is the sequential reading of
        the handler: suspension points (only `RwLock::read().await` / `client.publish_diagnostics(..).await` in
        the providers) become plain calls of the corresponding shim.  Interleavings at suspension points are
        not modelled (listed as not covered)."""
        n = 0
        for i in range(len(self.s) - 1):
            t = self.stok(i)
            if t.kind == 'ident' and t.text == 'async' and t.start < self.body_open and self.stok(i + 1).text == 'fn':
                self.edits.append((t.start, self.stok(i + 1).start, '', ('T13', 'async')))
                n += 1
            if t.kind == 'punct' and t.text == '.' and self.stok(i + 1).kind == 'ident' and self.stok(i + 1).text == 'await':
                self.edits.append((t.start, self.stok(i + 1).end, '', ('T13', 'await')))
        if n == 0:
            raise Unsupported(f'{self.name}: @stripasync: not an async fn')

    # T5 -------------------------------------------------------------------
    def rename(self, old, new):
        n = 0
        for i in range(len(self.s)):
            t = self.stok(i)
            if t.kind == 'ident' and t.text == old and t.start > self.body_open and self.stok(i - 1).text == '.' \
                    and self.stok(i + 1).text in ('(', '::'):
                self.edits.append((t.start, t.end, new, ('T5', old)))
                n += 1
        if n == 0:
            raise Unsupported(f'{self.name}: @rename {old}: no occurrence')

    # T9 / explicit replacement ---------------------------------------------
    def replace(self, n, old, new):
        otoks = [t.text for t in tokenize(old) if t.kind not in ('ws', 'lcomment', 'bcomment')]
        seen = 0
        for i in range(len(self.s) - len(otoks) + 1):
            if self.stok(i).start < self.body_open:
                continue
            if all(self.stok(i + k).text == otoks[k] for k in range(len(otoks))):
                seen += 1
                if seen == n:
                    self.edits.append((self.stok(i).start, self.stok(i + len(otoks) - 1).end, new,
                                       ('T9', old)))
                    return
        raise Unsupported(f'{self.name}: @replace {n} `{old}`: occurrence not found')

    def derefcmp(self, a, b, n=1):
        """T9: the n-th comparison `a ==|!= b` (either order) between two reference-typed identifiers
        becomes `*a OP *b` (vstd gives `<&A as PartialEq<&B>>::{eq,ne}` an empty specification; core
        implements it by dereferencing).  The operator itself is left as it is in the source."""
        seen = 0
        for i in range(1, len(self.s) - 1):
            t = self.stok(i)
            if t.start < self.body_open or t.kind != 'punct' or t.text not in ('==', '!='):
                continue
            l, r = self.stok(i - 1), self.stok(i + 1)
            if l.kind == 'ident' and r.kind == 'ident' and {l.text, r.text} == {a, b} \
                    and self.stok(i - 2).text not in ('.', '::', '*') and self.stok(i + 2).text not in ('.', '::', '('):
                seen += 1
                if seen == n:
                    self.edits.append((l.start, l.start, '*', ('T9', f'{a} {t.text} {b}')))
                    self.edits.append((r.start, r.start, '*', ('T9', f'{a} {t.text} {b}')))
                    return
        # the comparison is gone (the code changed): nothing to dereference; Verus judges the new text as it stands
        return

    def wrapexpr(self, n, old, call, sig):
        """T5b: an expression Verus cannot take is moved, verbatim, into an external_body helper whose body
        IS that expression; the call replaces it.  Returns the helper text."""
        otoks = [t.text for t in tokenize(old) if t.kind not in ('ws', 'lcomment', 'bcomment')]
        seen = 0
        for i in range(len(self.s) - len(otoks) + 1):
            if self.stok(i).start < self.body_open:
                continue
            if all(self.stok(i + k).text == otoks[k] for k in range(len(otoks))):
                seen += 1
                if seen == n:
                    a, b = self.stok(i).start, self.stok(i + len(otoks) - 1).end
                    body = self.text[a:b]
                    self.edits.append((a, b, call, ('T5b', sig)))
                    return f'\n#[verifier::external_body]\n{sig} {{ {body} }}\n'
        raise Unsupported(f'{self.name}: @wrapexpr {n}: expression not found')

    # T4 -------------------------------------------------------------------
    def add_sig(self, text, origin):
        self.edits.append((self.body_open, self.body_open, '\n' + text.rstrip() + '\n', origin))

    def loops(self):
        """sig indices of loop keywords inside the body, in textual order"""
        lo, hi = self.body_sig_range()
        out = []
        for i in range(lo, hi):
            t = self.stok(i)
            if t.kind == 'ident' and t.text in ('for', 'while', 'loop'):
                prev = self.stok(i - 1)
                if t.text == 'for' and prev.text in ('>', 'impl'):
                    continue  # for<'a> / impl X for Y
                out.append(i)
        return out

    def loop_body_open(self, i):
        depth = 0
        j = i + 1
        while True:
            t = self.stok(j)
            if t.kind == 'punct':
                if t.text in '([':
                    depth += 1
                elif t.text in ')]':
                    depth -= 1
                elif t.text == '{' and depth == 0:
                    return j
            j += 1

    def add_loop(self, n, text, origin):
        ls = self.loops()
        if n > len(ls):
            raise Unsupported(f'{self.name}: @loop {n}: function has {len(ls)} loops')
        k = self.loop_body_open(ls[n - 1])
        pos = self.stok(k).start
        self.edits.append((pos, pos, '\n' + text.rstrip() + '\n', origin))

    def nocontinue(self, n, else_proofs=None):
        """T11: Verus rejects `continue` inside `for`.  In the body of the n-th loop, at the top level of
        the body:  `let PAT = E else { continue; }; REST`  ->  `if let PAT = E { REST }`   and
        `if C { continue; } REST`  ->  `if !(C) { REST }`.  Same evaluation order, same scopes."""
        ls = self.loops()
        if n > len(ls):
            raise Unsupported(f'{self.name}: @nocontinue {n}: function has {len(ls)} loops')
        k = self.loop_body_open(ls[n - 1])
        c = self.match(k)
        depth = 0
        i = k
        closes = 0
        while i < c:
            t = self.stok(i)
            if t.kind == 'punct' and t.text in '([{':
                depth += 1
            elif t.kind == 'punct' and t.text in ')]}':
                depth -= 1
            elif depth == 1 and t.kind == 'ident' and t.text == 'let':
                # find `else { continue ; } ;` at depth 1 before the statement ends
                j = i + 1
                d2 = 0
                found = None
                while j < c:
                    tj = self.stok(j)
                    if tj.kind == 'punct' and tj.text in '([{':
                        d2 += 1
                    elif tj.kind == 'punct' and tj.text in ')]}':
                        d2 -= 1
                    elif d2 == 0 and tj.kind == 'punct' and tj.text == ';':
                        break
                    elif d2 == 0 and tj.kind == 'ident' and tj.text == 'else':
                        seq = [self.stok(j + q).text for q in range(1, 6)]
                        found_len = 5
                        if seq == ['{', 'continue', ';', '}', ';']:
                            found = j
                        elif seq[0] == '{':
                            # `else { debug!(..); continue; };`: log statements (dropped by T2) before the continue
                            q = j + 2
                            while self.stok(q).kind == 'ident' and self.stok(q).text in LOG_MACROS \
                                    and self.stok(q + 1).text == '!' and self.stok(q + 2).text == '(':
                                q = self.match(q + 2) + 1
                                if self.stok(q).text == ';':
                                    q += 1
                            if q > j + 2 and [self.stok(q + r).text for r in range(4)] == ['continue', ';', '}', ';']:
                                found = j
                                found_len = q + 3 - j
                        break
                    j += 1
                if found is not None:
                    a0, b0 = self.stok(found).start, self.stok(found + found_len).end
                    self.edits = [e for e in self.edits if not (e[3][0] == 'T2' and a0 <= e[0] and e[1] <= b0)]
                    self.edits.append((t.start, t.start, 'if ', ('T11', 'let-else-continue')))
                    self.edits.append((a0, b0, '{', ('T11', 'let-else-continue')))
                    closes += 1
                    i = found + found_len + 1
                    continue
            elif depth == 1 and t.kind == 'ident' and t.text == 'if' and self.stok(i - 1).text != 'else':
                # `if C { continue; }` with no else
                j = i + 1
                d2 = 0
                while j < c:
                    tj = self.stok(j)
                    if tj.kind == 'punct' and tj.text in '([':
                        d2 += 1
                    elif tj.kind == 'punct' and tj.text in ')]':
                        d2 -= 1
                    elif d2 == 0 and tj.kind == 'punct' and tj.text == '{':
                        break
                    j += 1
                seq = [self.stok(j + q).text for q in range(1, 4)]
                if seq == ['continue', ';', '}'] and self.stok(j + 4).text != 'else':
                    self.edits.append((t.end, t.end, ' !(', ('T11', 'if-continue')))
                    self.edits.append((self.stok(j).start, self.stok(j + 3).end, ') {', ('T11', 'if-continue')))
                    closes += 1
                    i = j + 4
                    continue
            i += 1
        if closes == 0:
            raise Unsupported(f'{self.name}: @nocontinue {n}: no top-level continue pattern found')
        pos = self.stok(c).start
        # closing braces, innermost first; the K-th converted `continue` may carry ghost text that is placed
        # in the else-branch (where the original code executed `continue`)
        tail = ''
        for kk in range(closes, 0, -1):
            tail += '}'
            pr = (else_proofs or {}).get(kk)
            if pr:
                tail += ' else { proof {\n' + pr.rstrip() + '\n} }'
            tail += '\n'
        self.edits.append((pos, pos, tail, ('T11', 'close')))

    def add_loopend(self, n, text, origin):
        ls = self.loops()
        if n > len(ls):
            raise Unsupported(f'{self.name}: @loopend {n}: function has {len(ls)} loops')
        k = self.loop_body_open(ls[n - 1])
        c = self.match(k)
        pos = self.stok(c).start
        self.edits.append((pos, pos, '\n' + text.rstrip() + '\n', origin))

    def add_loopstart(self, n, text, origin):
        ls = self.loops()
        if n > len(ls):
            raise Unsupported(f'{self.name}: @loopstart {n}: function has {len(ls)} loops')
        k = self.loop_body_open(ls[n - 1])
        pos = self.stok(k).end
        self.edits.append((pos, pos, '\n' + text.rstrip() + '\n', origin))

    def add_end(self, text, origin):
        self.edits.append((self.body_close, self.body_close, '\n' + text.rstrip() + '\n', origin))

    def add_start(self, text, origin):
        self.edits.append((self.body_open + 1, self.body_open + 1, '\n' + text.rstrip() + '\n', origin))

    def forloop(self, n, name, break_text, origin):
        """T12: Verus rejects `continue` inside `for` wherever it stands (nested blocks, match arms).  The n-th
        loop `for PAT in EXPR { BODY }` is written as what rustc desugars it to,
            { let mut NAME = (EXPR).into_iter(); loop { let Some(PAT) = NAME.next() else { <ghost text> break; }; BODY } }
        (`loop` takes `continue`; @loop N text lands between `loop` and `{`)."""
        ls = self.loops()
        if n > len(ls):
            raise Unsupported(f'{self.name}: @forloop {n}: function has {len(ls)} loops')
        i = ls[n - 1]
        if self.stok(i).text != 'for':
            raise Unsupported(f'{self.name}: @forloop {n}: not a for loop')
        j = i + 1
        depth = 0
        while not (self.stok(j).text == 'in' and depth == 0):
            if self.stok(j).text in '([':
                depth += 1
            elif self.stok(j).text in ')]':
                depth -= 1
            j += 1
        k = self.loop_body_open(i)
        c = self.match(k)
        pat = self.text[self.stok(i + 1).start:self.stok(j - 1).end]
        expr = self.text[self.stok(j + 1).start:self.stok(k - 1).end]
        self.edits.append((self.stok(i).start, self.stok(k - 1).end,
                           f'{{ let mut {name} = ({expr}).into_iter(); loop', ('T12', f'forloop {n}')))
        ghost = ('\n' + break_text.rstrip() + '\n') if break_text.strip() else ' '
        self.edits.append((self.stok(k).start, self.stok(k).end,
                           f'{{ let Some({pat}) = {name}.next() else {{{ghost}break; }};', origin))
        self.edits.append((self.stok(c).end, self.stok(c).end, ' }', ('T12', f'forloop {n}')))

    def loopvar(self, n, name):
        ls = self.loops()
        if n > len(ls):
            raise Unsupported(f'{self.name}: @loopvar {n}: function has {len(ls)} loops')
        i = ls[n - 1]
        if self.stok(i).text != 'for':
            raise Unsupported(f'{self.name}: @loopvar {n}: not a for loop')
        j = i + 1
        depth = 0
        while not (self.stok(j).text == 'in' and depth == 0):
            if self.stok(j).text in '([':
                depth += 1
            elif self.stok(j).text in ')]':
                depth -= 1
            j += 1
        pos = self.stok(j).end
        self.edits.append((pos, pos, f' {name}:', ('T4', f'loopvar {n}')))

    def closures(self):
        """list of (bar1, bar2) sig indices of closure parameter bars, textual order"""
        lo, hi = self.body_sig_range()
        out = []
        i = lo
        starters = {'(', ',', '=', '{', ';', '=>', 'return', 'move', '&&', '||', '!', ':'}
        while i < hi:
            t = self.stok(i)
            if t.kind == 'punct' and t.text in ('|', '||'):
                prev = self.stok(i - 1)
                if prev.text in starters and not (prev.kind == 'ident' and prev.text not in ('return', 'move')):
                    if t.text == '||':
                        out.append((i, i))
                        i += 1
                        continue
                    j = i + 1
                    while self.stok(j).text != '|':
                        j += 1
                    out.append((i, j))
                    i = j + 1
                    continue
            i += 1
        return out

    def closure_body(self, bar2):
        """(start_sig, end_sig_inclusive, is_block)"""
        j = bar2 + 1
        if self.stok(j).text == '{':
            return j, self.match(j), True
        depth = 0
        k = j
        while True:
            t = self.stok(k)
            if t.kind == 'punct':
                if t.text in '([{':
                    depth += 1
                elif t.text in ')]}':
                    if depth == 0:
                        return j, k - 1, False
                    depth -= 1
                elif t.text in (',', ';') and depth == 0:
                    return j, k - 1, False
            k += 1

    def closure_let(self, n, stmt, origin):
        """T10: `|pat| body` -> `|x| { let pat = x; body }` (the let text is given by the contract)"""
        b1, b2 = self.find_closure(n, 'closurelet')
        ren = getattr(self, 'closure_param_renames', {}).get(str(n))
        if ren:   # T16: the header of this closure followed a parameter rename; so does the let text
            out, pos = [], 0
            for t in tokenize(stmt):
                out.append(stmt[pos:t.start]); pos = t.end
                out.append(ren.get(t.text, t.text) if t.kind == 'ident' else t.text)
            out.append(stmt[pos:])
            stmt = ''.join(out)
        bs, be, is_block = self.closure_body(b2)
        if is_block:
            pos = self.stok(bs).end
        else:
            pos = self.stok(bs).start
        # sorts after the `{ ` insertion of annotate_closure at the same position (stable sort, later edit)
        self.edits.append((pos, pos, ' ' + stmt.strip() + ' ', origin))

    def closure_callee(self, b1):
        """name of the method/function whose argument list directly contains the closure starting at b1"""
        depth = 0
        k = b1 - 1
        while k > 0:
            t = self.stok(k)
            if t.kind == 'punct' and t.text in ')]}':
                depth += 1
            elif t.kind == 'punct' and t.text in '([{':
                if depth == 0:
                    if t.text == '(' and self.stok(k - 1).kind == 'ident':
                        return self.stok(k - 1).text
                    return None
                depth -= 1
            k -= 1
        return None

    def find_closure(self, key, what):
        """key: an ordinal `3`, or `method:k` = the k-th closure passed to a call of `method`"""
        cs = self.closures()
        if isinstance(key, str) and ':' in key:
            meth, k = key.split(':')
            sel = [c for c in cs if self.closure_callee(c[0]) == meth]
            if k == 'last':   # `method:last` = the textually last closure passed to `method`
                if not sel:
                    raise Unsupported(f'{self.name}: @{what} {key}: function has no closure passed to {meth}()')
                return sel[-1]
            if int(k) > len(sel):
                raise Unsupported(f'{self.name}: @{what} {key}: function has {len(sel)} closures passed to {meth}()')
            return sel[int(k) - 1]
        n = int(key)
        if n > len(cs):
            raise Unsupported(f'{self.name}: @{what} {n}: function has {len(cs)} closures')
        return cs[n - 1]

    def annotate_closure(self, n, header, origin, extra=''):
        b1, b2 = self.find_closure(n, 'closure')
        # parameter names of the original must reappear in the new header (`_` may become `_p`)
        orig_params = [self.stok(k).text for k in range(b1 + 1, b2) if self.stok(k).kind == 'ident']
        hdr_idents = {t.text for t in tokenize(header + ' ' + extra) if t.kind == 'ident'}
        missing = [p for p in orig_params if p not in hdr_idents and p not in ('_', 'mut', 'ref')]
        if missing:
            # T16: the source closure's parameters were RENAMED (same number of plain-identifier parameters): the typed
            # header of the template follows the renaming token by token (header, its requires/ensures and a @closurelet
            # text), so that a parameter rename stays decidable; refused when a new name already occurs in the header
            # (capture) or when the parameter lists are not plain identifiers of the same length
            def plain_params(toks):
                names, depth, expect = [], 0, True
                for t in toks:
                    if t.kind == 'punct' and t.text in '([{<':
                        depth += 1
                    elif t.kind == 'punct' and t.text in ')]}>':
                        depth -= 1
                    elif depth == 0 and t.kind == 'punct' and t.text == ',':
                        expect = True
                    elif depth == 0 and expect and t.kind == 'ident' and t.text not in ('mut', 'ref'):
                        names.append(t.text); expect = False
                    elif depth == 0 and expect and t.kind == 'punct' and t.text not in ('&',):
                        return None     # a pattern, not a plain identifier
                return names
            src_toks = [self.stok(k) for k in range(b1 + 1, b2)]
            htoks = [t for t in tokenize(header) if t.kind not in ('ws', 'lcomment', 'bcomment')]
            bars = [i for i, t in enumerate(htoks) if t.kind == 'punct' and t.text == '|']
            src_names = plain_params(src_toks)
            hdr_names = plain_params(htoks[bars[0] + 1:bars[1]]) if len(bars) >= 2 else None
            ok = bool(src_names) and hdr_names is not None and len(src_names) == len(hdr_names) \
                and not any(nm in hdr_idents for nm in src_names if nm not in hdr_names)
            if not ok:
                raise Unsupported(f'{self.name}: @closure {n}: parameter {missing[0]} missing in new header')
            ren = {a: b for a, b in zip(hdr_names, src_names) if a != b}

            def apply(text):
                out, pos = [], 0
                for t in tokenize(text):
                    out.append(text[pos:t.start]); pos = t.end
                    out.append(ren.get(t.text, t.text) if t.kind == 'ident' else t.text)
                out.append(text[pos:])
                return ''.join(out)
            header = apply(header)
            self.closure_param_renames = getattr(self, 'closure_param_renames', {})
            self.closure_param_renames[str(n)] = ren
        bs, be, is_block = self.closure_body(b2)
        self.edits.append((self.stok(b1).start, self.stok(b2).end, header.strip() + ' ', origin))
        if not is_block:
            self.edits.append((self.stok(bs).start, self.stok(bs).start, '{ ', origin))
            self.edits.append((self.stok(be).end, self.stok(be).end, ' }', origin))

    def returns(self, kw='return'):
        lo, hi = self.body_sig_range()
        out = []
        cl = self.closures()
        # returns inside closure bodies belong to the closure; skip them
        closure_spans = []
        for (b1, b2) in cl:
            bs, be, _ = self.closure_body(b2)
            closure_spans.append((bs, be))
        for i in range(lo, hi):
            t = self.stok(i)
            if t.kind == 'ident' and t.text == kw:
                if any(a <= i <= b for a, b in closure_spans):
                    continue
                out.append(i)
        return out

    def wrap_return(self, n, text, origin, kw='return'):
        if n == 'tail':
            pos = self.tail_start()
            self.edits.append((pos, pos, 'proof {\n' + text.rstrip() + '\n}\n', origin))
            return
        rs = self.returns(kw)
        if n > len(rs):
            raise Unsupported(f'{self.name}: @{kw} {n}: function has {len(rs)} `{kw}`s')
        i = rs[n - 1]
        # end of the return expression: first `;` `,` or closing bracket at depth 0
        depth = 0
        k = i + 1
        while True:
            t = self.stok(k)
            if t.kind == 'punct':
                if t.text in '([{':
                    depth += 1
                elif t.text in ')]}':
                    if depth == 0:
                        break
                    depth -= 1
                elif t.text in (';', ',') and depth == 0:
                    break
            k += 1
        s0 = self.stok(i).start
        e0 = self.stok(k - 1).end
        self.edits.append((s0, s0, '{ ' + ('proof {\n' + text.rstrip() + '\n} ' if text.strip() else ''), origin))
        self.edits.append((e0, e0, '; }', origin))

    def tail_start(self):
        """char offset where the tail expression (last expression of the body) begins"""
        lo, hi = self.body_sig_range()
        # scan statements at depth 1
        depth = 0
        stmt_start = self.stok(lo + 1).start
        i = lo
        last_start = stmt_start
        while i < hi:
            t = self.stok(i)
            if t.kind == 'punct':
                if t.text in '([{':
                    depth += 1
                elif t.text in ')]}':
                    depth -= 1
                    if t.text == '}' and depth == 1 and i + 1 < hi and self.stok(i + 1).text not in (
                            'else', '.', '?', ';', ',', ')'):
                        last_start = self.stok(i + 1).start
                elif t.text == ';' and depth == 1 and i + 1 < hi:
                    last_start = self.stok(i + 1).start
            i += 1
        return last_start

    def stmt_bounds(self, i):
        """(start_char, end_char) of the statement containing sig index i"""
        # backward: find the first token of the statement
        depth = 0
        k = i
        while True:
            t = self.stok(k - 1)
            if t.kind == 'punct':
                if t.text in ')]}':
                    if t.text == '}' and depth == 0 and self.stok(k).text not in ('else', '.', '?'):
                        break
                    depth += 1
                elif t.text in '([{':
                    if depth == 0:
                        if t.text == '{':
                            break
                        # leaving an enclosing ( or [: the statement starts further out
                    else:
                        depth -= 1
                elif t.text == ';' and depth == 0:
                    break
            k -= 1
        start = self.stok(k).start
        first = self.stok(k).text
        # forward: find the end of the statement
        depth = 0
        j = k
        while True:
            t = self.stok(j)
            if t.kind == 'punct':
                if t.text in '([{':
                    depth += 1
                elif t.text in ')]}':
                    if depth == 0:
                        return start, self.stok(j - 1).end  # tail expression of the enclosing block
                    depth -= 1
                    if t.text == '}' and depth == 0 and first in ('if', 'match', 'for', 'while', 'loop', 'unsafe') \
                            and self.stok(j + 1).text != 'else':
                        return start, t.end
                elif t.text == ';' and depth == 0:
                    return start, t.end
            j += 1

    def add_at_ident(self, where, ident, n, text, origin):
        seen = 0
        lo, hi = self.body_sig_range()
        if n < 0:   # negative ordinal: counted from the END of the body (-1 = last occurrence)
            occ = [i for i in range(lo, hi) if self.stok(i).kind == 'ident' and self.stok(i).text == ident]
            n = len(occ) + 1 + n if len(occ) + n >= 0 else 0
        for i in range(lo, hi):
            t = self.stok(i)
            if t.kind == 'ident' and t.text == ident:
                seen += 1
                if seen == n:
                    a, b = self.stmt_bounds(i)
                    pos = a if where == 'before' else b
                    self.edits.append((pos, pos, '\n' + text.rstrip() + '\n', origin))
                    return
        raise Unsupported(f'{self.name}: @{where} {ident} {n}: occurrence not found')

    # ----------------------------------------------------------------------
    def render(self):
        """apply edits; return list of (text, origin) pieces. origin = ('src', repo_line) or tag"""
        ed = sorted(self.edits, key=lambda e: (e[0], e[1]))
        pieces = []
        pos = 0
        for (a, b, rep, origin) in ed:
            if a < pos:
                raise Unsupported(f'{self.name}: overlapping edits at {a} ({origin})')
            if a > pos:
                pieces.append((self.text[pos:a], ('src', self.base_line + self.text.count('\n', 0, pos))))
            if rep:
                pieces.append((rep, origin))
            pos = b
        pieces.append((self.text[pos:], ('src', self.base_line + self.text.count('\n', 0, pos))))
        return pieces


# --------------------------------------------------------------------------------------------
# unit template processing

DIRECTIVE_RE = re.compile(r'^\s*@(\w+)\s*(.*)$')


def parse_block(block_text, tmpl_line):
    """-> (header, [(directive, arg, payload, line)])"""
    lines = block_text.split('\n')
    header = lines[0].strip()
    items = []
    cur = None
    for off, ln in enumerate(lines[1:], start=1):
        m = DIRECTIVE_RE.match(ln)
        if m:
            cur = [m.group(1), m.group(2).strip(), [], tmpl_line + off]
            items.append(cur)
        elif cur is not None:
            cur[2].append(ln)
        elif ln.strip():
            raise Unsupported(f'template line {tmpl_line + off}: text before first directive')
    return header, [(d, a, '\n'.join(p), ln) for d, a, p, ln in items]


def count_clauses(text):
    """number of top-level comma separated clauses following requires/ensures/invariant/decreases
    keywords plus assert( occurrences: the obligations a contract text contributes"""
    toks = [t for t in tokenize(text) if t.kind not in ('ws', 'lcomment', 'bcomment')]
    n = 0
    depth = 0
    in_clause = False
    pending = False
    for i, t in enumerate(toks):
        if t.kind == 'punct' and t.text in '([{':
            depth += 1
        elif t.kind == 'punct' and t.text in ')]}':
            depth -= 1
        if t.kind == 'ident' and t.text in ('requires', 'ensures', 'invariant', 'decreases',
                                            'invariant_except_break', 'recommends') and depth == 0:
            in_clause = t.text != 'recommends'
            pending = False
            continue
        if in_clause and depth == 0 and t.kind == 'punct' and t.text == ',':
            pending = False
            continue
        if in_clause and not pending and not (t.kind == 'punct' and t.text in ')]}'):
            n += 1
            pending = True
        if t.kind == 'ident' and t.text == 'assert' and i + 1 < len(toks) and toks[i + 1].text in ('(', 'forall'):
            n += 1
    return n


def process_extract(block_text, tmpl_path, tmpl_line, report):
    header, items = parse_block(block_text, tmpl_line)
    parts = header.split()
    if len(parts) < 2:
        raise Unsupported(f'{tmpl_path}:{tmpl_line}: bad extract header `{header}`')
    rel, name = parts[0], parts[1]
    occ = 1
    if len(parts) > 2 and parts[2].startswith('#'):
        occ = int(parts[2][1:])
    path = os.path.join(REPO, rel)
    if not os.path.exists(path):
        raise Unsupported(f'{rel} does not exist')
    src = open(path, encoding='utf-8').read()
    start, end, bo, bc = find_fn(src, name, occ)
    ft = FnText(rel, src, start, end, bo, bc, name)
    nlog = ft.strip_logging()
    info = {'fn': name, 'file': rel, 'line': src.count('\n', 0, start) + 1,
            'end_line': src.count('\n', 0, end) + 1, 'logging_removed': nlog, 'clauses': 0,
            'directives': []}
    lets = {}
    helpers = []
    for d, arg, payload, ln in items:
        if d == 'closurelet':
            mm = re.match(r'([\w:]+)\s+(.*)$', arg, re.S)
            lets[mm.group(1)] = mm.group(2)
    cont_proofs = {}
    for d, arg, payload, ln in items:
        if d == 'continueproof':
            a1, a2 = arg.split()
            cont_proofs.setdefault(int(a1), {})[int(a2)] = payload
            info['clauses'] += count_clauses(payload)
    for d, arg, payload, ln in items:
        if d == 'nocontinue':
            ft.nocontinue(int(arg), cont_proofs.get(int(arg)))
    for d, arg, payload, ln in items:
        origin = ('inj', f'{os.path.basename(tmpl_path)}:{ln} @{d} {arg}'.strip())
        info['directives'].append(f'@{d} {arg}'.strip())
        if d == 'tags':
            info['tags'] = arg.split()
        elif d in ('nocontinue', 'continueproof'):
            pass
        elif d == 'closurelet':
            mm = re.match(r'([\w:]+)\s+(.*)$', arg, re.S)
            ft.closure_let(mm.group(1), mm.group(2), origin)
        elif d == 'recv':
            ft.recv_mut()
        elif d == 'stripasync':
            ft.strip_async()
        elif d == 'rename':
            a, b = arg.split()
            ft.rename(a, b)
        elif d == 'replace':
            m = re.match(r'(\d+)\s+`(.*)`\s*=>\s*`(.*)`$', arg, re.S)
            if not m:
                raise Unsupported(f'{tmpl_path}:{ln}: bad @replace')
            ft.replace(int(m.group(1)), m.group(2), m.group(3))
        elif d == 'ret':
            ft.name_ret(arg.strip())
        elif d == 'wildparam':
            ft.wildparam(arg.strip())
        elif d == 'as':
            # exec canary: the same real body under another name with a deliberately wrong contract
            for i2 in range(len(ft.s) - 1):
                if ft.stok(i2).text == 'fn' and ft.stok(i2 + 1).text == name:
                    ft.edits.append((ft.stok(i2 + 1).start, ft.stok(i2 + 1).end, arg.strip(), ('T4', 'as')))
                    info['fn_as'] = arg.strip()
                    break
        elif d in ('wrapexpr', 'wrapexpr_opt'):
            mm = re.match(r'(\d+)\s+`(.*)`\s*=>\s*`(.*)`\s+with\s+(.*)$', arg + (' ' + payload.strip() if payload.strip() else ''), re.S)
            if not mm:
                raise Unsupported(f'{tmpl_path}:{ln}: bad @wrapexpr')
            try:
                helpers.append(ft.wrapexpr(int(mm.group(1)), mm.group(2), mm.group(3), mm.group(4).strip()))
            except Unsupported:
                # _opt: when the expression is gone (the code changed) leave the code as it is and let Verus
                # judge it with the lower-level specifications of the prelude
                if d == 'wrapexpr':
                    raise
        elif d == 'derefcmp':
            parts_ = arg.split()
            ft.derefcmp(parts_[0], parts_[1], int(parts_[2]) if len(parts_) > 2 else 1)
        elif d == 'sig':
            ft.add_sig(payload, origin)
            info['clauses'] += count_clauses(payload)
        elif d == 'loop':
            ft.add_loop(int(arg), payload, origin)
            info['clauses'] += count_clauses(payload)
        elif d == 'loopend':
            ft.add_loopend(int(arg), payload, origin)
            info['clauses'] += count_clauses(payload)
        elif d == 'loopstart':
            ft.add_loopstart(int(arg), payload, origin)
            info['clauses'] += count_clauses(payload)
        elif d == 'end':
            ft.add_end(payload, origin)
            info['clauses'] += count_clauses(payload)
        elif d == 'start':
            ft.add_start(payload, origin)
            info['clauses'] += count_clauses(payload)
        elif d == 'loopvar':
            n, nm = arg.split()
            ft.loopvar(int(n), nm)
        elif d == 'forloop':
            n, nm = arg.split()
            ft.forloop(int(n), nm, payload, origin)
            info['clauses'] += count_clauses(payload)
        elif d == 'closure':
            m = re.match(r'([\w:]+)\s+(.*)$', arg + ('\n' + payload if payload.strip() else ''), re.S)
            ft.annotate_closure(m.group(1), m.group(2), origin, lets.get(m.group(1), ''))
            info['clauses'] += count_clauses(m.group(2))
        elif d == 'return':
            ft.wrap_return('tail' if arg == 'tail' else int(arg), payload, origin)
            info['clauses'] += count_clauses(payload)
        elif d == 'break':
            ft.wrap_return(int(arg), payload, origin, kw='break')
            info['clauses'] += count_clauses(payload)
        elif d in ('before', 'after'):
            ident, n = arg.split()
            ft.add_at_ident(d, ident, int(n), payload, origin)
            info['clauses'] += count_clauses(payload)
        else:
            raise Unsupported(f'{tmpl_path}:{ln}: unknown directive @{d}')
    # T14: bare ALL_CAPS identifiers the function mentions (candidate module-level consts of the same source file)
    caps = []
    for i in range(len(ft.s)):
        t = ft.stok(i)
        if t.kind == 'ident' and t.start > ft.body_open and re.fullmatch(r'[A-Z][A-Z0-9_]{2,}', t.text) \
                and ft.stok(i - 1).text not in ('::', '.') and t.text not in caps:
            caps.append(t.text)
    info['bare_caps'] = caps
    report['functions'].append(info)
    pieces = ft.render()
    for h in helpers:
        pieces.append((h, ('inj', 'wrapexpr helper')))
    return pieces, info


def strip_wrapper(ty, name):
    """remove every `name< ... >` wrapper (keeping the inner type) from a type string"""
    while True:
        m = re.search(r'(?<![A-Za-z0-9_:])(?:std::sync::)?' + name + r'\s*<', ty)
        if not m:
            return ty
        i = m.end()
        depth = 1
        while depth:
            if ty[i] == '<':
                depth += 1
            elif ty[i] == '>':
                depth -= 1
            i += 1
        ty = ty[:m.start()] + ty[m.end():i - 1] + ty[i:]


def gen_dbstruct(fields, keep_inner=False):
    """T6: the FixtureDatabase struct regenerated from src/fixtures/mod.rs for the requested fields:
    Arc<..> and Mutex<..> wrappers stripped, type aliases expanded, AtomicU64 -> prelude shim."""
    src = open(os.path.join(REPO, 'src/fixtures/mod.rs'), encoding='utf-8').read()
    m = re.search(r'pub struct FixtureDatabase\s*\{', src)
    if not m:
        raise Unsupported('struct FixtureDatabase not found in mod.rs')
    toks = tokenize(src[m.end() - 1:])
    close = match_close(toks, 0)
    body = src[m.end():m.end() - 1 + toks[close].start]
    aliases = dict(re.findall(r'^type\s+(\w+)\s*=\s*(.*?);', src, re.M | re.S))
    body = re.sub(r'//[^\n]*', '', body)
    decl = {}
    for fm in re.finditer(r'pub\s+(\w+)\s*:\s*(.*?),\s*(?=pub\s|\Z)', body, re.S):
        decl[fm.group(1)] = re.sub(r'\s+', ' ', fm.group(2)).strip()
    out = ['pub struct FixtureDatabase {']
    for f in fields:
        if f not in decl:
            raise Unsupported(f'FixtureDatabase has no field {f}')
        ty = decl[f]
        for _ in range(3):
            for a, b in aliases.items():
                ty = re.sub(r'\b' + a + r'\b', re.sub(r'\s+', ' ', b), ty)
        if keep_inner:
            # strip only the outermost Arc<..> / Arc<Mutex<..>>: inner Arc<T> values stay (prelude Arc shim)
            mm = re.match(r'^Arc\s*<(.*)>$', ty)
            if mm:
                ty = mm.group(1).strip()
            mm = re.match(r'^(?:std::sync::)?Mutex\s*<(.*)>$', ty)
            if mm:
                ty = mm.group(1).strip()
        else:
            ty = strip_wrapper(ty, 'Arc')
            ty = strip_wrapper(ty, 'Mutex')
        ty = ty.replace('std::sync::atomic::AtomicU64', 'AtomicU64').replace('types::', '')
        out.append(f'    pub {f}: {ty},')
    out.append('}')
    return '\n'.join(out) + '\n'


def gen_stub(unit, fn_name):
    """A callee stub whose contract is, textually, the contract PROVED for that function in another unit:
    the real signature + the @recv/@ret/@sig payload of its extract block + an external_body."""
    tpath = os.path.join(VERIF, 'units', unit + '.rs')
    if not os.path.exists(tpath):
        raise Unsupported(f'@stub: unit {unit} does not exist')
    text = open(tpath).read()
    for m in EXTRACT_RE.finditer(text):
        header, items = parse_block(m.group(1), 0)
        parts = header.split()
        if len(parts) >= 2 and parts[1] == fn_name:
            rel = parts[0]
            occ = int(parts[2][1:]) if len(parts) > 2 and parts[2].startswith('#') else 1
            src = open(os.path.join(REPO, rel), encoding='utf-8').read()
            start, end, bo, bc = find_fn(src, fn_name, occ)
            ft = FnText(rel, src, start, end, bo, bc, fn_name)
            sig_payload = ''
            for d, arg, payload, ln in items:
                if d == 'recv':
                    ft.recv_mut()
                elif d == 'ret':
                    ft.name_ret(arg.strip())
                elif d == 'sig':
                    sig_payload = payload
            # keep only the signature part
            ft.edits = [e for e in ft.edits if e[1] <= ft.body_open]
            ft.edits.append((ft.body_open, len(ft.text), '\n' + sig_payload.rstrip() + '\n{ unimplemented!() }\n', ('stub', unit)))
            body = ''.join(p[0] for p in ft.render())
            # drop doc comments / attributes in front: start at `pub`/`fn`
            return (f'// ---- callee contract proved in unit {unit} (units/{unit}.rs): {rel} fn {fn_name}\n'
                    '#[verifier::external_body]\n' + re.sub(r'^(\s*///[^\n]*\n|\s*#\[[^\n]*\]\n)*', '', body))
    raise Unsupported(f'@stub: unit {unit} has no extract block for {fn_name}')


def gen_item(rel, kind, name, extra=''):
    """T6b `//@item <file> struct|const <Name> [ensures ...]`: a struct / const item of a repo file, token for
    token.  Dropped: attributes (`#[derive]`, `#[serde]`, `#[allow]`) and comments.  A const becomes
    `exec const N: T ensures <given clause> { <initializer> }` (elided reference lifetimes in T spelled
    `'static`, which is what they mean in a const); the ensures clause is PROVED against the initializer."""
    path = os.path.join(REPO, rel)
    if not os.path.exists(path):
        raise Unsupported(f'@item: {rel} does not exist')
    src = open(path, encoding='utf-8').read()
    toks = tokenize(src)
    s = sig(toks)
    depth = 0
    for idx, k in enumerate(s):
        t = toks[k]
        if t.kind == 'punct' and t.text in '([{':
            depth += 1
        elif t.kind == 'punct' and t.text in ')]}':
            depth -= 1
        # a const may be an ASSOCIATED const (inside `impl X {`, bracket depth 1); structs only at depth 0
        if not (depth <= (1 if kind == 'const' else 0) and t.kind == 'ident' and t.text == kind and idx + 1 < len(s)
                and toks[s[idx + 1]].kind == 'ident' and toks[s[idx + 1]].text == name):
            continue
        j, d2 = idx + 2, 0          # end of the item: `;` or the `{..}` group at bracket depth 0
        while True:
            tt = toks[s[j]]
            if tt.kind == 'punct' and tt.text in '([':
                d2 += 1
            elif tt.kind == 'punct' and tt.text in ')]':
                d2 -= 1
            elif tt.kind == 'punct' and tt.text == ';' and d2 == 0:
                end = s[j]
                break
            elif tt.kind == 'punct' and tt.text == '{' and d2 == 0 and kind == 'struct':
                end = match_close(toks, s[j])
                break
            j += 1
        body, q = [], k
        while q <= end:             # copy tokens; skip `#[...]` attributes and comments
            tq = toks[q]
            if tq.kind == 'punct' and tq.text == '#':
                q2 = q + 1
                while toks[q2].kind in ('ws', 'lcomment', 'bcomment'):
                    q2 += 1
                if toks[q2].text == '[':
                    q = match_close(toks, q2) + 1
                    continue
            if tq.kind not in ('lcomment', 'bcomment'):
                body.append(tq)
            q += 1
        line = src.count('\n', 0, t.start) + 1
        head = f'// T6b: item taken from {rel}:{line} (attributes and comments dropped)\n'
        if kind == 'struct':
            txt = re.sub(r'\n\s*\n', '\n', ''.join(b.text for b in body))
            # keep the item's own visibility (`pub struct`): private items stay private
            vis = 'pub ' if idx >= 1 and toks[s[idx - 1]].kind == 'ident' and toks[s[idx - 1]].text == 'pub' else ''
            return head + vis + txt + '\n'
        eq = next(i for i, b in enumerate(body) if b.kind == 'punct' and b.text == '=')
        colon = next(i for i, b in enumerate(body) if b.kind == 'punct' and b.text == ':')
        ty = ''
        for i in range(colon + 1, eq):
            ty += body[i].text
            nxt = next((b for b in body[i + 1:eq] if b.kind != 'ws'), None)
            if body[i].text == '&' and (nxt is None or nxt.kind != 'lifetime'):
                ty += "'static "
        init = ''.join(b.text for b in body[eq + 1:-1]).strip()
        return head + f'exec const {name}: {ty.strip()}\n    {extra.strip()}\n{{ {init} }}\n'
    raise Unsupported(f'@item: {kind} {name} not found in {rel}')


ITEM_RE = re.compile(r'^[ \t]*//@item[ \t]+(\S+)[ \t]+(struct|const)[ \t]+(\w+)[ \t]*(.*)$', re.M)
STUB_RE = re.compile(r'^[ \t]*//@stub[ \t]+(\w+)[ \t]+(\w+)[ \t]*$', re.M)
DBSTRUCT_RE = re.compile(r'^[ \t]*//@dbstruct[ \t]+(.*)$', re.M)
DBSTRUCT_ARC_RE = re.compile(r'^[ \t]*//@dbstruct_arc[ \t]+(.*)$', re.M)
EXTRACT_RE = re.compile(r'/\*@\s*extract\s+(.*?)@\*/', re.S)
INCLUDE_RE = re.compile(r'^[ \t]*//@include[ \t]+(\S+)[ \t]*$', re.M)


def expand_includes(text, seen=None):
    seen = seen or set()

    def rep(m):
        p = os.path.join(VERIF, m.group(1))
        if p in seen:
            return ''
        seen.add(p)
        if not os.path.exists(p):
            raise Unsupported(f'include {m.group(1)} missing')
        return f'// ---- include {m.group(1)}\n' + expand_includes(open(p).read(), seen) + f'\n// ---- end include {m.group(1)}\n'

    return INCLUDE_RE.sub(rep, text)


def generate(tmpl_path, out_path):
    """-> report dict; writes out_path and out_path + '.map.json'"""
    import json
    report = {'unit': os.path.basename(tmpl_path), 'functions': [], 'lemma_clauses': 0}
    raw = open(tmpl_path).read()
    # includes first (they may not contain extract blocks with line-mapped origins we care about)
    text = expand_includes(raw)
    text = text.replace('"/repo/', '"' + REPO + '/')
    text = STUB_RE.sub(lambda m: gen_stub(m.group(1), m.group(2)), text)
    text = ITEM_RE.sub(lambda m: gen_item(m.group(1), m.group(2), m.group(3), m.group(4)), text)
    text = DBSTRUCT_ARC_RE.sub(lambda m: '// T6: generated from src/fixtures/mod.rs (inner Arc kept)\n' + gen_dbstruct(m.group(1).split(), True), text)
    text = DBSTRUCT_RE.sub(lambda m: '// T6: generated from src/fixtures/mod.rs\n' + gen_dbstruct(m.group(1).split()), text)
    pieces = []
    pos = 0
    for m in EXTRACT_RE.finditer(text):
        pieces.append((text[pos:m.start()], ('tmpl', text.count('\n', 0, pos) + 1)))
        tmpl_line = text.count('\n', 0, m.start()) + 1
        fn_pieces, info = process_extract(m.group(1), tmpl_path, tmpl_line, report)
        pieces.append((f'// ==== extracted from {info["file"]}:{info["line"]} fn {info["fn"]}\n', ('tmpl', tmpl_line)))
        if info.get('tags'):
            pieces.append(('//@tags ' + ' '.join(info['tags']) + '\n', ('tmpl', tmpl_line)))
        for p in fn_pieces:
            pieces.append((p[0], ('fn', info['fn'], info['file']) + tuple(p[1])))
        pieces.append((f'\n// ==== end {info["fn"]}\n', ('tmpl', tmpl_line)))
        pos = m.end()
    pieces.append((text[pos:], ('tmpl', text.count('\n', 0, pos) + 1)))
    out = ''.join(p[0] for p in pieces)
    # T14: a module-level `const NAME: T = <init>;` of the source file that an extracted function mentions and that the
    # unit does not define is copied verbatim to the end of the verus! block (real code, nothing assumed): a change that
    # introduces such a constant stays decidable.  Anything that is not a plain module-level const is left alone.
    hoisted = []
    for info in report['functions']:
        for name in info.get('bare_caps', []):
            if re.search(r'\b(const|static|fn|struct|enum|type)\s+' + name + r'\b', out) or name in [h[0] for h in hoisted]:
                continue
            try:
                src = open(os.path.join(REPO, info['file']), encoding='utf-8').read()
            except OSError:
                continue
            m = re.search(r'^(?:pub(?:\([a-z]+\))?\s+)?const\s+' + name + r'\s*:\s*([^=;]+?)\s*=\s*([^;]+);', src, re.M)
            if m:
                ty = re.sub(r'&\s*(?!\')', "&'static ", m.group(1).strip())
                hoisted.append((name, f'// T14: const taken verbatim from {info["file"]}\npub const {name}: {ty} = {m.group(2).strip()};\n'))
    if hoisted:
        k = out.rfind('} // verus!')
        if k >= 0:
            out = out[:k] + ''.join(h[1] for h in hoisted) + out[k:]
            pieces.append((''.join(h[1] for h in hoisted), ('tmpl', 0)))  # keeps the line map length in step (appended lines)
        report['hoisted_consts'] = [h[0] for h in hoisted]
    # line map
    linemap = []
    for txt, origin in pieces:
        nl = txt.count('\n')
        segs = txt.split('\n')
        for k, _ in enumerate(segs):
            if k == len(segs) - 1 and segs[k] == '':
                continue
            if origin[0] == 'fn' and origin[3] == 'src':
                o = ['src', origin[1], origin[2], origin[4] + k]
            elif origin[0] == 'fn':
                o = ['inj', origin[1], origin[2], ' '.join(str(x) for x in origin[3:])]
            else:
                o = ['tmpl', origin[1] + k]
            linemap.append(o)
            # a piece that does not end with newline shares its last line with the next piece;
            # first writer wins for that line
        # merge: if txt does not end with '\n', next piece continues the same line
        if not txt.endswith('\n') and linemap:
            linemap.append(None)  # marker: next piece's first segment merges into previous line
    # resolve merge markers
    final = []
    skip_next = False
    for o in linemap:
        if o is None:
            skip_next = True
            continue
        if skip_next:
            skip_next = False
            if final and final[-1][0] != 'src' and o[0] == 'src':
                final[-1] = o
            continue
        final.append(o)
    os.makedirs(os.path.dirname(out_path), exist_ok=True)
    open(out_path, 'w').write(out)
    json.dump({'lines': final, 'report': report}, open(out_path + '.map.json', 'w'))
    return report


if __name__ == '__main__':
    try:
        r = generate(sys.argv[1], sys.argv[2])
        for f in r['functions']:
            print(f"{f['file']}:{f['line']} fn {f['fn']} clauses={f['clauses']} logging_removed={f['logging_removed']}")
    except Unsupported as e:
        print('UNDECIDED', e)
        sys.exit(2)
