#!/usr/bin/env python3
"""Unit handlers_completion composes contracts proved in other units through //@stub; the VOCABULARY those contracts
are written in is copied into prelude/hcomp_filter_spec.rs (from units/completion_filter.rs) and prelude/hcomp_spec.rs
(FnCtxV / CtxV / ccv / opt_ccv from prelude/completion_ctx_spec.rs); the get_available_fixtures stub is the text of
units/handlers_nav2.rs.  This script checks that every copied item is still token-for-token the original
(whitespace-insensitive).  Exit 0 = all copies current, 1 = drift (re-copy, re-run the unit).

usage: python3 tools/check_hcomp_copies.py
"""
import os
import re
import sys

VERIF = os.path.dirname(os.path.dirname(os.path.abspath(__file__)))
ITEM = re.compile(r'^(?:pub(?:\([a-z]+\))? )?(?:(?:open|closed|uninterp) )?(?:(?:spec|proof) fn|struct|enum) (\w+)', re.M)


def items(text):
    out = {}
    for m in ITEM.finditer(text):
        eol = text.find('\n', m.start())
        line = text[m.start():eol].rstrip()
        if line.endswith('}') or line.endswith(';'):
            body = line
        else:
            end = text.find('\n}\n', m.start())
            body = text[m.start():end + 3]
        body = re.sub(r'^pub(\([a-z]+\))? ', '', body)
        out.setdefault(m.group(1), re.sub(r'\s+', ' ', body).strip())
    return out


def check(copy, orig, names=None):
    c = items(open(os.path.join(VERIF, copy)).read())
    o = items(open(os.path.join(VERIF, orig)).read())
    bad = 0
    for n in (names or [n for n in c if n in o]):
        if n not in c or n not in o:
            print(f'MISSING {n}: {copy} / {orig}')
            bad += 1
        elif c[n] != o[n]:
            print(f'DRIFT   {n}: {copy} differs from {orig}')
            bad += 1
    return bad


def main():
    bad = check('prelude/hcomp_filter_spec.rs', 'units/completion_filter.rs')
    bad += check('prelude/hcomp_spec.rs', 'prelude/completion_ctx_spec.rs', ['FnCtxV', 'CtxV', 'ccv', 'opt_ccv'])
    stub = re.search(r'pub fn get_available_fixtures\(.*?\{ unimplemented!\(\) \}', open(os.path.join(VERIF, 'units/handlers_completion.rs')).read(), re.S)
    orig = re.search(r'pub fn get_available_fixtures\(.*?\{ unimplemented!\(\) \}', open(os.path.join(VERIF, 'units/handlers_nav2.rs')).read(), re.S)
    if not stub or not orig or re.sub(r'\s+', ' ', stub.group(0)) != re.sub(r'\s+', ' ', orig.group(0)):
        print('DRIFT   get_available_fixtures stub: units/handlers_completion.rs differs from units/handlers_nav2.rs')
        bad += 1
    print('check_hcomp_copies:', 'OK' if not bad else f'{bad} problem(s)')
    return 1 if bad else 0


if __name__ == '__main__':
    sys.exit(main())
