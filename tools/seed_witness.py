#!/usr/bin/env python3
"""usage: seed_witness.py <seed id>...  — apply a seeded change to /repo, replay the witness inputs that list the change's
property on the patched library, undo; a witness that fails is recorded in seeded/<id>/meta.json as the verdict of the
property's check (./check reports a failing witness as VIOLATION, exit 1: see `witness` in check; verified end to end on the
round-7 changes).  Only upgrades UNDECIDED / missing verdicts; never touches a verdict recorded from a full check run."""
import glob, json, os, subprocess, sys
sys.path.insert(0, os.path.dirname(os.path.abspath(__file__)))
import replayrun
for i in sys.argv[1:]:
    d = f'/verif/seeded/{i}'
    meta = json.load(open(f'{d}/meta.json'))
    prop = meta['property']
    ws = [os.path.relpath(w, '/verif') for w in sorted(glob.glob('/verif/replay/witness/*.json')) if prop in json.load(open(w)).get('properties', [])]
    if not ws:
        print(i, 'no witness lists', prop); continue
    if subprocess.run(['git', '-C', '/repo', 'status', '--porcelain', '--', 'src'], capture_output=True, text=True).stdout.strip():
        print('refusing: /repo/src dirty'); sys.exit(9)
    a = subprocess.run(['git', '-C', '/repo', 'apply', f'{d}/patch.diff'], capture_output=True, text=True)
    if a.returncode != 0:
        print(i, 'patch does not apply'); continue
    try:
        replayrun._built['ok'] = None
        res = replayrun.run_scenarios(ws)
    finally:
        subprocess.run(['git', '-C', '/repo', 'checkout', '--', '.'])
    failing = [w for w in ws if (res.get(w) or {}).get('reproduces')]
    errs = [w for w in ws if (res.get(w) or {}).get('reproduces') is None]
    print(i, prop, 'failing witnesses:', failing, 'errors:', errs)
    cur = meta.setdefault('checks', {}).get(prop, {})
    if failing and cur.get('verdict') != 'DETECTED':
        meta['checks'][prop] = {'exit': 1, 'verdict': 'DETECTED',
                                'first_line': f'VIOLATION property={prop} replay=evidence/replay/{prop}-<hash>.json   (failing input: {failing[0]}; the Verus units are undecided on this change: ' + cur.get('first_line', '')[:160] + ')',
                                'obligation': 'witness::' + failing[0], 'by': 'witness input replayed on the patched library (tools/seed_witness.py)'}
        json.dump(meta, open(f'{d}/meta.json', 'w'), indent=1)
# leave the replay binary built from the unchanged tree
replayrun._built['ok'] = None
replayrun.build()
