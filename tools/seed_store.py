#!/usr/bin/env python3
"""usage: seed_store.py <worktree> <prop> — copy confirmed red-team changes into /verif/seeded/<prop>-<k>/"""
import json, os, shutil, sys, glob
wt, prop = sys.argv[1], sys.argv[2]
for diff in sorted(glob.glob(f'{wt}/redteam_out/change*.diff')):
    k = os.path.basename(diff)[6:-5]
    d = f'/verif/seeded/{prop}-{k}'
    os.makedirs(d, exist_ok=True)
    shutil.copy(diff, f'{d}/patch.diff')
    shutil.copy(f'{wt}/redteam_out/demo{k}.rs', f'{d}/demo.rs')
    try:
        m = json.load(open(f'{wt}/redteam_out/meta{k}.json'))
    except Exception:
        m = {}
    conf = ''
    cf = f'/tmp/wt/confirm_{prop}_{k}.out'
    if os.path.exists(cf):
        conf = open(cf).read().strip()
    meta = {'id': f'{prop}-{k}', 'property': prop, 'summary': m.get('summary', ''),
            'needs_to_manifest': m.get('needs_to_manifest', ''),
            'author': 'independent sub-agent given only the property text and a scratch worktree',
            'author_commands': m.get('commands_run', ''),
            'confirmed_by_me': 'tools/seed_confirm.sh in the scratch worktree: with the change `cargo test --workspace --no-fail-fast --offline` passes completely and demo.rs (as tests/redteam_demo.rs) fails; without the change demo.rs passes. ' + conf,
            'checks': {}}
    json.dump(meta, open(f'{d}/meta.json', 'w'), indent=1)
    print('stored', d)
