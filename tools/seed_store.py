#!/usr/bin/env python3
"""usage: seed_store.py <worktree> <prop> [offset] — copy confirmed red-team changes into /verif/seeded/<prop>-<k+offset>/
(only the changes whose confirmation file /tmp/wt/confirm_<wtname>_<k>.out says all four checks hold)"""
import json, os, shutil, sys, glob
wt, prop = sys.argv[1], sys.argv[2]
offset = int(sys.argv[3]) if len(sys.argv) > 3 else 0
wtname = os.path.basename(wt.rstrip('/'))
for diff in sorted(glob.glob(f'{wt}/redteam_out/change*.diff')):
    k = os.path.basename(diff)[6:-5]
    kk = int(k) + offset
    cf = f'/tmp/wt/confirm_{wtname}_{k}.out'
    if os.path.exists(cf) and 'False' in open(cf).read().split('CONFIRM')[-1]:
        print('NOT confirmed, skipped:', diff)
        continue
    d = f'/verif/seeded/{prop}-{kk}'
    os.makedirs(d, exist_ok=True)
    shutil.copy(diff, f'{d}/patch.diff')
    shutil.copy(f'{wt}/redteam_out/demo{k}.rs', f'{d}/demo.rs')
    try:
        m = json.load(open(f'{wt}/redteam_out/meta{k}.json'))
    except Exception:
        m = {}
    conf = ''
    if os.path.exists(cf):
        conf = open(cf).read().strip()
    meta = {'id': f'{prop}-{kk}', 'property': prop, 'summary': m.get('summary', ''),
            'needs_to_manifest': m.get('needs_to_manifest', ''),
            'author': 'independent sub-agent given only the property text and a scratch worktree',
            'author_commands': m.get('commands_run', ''),
            'confirmed_by_me': 'tools/seed_confirm.sh in the scratch worktree: with the change `cargo test --workspace --no-fail-fast --offline` passes completely and demo.rs (as tests/redteam_demo.rs) fails; without the change demo.rs passes. ' + conf,
            'checks': {}}
    json.dump(meta, open(f'{d}/meta.json', 'w'), indent=1)
    print('stored', d)
