#!/bin/sh
# usage: seed_confirm.sh <worktree> <k>   — confirm a red-team change in its scratch worktree:
#   with the change: the whole existing suite passes and the demonstration fails; without: the demonstration passes
wt="$1"; k="$2"
cd "$wt" || exit 9
export CARGO_TARGET_DIR="$wt/target" CARGO_NET_OFFLINE=true
git checkout -q -- src; rm -f tests/redteam_demo.rs
git apply "redteam_out/change$k.diff" || { echo "CONFIRM $wt $k: patch does not apply"; exit 3; }
cp "redteam_out/demo$k.rs" tests/redteam_demo.rs
cargo test --workspace --no-fail-fast --offline > "redteam_out/confirm_with_$k.log" 2>&1
git checkout -q -- src
cargo test --offline --test redteam_demo > "redteam_out/confirm_without_$k.log" 2>&1
wo=$?
rm -f tests/redteam_demo.rs
python3 - "$wt" "$k" "$wo" <<'PY'
import re,sys
wt,k,wo=sys.argv[1],sys.argv[2],int(sys.argv[3])
log=open(f'{wt}/redteam_out/confirm_with_{k}.log').read()
# split per test binary
parts=re.split(r'\n\s+Running ', log)
bad_other=[]; demo_failed=False
for p in parts[1:]:
    name=p.split('\n',1)[0]
    m=re.search(r'test result: (\w+)\. (\d+) passed; (\d+) failed', p)
    if not m: continue
    if 'redteam_demo' in name:
        demo_failed = m.group(1)=='FAILED' and int(m.group(3))>0
    elif m.group(1)!='ok':
        bad_other.append(name)
doct=re.search(r'Doc-tests.*?test result: (\w+)', log, re.S)
compiled='error: could not compile' not in log
print(f"CONFIRM {wt} change{k}: compiles={compiled} existing_suite_ok={not bad_other} demo_fails_with={demo_failed} demo_passes_without={wo==0}", bad_other[:3])
PY
