"""Build the replay runner against /repo's working tree and execute scenario files.
A scenario states, in `defect_when`, the observation that constitutes the (known) defect; `reproduces`
is True iff every condition holds on the real code now."""
import json
import os
import subprocess

VERIF = os.path.dirname(os.path.dirname(os.path.abspath(__file__)))
TARGET = os.path.join(VERIF, 'build', 'replay-target')
_built = {'ok': None, 'err': ''}


def build():
    if _built['ok'] is not None:
        return _built['ok']
    env = dict(os.environ, CARGO_TARGET_DIR=TARGET, CARGO_NET_OFFLINE='true')
    lock = os.path.join(VERIF, 'replay', 'Cargo.lock')
    if not os.path.exists(lock):
        import shutil
        shutil.copy('/repo/Cargo.lock', lock)
    p = subprocess.run(['cargo', 'build', '--offline', '--quiet'], cwd=os.path.join(VERIF, 'replay'), env=env,
                       capture_output=True, text=True)
    _built['ok'] = p.returncode == 0
    _built['err'] = p.stderr[-800:]
    return _built['ok']


def get(v, path):
    for part in (path or '').split('.'):
        if part == '':
            continue
        if isinstance(v, list):
            v = v[int(part)]
        elif isinstance(v, dict):
            v = v.get(part)
        else:
            return None
    return v


def holds(cond, observed):
    if 'all_of' in cond:        # conjunction of conditions (inside defect_when_any)
        return all(holds(c, observed) for c in cond['all_of'])
    vals = [o['value'] for o in observed if o.get('label') == cond['label']]
    if not vals:
        return False
    v = vals[-1]
    if cond.get('is_panic'):
        return v == 'PANIC'
    if v == 'PANIC':
        return False
    x = get(v, cond.get('path'))
    if 'eq' in cond:
        return x == cond['eq']
    if 'ne' in cond:
        return x != cond['ne']
    if 'len' in cond:
        return isinstance(x, list) and len(x) == cond['len']
    if 'names_ne' in cond:      # witness form: the list of names DIFFERS from the expected one
        return not (isinstance(x, list) and sorted(e.get('name', e.get('fixture')) if isinstance(e, dict) else e for e in x) == sorted(cond['names_ne']))
    if 'len_ne' in cond:        # witness form: not a list of exactly this length
        return not (isinstance(x, list) and len(x) == cond['len_ne'])
    if 'seq_ne' in cond:        # witness form: the value (order included) differs from the expected one
        return x != cond['seq_ne']
    if 'differs_from' in cond:  # witness form: two observations that the property says agree, differ
        o = cond['differs_from']
        ov = [ob['value'] for ob in observed if ob.get('label') == o['label']]
        return bool(ov) and ov[-1] != 'PANIC' and x != get(ov[-1], o.get('path'))
    if 'names' in cond:
        return isinstance(x, list) and sorted(e.get('name') if isinstance(e, dict) else e for e in x) == sorted(cond['names'])
    if 'contains_name' in cond:
        return isinstance(x, list) and any((e.get('name', e.get('label')) if isinstance(e, dict) else e) == cond['contains_name'] for e in x)
    if 'lacks_name' in cond:
        return isinstance(x, list) and not any((e.get('name', e.get('label')) if isinstance(e, dict) else e) == cond['lacks_name'] for e in x)
    if 'distinct_gt' in cond:
        return isinstance(x, list) and len({json.dumps(e, sort_keys=True) for e in x}) > cond['distinct_gt']
    if cond.get('is_null'):
        return x is None
    if cond.get('not_null'):
        return x is not None
    return False


def run_scenarios(paths):
    """-> {path: {'reproduces': bool|None, 'observed': [...], 'error': str}}"""
    out = {}
    paths = [p for p in paths if p]
    if not paths:
        return out
    if not build():
        return {p: {'reproduces': None, 'error': 'replay crate does not build: ' + _built['err']} for p in paths}
    full = [os.path.join(VERIF, p) for p in paths]
    p = subprocess.run([os.path.join(TARGET, 'debug', 'replay')] + full, capture_output=True, text=True, timeout=600)
    try:
        res = json.loads(p.stdout)
    except Exception:
        return {q: {'reproduces': None, 'error': 'replay runner produced no JSON: ' + p.stderr[-300:]} for q in paths}
    for q, r in zip(paths, res):
        sc = json.load(open(os.path.join(VERIF, q)))
        conds = sc.get('defect_when', [])
        # defect_when: every condition holds (a known finding's signature); defect_when_any: one of them holds (a witness
        # input: any listed deviation from the answer the property prescribes)
        anyc = sc.get('defect_when_any', [])
        out[q] = {'reproduces': (bool(conds) and all(holds(c, r['observed']) for c in conds))
                                or any(holds(c, r['observed']) for c in anyc), 'observed': r['observed']}
    return out


if __name__ == '__main__':
    import sys
    r = run_scenarios(sys.argv[1:])
    print(json.dumps(r, indent=1))
