#!/usr/bin/env python3
"""Operator-level mutation sweep over the real functions under contract (a self-test of the CONTRACTS, not a check).

For every function extracted by a registered unit, small token-level mutants of its body are generated
(relational / boolean operator swaps, integer literals +1, true<->false, first<->last, any<->all, dropped `!`, ...).
Each mutant lives in a scratch copy of /repo/src (outside /repo and /verif), the units that extract the function are
run on it with VERIF_REPO, and the outcome is one of
  KILLED    a non-canary obligation fails (the contract notices the change)
  UNDEC     the generated file no longer type checks / an anchor is lost (exit 2 in a check)
  SURVIVED  everything verifies: either the mutant is equivalent (dropped log text, code inside an assumed helper,
            dead branch) or the contract is too weak there -> to be read by a human
Nothing here is registered in MANIFEST.json; results go to build/mutsweep/*.jsonl.

usage: mutsweep.py [--units u1,u2,...] [--jobs N] [--max-per-fn K] [--out build/mutsweep/run.jsonl]
"""
import json, os, re, shutil, subprocess, sys, hashlib, random
from concurrent.futures import ThreadPoolExecutor

HERE = os.path.dirname(os.path.abspath(__file__))
VERIF = os.path.dirname(HERE)
sys.path.insert(0, HERE)
from rstok import tokenize  # noqa
import extract  # noqa

REPO = '/repo'
SCRATCH = '/tmp/mutsweep'
LOG_MACROS = ('debug', 'info', 'warn', 'error', 'trace')

SWAP_PUNCT = {'<': '<=', '<=': '<', '>': '>=', '>=': '>', '==': '!=', '!=': '==', '&&': '||', '||': '&&'}
SWAP_ARITH = {'+': '-', '-': '+'}
SWAP_IDENT = {'true': 'false', 'false': 'true'}
SWAP_METHOD = {'first': 'last', 'last': 'first', 'max_by_key': 'min_by_key', 'min_by_key': 'max_by_key',
               'is_some': 'is_none', 'is_none': 'is_some', 'starts_with': 'ends_with', 'ends_with': 'starts_with',
               'any': 'all', 'all': 'any', 'min': 'max', 'max': 'min', 'is_some_and': 'is_none_or',
               'saturating_sub': 'saturating_add', 'find': 'rfind', 'rfind': 'find', 'is_empty': 'is_empty_NOT'}


def units_functions(only=None):
    units = json.load(open(os.path.join(VERIF, 'units/units.json')))
    fns = {}  # (file, fn, occ) -> [units]
    for u, d in units.items():
        if only and u not in only:
            continue
        s = open(os.path.join(VERIF, d['template'])).read()
        for m in re.finditer(r'/\*@ extract (\S+) (\S+)(?: #(\d+))?', s):
            key = (m.group(1), m.group(2), int(m.group(3) or 1))
            if u not in fns.setdefault(key, []):
                fns[key].append(u)
    return units, fns


def mutants_of(src, file, fn, occ):
    try:
        start, end, bopen, bclose = extract.find_fn(src, fn, occ)
    except Exception:
        return []
    toks = [t for t in tokenize(src) if bopen <= t.start < bclose]
    sig = [t for t in toks if t.kind not in ('ws', 'lcomment', 'bcomment')]
    out = []
    # mark tokens inside logging macros
    skip = set()
    i = 0
    while i < len(sig):
        t = sig[i]
        if t.kind == 'ident' and t.text in LOG_MACROS and i + 2 < len(sig) and sig[i + 1].text == '!' and sig[i + 2].text == '(':
            depth = 0
            j = i + 2
            while j < len(sig):
                if sig[j].text in '([{' and sig[j].kind == 'punct':
                    depth += 1
                elif sig[j].text in ')]}' and sig[j].kind == 'punct':
                    depth -= 1
                    if depth == 0:
                        break
                j += 1
            for k in range(i, j + 1):
                skip.add(k)
            i = j + 1
            continue
        i += 1

    def spaced(t):
        return t.start > 0 and src[t.start - 1].isspace() and t.end < len(src) and src[t.end].isspace()

    for i, t in enumerate(sig):
        if i in skip:
            continue
        prev = sig[i - 1] if i > 0 else None
        nxt = sig[i + 1] if i + 1 < len(sig) else None
        rep = None
        if t.kind == 'punct':
            if t.text in SWAP_PUNCT and (t.text not in '<>' or spaced(t)):
                rep = SWAP_PUNCT[t.text]
            elif t.text in SWAP_ARITH and spaced(t) and prev is not None and (prev.kind in ('ident', 'num') or prev.text in ')]'):
                rep = SWAP_ARITH[t.text]
            elif t.text == '!' and nxt is not None and (nxt.kind == 'ident' or nxt.text == '(') and \
                    not (prev is not None and prev.kind == 'ident' and nxt.text in '([{' and src[t.start - 1:t.start] != ' '):
                # unary not (macro bangs `name!(` are excluded: previous token is an identifier glued to the bang)
                if not (prev is not None and prev.kind == 'ident' and prev.end == t.start):
                    rep = ''
        elif t.kind == 'ident':
            if t.text in SWAP_IDENT:
                rep = SWAP_IDENT[t.text]
            elif t.text in SWAP_METHOD and prev is not None and prev.text == '.' and nxt is not None and nxt.text == '(':
                rep = SWAP_METHOD[t.text]
                if rep == 'is_empty_NOT':
                    rep = None
            elif t.text == 'continue':
                rep = 'break'
        elif t.kind == 'num':
            if re.fullmatch(r'[0-9]+', t.text) and not (prev is not None and prev.text == '.'):
                rep = str(int(t.text) + 1)
        if rep is None:
            continue
        line = src.count('\n', 0, t.start) + 1
        ls = src.rfind('\n', 0, t.start) + 1
        le = src.find('\n', t.start)
        out.append({'file': file, 'fn': fn, 'occ': occ, 'start': t.start, 'end': t.end, 'old': t.text, 'new': rep,
                    'line': line, 'text': src[ls:le].strip()[:160]})
    return out


def run_mutant(m, units, using, keep=False):
    mid = hashlib.sha1(f"{m['file']}:{m['start']}:{m['new']}".encode()).hexdigest()[:10]
    root = os.path.join(SCRATCH, mid, 'repo')
    try:
        if os.path.exists(os.path.join(SCRATCH, mid)):
            shutil.rmtree(os.path.join(SCRATCH, mid))
        os.makedirs(root)
        shutil.copytree(os.path.join(REPO, 'src'), os.path.join(root, 'src'))
        shutil.copy(os.path.join(REPO, 'Cargo.toml'), root)
        p = os.path.join(root, m['file'])
        s = open(p).read()
        assert s[m['start']:m['end']] == m['old']
        open(p, 'w').write(s[:m['start']] + m['new'] + s[m['end']:])
        res = {'id': mid, **m, 'units': using, 'verdict': 'SURVIVED', 'detail': ''}
        undec = None
        for u in using:
            d = units[u]
            cmd = ['python3', os.path.join(HERE, 'vrun.py'), u, d['template']] + (['--ast'] if d.get('needs_ast') else [])
            env = dict(os.environ, VERIF_REPO=root)
            pr = subprocess.run(cmd, cwd=VERIF, env=env, capture_output=True, text=True, timeout=900)
            try:
                r = json.loads(pr.stdout)
            except Exception:
                undec = f'{u}: no json ({pr.stderr[-200:]})'
                continue
            fails = [f for f in r.get('failures', []) if not f['fn'].split('::')[-1].startswith('canary_')]
            if fails:
                f = fails[0]
                res['verdict'] = 'KILLED'
                res['detail'] = f"{u}::{f['fn']}::{f['kind']}::{f['clause'][:100]}"
                return res
            if r.get('undecided'):
                undec = f"{u}: {str(r['undecided'][0])[:200]}"
        if undec:
            res['verdict'] = 'UNDEC'
            res['detail'] = undec
        return res
    except Exception as e:  # noqa
        return {'id': mid, **m, 'units': using, 'verdict': 'ERROR', 'detail': repr(e)[:300]}
    finally:
        if not keep:
            shutil.rmtree(os.path.join(SCRATCH, mid), ignore_errors=True)
            # generated files of this scratch run
            h = hashlib.sha1(root.encode()).hexdigest()[:8]
            shutil.rmtree(os.path.join(VERIF, 'build', f'units-{h}'), ignore_errors=True)


def main():
    a = sys.argv[1:]
    only = a[a.index('--units') + 1].split(',') if '--units' in a else None
    jobs = int(a[a.index('--jobs') + 1]) if '--jobs' in a else 6
    maxper = int(a[a.index('--max-per-fn') + 1]) if '--max-per-fn' in a else 12
    out = a[a.index('--out') + 1] if '--out' in a else os.path.join(VERIF, 'build/mutsweep/run.jsonl')
    os.makedirs(os.path.dirname(out), exist_ok=True)
    units, fns = units_functions(only)
    rnd = random.Random(int(a[a.index('--seed') + 1]) if '--seed' in a else 20260927)
    skip_files = [a[i + 1] for i, x in enumerate(a) if x == '--skip-done-in']   # earlier result files: their mutants are not repeated
    work = []
    for (file, fn, occ), us in sorted(fns.items()):
        src = open(os.path.join(REPO, file)).read()
        ms = mutants_of(src, file, fn, occ)
        if len(ms) > maxper:
            ms = rnd.sample(ms, maxper)
        for m in ms:
            work.append((m, us))
    print(f'{len(fns)} functions, {len(work)} mutants', flush=True)
    done = set()
    for sf in skip_files + [out]:
      if os.path.exists(sf):
        for l in open(sf):
            try:
                done.add(json.loads(l)['id'])
            except Exception:
                pass
    cnt = {}
    with open(out, 'a') as fo, ThreadPoolExecutor(jobs) as ex:
        futs = []
        for m, us in work:
            mid = hashlib.sha1(f"{m['file']}:{m['start']}:{m['new']}".encode()).hexdigest()[:10]
            if mid in done:
                continue
            futs.append(ex.submit(run_mutant, m, units, us))
        for k, f in enumerate(futs):
            r = f.result()
            cnt[r['verdict']] = cnt.get(r['verdict'], 0) + 1
            fo.write(json.dumps(r) + '\n'); fo.flush()
            if k % 20 == 0:
                print(k, len(futs), cnt, flush=True)
    print('done', cnt, flush=True)


if __name__ == '__main__':
    main()
