#!/usr/bin/env python3
"""Regenerate the table of DESIGN.md §10 (between the SEEDED-TABLE markers) from seeded/*/meta.json."""
import glob, json, re
rows = []
tot = {'DETECTED': 0, 'UNDECIDED': 0, 'MISSED': 0}
by_witness = 0
for d in sorted(glob.glob('/verif/seeded/C*-*'), key=lambda p: (p.split('/')[-1].split('-')[0], int(p.split('-')[-1]))):
    m = json.load(open(d + '/meta.json'))
    if m.get('obsolete'):
        rows.append(f"| {m['id']} | — | {str(m.get('summary',''))[:120].replace('|','/')} | obsolete | {m['obsolete'][:200].replace('|','/')} |")
        continue
    ch = {p: c for p, c in m.get('checks', {}).items() if isinstance(c, dict)}
    verdicts = [c.get('verdict') for c in ch.values()]
    overall = 'DETECTED' if 'DETECTED' in verdicts else ('UNDECIDED' if 'UNDECIDED' in verdicts else 'MISSED')
    tot[overall] += 1
    if overall == 'DETECTED' and all(str(c.get('obligation', '')).startswith('witness::') for c in ch.values() if c.get('verdict') == 'DETECTED'):
        by_witness += 1
    files = sorted(set(re.findall(r'^\+\+\+ b/(\S+)', open(d + '/patch.diff').read(), re.M)))
    det = ', '.join(p for p, c in ch.items() if c.get('verdict') == 'DETECTED')
    und = ', '.join(p for p, c in ch.items() if c.get('verdict') == 'UNDECIDED')
    ob = next((c.get('obligation') for c in ch.values() if c.get('obligation')), '')
    why = ''
    if overall == 'UNDECIDED':
        why = next((c.get('first_line', '') for c in ch.values() if c.get('verdict') == 'UNDECIDED'), '')
        why = re.sub(r'^UNDECIDED \w+: ', '', why)[:110]
    summ = re.sub(r'\s+', ' ', str(m.get('summary', '')))[:170].replace('|', '/')
    rows.append(f"| {m['id']} | {', '.join(f.replace('src/', '') for f in files)} | {summ} | **{overall}**{' by ' + det if det else ''}{' (undecided: ' + und + ')' if und and overall != 'UNDECIDED' else ''} | {(ob or why).replace('|', '/')[:170]} |")
table = ('| id | files | change (author\'s summary, shortened) | verdict | failed obligation / why undecided |\n|---|---|---|---|---|\n' + '\n'.join(rows)
         + f"\n\nChanges marked obsolete no longer apply because the defect they varied was repaired in /repo. Totals over {sum(tot.values())} confirmed, still applicable changes: {tot['DETECTED']} detected (exit 1: {tot['DETECTED'] - by_witness} by a named proof obligation that fails; {by_witness} more, undecided for the verifier, by a witness input of §3.6 that fails on the patched library — obligation `witness::…`, the VIOLATION line carries the failing input), "
           f"{tot['UNDECIDED']} undecided (exit 2: the change restructures the code so that proof anchors / extraction no longer apply, "
           f"or uses a construct the verifier does not take), {tot['MISSED']} missed (exit 0).\n")
p = '/verif/DESIGN.md'
s = open(p).read()
a = s.index('<!-- SEEDED-TABLE-BEGIN -->') + len('<!-- SEEDED-TABLE-BEGIN -->')
b = s.index('<!-- SEEDED-TABLE-END -->')
open(p, 'w').write(s[:a] + '\n' + table + s[b:])
print(tot, 'by witness only:', by_witness)
