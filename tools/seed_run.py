#!/usr/bin/env python3
"""usage: seed_run.py <patch.diff> <prop> [<prop> ...]  — apply a seeded change to /repo, run the checks, undo.
Prints one line per property: exit code and the first VIOLATION / UNDECIDED lines."""
import subprocess
import sys

patch = sys.argv[1]
props = sys.argv[2:]
st = subprocess.run(['git', '-C', '/repo', 'status', '--porcelain', '--', 'src'], capture_output=True, text=True).stdout
if st.strip():
    print('refusing: /repo/src has uncommitted changes'); sys.exit(9)
a = subprocess.run(['git', '-C', '/repo', 'apply', patch], capture_output=True, text=True)
if a.returncode != 0:
    print('patch does not apply:', a.stderr[:300]); sys.exit(3)
try:
    for p in props:
        r = subprocess.run(['./check', p, 'quick'], cwd='/verif', capture_output=True, text=True, env=dict(__import__('os').environ, VERIF_EVIDENCE_DIR='/verif/build/seed-evidence'))
        lines = [l for l in r.stdout.split('\n') if l.startswith(('VIOLATION', 'UNDECIDED'))]
        print(f'{p}: exit={r.returncode}', ' | '.join(l[:260] for l in lines[:3]))
finally:
    subprocess.run(['git', '-C', '/repo', 'checkout', '--', '.'])
