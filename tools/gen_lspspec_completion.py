#!/usr/bin/env python3
"""Generate build/lspspec_completion.rs: the type specifications of build/lspspec.rs (tools/gen_lspspec.py, same
method, same opaque list) PLUS the parameter / result types of the completion request handler of
src/providers/completion.rs (CompletionParams, CompletionResponse and what they reach: CompletionItem,
CompletionContext, CompletionList, Documentation, MarkupContent, CompletionTextEdit, InsertReplaceEdit, ...).
A separate output file, so that the registered handler units keep including a build/lspspec.rs that this script
never touches; unit handlers_completion includes build/lspspec_completion.rs INSTEAD of build/lspspec.rs (a type may
be specified only once per crate).

Opaque in addition to gen_lspspec's list (private i32 newtypes with associated consts, only ever built from a const
and passed on): CompletionItemKind, InsertTextFormat, InsertTextMode, CompletionItemTag, CompletionTriggerKind.

usage: python3 tools/gen_lspspec_completion.py [--force] [--quiet]      (after tools/gen_lspspec.py in setup.sh)
"""
import os
import sys

sys.path.insert(0, os.path.dirname(os.path.abspath(__file__)))
import gen_lspspec as g  # noqa: E402

EXTRA = ['CompletionParams', 'CompletionResponse']
EXTRA_OPAQUE = ('CompletionItemKind', 'InsertTextFormat', 'InsertTextMode', 'CompletionItemTag',
                'CompletionTriggerKind')
g.SEEDS = list(g.SEEDS) + EXTRA
g.OPAQUE = tuple(g.OPAQUE) + EXTRA_OPAQUE
g.OUT = os.path.join(g.BUILD, 'lspspec_completion.rs')
_key = g.cache_key
g.cache_key = lambda rlib: _key(rlib)[:24] + 'comp' + str(len(EXTRA) + len(EXTRA_OPAQUE)).zfill(4)

if __name__ == '__main__':
    sys.exit(g.main())
