#!/usr/bin/env python3
"""Generate build/lspspec_init.rs: type specifications (same method and same opaque list as tools/gen_lspspec.py) for the
parameter / result types of `initialize` in src/main.rs: InitializeParams, InitializeResult (with the ServerCapabilities
tree the handler builds) and MessageType.  A separate output file with its OWN seed list (the request-handler types of
build/lspspec.rs are not needed by unit server_init): a type may be specified only once per crate, so unit server_init
includes build/lspspec_init.rs INSTEAD of build/lspspec.rs.

ClientCapabilities (a tree of ~200 types the handler never looks at) is kept opaque.

usage: python3 tools/gen_lspspec_init.py [--force] [--quiet]      (after tools/gen_lspspec.py in setup.sh)
"""
import os
import sys

sys.path.insert(0, os.path.dirname(os.path.abspath(__file__)))
import gen_lspspec as g  # noqa: E402

g.SEEDS = ['InitializeParams', 'InitializeResult', 'MessageType']
g.OPAQUE = tuple(g.OPAQUE) + ('ClientCapabilities', 'TextDocumentSyncKind', 'MessageType', 'FileOperationPatternKind',
                              'TokenFormat', 'SemanticTokenType', 'SemanticTokenModifier', 'PositionEncodingKind',
                              'WatchKind', 'NotebookSelector')
# generic types of ls_types the closure meets (gen_lspspec.items writes `Name(path)` without parameters)
GENERIC = {'OneOf': ('A', 'B')}


def items(known, opaque_paths):
    """as gen_lspspec.items, plus: a SEED that is in the opaque list gets `external_body` too (gen_lspspec.main only
    checks discovered types), and generic types get their parameters"""
    out = []
    for path, name in known.items():
        attrs = '#[verifier::external_type_specification]\n'
        if path in opaque_paths or name in g.OPAQUE:
            attrs += '#[verifier::external_body]\n'
        gen = GENERIC.get(name)
        if gen:
            attrs += ''.join(f'#[verifier::reject_recursive_types({x})]\n' for x in gen)
            ps = '<' + ', '.join(gen) + '>'
            out.append(f'{attrs}pub struct Ex{name}{ps}({path}{ps});')
        else:
            out.append(f'{attrs}pub struct Ex{name}({path});')
    return '\n'.join(out) + '\n'


g.items = items
g.OUT = os.path.join(g.BUILD, 'lspspec_init.rs')
_key = g.cache_key
g.cache_key = lambda rlib: _key(rlib)[:24] + 'init' + str(len(g.SEEDS)).zfill(4)

if __name__ == '__main__':
    sys.exit(g.main())
