#!/usr/bin/env python3
"""Generate build/lspspec_main.rs: the type specifications of build/lspspec.rs (tools/gen_lspspec.py, same method,
same opaque list) PLUS the parameter types of the notification handlers of src/main.rs (didOpen / didChange /
didClose).  A separate output file, so that the registered handler units keep including a build/lspspec.rs that this
script never touches; unit handlers_main includes build/lspspec_main.rs INSTEAD of build/lspspec.rs (a type may
be specified only once per crate).

usage: python3 tools/gen_lspspec_main.py [--force] [--quiet]      (after tools/gen_lspspec.py in setup.sh)
"""
import os
import sys

sys.path.insert(0, os.path.dirname(os.path.abspath(__file__)))
import gen_lspspec as g  # noqa: E402

EXTRA = ['DidOpenTextDocumentParams', 'DidChangeTextDocumentParams', 'DidCloseTextDocumentParams']
g.SEEDS = list(g.SEEDS) + EXTRA
g.OUT = os.path.join(g.BUILD, 'lspspec_main.rs')
_key = g.cache_key
g.cache_key = lambda rlib: _key(rlib)[:24] + 'main' + str(len(EXTRA)).zfill(4)

if __name__ == '__main__':
    sys.exit(g.main())
