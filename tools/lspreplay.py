#!/usr/bin/env python3
"""Replay handler-level scenarios against the REAL server binary built from /repo's working tree, over stdio
JSON-RPC (the request handlers in src/providers/ exist only in the binary crate, so the library replay runner cannot
reach them).

Scenario (JSON): {"id", "about", "kind": "lsp", "files": {rel: text}, "lsp": [step...], "defect_when": [cond...]}
step:  {"open": rel [, "text": t]}                      didOpen (text defaults to the file's content)
       {"change": rel, "text": t}                        didChange (full sync); "texts": [t1, t2, ..] sends several
                                                         content changes in ONE notification
       {"request": method, "file": rel, "line": l, "character": c [, "params": {...extra}] , "label": L}
       {"request": method, "params": {...}, "label": L}   (any other request; ${ROOT} / ${URI:rel} are substituted)
       ... "params_from": {"key": {"label": L0, "path": "0"}}   params[key] := (part of) an earlier raw result
       {"diagnostics": rel, "label": L}                  the last publishDiagnostics received for that file
Results are normalised: every "uri" below the scenario root becomes the relative path.
`defect_when` uses the condition language of tools/replayrun.py.  -> {'reproduces': bool|None, 'observed': [...]}"""
import json
import os
import select
import shutil
import subprocess
import sys
import tempfile
import time

sys.path.insert(0, os.path.dirname(os.path.abspath(__file__)))
from replayrun import holds, get  # noqa: E402

VERIF = os.path.dirname(os.path.dirname(os.path.abspath(__file__)))
TARGET = os.path.join(VERIF, 'build', 'lsp-target')
_built = {'ok': None, 'err': ''}


def build():
    if _built['ok'] is not None:
        return _built['ok']
    env = dict(os.environ, CARGO_TARGET_DIR=TARGET, CARGO_NET_OFFLINE='true')
    p = subprocess.run(['cargo', 'build', '--offline', '--quiet', '--bin', 'pytest-language-server'], cwd='/repo', env=env,
                       capture_output=True, text=True)
    _built['ok'] = p.returncode == 0
    _built['err'] = p.stderr[-800:]
    return _built['ok']


class Server:
    def __init__(self, root):
        self.root = root
        self.p = subprocess.Popen([os.path.join(TARGET, 'debug', 'pytest-language-server')], stdin=subprocess.PIPE,
                                  stdout=subprocess.PIPE, stderr=subprocess.DEVNULL, cwd=root)
        self.buf = b''
        self.next_id = 1
        self.diags = {}
        self.logs = []

    def send(self, msg):
        b = json.dumps(msg).encode()
        self.p.stdin.write(b'Content-Length: %d\r\n\r\n' % len(b) + b)
        self.p.stdin.flush()

    def read_msg(self, timeout):
        end = time.time() + timeout
        while True:
            i = self.buf.find(b'\r\n\r\n')
            if i >= 0:
                hdr = self.buf[:i].decode()
                n = 0
                for line in hdr.split('\r\n'):
                    if line.lower().startswith('content-length:'):
                        n = int(line.split(':')[1])
                if len(self.buf) >= i + 4 + n:
                    body = self.buf[i + 4:i + 4 + n]
                    self.buf = self.buf[i + 4 + n:]
                    return json.loads(body)
            left = end - time.time()
            if left <= 0:
                return None
            r, _, _ = select.select([self.p.stdout], [], [], left)
            if not r:
                return None
            chunk = os.read(self.p.stdout.fileno(), 65536)
            if not chunk:
                return None
            self.buf += chunk

    def handle_side(self, m):
        if m.get('method') == 'textDocument/publishDiagnostics':
            self.diags[m['params']['uri']] = m['params'].get('diagnostics', [])
        elif m.get('method') == 'window/logMessage':
            self.logs.append(m['params'].get('message', ''))
        elif 'id' in m and 'method' in m:
            # server -> client request (e.g. client/registerCapability): answer null
            self.send({'jsonrpc': '2.0', 'id': m['id'], 'result': None})

    def request(self, method, params, timeout=20):
        i = self.next_id
        self.next_id += 1
        self.send({'jsonrpc': '2.0', 'id': i, 'method': method, 'params': params})
        while True:
            m = self.read_msg(timeout)
            if m is None:
                return 'TIMEOUT'
            if m.get('id') == i and 'method' not in m:
                if 'error' in m:
                    return {'error': m['error']}
                return m.get('result')
            self.handle_side(m)

    def notify(self, method, params):
        self.send({'jsonrpc': '2.0', 'method': method, 'params': params})

    def drain(self, until=None, timeout=3.0):
        end = time.time() + timeout
        while time.time() < end:
            if until and until():
                return True
            m = self.read_msg(min(0.3, max(0.01, end - time.time())))
            if m is not None:
                self.handle_side(m)
        return bool(until and until())

    def close(self):
        try:
            self.request('shutdown', None, timeout=5)
            self.notify('exit', None)
            self.p.wait(timeout=5)
        except Exception:
            pass
        if self.p.poll() is None:
            self.p.kill()


def uri_of(path):
    return 'file://' + path


def norm(v, root_uri):
    if isinstance(v, dict):
        return {k: (x[len(root_uri) + 1:] if k in ('uri', 'targetUri') and isinstance(x, str) and x.startswith(root_uri + '/') else norm(x, root_uri))
                for k, x in v.items()}
    if isinstance(v, list):
        return [norm(x, root_uri) for x in v]
    return v


def subst(v, root, files):
    if isinstance(v, str):
        v = v.replace('${ROOT}', uri_of(root))
        for rel in files:
            v = v.replace('${URI:%s}' % rel, uri_of(os.path.join(root, rel)))
        return v
    if isinstance(v, dict):
        return {k: subst(x, root, files) for k, x in v.items()}
    if isinstance(v, list):
        return [subst(x, root, files) for x in v]
    return v


def run_one(sc):
    root = os.path.realpath(tempfile.mkdtemp(prefix='lsprep-'))
    observed = []
    srv = None
    try:
        for rel, text in sc.get('files', {}).items():
            p = os.path.join(root, rel)
            os.makedirs(os.path.dirname(p), exist_ok=True)
            open(p, 'w', encoding='utf-8').write(text)
        srv = Server(root)
        init = srv.request('initialize', {'processId': None, 'rootUri': uri_of(root), 'capabilities': {},
                                          'workspaceFolders': [{'uri': uri_of(root), 'name': 'w'}]})
        if init == 'TIMEOUT':
            return {'reproduces': None, 'error': 'initialize timed out', 'observed': []}
        srv.notify('initialized', {})
        srv.drain(until=lambda: any('scan complete' in l.lower() for l in srv.logs), timeout=20)
        versions = {}
        raw = {}
        for st in sc.get('lsp', []):
            if 'open' in st:
                rel = st['open']
                text = st.get('text', sc['files'].get(rel, ''))
                versions[rel] = 1
                srv.notify('textDocument/didOpen', {'textDocument': {'uri': uri_of(os.path.join(root, rel)), 'languageId': 'python', 'version': 1, 'text': text}})
                srv.drain(timeout=0.5)
            elif 'change' in st:
                rel = st['change']
                versions[rel] = versions.get(rel, 1) + 1
                srv.notify('textDocument/didChange', {'textDocument': {'uri': uri_of(os.path.join(root, rel)), 'version': versions[rel]},
                                                      'contentChanges': [{'text': t} for t in st.get('texts', [st.get('text', '')])]})
                srv.drain(timeout=0.5)
            elif 'request' in st:
                params = subst(st.get('params', {}), root, sc.get('files', {}))
                if 'file' in st:
                    params = dict(params)
                    params.setdefault('textDocument', {'uri': uri_of(os.path.join(root, st['file']))})
                    if 'line' in st:
                        params.setdefault('position', {'line': st['line'], 'character': st.get('character', 0)})
                for key, src in st.get('params_from', {}).items():
                    params = dict(params)
                    params[key] = get(raw.get(src['label']), src.get('path', ''))
                r = srv.request(st['request'], params)
                raw[st.get('label')] = r
                observed.append({'label': st.get('label'), 'op': st['request'], 'value': norm(r, uri_of(root))})
            elif 'diagnostics' in st:
                u = uri_of(os.path.join(root, st['diagnostics']))
                srv.drain(timeout=1.0)
                observed.append({'label': st.get('label'), 'op': 'diagnostics', 'value': norm(srv.diags.get(u), uri_of(root))})
        conds = sc.get('defect_when', [])
        return {'reproduces': bool(conds) and all(holds(c, observed) for c in conds), 'observed': observed}
    finally:
        if srv:
            srv.close()
        shutil.rmtree(root, ignore_errors=True)


def run_scenarios(paths):
    out = {}
    paths = [p for p in paths if p]
    if not paths:
        return out
    if not build():
        return {p: {'reproduces': None, 'error': 'server binary does not build: ' + _built['err']} for p in paths}
    for q in paths:
        sc = json.load(open(os.path.join(VERIF, q)))
        try:
            out[q] = run_one(sc)
        except Exception as e:  # a broken driver must never look like a reproduced defect
            out[q] = {'reproduces': None, 'error': f'{type(e).__name__}: {e}', 'observed': []}
    return out


if __name__ == '__main__':
    print(json.dumps(run_scenarios(sys.argv[1:]), indent=1))
