"""Kani harnesses over the REAL files (kani/src/lib.rs includes them by #[path]).  `complete` harnesses are
loop-free over a finite domain (count as proofs); `bounded` ones state their bound and are never counted
as proved for all inputs."""
import json
import os
import re
import subprocess
import time

VERIF = os.path.dirname(os.path.dirname(os.path.abspath(__file__)))
KDIR = os.path.join(VERIF, 'kani')

HARNESSES = json.load(open(os.path.join(KDIR, 'harnesses.json'))) if os.path.exists(os.path.join(KDIR, 'harnesses.json')) else []


def run_one(h, tier):
    t0 = time.time()
    env = dict(os.environ, CARGO_NET_OFFLINE='true', CARGO_TARGET_DIR=os.path.join(VERIF, 'build', 'kani-target'))
    cmd = ['cargo', 'kani', '--harness', h['harness']] + h.get('args', [])
    bound = h.get('bound_thorough' if tier == 'thorough' else 'bound_quick')
    if bound is not None:
        env['PLS_KANI_N'] = str(bound)
    timeout = h.get('timeout_thorough' if tier == 'thorough' else 'timeout_quick', 600)
    res = {'harness': h['harness'], 'kind': h['kind'], 'bound': h.get('bound_text', ''), 'cmd': ' '.join(cmd),
           'status': 'unknown', 'checks': 0}
    try:
        p = subprocess.run(cmd, cwd=KDIR, env=env, capture_output=True, text=True, timeout=timeout)
    except subprocess.TimeoutExpired:
        res['status'] = 'timeout'
        res['wall_s'] = round(time.time() - t0, 1)
        return res
    out = p.stdout + p.stderr
    res['wall_s'] = round(time.time() - t0, 1)
    m = re.search(r'\*\* (\d+) of (\d+) failed', out)
    if 'VERIFICATION:- SUCCESSFUL' in out:
        res['status'] = 'success'
        res['checks'] = int(m.group(2)) if m else 1
    elif 'VERIFICATION:- FAILED' in out:
        res['status'] = 'failed'
        fm = re.findall(r'Failed Checks: (.*)\n\s*File: "([^"]+)", line (\d+)', out)
        if fm:
            res['failed_check'] = fm[0][0]
            res['where'] = f'{fm[0][1]}:{fm[0][2]}'
            # an unwinding assertion failure means the bound was too small: undecided, not a violation
            if all('unwinding assertion' in f[0] for f in fm):
                res['status'] = 'bound-too-small'
        res['output_tail'] = out[-1500:]
    else:
        res['status'] = 'error'
        res['note'] = out[-600:]
    return res


def run_harnesses(hs, tier):
    return [run_one(h, tier) for h in hs]
