"""Generate a unit from /repo's working tree, run Verus on it, and classify every outcome.

Outcome per unit:
  functions: {name: {mode, success, time_us, rlimit, tags, origin}}
  failures:  [{fn, kind, clause, obligation, where, message, tags}]      (verification failures)
  undecided: [str]                                                        (tool limits, type errors, lost anchors)
  canaries:  {name: failed_as_required(bool)}
"""
import hashlib
import json
import os
import re
import subprocess
import sys
import time

sys.path.insert(0, os.path.dirname(__file__))
import extract  # noqa: E402
from rstok import tokenize, sig, match_close  # noqa: E402

VERIF = extract.VERIF
BUILD = os.path.join(VERIF, 'build')
ASTDEPS = os.path.join(BUILD, 'astdeps-target', 'debug', 'deps')

VERIFICATION_MSGS = (
    'postcondition not satisfied', 'precondition not satisfied', 'invariant not satisfied',
    'loop invariant not satisfied', 'assertion failed', 'possible arithmetic underflow/overflow',
    'possible division by zero', 'decreases not satisfied', 'could not prove termination',
    'possible bit shift underflow/overflow', 'recommendation not met', 'unreachable',
    'unable to prove post-condition of closure', 'unable to prove assertion',
    'fails to satisfy `callee.requires(args)`', 'failed precondition', 'split assertion failure',
    'split precondition failure', 'split postcondition failure', 'possible truncation',
    'constructed value may fail to meet its declared type invariant', 'cannot show invariant',
    'possible index out of bounds', 'precondition not met',
)
UNDECIDED_MSGS = ('rlimit', 'resource limit', 'timed out', 'Verus Internal Error', 'not supported',
                  'does not yet support', 'panicked')


def astdeps_args():
    if not os.path.isdir(ASTDEPS):
        return None
    rl = [f for f in os.listdir(ASTDEPS) if re.match(r'librustpython_parser-[0-9a-f]+\.rlib$', f)]
    if not rl:
        return None
    out = ['--extern', f'rustpython_parser={os.path.join(ASTDEPS, rl[0])}', '-L', f'dependency={ASTDEPS}']
    core = [f for f in os.listdir(ASTDEPS) if re.match(r'librustpython_parser_core-[0-9a-f]+\.rlib$', f)]
    if core:
        out += ['--extern', f'rustpython_parser_core={os.path.join(ASTDEPS, core[0])}']
    # the real LSP data types (ls-types, re-exported by tower-lsp-server as ls_types) for the handler units
    ls = [f for f in os.listdir(ASTDEPS) if re.match(r'libls_types-[0-9a-f]+\.rlib$', f)]
    if ls:
        out += ['--extern', f'ls_types={os.path.join(ASTDEPS, ls[0])}']
    return out


def fn_items(path):
    """[(name, start_line, end_line, mode, tags)] of every fn in the generated file"""
    src = open(path).read()
    toks = tokenize(src)
    s = sig(toks)
    # //@tags lines apply to the next fn
    tag_lines = {}
    for m in re.finditer(r'^[ \t]*//@tags[ \t]+(.*)$', src, re.M):
        tag_lines[src.count('\n', 0, m.start()) + 1] = m.group(1).split()
    out = []
    for idx, k in enumerate(s):
        t = toks[k]
        is_exec_const = (t.kind == 'ident' and t.text == 'const' and idx > 0 and toks[s[idx - 1]].text == 'exec')
        if t.kind == 'ident' and (t.text == 'fn' or is_exec_const) and idx + 1 < len(s) and toks[s[idx + 1]].kind == 'ident':
            name = toks[s[idx + 1]].text
            mode = 'exec'
            if idx > 0 and toks[s[idx - 1]].text in ('proof', 'spec'):
                mode = toks[s[idx - 1]].text
            elif idx > 0 and toks[s[idx - 1]].text == 'axiom':
                mode = 'axiom'
            # find the end of the item: brace groups at paren depth 0 may belong to spec clauses
            # (match / if in ensures); the item ends after the last group that is not followed by a
            # token continuing a spec expression
            CONT = {',', '&&', '||', '==>', '<==>', '==', '!=', '&&&', '|||', 'else', 'ensures', 'requires',
                    'decreases', 'recommends', 'opens_invariants', 'no_unwind', '<', '>', '<=', '>=', '+', '-',
                    '=', '>', '|', 'via', 'when'}
            start_line = src.count('\n', 0, t.start) + 1
            j = idx + 2
            depth = 0
            end_tok = None
            while j < len(s):
                tt = toks[s[j]]
                if tt.kind == 'punct':
                    if tt.text in '([':
                        depth += 1
                    elif tt.text in ')]':
                        depth -= 1
                    elif tt.text == ';' and depth == 0:
                        end_tok = s[j]
                        break
                    elif tt.text == '{' and depth == 0:
                        close = match_close(toks, s[j])
                        # jump behind the group
                        while s[j] < close:
                            j += 1
                        nxt = toks[s[j + 1]] if j + 1 < len(s) else None
                        if nxt is not None and (nxt.text in CONT or nxt.text == '{' or
                                                (nxt.text == '=' ) or nxt.text.startswith('==')):
                            j += 1
                            continue
                        end_tok = close
                        break
                j += 1
            if end_tok is None:
                end_tok = s[-1]
            end_line = src.count('\n', 0, toks[end_tok].start) + 1
            tags = None
            out.append((name, start_line, end_line, mode, tags))
    # a //@tags line applies to the next fn item after it
    starts = sorted(o[1] for o in out)
    res = []
    for (name, a, b, mode, _t) in out:
        prev_starts = [x for x in starts if x < a]
        lo = prev_starts[-1] if prev_starts else 0
        cands = [ln for ln in tag_lines if lo < ln < a]
        res.append((name, a, b, mode, tag_lines[max(cands)] if cands else None))
    return res


def classify(msg):
    low = msg.lower()
    for u in UNDECIDED_MSGS:
        if u.lower() in low:
            return 'undecided'
    for v in VERIFICATION_MSGS:
        if v.lower() in low:
            return 'verification'
    return 'other'


def run_unit(unit, tmpl, seed=0, rlimit=None, needs_ast=False, threads=4, extra_args=()):
    t0 = time.time()
    res = {'unit': unit, 'template': tmpl, 'functions': {}, 'failures': [], 'undecided': [], 'canaries': {},
           'extracted': [], 'verus_cmd': '', 'wall_s': 0.0, 'verified': 0, 'errors': 0, 'smt_ms': 0,
           'clauses': 0}
    # generated files of a scratch-source run (VERIF_REPO) live in their own directory, and every (directory, unit,
    # seed) is generated + verified under an exclusive file lock: concurrent checks never see each other's files
    udir = 'units'
    if os.environ.get('VERIF_REPO'):
        import hashlib
        udir = 'units-' + hashlib.sha1(os.environ['VERIF_REPO'].encode()).hexdigest()[:8]
    os.makedirs(os.path.join(BUILD, udir), exist_ok=True)
    out_rs = os.path.join(BUILD, udir, unit + (f'_s{seed}' if seed else '') + '.rs')
    res['out_rs'] = out_rs
    import fcntl
    _lock = open(out_rs + '.lock', 'w')
    fcntl.flock(_lock, fcntl.LOCK_EX)
    try:
        return _run_unit_locked(unit, tmpl, seed, rlimit, needs_ast, threads, extra_args, t0, res, out_rs, udir)
    finally:
        fcntl.flock(_lock, fcntl.LOCK_UN)
        _lock.close()


def _run_unit_locked(unit, tmpl, seed, rlimit, needs_ast, threads, extra_args, t0, res, out_rs, udir):
    try:
        report = extract.generate(os.path.join(VERIF, tmpl), out_rs)
    except extract.Unsupported as e:
        res['undecided'].append(f'extraction: {e}')
        res['wall_s'] = time.time() - t0
        return res
    res['extracted'] = report['functions']
    cmd = ['verus', out_rs, '--output-json', '--time', '--multiple-errors', '50', '--error-format=json',
           '--triggers-mode', 'silent', '--num-threads', str(threads)]
    if rlimit:
        cmd += ['--rlimit', str(rlimit)]
    if seed:
        cmd += ['--smt-option', f'smt.random_seed={seed}', '--smt-option', f'sat.random_seed={seed}']
    if needs_ast:
        a = astdeps_args()
        if a is None:
            res['undecided'].append('rustpython rlibs missing: run setup')
            return res
        cmd += a
    cmd += list(extra_args)
    res['verus_cmd'] = ' '.join(cmd)
    try:
        p = subprocess.run(cmd, capture_output=True, text=True, cwd=os.path.join(BUILD, udir),
                           timeout=int(os.environ.get('VERIF_VERUS_TIMEOUT', '900')))
    except subprocess.TimeoutExpired:
        # a solver query that does not come back is UNDECIDED (exit 2), never an alarm
        res['undecided'].append('verus did not finish within the time limit (VERIF_VERUS_TIMEOUT, default 900 s)')
        return res
    open(out_rs + '.stdout.json', 'w').write(p.stdout)
    open(out_rs + '.stderr.txt', 'w').write(p.stderr)
    items = fn_items(out_rs)
    linemap = json.load(open(out_rs + '.map.json'))['lines']
    gen_lines = open(out_rs).read().split('\n')

    def fn_at(line):
        best = None
        for it in items:
            if it[1] <= line <= it[2]:
                if best is None or it[1] >= best[1]:
                    best = it
        return best

    def origin(line):
        if 1 <= line <= len(linemap):
            o = linemap[line - 1]
            if o[0] == 'src':
                return f'{o[2]}:{o[3]}'
            if o[0] == 'inj':
                return f'contract[{o[3]}] on {o[2]}::{o[1]}'
            return f'{tmpl}:{o[1]}'
        return '?'

    # stdout json
    try:
        j = json.loads(p.stdout)
    except Exception:
        j = None
    if j is None:
        res['undecided'].append('verus produced no JSON: ' + (p.stderr[-400:] if p.stderr else ''))
    else:
        vr = j.get('verification-results', {})
        res['verified'] = vr.get('verified', 0)
        res['errors'] = vr.get('errors', 0)
        if vr.get('encountered-vir-error'):
            res['undecided'].append('verus reported a VIR (front end) error')
        smt = j.get('times-ms', {}).get('smt', {})
        res['smt_ms'] = smt.get('smt-run', 0)
        for m in smt.get('smt-run-module-times', []):
            for f in m.get('function-breakdown', []):
                name = f['function'].split('::')[-1]
                res['functions'][name] = {'mode': f.get('mode:', ''), 'success': f.get('success', False),
                                          'time_us': f.get('time-micros', 0), 'rlimit': f.get('rlimit', 0)}
    # diagnostics
    for ln in p.stderr.split('\n'):
        ln = ln.strip()
        if not ln.startswith('{'):
            continue
        try:
            d = json.loads(ln)
        except Exception:
            continue
        if d.get('level') != 'error':
            continue
        msg = d.get('message', '')
        if msg.startswith('aborting due to'):
            continue
        spans = d.get('spans', [])
        prim = next((s_ for s_ in spans if s_.get('is_primary')), spans[0] if spans else None)
        kind = classify(msg)
        if d.get('code'):
            kind = 'other'   # rustc diagnostics (type / trait / borrow errors) are never verification failures
        if prim is None:
            res['undecided'].append(f'{msg}')
            continue
        line = prim['line_start']
        it = fn_at(line)
        fname = it[0] if it else '?'
        clause = ' '.join(t['text'][t['highlight_start'] - 1:t['highlight_end'] - 1] for t in prim.get('text', [])[:1]).strip()
        if not clause:
            clause = gen_lines[line - 1].strip() if line <= len(gen_lines) else ''
        others = [f"{s_.get('label') or ''} @ {origin(s_['line_start'])}" for s_ in spans if not s_.get('is_primary')]
        if kind == 'verification':
            norm = re.sub(r'\s+', ' ', clause)[:80]
            res['failures'].append({
                'fn': fname, 'kind': msg, 'clause': clause[:300],
                'obligation': f'{unit}::{fname}::{msg.split(":")[0]}::{norm}',
                'where': origin(line), 'others': others,
                'rendered': (d.get('rendered') or '')[:1500],
                'tags': it[4] if it else None})
        else:
            res['undecided'].append(f'{msg} @ {origin(line)} (fn {fname})')
    # functions that failed without a diagnostic we understood
    for name, f in res['functions'].items():
        if not f['success'] and not any(x['fn'] == name for x in res['failures']) and not res['undecided']:
            res['undecided'].append(f'function {name} not verified but no diagnostic was classified')
    # tags and canaries
    tagmap = {it[0]: it[4] for it in items}
    for name, f in res['functions'].items():
        f['tags'] = tagmap.get(name)
    for it in items:
        if it[0].startswith('canary_'):
            failed = any(x['fn'] == it[0] for x in res['failures'])
            res['canaries'][it[0]] = failed
    res['failures'] = [x for x in res['failures'] if not x['fn'].startswith('canary_')]
    # clause counts: injected contracts + every clause in template lemmas / shim-free exec fns
    gen_src = open(out_rs).read()
    res['clauses'] = sum(f['clauses'] for f in report['functions'])
    res['items'] = [{'name': it[0], 'mode': it[3], 'tags': it[4], 'lines': [it[1], it[2]]} for it in items]
    res['wall_s'] = round(time.time() - t0, 2)
    res['exit'] = p.returncode
    return res


if __name__ == '__main__':
    _seed = int(sys.argv[sys.argv.index('--seed') + 1]) if '--seed' in sys.argv else int(os.environ.get('VERIF_SEED', '0') or 0)
    r = run_unit(sys.argv[1], sys.argv[2], seed=_seed, needs_ast='--ast' in sys.argv)
    print(json.dumps({k: v for k, v in r.items() if k not in ('items',)}, indent=1))
