//! Kani harnesses over the REAL source files of /repo (pytest-language-server).
//!
//! The files are included by absolute `#[path]` and are never copied, so every run checks the
//! code that is currently in /repo.  The module layout mirrors /repo/src/fixtures/mod.rs so that
//! `super::...` references inside the included files resolve.
//!
//! Harness kinds (see harnesses.json):
//!   * complete - loop-free over a finite domain: a proof for all inputs.
//!   * bounded  - all UTF-8 strings of at most N bytes (N is part of the harness name and of
//!     `bound_text`); never counted as a proof for all inputs.
//! Unwinding assertions are kept ON: a too small `#[kani::unwind]` makes the harness fail.
//!
//! What CBMC could NOT do on this code (see the report / harnesses.json bound_text):
//!   * `extract_word_at_position`: the heap `Vec<(usize, char)>` read in loops makes CBMC exceed
//!     16 GB already for strings of at most 2 bytes -> no harness.
//!   * `format_docstring`: any symbolic byte in the input keeps CBMC in symbolic execution for more
//!     than 15 minutes (even one symbolic byte in a fixed 9-byte layout) -> only the concrete
//!     regression witnesses of `format_docstring_regression`.
//!   * `find_function_name_position`: only with std's `str::find(&str)` (two-way searcher) and
//!     `memchr` replaced by naive loops (`-Z stubbing`), and only for very short contents.
#![cfg_attr(kani, feature(pattern))]
#![allow(dead_code)]

pub mod fixtures {
    #[path = "/repo/src/fixtures/types.rs"]
    pub mod types;

    #[path = "/repo/src/fixtures/string_utils.rs"]
    pub(crate) mod string_utils;
}

#[cfg(kani)]
mod harnesses {
    use crate::fixtures::string_utils::{
        find_function_name_position, format_docstring, parameter_has_annotation,
    };
    use crate::fixtures::types::FixtureScope;

    // ------------------------------------------------------------------------------------
    // helpers
    // ------------------------------------------------------------------------------------

    fn cont(b: u8) -> bool {
        (b & 0xC0) == 0x80
    }

    /// Hand-written UTF-8 well-formedness check (Unicode 15 table 3-7).  It is NOT trusted: the
    /// harnesses `utf8_model_agrees_n*` prove `utf8_valid(b) == std::str::from_utf8(b).is_ok()`
    /// for every byte string up to the length used by the other harnesses.  It exists only
    /// because assuming `from_utf8(..).is_ok()` directly costs CBMC ~100 s for 8 bytes (word-wise
    /// ASCII fast path) against ~3 s for this loop.
    fn utf8_valid(b: &[u8]) -> bool {
        let n = b.len();
        let mut i = 0;
        while i < n {
            let b0 = b[i];
            if b0 < 0x80 {
                i += 1;
            } else if b0 >= 0xC2 && b0 <= 0xDF {
                if n - i < 2 || !cont(b[i + 1]) {
                    return false;
                }
                i += 2;
            } else if b0 >= 0xE0 && b0 <= 0xEF {
                if n - i < 3 {
                    return false;
                }
                let b1 = b[i + 1];
                let ok1 = match b0 {
                    0xE0 => b1 >= 0xA0 && b1 <= 0xBF,
                    0xED => b1 >= 0x80 && b1 <= 0x9F,
                    _ => cont(b1),
                };
                if !ok1 || !cont(b[i + 2]) {
                    return false;
                }
                i += 3;
            } else if b0 >= 0xF0 && b0 <= 0xF4 {
                if n - i < 4 {
                    return false;
                }
                let b1 = b[i + 1];
                let ok1 = match b0 {
                    0xF0 => b1 >= 0x90 && b1 <= 0xBF,
                    0xF4 => b1 >= 0x80 && b1 <= 0x8F,
                    _ => cont(b1),
                };
                if !ok1 || !cont(b[i + 2]) || !cont(b[i + 3]) {
                    return false;
                }
                i += 4;
            } else {
                return false;
            }
        }
        true
    }

    /// Support lemma: the model agrees with the real `std::str::from_utf8` on every byte string
    /// of at most `N` bytes.
    fn check_utf8_model<const N: usize>() {
        let buf: [u8; N] = kani::any();
        let len: usize = kani::any();
        kani::assume(len <= N);
        assert!(utf8_valid(&buf[..len]) == std::str::from_utf8(&buf[..len]).is_ok());
    }

    #[kani::proof]
    #[kani::unwind(8)]
    fn utf8_model_agrees_n6() {
        check_utf8_model::<6>();
    }

    #[kani::proof]
    #[kani::unwind(14)]
    fn utf8_model_agrees_n12() {
        check_utf8_model::<12>();
    }

    /// An arbitrary valid UTF-8 string of at most `N` bytes living in `buf`
    /// (all of them: see `utf8_model_agrees_n*`).
    fn sym_str<const N: usize>(buf: &[u8; N]) -> &str {
        let len: usize = kani::any();
        kani::assume(len <= N);
        kani::assume(utf8_valid(&buf[..len]));
        // SAFETY: utf8_valid == from_utf8(..).is_ok(), proved by utf8_model_agrees_n* for len <= N
        unsafe { std::str::from_utf8_unchecked(&buf[..len]) }
    }

    fn is_ascii_ws(b: u8) -> bool {
        // the ASCII members of Unicode White_Space (what `str::trim_start` removes)
        b == b' ' || (0x09..=0x0d).contains(&b)
    }

    fn rank(s: FixtureScope) -> u8 {
        match s {
            FixtureScope::Function => 0,
            FixtureScope::Class => 1,
            FixtureScope::Module => 2,
            FixtureScope::Package => 3,
            FixtureScope::Session => 4,
        }
    }

    fn any_scope() -> FixtureScope {
        let k: u8 = kani::any();
        kani::assume(k < 5);
        match k {
            0 => FixtureScope::Function,
            1 => FixtureScope::Class,
            2 => FixtureScope::Module,
            3 => FixtureScope::Package,
            _ => FixtureScope::Session,
        }
    }

    // ------------------------------------------------------------------------------------
    // 1. FixtureScope (complete)
    // ------------------------------------------------------------------------------------

    /// For all 25 pairs of the real enum the derived comparison operators agree with
    /// Function=0 < Class=1 < Module=2 < Package=3 < Session=4.  Loop-free, finite domain.
    #[kani::proof]
    fn scope_order_complete() {
        let a = any_scope();
        let b = any_scope();
        let (ra, rb) = (rank(a), rank(b));
        assert!((a < b) == (ra < rb));
        assert!((a == b) == (ra == rb));
        assert!((a > b) == (ra > rb));
        assert!((a <= b) == (ra <= rb));
        assert!((a >= b) == (ra >= rb));
        assert!((a != b) == (ra != rb));
        assert!(a.cmp(&b) == ra.cmp(&rb));
        assert!(a.partial_cmp(&b) == Some(ra.cmp(&rb)));
        // the declared discriminants are the ranks
        assert!(a as u8 == ra);
        // Default is the narrowest scope
        assert!(FixtureScope::default() <= a);
    }

    /// `parse(as_str(s)) == Some(s)` for the five scopes (five concrete calls: CBMC constant-
    /// propagates `to_lowercase`; a symbolic scope did not finish in 10 minutes).
    #[kani::proof]
    #[kani::unwind(20)]
    fn scope_parse_roundtrip() {
        assert!(FixtureScope::parse(FixtureScope::Function.as_str()) == Some(FixtureScope::Function));
        assert!(FixtureScope::parse(FixtureScope::Class.as_str()) == Some(FixtureScope::Class));
        assert!(FixtureScope::parse(FixtureScope::Module.as_str()) == Some(FixtureScope::Module));
        assert!(FixtureScope::parse(FixtureScope::Package.as_str()) == Some(FixtureScope::Package));
        assert!(FixtureScope::parse(FixtureScope::Session.as_str()) == Some(FixtureScope::Session));
    }

    // ------------------------------------------------------------------------------------
    // 2. parameter_has_annotation (bounded)
    // ------------------------------------------------------------------------------------

    fn check_param_annotation<const N: usize>() {
        let buf: [u8; N] = kani::any();
        let t = sym_str(&buf);
        let line: usize = kani::any();
        let end_char: usize = kani::any();
        let lines = [t];
        // no panic (slice index, char boundary, arithmetic overflow are all checked by Kani)
        let r = parameter_has_annotation(&lines, line, end_char);

        let b = t.as_bytes();
        // independent byte-level characterisation for ASCII-whitespace prefixes:
        // scan = first index >= end_char that is not ASCII whitespace
        let in_range = line <= 1 && end_char < b.len();
        if r {
            // true only for the single line, at an in-range char boundary ...
            assert!(in_range);
            assert!(t.is_char_boundary(end_char));
            // ... and a ':' follows, separated only by whitespace (ASCII whitespace bytes or
            // bytes of a non-ASCII (Unicode White_Space) character)
            let mut j = end_char;
            let mut found = false;
            while j < b.len() {
                if !found {
                    if b[j] == b':' {
                        found = true;
                    } else {
                        assert!(is_ascii_ws(b[j]) || b[j] >= 0x80);
                    }
                }
                j += 1;
            }
            assert!(found);
        } else if in_range {
            // completeness for the ASCII case: `end_char`, ASCII whitespace*, ':'  ==> true
            let mut j = end_char;
            let mut decided = false;
            while j < b.len() {
                if !decided {
                    if b[j] == b':' {
                        // reached ':' through ASCII whitespace only, yet the result is false
                        assert!(false);
                    } else if !is_ascii_ws(b[j]) {
                        decided = true;
                    }
                }
                j += 1;
            }
        }
    }

    /// quick tier: all UTF-8 strings of at most 6 bytes
    #[kani::proof]
    #[kani::unwind(9)]
    fn param_annotation_no_panic_q() {
        check_param_annotation::<6>();
    }

    /// thorough tier: all UTF-8 strings of at most 12 bytes
    #[kani::proof]
    #[kani::unwind(15)]
    fn param_annotation_no_panic_t() {
        check_param_annotation::<12>();
    }

    // ------------------------------------------------------------------------------------
    // std stubs (used with `-Z stubbing`; they replace std internals, never /repo code)
    // ------------------------------------------------------------------------------------

    /// Replaces `core::slice::memchr::memchr` (reached through `str::lines()`): same contract,
    /// naive loop instead of the word-at-a-time implementation.
    fn memchr_naive_stub(x: u8, text: &[u8]) -> Option<usize> {
        let mut i = 0;
        while i < text.len() {
            if text[i] == x {
                return Some(i);
            }
            i += 1;
        }
        None
    }

    /// First index at which `n` occurs in `h` as a contiguous window (None if it does not).
    fn naive_find_bytes(h: &[u8], n: &[u8]) -> Option<usize> {
        let mut i = 0;
        while i <= h.len() {
            if h.len() - i >= n.len() {
                let mut j = 0;
                let mut ok = true;
                while j < n.len() {
                    if h[i + j] != n[j] {
                        ok = false;
                    }
                    j += 1;
                }
                if ok {
                    return Some(i);
                }
            }
            i += 1;
        }
        None
    }

    /// Replaces `str::find` for `&str` patterns (the only kind `find_function_name_position`
    /// uses): leftmost occurrence by naive search instead of std's two-way searcher.  Any other
    /// pattern kind fails the harness instead of being silently mis-modelled.
    fn str_find_stub<P: std::str::pattern::Pattern>(hay: &str, pat: P) -> Option<usize> {
        match pat.as_utf8_pattern() {
            Some(std::str::pattern::Utf8Pattern::StringPattern(b)) => {
                naive_find_bytes(hay.as_bytes(), b.as_bytes())
            }
            _ => {
                assert!(false, "str_find_stub: only &str patterns are modelled");
                None
            }
        }
    }

    // ------------------------------------------------------------------------------------
    // 4. find_function_name_position (bounded, std `str::find`/`memchr` stubbed)
    // ------------------------------------------------------------------------------------

    fn check_find_fn_name(content: &str, line: usize, name: &str) {
        let (start, end) = find_function_name_position(content, line, name);
        assert!(start <= end);
        assert!(end - start == name.len());
    }

    /// all UTF-8 contents of at most 3 bytes, all names of at most 3 bytes, all `line`.
    /// (Too short to contain "def ": exercises the line lookup, the fallback search and the
    /// default result.)
    #[kani::proof]
    #[kani::unwind(6)]
    #[kani::stub(core::slice::memchr::memchr, memchr_naive_stub)]
    #[kani::stub(str::find, str_find_stub)]
    fn find_fn_name_no_panic_t() {
        let buf: [u8; 3] = kani::any();
        let content = sym_str(&buf);
        let nbuf: [u8; 3] = kani::any();
        let name = sym_str(&nbuf);
        let line: usize = kani::any();
        check_find_fn_name(content, line, name);
    }

    /// contents "def " + any UTF-8 string of at most 2 bytes, all names of at most 2 bytes, all
    /// `line`: exercises the `def ` branch (`&line_content[def_pos + 4..]`,
    /// `def_pos + 4 + name_pos`).
    #[kani::proof]
    #[kani::unwind(9)]
    #[kani::stub(core::slice::memchr::memchr, memchr_naive_stub)]
    #[kani::stub(str::find, str_find_stub)]
    fn find_fn_name_defprefix_t() {
        let tail: [u8; 2] = kani::any();
        let buf: [u8; 6] = [b'd', b'e', b'f', b' ', tail[0], tail[1]];
        let len: usize = kani::any();
        kani::assume(len >= 4 && len <= 6);
        kani::assume(utf8_valid(&buf[..len]));
        // SAFETY: see sym_str
        let content = unsafe { std::str::from_utf8_unchecked(&buf[..len]) };
        let nbuf: [u8; 2] = kani::any();
        let name = sym_str(&nbuf);
        let line: usize = kani::any();
        check_find_fn_name(content, line, name);
    }

    // ------------------------------------------------------------------------------------
    // 5. format_docstring (CONCRETE regression witnesses only)
    // ------------------------------------------------------------------------------------

    fn check_docstring_result(r: &String) {
        let rb = r.as_bytes();
        if !rb.is_empty() {
            // no leading / trailing empty line
            assert!(rb[0] != b'\n');
            assert!(rb[rb.len() - 1] != b'\n');
        }
    }

    fn check_format_docstring_concrete(s: &str) {
        let r = format_docstring(s.to_string());
        check_docstring_result(&r);
        std::mem::forget(r);
    }

    /// Concrete input whose dedent width (1, taken from the ASCII-indented last line) falls inside
    /// the 3-byte whitespace character U+2003 EM SPACE of the middle line.  `&line[min_indent..]`
    /// panicked on it before /repo commit b5df239.  This is a regression test executed by CBMC,
    /// not a bounded proof.
    #[kani::proof]
    #[kani::unwind(12)]
    #[kani::stub(core::slice::memchr::memchr, memchr_naive_stub)]
    fn format_docstring_regression() {
        check_format_docstring_concrete("a\n\u{2003}b\n c");
    }

    /// Same with the 2-byte whitespace character U+00A0 NO-BREAK SPACE.
    #[kani::proof]
    #[kani::unwind(12)]
    #[kani::stub(core::slice::memchr::memchr, memchr_naive_stub)]
    fn format_docstring_nbsp_witness_t() {
        check_format_docstring_concrete("a\n\u{a0}b\n c");
    }
}
