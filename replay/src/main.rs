//! Replay runner: executes a scenario file against the REAL library through its public API and prints
//! what was observed.  It decides nothing by itself: it is used to (a) replay counterexamples and
//! (b) confirm that a listed known finding still reproduces before its KNOWN-FINDING line is printed.
use pytest_language_server::FixtureDatabase;
use serde_json::{json, Value};
use std::panic::{catch_unwind, AssertUnwindSafe};
use std::path::{Path, PathBuf};

fn rel(root: &Path, p: &Path) -> String {
    p.strip_prefix(root).map(|x| x.to_string_lossy().to_string()).unwrap_or_else(|_| p.to_string_lossy().to_string())
}

fn defj(root: &Path, d: &pytest_language_server::FixtureDefinition) -> Value {
    json!({"name": d.name, "file": rel(root, &d.file_path), "line": d.line, "end_line": d.end_line,
           "start_char": d.start_char, "end_char": d.end_char, "scope": d.scope.as_str(),
           "third_party": d.is_third_party, "plugin": d.is_plugin, "autouse": d.autouse,
           "deps": d.dependencies, "yield_line": d.yield_line, "return_type": d.return_type, "docstring": d.docstring})
}

fn find_def(db: &FixtureDatabase, root: &Path, q: &Value) -> Option<pytest_language_server::FixtureDefinition> {
    let name = q["name"].as_str()?;
    let file = root.join(q["file"].as_str()?);
    let defs = db.definitions.get(name)?;
    let line = q.get("line").and_then(|l| l.as_u64());
    defs.iter().find(|d| d.file_path == file && line.map(|l| d.line as u64 == l).unwrap_or(true)).cloned()
}

fn run_query(db: &FixtureDatabase, root: &Path, q: &Value) -> Value {
    let kind = q["kind"].as_str().unwrap_or("");
    let file = q.get("file").and_then(|f| f.as_str()).map(|f| root.join(f)).unwrap_or_else(|| root.to_path_buf());
    let r = catch_unwind(AssertUnwindSafe(|| match kind {
        "goto" => {
            let d = db.find_fixture_definition(&file, q["line"].as_u64().unwrap() as u32, q["char"].as_u64().unwrap() as u32);
            d.map(|d| defj(root, &d)).unwrap_or(Value::Null)
        }
        "goto_or_def" => {
            let d = db.find_fixture_or_definition_at_position(&file, q["line"].as_u64().unwrap() as u32, q["char"].as_u64().unwrap() as u32);
            d.map(|d| defj(root, &d)).unwrap_or(Value::Null)
        }
        "resolve_for_file" => {
            let d = db.resolve_fixture_for_file(&file, q["name"].as_str().unwrap());
            d.map(|d| defj(root, &d)).unwrap_or(Value::Null)
        }
        "available" => Value::Array(db.get_available_fixtures(&file).iter().map(|d| defj(root, d)).collect()),
        "refs" => match find_def(db, root, q) {
            Some(d) => Value::Array(db.find_references_for_definition(&d).iter().map(|u| json!({"file": rel(root, &u.file_path), "line": u.line, "start_char": u.start_char, "end_char": u.end_char, "name": u.name})).collect()),
            None => json!("no-such-definition"),
        },
        "unused" => Value::Array(db.get_unused_fixtures().iter().map(|(p, n)| json!({"file": rel(root, p), "name": n})).collect()),
        "mismatches" => Value::Array(db.detect_scope_mismatches_in_file(&file).iter().map(|m| json!({"fixture": defj(root, &m.fixture), "dependency": defj(root, &m.dependency)})).collect()),
        "cycles" => Value::Array(db.detect_fixture_cycles().iter().map(|c| json!({"path": c.cycle_path, "fixture": defj(root, &c.fixture)})).collect()),
        "cycles_in_file" => Value::Array(db.detect_fixture_cycles_in_file(&file).iter().map(|c| json!({"path": c.cycle_path, "fixture": defj(root, &c.fixture)})).collect()),
        "imported" => {
            let mut v = std::collections::HashSet::new();
            let mut names: Vec<String> = db.get_imported_fixtures(&file, &mut v).into_iter().collect();
            names.sort();
            json!(names)
        }
        "undeclared" => Value::Array(db.get_undeclared_fixtures(&file).iter().map(|u| json!({"name": u.name, "line": u.line, "start_char": u.start_char, "end_char": u.end_char, "function": u.function_name})).collect()),
        "definitions" => {
            let mut out = vec![];
            for e in db.definitions.iter() { for d in e.value().iter() { out.push(defj(root, d)); } }
            out.sort_by_key(|v| (v["file"].as_str().unwrap().to_string(), v["line"].as_u64(), v["name"].as_str().unwrap().to_string()));
            Value::Array(out)
        }
        "usages" => {
            let mut out = vec![];
            for e in db.usages.iter() { for u in e.value().iter() { out.push(json!({"file": rel(root, &u.file_path), "name": u.name, "line": u.line, "start_char": u.start_char, "end_char": u.end_char})); } }
            out.sort_by_key(|v| (v["file"].as_str().unwrap().to_string(), v["line"].as_u64(), v["start_char"].as_u64()));
            Value::Array(out)
        }
        "file_cache_text" => db.file_cache.get(&file).map(|t| json!(t.value().as_str())).unwrap_or(Value::Null),
        "completion_context" => json!(format!("{:?}", db.get_completion_context(&file, q["line"].as_u64().unwrap() as u32, q["char"].as_u64().unwrap() as u32))),
        "duplicate_definitions" => {
            let mut seen = std::collections::HashSet::new();
            let mut dups = 0u64;
            let mut total = 0u64;
            for e in db.definitions.iter() { for d in e.value().iter() { total += 1; if !seen.insert((d.name.clone(), d.file_path.clone(), d.line)) { dups += 1; } } }
            json!({"total": total, "duplicates": dups})
        }
        "param_insertion" => match db.get_function_param_insertion_info(&file, q["function_line"].as_u64().unwrap() as usize) {
            Some(i) => json!({"line": i.line, "char_pos": i.char_pos, "needs_comma": i.needs_comma}),
            None => Value::Null,
        },
        _ => json!("unknown-query"),
    }));
    match r { Ok(v) => v, Err(_) => json!("PANIC") }
}

fn main() {
    let args: Vec<String> = std::env::args().collect();
    let mut out = vec![];
    // silence panic messages: they are reported as "PANIC" values
    std::panic::set_hook(Box::new(|_| {}));
    for path in &args[1..] {
        let sc: Value = serde_json::from_str(&std::fs::read_to_string(path).expect("scenario file")).expect("scenario json");
        let repeat = sc.get("repeat").and_then(|r| r.as_u64()).unwrap_or(1);
        let mut runs: Vec<Vec<Value>> = vec![];
        for rep in 0..repeat {
        let tmp = std::env::temp_dir().join(format!("plsverif-replay-{}-{}-{}", std::process::id(), out.len(), rep));
        let _ = std::fs::remove_dir_all(&tmp);
        std::fs::create_dir_all(&tmp).unwrap();
        let root = tmp.canonicalize().unwrap();
        if let Some(files) = sc["files"].as_object() {
            for (name, content) in files {
                let p = root.join(name);
                std::fs::create_dir_all(p.parent().unwrap()).unwrap();
                // ${ROOT} in a file's text stands for the absolute scenario root (editable-install .pth / direct_url.json)
                std::fs::write(&p, content.as_str().unwrap().replace("${ROOT}", root.to_str().unwrap())).unwrap();
            }
        }
        // files_gen: [{"pattern": "t/test_{i}.py", "count": N, "text": "... {i} ..."}] -> N generated files ({i} = 0000..)
        if let Some(gens) = sc.get("files_gen").and_then(|g| g.as_array()) {
            for g in gens {
                let n = g["count"].as_u64().unwrap_or(0);
                for i in 0..n {
                    let is = format!("{:04}", i);
                    let p = root.join(g["pattern"].as_str().unwrap().replace("{i}", &is));
                    std::fs::create_dir_all(p.parent().unwrap()).unwrap();
                    std::fs::write(&p, g["text"].as_str().unwrap().replace("{i}", &is)).unwrap();
                }
            }
        }
        let db = std::sync::Arc::new(FixtureDatabase::new());
        let mut observed = vec![];
        for step in sc["steps"].as_array().cloned().unwrap_or_default() {
            let op = step["op"].as_str().unwrap_or("");
            let file: PathBuf = step.get("file").and_then(|f| f.as_str()).map(|f| root.join(f)).unwrap_or_else(|| root.clone());
            let r = catch_unwind(AssertUnwindSafe(|| match op {
                "analyze" => {
                    let text = match step.get("text").and_then(|t| t.as_str()) {
                        Some(t) => t.to_string(),
                        None => std::fs::read_to_string(&file).unwrap_or_default(),
                    };
                    db.analyze_file(file.clone(), &text);
                    Value::Null
                }
                "scan" => { db.scan_workspace(&file); Value::Null }
                // scan in a detached thread, give up after `timeout_ms` (a scan that never returns is the defect)
                "scan_timeout" => {
                    let (tx, rx) = std::sync::mpsc::channel();
                    let db2 = db.clone();
                    let f2 = file.clone();
                    std::thread::spawn(move || { db2.scan_workspace(&f2); let _ = tx.send(()); });
                    match rx.recv_timeout(std::time::Duration::from_millis(step["timeout_ms"].as_u64().unwrap_or(5000))) {
                        Ok(()) => json!("RETURNED"),
                        Err(_) => json!("TIMEOUT"),
                    }
                }
                "mkfifo" => {
                    let ok = std::process::Command::new("mkfifo").arg(&file).status().map(|s| s.success()).unwrap_or(false);
                    json!(ok)
                }
                "close" => { db.cleanup_file_cache(&file); Value::Null }
                // what the venv scan does for the entry module of a pytest11 plugin before analysing it
                "mark_plugin" => { db.plugin_fixture_files.insert(file.clone(), ()); Value::Null }
                "write" => { std::fs::write(&file, step["text"].as_str().unwrap()).unwrap(); Value::Null }
                "query" => run_query(&db, &root, &step["q"]),
                _ => json!("unknown-op"),
            }));
            let v = match r { Ok(v) => v, Err(_) => json!("PANIC") };
            if op == "query" || step.get("label").is_some() || v == json!("PANIC") {
                observed.push(json!({"label": step.get("label").cloned().unwrap_or(Value::Null), "op": op, "value": v}));
            }
        }
        let _ = std::fs::remove_dir_all(&tmp);
        runs.push(observed);
        }
        // one run: the observations as they are; several runs (fresh database each): per label the list of values
        let observed: Vec<Value> = if repeat == 1 { runs.pop().unwrap() } else {
            let mut labels: Vec<Value> = vec![];
            for o in &runs[0] { labels.push(o["label"].clone()); }
            labels.iter().map(|l| json!({"label": l, "op": "query-repeated",
                "value": runs.iter().map(|r| r.iter().find(|o| &o["label"] == l).map(|o| o["value"].clone()).unwrap_or(Value::Null)).collect::<Vec<Value>>()})).collect()
        };
        out.push(json!({"scenario": path, "id": sc["id"], "observed": observed}));
    }
    println!("{}", serde_json::to_string(&Value::Array(out)).unwrap());
    // a scan blocked in a detached thread (scan_timeout) must not keep the process alive
    std::process::exit(0);
}
