//@include prelude/strstruct_header.rs
// Unit scan_venv — property C14, second sentence ("Fixtures of installed plugins (pytest11 entry points, pytest's
// built-ins, editable installs) are found, classified …, and never listed as project symbols"), TEXT level, + C11 (no
// panic on untrusted text: entry_points.txt, *.pth, dist-info directory names), C12 (every loop terminates):
//   src/fixtures/scanner.rs  parse_pytest11_entry_points (E1), resolve_entry_point_module_to_path (E2),
//                            extract_package_name_from_dist_info (E3), find_editable_pth_source_root (E4).
//   The database-writing half (scan_single_plugin_file … scan_venv_fixtures) is unit scan_venv2, which takes the four
//   contracts proved here as //@stub callees.
//   L1: result == operational spec (prelude/scanvenv_spec.rs): op_parse_pytest11 / op_resolve_ep / op_dist_name /
//       op_pth_root (the .pth index is gone through in ITS iteration order hm_enum(idx); order-free reading: L2).
//   L2: lemma_C14_* at the end of this file (section flag == "between [pytest11] and the next header", result == the
//       accepted lines in order, completeness / soundness; module file / package / namespace package / bounded / rejections /
//       :attr; dist-info name split; .pth order-free reading; facts about what is NOT found).
//   C11: `name_version[i + 1..]`, `&name_version[..idx]`, `rest[1..]` are @wrapexpr_opt helpers that REQUIRE char
//       boundaries inside the text (proved from the char_indices / strip_prefix contracts and lemma_dash_next: '-' is
//       one byte); a changed slice expression is judged raw against vstd's own `str` index precondition.
//   C12: the three `for` loops with `continue` are `loop`s (T12) with explicit `decreases`; the others are `for` loops
//       over finite iterators.
//   assumed: prelude/scanvenv_str.rs (T1..T10: str::lines / split_once / strip_suffix / strip_prefix / split(char) /
//       char_indices / is_ascii_digit / Option::or_else / Option::is_some_and), prelude/scanvenv_fs.rs (V1..V6: &str as
//       path, PathBuf::push, with_extension, is_dir, is_absolute, PathBuf::from; H1: iteration order hm_enum of the real
//       std HashMap + axiom_pth_enum), prelude/strstruct_prims*.rs (P0..P16), prelude/scansel_shims.rs (canonicalize,
//       read_to_string, unwrap_or …), path.rs / path_ext.rs; the @wrapexpr helpers below: vp_normalize
//       (`replace(['-','.'],"_").to_lowercase()` = norm_v, uninterpreted), vp_fmt_* (four `format!` calls = concatenation),
//       vp_has_ctl (`bytes().any(..)` = has_ctl_v, uninterpreted), vp_tail_starts_with_digit / vp_name_prefix /
//       vp_rest_digit (str slicing, P13 convention).
//   `#[verifier::spinoff_prover]` on every extracted function: each gets its own Z3 (the outcome must not depend on
//       what was verified before it in the same solver session).
use std::sync::atomic::Ordering;
verus! {
global size_of usize == 8;  // A6: 64-bit target
pub mod pre {
use super::*;
//@include prelude/path.rs
//@include prelude/path_ext.rs
//@include prelude/types.rs
//@include prelude/dashmap.rs
//@include prelude/hashset.rs
//@include prelude/hashmap.rs
//@include prelude/atomic.rs
//@include prelude/glob.rs
//@include prelude/scansel_shims.rs
//@include prelude/strstruct_prims.rs
//@include prelude/strstruct_prims2.rs
//@include prelude/scanvenv_str.rs
//@include prelude/scanvenv_fs.rs
//@include prelude/scanvenv_spec.rs
#[verifier::external_type_specification] pub struct ExUndeclaredFixture(UndeclaredFixture);
} // mod pre
use pre::*;

broadcast use {axiom_path_as_path, axiom_pathbuf_ref_as_path, lemma_fits, axiom_ts_n, axiom_te_n, axiom_pat_str, axiom_pat_char,
    axiom_split_def, lemma_sv_step, axiom_str_path, axiom_refstr_path, axiom_plain_pv, axiom_push_refstr, axiom_os_str, lemma_ci_k,
    axiom_pat_string_ref, axiom_from_str, lemma_pairs_step};

//@item src/fixtures/scanner.rs struct Pytest11EntryPoint
spec fn ep_v(e: Pytest11EntryPoint) -> EpV { EpV { name: e.name@, module: e.module_path@ } }
spec fn eps_v(s: Seq<Pytest11EntryPoint>) -> Seq<EpV> { s.map_values(|e: Pytest11EntryPoint| ep_v(e)) }

//@dbstruct site_packages_paths editable_install_roots workspace_root plugin_fixture_files
//@item src/fixtures/mod.rs struct EditableInstall

impl FixtureDatabase {

#[verifier::spinoff_prover]
/*@ extract src/fixtures/scanner.rs parse_pytest11_entry_points
@tags C14 C11 C12
@ret r
@replace 1 `let mut results = Vec::new();` => `let mut results: Vec<Pytest11EntryPoint> = Vec::new();`
@sig
    ensures eps_v(r@) == op_parse_pytest11(content@),
@before for 1
    let ghost ls = lines_v(content@);
    let ghost mut i: int = 0;
    proof { assert(eps_v(results@) =~= Seq::<EpV>::empty()); }
@forloop 1 it
    proof { assert(i == ls.len()); }
@loop 1
    invariant 0 <= i <= ls.len(), ls == lines_v(content@), sv(it.remaining()) =~= ls.skip(i), it.obeys_prophetic_iter_laws(),
        (in_pytest11_section, eps_v(results@)) == pp_fold(ls, i),
    ensures i == ls.len(),
    decreases ls.len() - i
@loopstart 1
    let ghost r0 = results@;
    proof { assert(ls.skip(i).drop_first() =~= ls.skip(i + 1)); assert(line@ == ls[i]); i = i + 1; }
@after push 1
    proof {
        lemma_find_k(line@, ch('='));
        assert(eps_v(results@) =~= eps_v(r0).push(entry_of(line@)->0));
    }
@*/

#[verifier::spinoff_prover]
/*@ extract src/fixtures/scanner.rs resolve_entry_point_module_to_path
@tags C14 C11 C12
@ret r
@rename split vp_split_c
@closure any:1 |p: &&str| -> (b: bool) ensures b == bad_part((**p)@)
@closure 2 |candidate: &Path| -> (o: Option<PathBuf>) ensures opt_pbv(o) == bounded_v(pv(site_packages), pv(candidate))
@replace 1 `-> Option<PathBuf>` => ``
@loopvar 1 itp
@sig
    ensures opt_pbv(r) == op_resolve_ep(pv(site_packages), module_path@),
@start
    let ghost m0 = module_path@;
    let ghost base = pv(site_packages);
    proof { lemma_split_def_first(m0, ':'); }
@after parts 1
    proof { assert(sv(parts@) == ep_parts(m0)); lemma_split_def_first(ep_module(m0), '.'); }
@return 2
    assert(any_bad_part(sv(parts@))) by {
        let rem = parts@.as_ref();
        let j = choose|j: int| 0 <= j < rem.len() && bad_part((**rem[j])@);
        assert(sv(parts@)[j] == (**rem[j])@);
    }
@before to_path_buf 1
    proof {
        assert forall|i: int| 0 <= i < parts@.len() implies !bad_part(#[trigger] sv(parts@)[i]) by {
            let y = parts@.as_ref()[i];
            assert(sv(parts@)[i] == (**y)@);
        }
    }
@loop 1
    invariant itp.seq() == parts@.as_ref(), base == pv(site_packages),
        pbv(&path) == push_all(base, sv(parts@), itp.index@ as int),
@*/

#[verifier::spinoff_prover]
/*@ extract src/fixtures/scanner.rs extract_package_name_from_dist_info
@tags C14 C11 C12
@ret r
@closure or_else:1 || -> (o: Option<&str>) ensures osv(o) == strip_suffix_v(dir_name@, st(egg_info_sfx()))
@closure find:1 |p: &(usize, char)| -> (b: bool) requires ci_ok(name_version@, *p) ensures b == dash_digit_at(name_version@, ci_k(name_version@, *p))
@closurelet find:1 let i = p.0; let c = p.1; proof { if c == '-' { lemma_dash_next(name_version@, ci_k(name_version@, *p)); } }
@wrapexpr_opt 1 `name_version[i + 1..].starts_with(|c: char| c.is_ascii_digit())` => `Self::vp_tail_starts_with_digit(name_version, i)` with fn vp_tail_starts_with_digit(name_version: &str, i: usize) -> (r: bool) requires i + 1 <= blen(name_version@), is_bnd(name_version@, i + 1) ensures r == (cidx(name_version@, i + 1) < name_version@.len() && is_digit(name_version@[cidx(name_version@, i + 1)]))
@wrapexpr_opt 1 `&name_version[..idx]` => `Self::vp_name_prefix(name_version, idx)` with fn vp_name_prefix<'a>(name_version: &'a str, idx: usize) -> (r: &'a str) requires idx <= blen(name_version@), is_bnd(name_version@, idx as int) ensures r@ == name_version@.take(cidx(name_version@, idx as int))
@wrapexpr 1 `name.replace(['-', '.'], "_").to_lowercase()` => `Self::vp_normalize(name)` with fn vp_normalize(name: &str) -> (r: String) ensures r@ == norm_v(name@)
@sig
    ensures (match r { Some(t) => Some((t.0@, t.1@)), None => None::<(Seq<char>, Seq<char>)> }) == op_dist_name(dir_name@),
@after name_version 1
    let ghost nv = name_version@;
    proof { assert(Some(nv) == name_version_of(dir_name@)); lemma_fits(name_version); }
@before idx 2
    proof {
        assert(exists|j: int| #![trigger ci_seq(nv)[j]] ci_seq(nv)[j].0 == idx && dd_found(nv, j, idx as int));
        let j = choose|j: int| dd_found(nv, j, idx as int);
        lemma_dd_found(nv, j, idx as int);
    }
@before name_version -1
    proof { assert(dd_none(nv)); lemma_dd_none(nv); }
@*/

#[verifier::spinoff_prover]
/*@ extract src/fixtures/scanner.rs find_editable_pth_source_root
@tags C14 C11 C12
@ret r
@wrapexpr 1 `format!("__editable__.{}", normalized_name)` => `Self::vp_fmt_editable_norm(normalized_name)` with fn vp_fmt_editable_norm(normalized_name: &str) -> (r: String) ensures r@ == editable_pfx() + normalized_name@
@wrapexpr 1 `format!("_{}", normalized_name)` => `Self::vp_fmt_underscore_norm(normalized_name)` with fn vp_fmt_underscore_norm(normalized_name: &str) -> (r: String) ensures r@ == underscore() + normalized_name@
@wrapexpr 1 `format!("__editable__.{}", raw_name)` => `Self::vp_fmt_editable_raw(raw_name)` with fn vp_fmt_editable_raw(raw_name: &str) -> (r: String) ensures r@ == editable_pfx() + raw_name@
@wrapexpr 1 `format!("_{}", raw_name)` => `Self::vp_fmt_underscore_raw(raw_name)` with fn vp_fmt_underscore_raw(raw_name: &str) -> (r: String) ensures r@ == underscore() + raw_name@
@derefcmp stem c
@closure any:1 |c: &String| -> (b: bool) ensures b == stem_matches(stem@, c@)
@closure is_some_and:1 |rest: &str| -> (b: bool) ensures b == dash_digit_at(rest@, 0)
@closurelet is_some_and:1 proof { if rest@.len() > 0 && rest@[0] == '-' { lemma_dash_next(rest@, 0); lemma_boff_ends(rest@); } }
@wrapexpr_opt 1 `rest[1..].starts_with(|ch: char| ch.is_ascii_digit())` => `Self::vp_rest_digit(rest)` with fn vp_rest_digit(rest: &str) -> (r: bool) requires 1 <= blen(rest@), is_bnd(rest@, 1) ensures r == (cidx(rest@, 1) < rest@.len() && is_digit(rest@[cidx(rest@, 1)]))
@wrapexpr 1 `line.bytes().any(|b| b < 0x20 && b != b'\t')` => `Self::vp_has_ctl(line)` with fn vp_has_ctl(line: &str) -> (r: bool) ensures r == has_ctl_v(line@)
@sig
    ensures opt_pbv(r) == op_pth_root(pv(site_packages), pth_index, raw_name@, normalized_name@),
@before for 1
    let ghost sp = pv(site_packages);
    let ghost cands = strs_v(candidates@);
    let ghost e = pairs_v(hm_enum(pth_index));
    let ghost mut i: int = 0;
    proof { reveal(pth_cands); assert(cands =~= pth_cands(raw_name@, normalized_name@)); }
@forloop 1 it
    proof { assert(i == e.len()); lemma_pth_first_unfold(sp, cands, e, i); }
@loop 1
    invariant 0 <= i <= e.len(), e == pairs_v(hm_enum(pth_index)), pairs_v(it.remaining()) =~= e.skip(i), it.obeys_prophetic_iter_laws(),
        sp == pv(site_packages), cands == strs_v(candidates@), cands == pth_cands(raw_name@, normalized_name@),
        pth_first(sp, cands, e, 0) == pth_first(sp, cands, e, i),
    ensures i == e.len(), pth_first(sp, cands, e, 0) is None,
    decreases e.len() - i
@loopstart 1
    proof { assert(e.skip(i).drop_first() =~= e.skip(i + 1)); assert(e[i] == (stem@, pbv(pth_path))); i = i + 1; }
    proof { lemma_pth_first_unfold(sp, cands, e, i - 1); }
@after matches 1
    proof {
        if matches {
            let rem = candidates@.as_ref();
            let q = choose|q: int| 0 <= q < rem.len() && stem_matches(stem@, (*rem[q])@);
            assert(cands[q] == (*rem[q])@);
        } else {
            assert forall|q: int| 0 <= q < cands.len() implies !stem_matches(stem@, #[trigger] cands[q]) by {
                let y = candidates@.as_ref()[q];
                assert(cands[q] == (*y)@);
            }
        }
        assert(matches == stem_matches_any(cands, stem@));
    }
@before for 2
    let ghost ls = lines_v(content@);
    let ghost mut j: int = 0;
@forloop 2 it2
    proof { assert(j == ls.len()); lemma_pth_lines_unfold(sp, ls, j); }
@loop 2
    invariant 0 <= j <= ls.len(), ls == lines_v(content@), sv(it2.remaining()) =~= ls.skip(j), it2.obeys_prophetic_iter_laws(),
        sp == pv(site_packages), 0 < i <= e.len(), cands == pth_cands(raw_name@, normalized_name@), e == pairs_v(hm_enum(pth_index)),
        pth_first(sp, cands, e, 0) == (match pth_lines_root(sp, ls, 0) { Some(p) => Some(p), None => pth_first(sp, cands, e, i) }),
        pth_lines_root(sp, ls, 0) == pth_lines_root(sp, ls, j),
    ensures j == ls.len(), pth_lines_root(sp, ls, 0) is None,
    decreases ls.len() - j
@loopstart 2
    proof { assert(ls.skip(j).drop_first() =~= ls.skip(j + 1)); assert(line@ == ls[j]); j = j + 1; }
    let ghost t = trim_v(ls[j - 1]);
    proof { lemma_pth_lines_unfold(sp, ls, j - 1); }
@*/

// ---- exec vacuity canaries: the same real bodies with the REAL contracts and injected `assert(false)`; each must FAIL
#[verifier::spinoff_prover]
/*@ extract src/fixtures/scanner.rs resolve_entry_point_module_to_path
@tags C14
@as canary_exec_resolve
@ret r
@rename split vp_split_c
@closure any:1 |p: &&str| -> (b: bool) ensures b == bad_part((**p)@)
@closure 2 |candidate: &Path| -> (o: Option<PathBuf>) ensures opt_pbv(o) == bounded_v(pv(site_packages), pv(candidate))
@replace 1 `-> Option<PathBuf>` => ``
@loopvar 1 itp
@sig
    ensures opt_pbv(r) == op_resolve_ep(pv(site_packages), module_path@),
@start
    let ghost m0 = module_path@;
    let ghost base = pv(site_packages);
    proof { lemma_split_def_first(m0, ':'); }
@after parts 1
    proof { assert(sv(parts@) == ep_parts(m0)); lemma_split_def_first(ep_module(m0), '.'); }
@return 2
    assert(any_bad_part(sv(parts@))) by {
        let rem = parts@.as_ref();
        let j = choose|j: int| 0 <= j < rem.len() && bad_part((**rem[j])@);
        assert(sv(parts@)[j] == (**rem[j])@);
    }
@before to_path_buf 1
    proof {
        assert forall|i: int| 0 <= i < parts@.len() implies !bad_part(#[trigger] sv(parts@)[i]) by {
            let y = parts@.as_ref()[i];
            assert(sv(parts@)[i] == (**y)@);
        }
    }
@loop 1
    invariant itp.seq() == parts@.as_ref(), base == pv(site_packages),
        pbv(&path) == push_all(base, sv(parts@), itp.index@ as int),
@return 3
    assert(false);
@return 4
    assert(false);
@return tail
    assert(false);
@*/

#[verifier::spinoff_prover]
/*@ extract src/fixtures/scanner.rs find_editable_pth_source_root
@tags C14
@as canary_exec_pth_root
@ret r
@wrapexpr 1 `format!("__editable__.{}", normalized_name)` => `Self::vp_fmt_editable_norm_c(normalized_name)` with fn vp_fmt_editable_norm_c(normalized_name: &str) -> (r: String) ensures r@ == editable_pfx() + normalized_name@
@wrapexpr 1 `format!("_{}", normalized_name)` => `Self::vp_fmt_underscore_norm_c(normalized_name)` with fn vp_fmt_underscore_norm_c(normalized_name: &str) -> (r: String) ensures r@ == underscore() + normalized_name@
@wrapexpr 1 `format!("__editable__.{}", raw_name)` => `Self::vp_fmt_editable_raw_c(raw_name)` with fn vp_fmt_editable_raw_c(raw_name: &str) -> (r: String) ensures r@ == editable_pfx() + raw_name@
@wrapexpr 1 `format!("_{}", raw_name)` => `Self::vp_fmt_underscore_raw_c(raw_name)` with fn vp_fmt_underscore_raw_c(raw_name: &str) -> (r: String) ensures r@ == underscore() + raw_name@
@derefcmp stem c
@closure any:1 |c: &String| -> (b: bool) ensures b == stem_matches(stem@, c@)
@closure is_some_and:1 |rest: &str| -> (b: bool) ensures b == dash_digit_at(rest@, 0)
@closurelet is_some_and:1 proof { if rest@.len() > 0 && rest@[0] == '-' { lemma_dash_next(rest@, 0); lemma_boff_ends(rest@); } }
@wrapexpr_opt 1 `rest[1..].starts_with(|ch: char| ch.is_ascii_digit())` => `Self::vp_rest_digit_c(rest)` with fn vp_rest_digit_c(rest: &str) -> (r: bool) requires 1 <= blen(rest@), is_bnd(rest@, 1) ensures r == (cidx(rest@, 1) < rest@.len() && is_digit(rest@[cidx(rest@, 1)]))
@wrapexpr 1 `line.bytes().any(|b| b < 0x20 && b != b'\t')` => `Self::vp_has_ctl_c(line)` with fn vp_has_ctl_c(line: &str) -> (r: bool) ensures r == has_ctl_v(line@)
@sig
    ensures opt_pbv(r) == op_pth_root(pv(site_packages), pth_index, raw_name@, normalized_name@),
@before for 1
    let ghost sp = pv(site_packages);
    let ghost cands = strs_v(candidates@);
    let ghost e = pairs_v(hm_enum(pth_index));
    let ghost mut i: int = 0;
    proof { reveal(pth_cands); assert(cands =~= pth_cands(raw_name@, normalized_name@)); }
@forloop 1 it
    proof { assert(i == e.len()); lemma_pth_first_unfold(sp, cands, e, i); }
@loop 1
    invariant 0 <= i <= e.len(), e == pairs_v(hm_enum(pth_index)), pairs_v(it.remaining()) =~= e.skip(i), it.obeys_prophetic_iter_laws(),
        sp == pv(site_packages), cands == strs_v(candidates@), cands == pth_cands(raw_name@, normalized_name@),
        pth_first(sp, cands, e, 0) == pth_first(sp, cands, e, i),
    ensures i == e.len(), pth_first(sp, cands, e, 0) is None,
    decreases e.len() - i
@loopstart 1
    proof { assert(e.skip(i).drop_first() =~= e.skip(i + 1)); assert(e[i] == (stem@, pbv(pth_path))); i = i + 1; }
    proof { lemma_pth_first_unfold(sp, cands, e, i - 1); }
@after matches 1
    proof {
        if matches {
            let rem = candidates@.as_ref();
            let q = choose|q: int| 0 <= q < rem.len() && stem_matches(stem@, (*rem[q])@);
            assert(cands[q] == (*rem[q])@);
        } else {
            assert forall|q: int| 0 <= q < cands.len() implies !stem_matches(stem@, #[trigger] cands[q]) by {
                let y = candidates@.as_ref()[q];
                assert(cands[q] == (*y)@);
            }
        }
        assert(matches == stem_matches_any(cands, stem@));
    }
@before for 2
    let ghost ls = lines_v(content@);
    let ghost mut j: int = 0;
@forloop 2 it2
    proof { assert(j == ls.len()); lemma_pth_lines_unfold(sp, ls, j); }
@loop 2
    invariant 0 <= j <= ls.len(), ls == lines_v(content@), sv(it2.remaining()) =~= ls.skip(j), it2.obeys_prophetic_iter_laws(),
        sp == pv(site_packages), 0 < i <= e.len(), cands == pth_cands(raw_name@, normalized_name@), e == pairs_v(hm_enum(pth_index)),
        pth_first(sp, cands, e, 0) == (match pth_lines_root(sp, ls, 0) { Some(p) => Some(p), None => pth_first(sp, cands, e, i) }),
        pth_lines_root(sp, ls, 0) == pth_lines_root(sp, ls, j),
    ensures j == ls.len(), pth_lines_root(sp, ls, 0) is None,
    decreases ls.len() - j
@loopstart 2
    proof { assert(ls.skip(j).drop_first() =~= ls.skip(j + 1)); assert(line@ == ls[j]); j = j + 1; }
    let ghost t = trim_v(ls[j - 1]);
    proof { lemma_pth_lines_unfold(sp, ls, j - 1); }
@return 1
    assert(false);
@*/

}

// =====================================================================================================================
// L2 — property C14, second sentence, text level.  Every lemma is PROVED from the operational specs of prelude/scanvenv_spec.rs.

// ---- (E1) entry_points.txt: "the entries `name = module[:attr]` of the lines between the `[pytest11]` header and the next
// `[section]` header, comments / blank lines skipped, in order"
/// line k lies in the pytest11 section: some earlier line is (trimmed) exactly `[pytest11]` and no header line lies between
pub open spec fn in_section(ls: Seq<Seq<char>>, k: int) -> bool {
    exists|h: int| 0 <= h < k && #[trigger] trim_v(ls[h]) == pytest11_header() && forall|j: int| h < j < k ==> !is_header(#[trigger] trim_v(ls[j]))
}
/// line k contributes an entry
pub open spec fn accepted(ls: Seq<Seq<char>>, k: int) -> bool {
    in_section(ls, k) && !is_header(trim_v(ls[k])) && is_entry_candidate(trim_v(ls[k])) && entry_of(trim_v(ls[k])) is Some
}
/// the entries of the accepted lines among the first n, in line order
pub open spec fn collect(ls: Seq<Seq<char>>, n: int) -> Seq<EpV>
    decreases n
{
    if n <= 0 { Seq::empty() } else if accepted(ls, n - 1) { collect(ls, n - 1).push(entry_of(trim_v(ls[n - 1]))->0) } else { collect(ls, n - 1) }
}
proof fn lemma_header_is_header()
    ensures is_header(pytest11_header()),
{
    reveal_strlit("[pytest11]");
}
//@tags C14
/// the parser's section flag is exactly "the line lies between `[pytest11]` and the next header"
pub proof fn lemma_C14_section_flag(ls: Seq<Seq<char>>, k: int)
    requires 0 <= k <= ls.len(),
    ensures pp_fold(ls, k).0 == in_section(ls, k),
    decreases k,
{
    lemma_header_is_header();
    if k > 0 {
        lemma_C14_section_flag(ls, k - 1);
        let t = trim_v(ls[k - 1]);
        if is_header(t) {
            if t == pytest11_header() {
                assert(in_section(ls, k)) by { let h = k - 1; assert(trim_v(ls[h]) == pytest11_header()); }
            } else if in_section(ls, k) {
                let h = choose|h: int| 0 <= h < k && #[trigger] trim_v(ls[h]) == pytest11_header() && forall|j: int| h < j < k ==> !is_header(#[trigger] trim_v(ls[j]));
                if h < k - 1 { assert(!is_header(trim_v(ls[k - 1]))); }
            }
        } else {
            if in_section(ls, k - 1) {
                let h = choose|h: int| 0 <= h < k - 1 && #[trigger] trim_v(ls[h]) == pytest11_header() && forall|j: int| h < j < k - 1 ==> !is_header(#[trigger] trim_v(ls[j]));
                assert(forall|j: int| h < j < k ==> !is_header(#[trigger] trim_v(ls[j])));
                assert(trim_v(ls[h]) == pytest11_header());
            }
            if in_section(ls, k) {
                let h = choose|h: int| 0 <= h < k && #[trigger] trim_v(ls[h]) == pytest11_header() && forall|j: int| h < j < k ==> !is_header(#[trigger] trim_v(ls[j]));
                assert(h < k - 1);
                assert(trim_v(ls[h]) == pytest11_header());
            }
        }
    }
}
//@tags C14
/// (E1) the result is, in order, exactly the entries of the accepted lines
pub proof fn lemma_C14_parse_is_collect(ls: Seq<Seq<char>>, n: int)
    requires 0 <= n <= ls.len(),
    ensures pp_fold(ls, n).1 == collect(ls, n),
    decreases n,
{
    if n > 0 {
        lemma_C14_parse_is_collect(ls, n - 1);
        lemma_C14_section_flag(ls, n - 1);
    }
}
//@tags C14
/// completeness: the entry of every accepted line is in the result
pub proof fn lemma_C14_every_entry_found(content: Seq<char>, k: int)
    requires 0 <= k < lines_v(content).len(), accepted(lines_v(content), k),
    ensures op_parse_pytest11(content).contains(entry_of(trim_v(lines_v(content)[k]))->0),
{
    let ls = lines_v(content);
    lemma_C14_parse_is_collect(ls, ls.len() as int);
    lemma_collect_contains(ls, ls.len() as int, k);
}
proof fn lemma_collect_contains(ls: Seq<Seq<char>>, n: int, k: int)
    requires 0 <= k < n, accepted(ls, k),
    ensures collect(ls, n).contains(entry_of(trim_v(ls[k]))->0),
    decreases n,
{
    let e = entry_of(trim_v(ls[k]))->0;
    if k == n - 1 {
        assert(collect(ls, n).last() == e);
    } else {
        lemma_collect_contains(ls, n - 1, k);
        let i = choose|i: int| 0 <= i < collect(ls, n - 1).len() && #[trigger] collect(ls, n - 1)[i] == e;
        assert(collect(ls, n)[i] == e);
    }
}
//@tags C14
/// soundness: every entry of the result comes from an accepted line (nothing outside the section, no comment, no header)
pub proof fn lemma_C14_only_section_entries(ls: Seq<Seq<char>>, n: int, i: int)
    requires 0 <= n <= ls.len(), 0 <= i < collect(ls, n).len(),
    ensures exists|k: int| 0 <= k < n && accepted(ls, k) && collect(ls, n)[i] == entry_of(#[trigger] trim_v(ls[k]))->0,
    decreases n,
{
    if n > 0 {
        if accepted(ls, n - 1) && i == collect(ls, n - 1).len() {
            assert(collect(ls, n)[i] == entry_of(trim_v(ls[n - 1]))->0);
        } else {
            lemma_C14_only_section_entries(ls, n - 1, i);
            let k = choose|k: int| 0 <= k < n - 1 && accepted(ls, k) && collect(ls, n - 1)[i] == entry_of(#[trigger] trim_v(ls[k]))->0;
            assert(collect(ls, n)[i] == entry_of(trim_v(ls[k]))->0);
        }
    }
}
//@tags C14
/// NOT found (fact): a header spelled with inner spaces, `[ pytest11 ]`, is a header but not THE header: its lines are skipped
pub proof fn lemma_C14_fact_spaced_header_not_recognised(ls: Seq<Seq<char>>)
    requires ls.len() == 2, trim_v(ls[0]) == "[ pytest11 ]"@, !is_header(trim_v(ls[1])),
    ensures pp_fold(ls, 2).1.len() == 0,
{
    reveal_strlit("[ pytest11 ]"); reveal_strlit("[pytest11]");
    assert(is_header(trim_v(ls[0])));
    assert(trim_v(ls[0]).len() == 12 && pytest11_header().len() == 10);
    assert(pp_fold(ls, 1) == pp_step(pp_fold(ls, 0), ls[0]));
    assert(pp_fold(ls, 2) == pp_step(pp_fold(ls, 1), ls[1]));
}

// ---- (E2) module -> file -------------------------------------------------------------------------------------------------
/// a module text of plain dotted names: every component is a plain, dot-free path name that the code does not reject
pub open spec fn plain_parts(parts: Seq<Seq<char>>) -> bool {
    parts.len() > 0 && forall|i: int| 0 <= i < parts.len() ==> plain_name(#[trigger] parts[i]) && !parts[i].contains('.') && !bad_part(parts[i])
}
proof fn lemma_push_all_plain(base: PV, parts: Seq<Seq<char>>, n: int)
    requires 0 <= n <= parts.len(), forall|i: int| 0 <= i < parts.len() ==> plain_name(#[trigger] parts[i]),
    ensures push_all(base, parts, n) == base + parts.take(n),
    decreases n,
{
    if n > 0 {
        lemma_push_all_plain(base, parts, n - 1);
        let p = parts[n - 1];
        assert(plain_name(p));
        assert(!str_is_abs(p)) by { if str_is_abs(p) { assert(p[0] == '/'); assert(p.contains('/')); } }
        axiom_plain_pv(p);
        assert(base + parts.take(n - 1) + seq![p] =~= base + parts.take(n));
    } else {
        assert(base + parts.take(0) =~= base);
    }
}
/// the `.py` candidate of plain parts: `<base>/<a>/…/<last>.py`
pub open spec fn py_candidate(base: PV, parts: Seq<Seq<char>>) -> PV { base + parts.drop_last() + seq![parts.last() + seq!['.'] + "py"@] }
pub open spec fn init_candidate(base: PV, parts: Seq<Seq<char>>) -> PV { base + parts + seq![init_py()] }
proof fn lemma_candidates(base: PV, m: Seq<char>)
    requires plain_parts(ep_parts(m)),
    ensures !any_bad_part(ep_parts(m)), ep_dir(base, m) == base + ep_parts(m),
        with_ext_v(ep_dir(base, m), "py"@) == py_candidate(base, ep_parts(m)),
        ep_dir(base, m) + str_pv(init_py()) == init_candidate(base, ep_parts(m)),
{
    let parts = ep_parts(m);
    lemma_push_all_plain(base, parts, parts.len() as int);
    assert(parts.take(parts.len() as int) =~= parts);
    let dir = base + parts;
    assert(dir.last() == parts.last());
    reveal_strlit("py");
    axiom_with_ext_plain(dir, "py"@);
    assert(dir.drop_last() =~= base + parts.drop_last());
    assert(dir.drop_last().push(dir.last() + seq!['.'] + "py"@) =~= py_candidate(base, parts));
    reveal_strlit("__init__.py"); reveal_strlit("."); reveal_strlit("..");
    assert(plain_name(init_py())) by {
        assert(init_py().len() == 11);
        assert(!init_py().contains('/')) by {
            if init_py().contains('/') { let j = choose|j: int| 0 <= j < init_py().len() && init_py()[j] == '/'; assert(false); }
        }
    }
    axiom_plain_pv(init_py());
}
//@tags C14
/// a module `a.b` whose file `<base>/a/b.py` exists resolves to the canonical form of that file (when it lies under the
/// canonical base); the `.py` file wins over a package directory of the same name
pub proof fn lemma_C14_module_file_resolves(base: PV, m: Seq<char>)
    requires plain_parts(ep_parts(m)), fs_exists(py_candidate(base, ep_parts(m))),
    ensures op_resolve_ep(base, m) == bounded_v(base, py_candidate(base, ep_parts(m))),
{
    lemma_candidates(base, m);
}
//@tags C14
/// a package `a.b` (`<base>/a/b/__init__.py`, no `<base>/a/b.py`) resolves to its `__init__.py`
pub proof fn lemma_C14_package_resolves(base: PV, m: Seq<char>)
    requires plain_parts(ep_parts(m)), !fs_exists(py_candidate(base, ep_parts(m))),
        fs_is_dir(base + ep_parts(m)), fs_exists(init_candidate(base, ep_parts(m))),
    ensures op_resolve_ep(base, m) == bounded_v(base, init_candidate(base, ep_parts(m))),
{
    lemma_candidates(base, m);
}
//@tags C14
/// NOT found (fact): a namespace package (directory without `__init__.py`, no `.py` file of that name) does not resolve
pub proof fn lemma_C14_fact_namespace_package_not_resolved(base: PV, m: Seq<char>)
    requires plain_parts(ep_parts(m)), !fs_exists(py_candidate(base, ep_parts(m))), !fs_exists(init_candidate(base, ep_parts(m))),
    ensures op_resolve_ep(base, m) is None,
{
    lemma_candidates(base, m);
}
//@tags C14
/// NOT found (fact): the module text is everything before the first ':' taken VERBATIM — it is not trimmed and an
/// `[extras]` suffix is not removed.  `foo = pytest_foo [cov]` and `foo = pytest_foo : obj` look for the file
/// `pytest_foo [cov].py` / `pytest_foo .py`; importlib.metadata reads both as module `pytest_foo`
pub proof fn lemma_C14_fact_module_text_taken_verbatim(base: PV, m: Seq<char>)
    requires !m.contains(':'), !m.contains('.'), plain_name(m), !bad_part(m),
        !fs_exists(base.push(m + seq!['.'] + "py"@)), !fs_exists(base.push(m).push(init_py())),
    ensures op_resolve_ep(base, m) is None,
{
    lemma_split_def_none(m, ':');
    lemma_split_def_none(m, '.');
    assert(ep_parts(m) == seq![m]);
    assert(seq![m].drop_last() =~= Seq::<Seq<char>>::empty());
    assert(py_candidate(base, seq![m]) =~= base.push(m + seq!['.'] + "py"@));
    assert(init_candidate(base, seq![m]) =~= base.push(m).push(init_py()));
    lemma_C14_fact_namespace_package_not_resolved(base, m);
}
//@tags C14 C11
/// whatever resolves lies (canonically) under the canonical base directory: path traversal cannot leave it
pub proof fn lemma_C14_resolved_is_bounded(base: PV, m: Seq<char>)
    requires op_resolve_ep(base, m) is Some,
    ensures fs_canonical(base) is Some, pv_is_prefix(fs_canonical(base)->0, op_resolve_ep(base, m)->0),
{}
//@tags C14 C11
/// rejections: an empty component (`a..b`, leading / trailing dot, empty text) and a NUL byte give None
pub proof fn lemma_C14_rejects_bad_component(base: PV, m: Seq<char>, i: int)
    requires 0 <= i < ep_parts(m).len(), ep_parts(m)[i].len() == 0 || ep_parts(m)[i].contains('\0'),
    ensures op_resolve_ep(base, m) is None,
{
    let p = ep_parts(m)[i];
    if p.len() > 0 {
        lemma_find_k(p, ch('\0'));
        let j = choose|j: int| 0 <= j < p.len() && p[j] == '\0';
        assert(occurs_at(p, ch('\0'), j));
    }
    assert(bad_part(ep_parts(m)[i]));
}
//@tags C14
/// the `:attr` suffix is dropped before resolution
pub proof fn lemma_C14_attr_suffix_ignored(base: PV, m: Seq<char>, attr: Seq<char>)
    requires !m.contains(':'),
    ensures op_resolve_ep(base, m + seq![':'] + attr) == op_resolve_ep(base, m),
{
    lemma_split_def_cons(m, ':', attr);
    lemma_split_def_none(m, ':');
    assert(ep_module(m + seq![':'] + attr) == m);
    assert(ep_module(m) == m);
}

// ---- (E3) dist-info names ---------------------------------------------------------------------------------------------------
//@tags C14
/// `<name>-<version>.dist-info` with a version that starts with a digit and a name without `-<digit>`: the raw name is
/// <name> (the split is at the FIRST `-<digit>`, so hyphens inside the name are kept)
pub proof fn lemma_C14_dist_name(name: Seq<char>, version: Seq<char>)
    requires version.len() > 0, is_digit(version[0]), forall|k: int| !dash_digit_at(name, k),
    ensures raw_name_of(name + seq!['-'] + version) == name,
{
    let nv = name + seq!['-'] + version;
    lemma_first_dash_digit(nv, 0);
    let n = name.len() as int;
    assert(dash_digit_at(nv, n));
    assert forall|j: int| 0 <= j < n implies !dash_digit_at(nv, j) by {
        if dash_digit_at(nv, j) {
            if j + 1 < n { assert(dash_digit_at(name, j)); } else { assert(nv[j + 1] == '-'); }
        }
    }
    assert(first_dash_digit(nv, 0) == Some(n));
    assert(nv.take(n) =~= name);
}
//@tags C14
/// fact: a name that itself contains `-<digit>` is cut there (`foo-2bar-1.0` gives `foo`)
pub proof fn lemma_C14_fact_dist_name_cut_at_first_dash_digit(nv: Seq<char>, k: int)
    requires dash_digit_at(nv, k), forall|j: int| 0 <= j < k ==> !dash_digit_at(nv, j),
    ensures raw_name_of(nv) == nv.take(k),
{
    lemma_first_dash_digit(nv, 0);
}

// ---- (E4) .pth files, order-free reading ---------------------------------------------------------------------------------------
proof fn lemma_pth_first(sp: PV, cands: Seq<Seq<char>>, e: Seq<(Seq<char>, PV)>, k: int)
    requires 0 <= k <= e.len(),
    ensures match pth_first(sp, cands, e, k) {
        Some(p) => exists|i: int| k <= i < e.len() && pth_file_root(sp, cands, (#[trigger] e[i]).0, e[i].1) == Some(p),
        None => forall|i: int| k <= i < e.len() ==> pth_file_root(sp, cands, (#[trigger] e[i]).0, e[i].1) is None },
    decreases e.len() - k,
{
    lemma_pth_first_unfold(sp, cands, e, k);
    if k < e.len() {
        if pth_file_root(sp, cands, e[k].0, e[k].1) is None { lemma_pth_first(sp, cands, e, k + 1); }
    }
}
//@tags C14
/// whatever the hash order of the index: a returned root is the root some matching `.pth` entry of the index contributes,
/// and None is returned only if NO entry contributes one
pub proof fn lemma_C14_pth_root_order_free(sp: PV, idx: &PthIndex, raw: Seq<char>, norm: Seq<char>)
    ensures match op_pth_root(sp, idx, raw, norm) {
        Some(p) => exists|stem: Seq<char>| #[trigger] hmv(idx).contains_key(stem) && pth_file_root(sp, pth_cands(raw, norm), stem, hmv(idx)[stem]) == Some(p),
        None => forall|stem: Seq<char>| #[trigger] hmv(idx).contains_key(stem) ==> pth_file_root(sp, pth_cands(raw, norm), stem, hmv(idx)[stem]) is None },
{
    let e = pairs_v(hm_enum(idx));
    let cands = pth_cands(raw, norm);
    axiom_pth_enum(idx);
    lemma_pth_first(sp, cands, e, 0);
    match op_pth_root(sp, idx, raw, norm) {
        Some(p) => {
            let i = choose|i: int| 0 <= i < e.len() && pth_file_root(sp, cands, (#[trigger] e[i]).0, e[i].1) == Some(p);
            assert(hmv(idx).contains_key(e[i].0));
        },
        None => {
            assert forall|stem: Seq<char>| #[trigger] hmv(idx).contains_key(stem) implies pth_file_root(sp, cands, stem, hmv(idx)[stem]) is None by {
                let i = choose|i: int| 0 <= i < e.len() && (#[trigger] e[i]).0 == stem;
                assert(pth_file_root(sp, cands, e[i].0, e[i].1) is None);
            }
        },
    }
}
//@tags C14
/// NOT found (fact): a `.pth` file all of whose lines are blank, comments or `import …` lines (the import-hook style
/// of PEP 660 editable installs) yields no source root
pub proof fn lemma_C14_fact_import_hook_pth_has_no_root(sp: PV, ls: Seq<Seq<char>>, k: int)
    requires 0 <= k <= ls.len(), forall|j: int| 0 <= j < ls.len() ==> line_skipped(#[trigger] trim_v(ls[j])),
    ensures pth_lines_root(sp, ls, k) is None,
    decreases ls.len() - k,
{
    lemma_pth_lines_unfold(sp, ls, k);
    if k < ls.len() { assert(line_skipped(trim_v(ls[k]))); lemma_C14_fact_import_hook_pth_has_no_root(sp, ls, k + 1); }
}

// ---- vacuity guards: each of these must FAIL ----------------------------------------------------------------------------------
/// every line is an entry
proof fn canary_parse_everything_is_entry(ls: Seq<Seq<char>>) requires ls.len() == 1 ensures pp_fold(ls, 1).1.len() == 1 {}
/// the section never ends (entries after the next header are still taken)
proof fn canary_section_never_ends(ls: Seq<Seq<char>>, k: int)
    requires 0 <= k < ls.len(), exists|h: int| 0 <= h < k && trim_v(ls[h]) == pytest11_header()
    ensures in_section(ls, k) {}
/// everything resolves
proof fn canary_everything_resolves(base: PV, m: Seq<char>) ensures op_resolve_ep(base, m) is Some {}
/// the package `__init__.py` wins over the module file
proof fn canary_init_before_module(base: PV, m: Seq<char>)
    requires plain_parts(ep_parts(m)), fs_exists(py_candidate(base, ep_parts(m))), fs_is_dir(base + ep_parts(m)), fs_exists(init_candidate(base, ep_parts(m))),
    ensures op_resolve_ep(base, m) == bounded_v(base, init_candidate(base, ep_parts(m)))
{ lemma_candidates(base, m); }
/// a result outside the base directory
proof fn canary_unbounded_result(base: PV, m: Seq<char>, p: PV)
    requires op_resolve_ep(base, m) == Some(p) ensures !pv_is_prefix(fs_canonical(base)->0, p) {}
/// the name is split at the LAST dash
proof fn canary_dist_name_last_dash(nv: Seq<char>, k: int, k2: int)
    requires dash_digit_at(nv, k), dash_digit_at(nv, k2), k < k2 ensures raw_name_of(nv) == nv.take(k2) { lemma_first_dash_digit(nv, 0); }
/// every directory name is a dist-info name
proof fn canary_every_dir_is_dist_info(d: Seq<char>) ensures op_dist_name(d) is Some {}
/// every stem matches
proof fn canary_every_stem_matches(stem: Seq<char>, c: Seq<char>) ensures stem_matches(stem, c) {}
/// an `import` line is a path line
proof fn canary_import_line_is_path(sp: PV, ls: Seq<Seq<char>>)
    requires ls.len() == 1, occurs_at(trim_v(ls[0]), st("import "@), 0), line_root(sp, trim_v(ls[0])) is Some
    ensures pth_lines_root(sp, ls, 0) is Some { lemma_pth_lines_unfold(sp, ls, 0); lemma_pth_lines_unfold(sp, ls, 1); }
/// the assumed primitives are contradictory
proof fn canary_prims_inconsistent(s: &str) ensures false { lemma_fits(s); axiom_pth_enum(&arbitrary::<PthIndex>()); }

} // verus!
fn main() {}
