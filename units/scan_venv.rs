//@include prelude/strstruct_header.rs
// Unit scan_venv — property C14, second sentence (plugin discovery), + C11 (no panic), C12 (termination):
//   src/fixtures/scanner.rs  TEXT functions (this file): parse_pytest11_entry_points (E1),
//   resolve_entry_point_module_to_path (E2), extract_package_name_from_dist_info (E3),
//   find_editable_pth_source_root (E4).
use std::sync::atomic::Ordering;
verus! {
global size_of usize == 8;  // A6: 64-bit target
pub mod pre {
use super::*;
//@include prelude/path.rs
//@include prelude/path_ext.rs
//@include prelude/types.rs
//@include prelude/dashmap.rs
//@include prelude/hashset.rs
//@include prelude/hashmap.rs
//@include prelude/atomic.rs
//@include prelude/glob.rs
//@include prelude/scansel_shims.rs
//@include prelude/strstruct_prims.rs
//@include prelude/strstruct_prims2.rs
//@include prelude/scanvenv_str.rs
//@include prelude/scanvenv_fs.rs
//@include prelude/scanvenv_spec.rs
#[verifier::external_type_specification] pub struct ExUndeclaredFixture(UndeclaredFixture);
} // mod pre
use pre::*;

broadcast use {axiom_path_as_path, axiom_pathbuf_ref_as_path, lemma_fits, axiom_ts_n, axiom_te_n, axiom_pat_str, axiom_pat_char,
    axiom_split_def, lemma_sv_step, axiom_str_path, axiom_refstr_path, axiom_plain_pv, axiom_push_refstr, axiom_os_str, lemma_ci_k,
    axiom_pat_string_ref, axiom_from_str, axiom_pth_enum, lemma_pairs_step};

//@item src/fixtures/scanner.rs struct Pytest11EntryPoint
spec fn ep_v(e: Pytest11EntryPoint) -> EpV { EpV { name: e.name@, module: e.module_path@ } }
spec fn eps_v(s: Seq<Pytest11EntryPoint>) -> Seq<EpV> { s.map_values(|e: Pytest11EntryPoint| ep_v(e)) }

//@dbstruct site_packages_paths editable_install_roots workspace_root plugin_fixture_files
//@item src/fixtures/mod.rs struct EditableInstall

impl FixtureDatabase {

/*@ extract src/fixtures/scanner.rs parse_pytest11_entry_points
@tags C14 C11 C12
@ret r
@replace 1 `let mut results = Vec::new();` => `let mut results: Vec<Pytest11EntryPoint> = Vec::new();`
@sig
    ensures eps_v(r@) == op_parse_pytest11(content@),
@before for 1
    let ghost ls = lines_v(content@);
    let ghost mut i: int = 0;
    proof { assert(eps_v(results@) =~= Seq::<EpV>::empty()); }
@forloop 1 it
    proof { assert(i == ls.len()); }
@loop 1
    invariant 0 <= i <= ls.len(), ls == lines_v(content@), sv(it.remaining()) =~= ls.skip(i), it.obeys_prophetic_iter_laws(),
        (in_pytest11_section, eps_v(results@)) == pp_fold(ls, i),
    ensures i == ls.len(),
    decreases ls.len() - i
@loopstart 1
    let ghost r0 = results@;
    proof { assert(ls.skip(i).drop_first() =~= ls.skip(i + 1)); assert(line@ == ls[i]); i = i + 1; }
@after push 1
    proof {
        lemma_find_k(line@, ch('='));
        assert(eps_v(results@) =~= eps_v(r0).push(entry_of(line@)->0));
    }
@*/

/*@ extract src/fixtures/scanner.rs resolve_entry_point_module_to_path
@tags C14 C11 C12
@ret r
@rename split vp_split_c
@closure any:1 |p: &&str| -> (b: bool) ensures b == bad_part((**p)@)
@closure 2 |candidate: &Path| -> (o: Option<PathBuf>) ensures opt_pbv(o) == bounded_v(pv(site_packages), pv(candidate))
@replace 1 `-> Option<PathBuf>` => ``
@loopvar 1 itp
@sig
    ensures opt_pbv(r) == op_resolve_ep(pv(site_packages), module_path@),
@start
    let ghost m0 = module_path@;
    let ghost base = pv(site_packages);
    proof { lemma_split_def_first(m0, ':'); }
@after parts 1
    proof { assert(sv(parts@) == ep_parts(m0)); lemma_split_def_first(ep_module(m0), '.'); }
@return 2
    assert(any_bad_part(sv(parts@))) by {
        let rem = parts@.as_ref();
        let j = choose|j: int| 0 <= j < rem.len() && bad_part((**rem[j])@);
        assert(sv(parts@)[j] == (**rem[j])@);
    }
@before to_path_buf 1
    proof {
        assert forall|i: int| 0 <= i < parts@.len() implies !bad_part(#[trigger] sv(parts@)[i]) by {
            let y = parts@.as_ref()[i];
            assert(sv(parts@)[i] == (**y)@);
        }
    }
@loop 1
    invariant itp.seq() == parts@.as_ref(), base == pv(site_packages),
        pbv(&path) == push_all(base, sv(parts@), itp.index@ as int),
@*/

/*@ extract src/fixtures/scanner.rs extract_package_name_from_dist_info
@tags C14 C11 C12
@ret r
@closure or_else:1 || -> (o: Option<&str>) ensures osv(o) == strip_suffix_v(dir_name@, st(egg_info_sfx()))
@closure find:1 |p: &(usize, char)| -> (b: bool) requires ci_ok(name_version@, *p) ensures b == dash_digit_at(name_version@, ci_k(name_version@, *p))
@closurelet find:1 let i = p.0; let c = p.1; proof { if c == '-' { lemma_dash_next(name_version@, ci_k(name_version@, *p)); } }
@wrapexpr_opt 1 `name_version[i + 1..].starts_with(|c: char| c.is_ascii_digit())` => `Self::vp_tail_starts_with_digit(name_version, i)` with fn vp_tail_starts_with_digit(name_version: &str, i: usize) -> (r: bool) requires i + 1 <= blen(name_version@), is_bnd(name_version@, i + 1) ensures r == (cidx(name_version@, i + 1) < name_version@.len() && is_digit(name_version@[cidx(name_version@, i + 1)]))
@wrapexpr_opt 1 `&name_version[..idx]` => `Self::vp_name_prefix(name_version, idx)` with fn vp_name_prefix<'a>(name_version: &'a str, idx: usize) -> (r: &'a str) requires idx <= blen(name_version@), is_bnd(name_version@, idx as int) ensures r@ == name_version@.take(cidx(name_version@, idx as int))
@wrapexpr 1 `name.replace(['-', '.'], "_").to_lowercase()` => `Self::vp_normalize(name)` with fn vp_normalize(name: &str) -> (r: String) ensures r@ == norm_v(name@)
@sig
    ensures (match r { Some(t) => Some((t.0@, t.1@)), None => None::<(Seq<char>, Seq<char>)> }) == op_dist_name(dir_name@),
@after name_version 1
    let ghost nv = name_version@;
    proof { assert(Some(nv) == name_version_of(dir_name@)); lemma_fits(name_version); }
@before idx 2
    proof {
        assert(exists|j: int| #![trigger ci_seq(nv)[j]] ci_seq(nv)[j].0 == idx && dd_found(nv, j, idx as int));
        let j = choose|j: int| dd_found(nv, j, idx as int);
        lemma_dd_found(nv, j, idx as int);
    }
@before name_version 5
    proof { assert(dd_none(nv)); lemma_dd_none(nv); }
@*/

/*@ extract src/fixtures/scanner.rs find_editable_pth_source_root
@tags C14 C11 C12
@ret r
@wrapexpr 1 `format!("__editable__.{}", normalized_name)` => `Self::vp_fmt_editable_norm(normalized_name)` with fn vp_fmt_editable_norm(normalized_name: &str) -> (r: String) ensures r@ == editable_pfx() + normalized_name@
@wrapexpr 1 `format!("_{}", normalized_name)` => `Self::vp_fmt_underscore_norm(normalized_name)` with fn vp_fmt_underscore_norm(normalized_name: &str) -> (r: String) ensures r@ == underscore() + normalized_name@
@wrapexpr 1 `format!("__editable__.{}", raw_name)` => `Self::vp_fmt_editable_raw(raw_name)` with fn vp_fmt_editable_raw(raw_name: &str) -> (r: String) ensures r@ == editable_pfx() + raw_name@
@wrapexpr 1 `format!("_{}", raw_name)` => `Self::vp_fmt_underscore_raw(raw_name)` with fn vp_fmt_underscore_raw(raw_name: &str) -> (r: String) ensures r@ == underscore() + raw_name@
@derefcmp stem c
@closure any:1 |c: &String| -> (b: bool) ensures b == stem_matches(stem@, c@)
@closure is_some_and:1 |rest: &str| -> (b: bool) ensures b == dash_digit_at(rest@, 0)
@closurelet is_some_and:1 proof { if rest@.len() > 0 && rest@[0] == '-' { lemma_dash_next(rest@, 0); lemma_boff_ends(rest@); } }
@wrapexpr_opt 1 `rest[1..].starts_with(|ch: char| ch.is_ascii_digit())` => `Self::vp_rest_digit(rest)` with fn vp_rest_digit(rest: &str) -> (r: bool) requires 1 <= blen(rest@), is_bnd(rest@, 1) ensures r == (cidx(rest@, 1) < rest@.len() && is_digit(rest@[cidx(rest@, 1)]))
@wrapexpr 1 `line.bytes().any(|b| b < 0x20 && b != b'\t')` => `Self::vp_has_ctl(line)` with fn vp_has_ctl(line: &str) -> (r: bool) ensures r == has_ctl_v(line@)
@sig
    ensures opt_pbv(r) == op_pth_root(pv(site_packages), pth_index, raw_name@, normalized_name@),
@before for 1
    let ghost sp = pv(site_packages);
    let ghost cands = strs_v(candidates@);
    let ghost e = pairs_v(hm_enum(pth_index));
    let ghost mut i: int = 0;
    proof { assert(cands =~= pth_cands(raw_name@, normalized_name@)); }
@forloop 1 it
    proof { assert(i == e.len()); }
@loop 1
    invariant 0 <= i <= e.len(), e == pairs_v(hm_enum(pth_index)), pairs_v(it.remaining()) =~= e.skip(i), it.obeys_prophetic_iter_laws(),
        sp == pv(site_packages), cands == strs_v(candidates@), cands == pth_cands(raw_name@, normalized_name@),
        pth_first(sp, cands, e, 0) == pth_first(sp, cands, e, i),
    ensures i == e.len(),
    decreases e.len() - i
@loopstart 1
    proof { assert(e.skip(i).drop_first() =~= e.skip(i + 1)); assert(e[i] == (stem@, pbv(pth_path))); i = i + 1; }
@after matches 1
    proof {
        if matches {
            let rem = candidates@.as_ref();
            let q = choose|q: int| 0 <= q < rem.len() && stem_matches(stem@, (*rem[q])@);
            assert(cands[q] == (*rem[q])@);
        } else {
            assert forall|q: int| 0 <= q < cands.len() implies !stem_matches(stem@, #[trigger] cands[q]) by {
                let y = candidates@.as_ref()[q];
                assert(cands[q] == (*y)@);
            }
        }
        assert(matches == stem_matches_any(cands, stem@));
    }
@before for 2
    let ghost ls = lines_v(content@);
    let ghost mut j: int = 0;
@forloop 2 it2
    proof { assert(j == ls.len()); }
@loop 2
    invariant 0 <= j <= ls.len(), ls == lines_v(content@), sv(it2.remaining()) =~= ls.skip(j), it2.obeys_prophetic_iter_laws(),
        sp == pv(site_packages), 0 < i <= e.len(), cands == pth_cands(raw_name@, normalized_name@), e == pairs_v(hm_enum(pth_index)),
        pth_first(sp, cands, e, 0) == (match pth_lines_root(sp, ls, 0) { Some(p) => Some(p), None => pth_first(sp, cands, e, i) }),
        pth_lines_root(sp, ls, 0) == pth_lines_root(sp, ls, j),
    ensures j == ls.len(),
    decreases ls.len() - j
@loopstart 2
    proof { assert(ls.skip(j).drop_first() =~= ls.skip(j + 1)); assert(line@ == ls[j]); j = j + 1; }
@*/

}

proof fn canary_parse_everything_is_entry(ls: Seq<Seq<char>>) requires ls.len() == 1 ensures pp_fold(ls, 1).1.len() == 1 {}

} // verus!
fn main() {}
