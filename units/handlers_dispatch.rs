//@include prelude/header.rs
// Unit handlers_dispatch: the request FORWARDERS of src/main.rs `impl LanguageServer for Backend` (the glue between
// tower-lsp's trait methods and the handlers of src/providers/*.rs): goto_definition, goto_implementation, hover, references,
// completion, code_action, document_symbol, symbol, code_lens, inlay_hint, prepare_call_hierarchy, incoming_calls,
// outgoing_calls, and the notification `initialized`.  Real async bodies, read sequentially (T13 @stripasync).
//   L1 (per forwarder): forwarded(old, new, HCall::X(params), r, old.h_x(params)) - the result IS what handler X returns for
//       the SAME params on the SAME server value, handler X ran exactly once and nothing else did (history variable
//       `trace`), every real field of the server is untouched.  `symbol`: the result is flat_of(handler result) (Flat
//       wrapping, `?` passes the error on).  `initialized`: exactly one log_message(INFO, "pytest-language-server
//       initialized"), no handler call, nothing else changes.
//       The handlers are stand-ins with the real signatures and one DISTINCT uninterpreted result function each
//       (prelude/dispatch_backend.rs): a forwarder wired to another handler, passing other params, calling twice, not
//       calling, or replacing the result cannot meet its postcondition.
//   L2: lemma_C05_* below (any finite sequence of requests runs, in order, each feature's own handler on ONE database).
//   C11: the bodies contain no panicking operation (Verus: no unwrap / index / arithmetic obligation arises; `?` only
//       propagates).  C12: the bodies contain no loop and no recursion (a loop without a decreases clause is rejected).
use ls_types::*;
use ls_types::request::{GotoImplementationParams, GotoImplementationResponse};
verus! {
global size_of usize == 8;  // A6: 64-bit target
pub mod pre {
use super::*;
//@include build/lspspec_dispatch.rs
} // mod pre
use pre::*;

//@include prelude/dispatch_backend.rs

/// L1 contract shape of a forwarder: result == the handler's result for these params on the old server value; exactly that
/// one handler call was recorded; the server state is the same
pub open spec fn forwarded<R>(o: Backend, n: Backend, call: HCall, r: R, handler_result: R) -> bool {
    r == handler_result && called(o, n, call)
}
/// L1 contract of `initialized`
pub open spec fn initialized_post(o: Backend, n: Backend) -> bool {
    &&& n.client.effects() == o.client.effects().push(LogEv { typ: mt_info(), text: "pytest-language-server initialized"@ })
    &&& n.trace@ == o.trace@
    &&& same_but_client(n, o)
}

pub mod handlers {
use super::*;
use jsonrpc::Result;
impl Backend {
/*@ extract src/main.rs initialized
@tags C05 C11 C12
@stripasync
@recv mut
@wildparam _params
@replace 1 `MessageType::INFO` => `vp_mt_info()`
@sig
    ensures initialized_post(*old(self), *final(self)),
@*/

/*@ extract src/main.rs goto_definition
@tags C05 C11 C12
@stripasync
@recv mut
@ret r
@sig
    ensures forwarded(*old(self), *final(self), HCall::GotoDefinition(params), r, old(self).h_goto_definition(params)),
@*/

/*@ extract src/main.rs goto_implementation
@tags C05 C11 C12
@stripasync
@recv mut
@ret r
@sig
    ensures forwarded(*old(self), *final(self), HCall::GotoImplementation(params), r, old(self).h_goto_implementation(params)),
@*/

/*@ extract src/main.rs hover
@tags C05 C11 C12
@stripasync
@recv mut
@ret r
@sig
    ensures forwarded(*old(self), *final(self), HCall::Hover(params), r, old(self).h_hover(params)),
@*/

/*@ extract src/main.rs references
@tags C05 C11 C12
@stripasync
@recv mut
@ret r
@sig
    ensures forwarded(*old(self), *final(self), HCall::References(params), r, old(self).h_references(params)),
@*/

/*@ extract src/main.rs completion
@tags C05 C11 C12
@stripasync
@recv mut
@ret r
@sig
    ensures forwarded(*old(self), *final(self), HCall::Completion(params), r, old(self).h_completion(params)),
@*/

/*@ extract src/main.rs code_action
@tags C05 C11 C12
@stripasync
@recv mut
@ret r
@sig
    ensures forwarded(*old(self), *final(self), HCall::CodeAction(params), r, old(self).h_code_action(params)),
@*/

/*@ extract src/main.rs document_symbol
@tags C05 C11 C12
@stripasync
@recv mut
@ret r
@sig
    ensures forwarded(*old(self), *final(self), HCall::DocumentSymbol(params), r, old(self).h_document_symbol(params)),
@*/

/*@ extract src/main.rs code_lens
@tags C05 C11 C12
@stripasync
@recv mut
@ret r
@sig
    ensures forwarded(*old(self), *final(self), HCall::CodeLens(params), r, old(self).h_code_lens(params)),
@*/

/*@ extract src/main.rs inlay_hint
@tags C05 C11 C12
@stripasync
@recv mut
@ret r
@sig
    ensures forwarded(*old(self), *final(self), HCall::InlayHint(params), r, old(self).h_inlay_hint(params)),
@*/

/*@ extract src/main.rs prepare_call_hierarchy
@tags C05 C11 C12
@stripasync
@recv mut
@ret r
@sig
    ensures forwarded(*old(self), *final(self), HCall::PrepareCallHierarchy(params), r, old(self).h_prepare_call_hierarchy(params)),
@*/

/*@ extract src/main.rs incoming_calls
@tags C05 C11 C12
@stripasync
@recv mut
@ret r
@sig
    ensures forwarded(*old(self), *final(self), HCall::IncomingCalls(params), r, old(self).h_incoming_calls(params)),
@*/

/*@ extract src/main.rs outgoing_calls
@tags C05 C11 C12
@stripasync
@recv mut
@ret r
@sig
    ensures forwarded(*old(self), *final(self), HCall::OutgoingCalls(params), r, old(self).h_outgoing_calls(params)),
@*/

/*@ extract src/main.rs symbol
@tags C05 C11 C12
@stripasync
@recv mut
@ret r
@replace 1 `result.map(WorkspaceSymbolResponse::Flat)` => `result.map(|v: Vec<SymbolInformation>| -> (w: WorkspaceSymbolResponse) ensures w == WorkspaceSymbolResponse::Flat(v) { WorkspaceSymbolResponse::Flat(v) })`
@sig
    ensures forwarded(*old(self), *final(self), HCall::WorkspaceSymbol(params), r, flat_of(old(self).h_workspace_symbol(params))),
@*/

// ---- exec vacuity guards (each must FAIL): the real bodies under deliberately wrong contracts
/*@ extract src/main.rs goto_implementation
@as canary_exec_implementation_is_definition
@stripasync
@recv mut
@ret r
@sig
    ensures r == old(self).h_goto_definition(params),
@*/
/*@ extract src/main.rs goto_implementation
@as canary_exec_implementation_calls_definition_handler
@stripasync
@recv mut
@ret r
@sig
    ensures called(*old(self), *final(self), HCall::GotoDefinition(params)),
@*/
/*@ extract src/main.rs references
@as canary_exec_references_calls_nothing
@stripasync
@recv mut
@ret r
@sig
    ensures final(self).trace@ == old(self).trace@,
@*/
/*@ extract src/main.rs hover
@as canary_exec_hover_answers_none
@stripasync
@recv mut
@ret r
@sig
    ensures r == Ok::<Option<Hover>, jsonrpc::Error>(None),
@*/
/*@ extract src/main.rs symbol
@as canary_exec_symbol_never_fails
@stripasync
@recv mut
@ret r
@replace 1 `result.map(WorkspaceSymbolResponse::Flat)` => `result.map(|v: Vec<SymbolInformation>| -> (w: WorkspaceSymbolResponse) ensures w == WorkspaceSymbolResponse::Flat(v) { WorkspaceSymbolResponse::Flat(v) })`
@sig
    ensures r is Ok,
@*/
/*@ extract src/main.rs initialized
@as canary_exec_initialized_is_silent
@stripasync
@recv mut
@wildparam _params
@replace 1 `MessageType::INFO` => `vp_mt_info()`
@sig
    ensures final(self).client.effects() == old(self).client.effects(),
@*/
/*@ extract src/main.rs outgoing_calls
@as canary_exec_glue_contract_vacuous
@stripasync
@recv mut
@ret r
@sig
    ensures false,
@*/
}
} // mod handlers

// ---- L2 -----------------------------------------------------------------------------------------------------------------
/// a finite run of requests: states b[0..=n], the i-th request was served by handler call calls[i]
pub open spec fn run_of(b: Seq<Backend>, calls: Seq<HCall>) -> bool {
    b.len() == calls.len() + 1 && forall|i: int| 0 <= i < calls.len() ==> #[trigger] called(b[i], b[i + 1], calls[i])
}
//@tags C05
/// every forwarder's postcondition is a `called` step for ITS OWN handler (the HCall variant named in its contract)
pub proof fn lemma_C05_forwarded_is_a_step<R>(o: Backend, n: Backend, call: HCall, r: R, h: R)
    requires forwarded(o, n, call, r, h)
    ensures called(o, n, call), r == h, n.fixture_db == o.fixture_db, n.client.effects() == o.client.effects()
{}
//@tags C05
/// C05 — over any finite sequence of requests served by the forwarders: all of them ran on ONE database (the Arc the server
/// was created with is never replaced), the handler calls recorded are exactly the requests' own handlers, in order, nothing
/// else; no forwarder talks to the editor or touches workspace root / config / URI cache / scan task
pub proof fn lemma_C05_all_features_one_database(b: Seq<Backend>, calls: Seq<HCall>)
    requires run_of(b, calls)
    ensures
        forall|i: int| 0 <= i < b.len() ==> (#[trigger] b[i]).fixture_db == b[0].fixture_db,
        forall|i: int| 0 <= i < b.len() ==> same_state(#[trigger] b[i], b[0]),
        b.last().trace@ == b[0].trace@ + calls,
    decreases calls.len()
{
    if calls.len() == 0 {
        assert(b[0].trace@ + calls =~= b[0].trace@);
    } else {
        let n = calls.len() as int;
        let b1 = b.drop_last();
        let c1 = calls.drop_last();
        assert(run_of(b1, c1)) by {
            assert forall|i: int| 0 <= i < c1.len() implies #[trigger] called(b1[i], b1[i + 1], c1[i]) by {
                assert(called(b[i], b[i + 1], calls[i]));
            }
        }
        lemma_C05_all_features_one_database(b1, c1);
        assert(called(b[n - 1], b[n], calls[n - 1]));
        assert(b1.last() == b[n - 1]);
        assert(b1[n - 1].fixture_db == b[0].fixture_db);
        assert(same_state(b1[n - 1], b[0]));
        assert forall|i: int| 0 <= i < b.len() implies (#[trigger] b[i]).fixture_db == b[0].fixture_db && same_state(b[i], b[0]) by {
            if i < n { assert(b1[i] == b[i]); }
        }
        assert(b.last().trace@ =~= b[0].trace@ + calls) by {
            assert(calls =~= c1.push(calls[n - 1]));
        }
    }
}
//@tags C05
/// the handler call records of different features are different values: the history tells WHICH handler served a request
pub proof fn lemma_C05_each_feature_has_its_own_handler(p: GotoDefinitionParams, q: HoverParams, w: WorkspaceSymbolParams)
    ensures HCall::GotoDefinition(p) != HCall::GotoImplementation(p),
        HCall::Hover(q) != HCall::GotoDefinition(p),
        HCall::WorkspaceSymbol(w) != HCall::Hover(q),
{}
//@tags C05
/// `symbol` answers with the FLAT list of the workspace-symbol handler and passes its error on
pub proof fn lemma_C05_symbol_is_flat(h: jsonrpc::Result<Option<Vec<SymbolInformation>>>)
    ensures flat_of(h) is Err <==> h is Err,
        (flat_of(h) is Ok && flat_of(h)->Ok_0 is None) <==> (h is Ok && h->Ok_0 is None),
        forall|v: Vec<SymbolInformation>| h == Ok::<Option<Vec<SymbolInformation>>, jsonrpc::Error>(Some(v))
            ==> flat_of(h) == Ok::<Option<WorkspaceSymbolResponse>, jsonrpc::Error>(Some(WorkspaceSymbolResponse::Flat(v))),
{}
//@tags C05
/// `initialized` is not a request: no handler runs, the database is the same, one message goes to the editor
pub proof fn lemma_C05_initialized_leaves_the_database(o: Backend, n: Backend)
    requires initialized_post(o, n)
    ensures n.fixture_db == o.fixture_db, n.trace@ == o.trace@, n.client.effects().len() == o.client.effects().len() + 1
{}

// ---- vacuity guards: each must FAIL
/// "the definition and the implementation handler are the same function"
proof fn canary_handlers_coincide(b: Backend, p: GotoDefinitionParams)
    ensures b.h_goto_definition(p) == b.h_goto_implementation(p)
{}
/// "a handler call leaves the history unchanged" (the stand-in contracts would be contradictory)
proof fn canary_called_is_contradictory(o: Backend, n: Backend, c: HCall)
    requires called(o, n, c)
    ensures false
{}
/// "a run can replace the database"
proof fn canary_run_changes_database(b: Seq<Backend>, calls: Seq<HCall>)
    requires run_of(b, calls), calls.len() > 0
    ensures b.last().fixture_db != b[0].fixture_db
{}
/// "the history does not tell the handlers apart"
proof fn canary_calls_indistinguishable(p: GotoDefinitionParams)
    ensures HCall::GotoDefinition(p) == HCall::GotoImplementation(p)
{}

} // verus!
fn main() {}
