//@include prelude/header.rs
// Unit constructors_refs (companion of unit constructors): the state `FixtureDatabase::new()` returns satisfies the input
// hypotheses of the reference / CLI units -- unique_at_line (prelude/refs_spec.rs), mirror and names_wf
// (prelude/cli_l2.rs), total_usages <= usize::MAX (prelude/cli_spec.rs), scanned_ok (unit cli_main) -- and of the
// resolution units -- wf_names (prelude/avail_spec.rs, prelude/mismatch_spec.rs).
// WHY A SEPARATE UNIT: cli_spec.rs needs prelude/option_ext.rs, the analyze vocabulary of unit constructors needs
// prelude/iter_slice.rs, and both files carry `assume_specification[Option::is_some_and]` ("duplicate specification" in one
// crate).  The contract of `new` is NOT restated: it is `//@stub constructors new`, textually the @sig PROVED on the real
// body in units/constructors.rs; the exec function below calls it, so every lemma is applied to what `new` really returns.
verus! {
global size_of usize == 8;  // A6: 64-bit target
pub mod pre {
use super::*;
//@include prelude/path.rs
//@include prelude/types.rs
//@include prelude/dashmap.rs
//@include prelude/hashset.rs
//@include prelude/hashmap.rs
//@include prelude/option_ext.rs
//@include prelude/atomic.rs
//@include prelude/dbview.rs
//@include prelude/hof.rs
//@include prelude/resolve_spec.rs
//@include prelude/text.rs
//@include prelude/refs_spec.rs
//@include prelude/resolve_l2.rs
//@include prelude/cli_spec.rs
//@include prelude/cli_l2.rs
//@include prelude/mismatch_spec.rs
//@include build/astspec.rs
#[verifier::external_type_specification] #[verifier::reject_recursive_types(R)] pub struct ExMod<R>(rustpython_parser::ast::Mod<R>);
#[verifier::external_type_specification] #[verifier::reject_recursive_types(R)] pub struct ExModModule<R>(rustpython_parser::ast::ModModule<R>);
#[verifier::external_type_specification] #[verifier::reject_recursive_types(R)] pub struct ExModInteractive<R>(rustpython_parser::ast::ModInteractive<R>);
#[verifier::external_type_specification] #[verifier::reject_recursive_types(R)] pub struct ExModExpression<R>(rustpython_parser::ast::ModExpression<R>);
#[verifier::external_type_specification] #[verifier::reject_recursive_types(R)] pub struct ExModFunctionType<R>(rustpython_parser::ast::ModFunctionType<R>);
#[verifier::external_type_specification] #[verifier::reject_recursive_types(R)] pub struct ExTypeIgnore<R>(rustpython_parser::ast::TypeIgnore<R>);
#[verifier::external_type_specification] #[verifier::reject_recursive_types(R)] pub struct ExTypeIgnoreTypeIgnore<R>(rustpython_parser::ast::TypeIgnoreTypeIgnore<R>);
} // mod pre
use pre::*;

#[verifier::external_type_specification] pub struct ExUndeclaredFixture(UndeclaredFixture);
#[verifier::external_type_specification] pub struct ExFixtureCycle(FixtureCycle);

//@item src/fixtures/mod.rs struct EditableInstall
// ALL 18 fields of src/fixtures/mod.rs, as in unit constructors
//@dbstruct_arc definitions file_definitions usages usage_by_fixture file_cache undeclared_fixtures imports canonical_path_cache line_index_cache ast_cache definitions_version cycle_cache available_fixtures_cache imported_fixtures_cache site_packages_paths editable_install_roots workspace_root plugin_fixture_files

//@include prelude/ctor_spec.rs
//@include prelude/ctor_refs_l2.rs

// NOT included: prelude/avail_spec.rs (wf_names of unit available) needs prelude/sort.rs, whose `assume_specification[String::cmp]`
// duplicates the one of prelude/option_ext.rs (needed by cli_spec.rs).  Its wf_names is text-identical to the wf_names of
// prelude/mismatch_spec.rs (proved below) and of prelude/history_spec.rs (proved in unit constructors).

impl FixtureDatabase {
//@stub constructors new

    //@tags C06 C19 C20
    /// CHECKED against the contract proved for the real `new` (the stub above): the database it returns satisfies every
    /// input hypothesis of the reference / CLI / resolution units
    pub fn check_new_satisfies_reference_hypotheses() -> (r: FixtureDatabase)
        ensures unique_at_line(r.defs()), mirror(r.uses(), r.byfix()), names_wf(r.defs()), scanned_ok(r),
            total_usages(r.uses()) == 0, wf_names(r.defs()),
    {
        let r = FixtureDatabase::new();
        proof {
            lemma_new_satisfies_unique_at_line(r);
            lemma_new_satisfies_mirror(r);
            lemma_new_satisfies_names_wf(r);
            lemma_new_satisfies_scanned_ok(r);
            lemma_new_satisfies_wf_names(r);
        }
        r
    }
    /// exec canary (must FAIL): the fresh database already records a usage
    pub fn canary_exec_new_has_usages() -> (r: FixtureDatabase)
        ensures total_usages(r.uses()) > 0,
    {
        let r = FixtureDatabase::new();
        proof { lemma_new_satisfies_scanned_ok(r); }
        r
    }
}

} // verus!
fn main() {}
