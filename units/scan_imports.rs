//@include prelude/header.rs
// Unit scan_imports — C14 (discovery + plugin-status part), C12 (termination of the worklist), C11 (no panic):
//   FixtureDatabase::scan_imported_fixture_modules (src/fixtures/scanner.rs), extracted verbatim.
// (text of the function as of /repo commits 415c9c5, 402a101, e159908: already_cached work set, un-processing of modules
//  marked after they were examined, analyze_file instead of _fresh for discovered modules that have index entries)
// L1: the real function proves `exists h: Hist. hist_post(old, final, h)` — h is the ghost history of the run
//     (prelude/scanimp_spec.rs): per examined file the state of its LAST examination (Snap), per new plugin mark its
//     reason (Mark), per queued module where it came from (Src), and the analyses in execution order (AStep).
//       post_frame (F)  constants untouched; plugin_fixture_files only GAINS the keys of h.why; the index is the replay of
//                       the analyses h.tr over an abstract step function; file_cache changes by these analyses only
//       post_P     (P)  every new mark comes from a star import / pytest_plugins entry of a file that WAS a plugin file
//                       when it was examined; every such edge of such a file leads to a plugin file; every examined file
//                       that ends up a plugin file was last examined AS a plugin file (=> transitive closure, L2)
//       post_D     (D)  the start set (is_initial) is examined; EVERY import target of an examined file is examined (cached
//                       or not); an examined file was cached at the start / analysed / missing / unreadable; only
//                       start-set files and import targets are examined
//       post_R     (R)  first the analyses of discovered modules (not cached when their turn came, text read from disk;
//                       analyze_file iff the index had definitions/usages entries for the module, else analyze_file_fresh),
//                       then analyze_file for exactly the readable modules that were cached when they were marked, each
//                       once, with all marks of the run in place
//     (T) every loop has a `decreases` Verus discharges; outer loop: scan_measure = 2*|U \ plugin files| + |U \ processed|
//         (a mark may un-process one file: -2 +1) drops in every iteration that does not `break`.
//     C11: `lock().unwrap()` (VpLock: never poisoned), `iteration += 1` on i32 (bounded by 3*|scan_universe()| < 2^31).
// L2 (end of this file): lemma_C14_* from the property texts; proof canaries; one exec canary (@as) with five injected
//     `assert(false)` (V1-V5) that must all fail (assumed callee contracts are not contradictory in their contexts).
// ASSUMED (external_body / axioms), besides the shims of the prelude:
//   * callee stubs below: get_canonical_path (function `canon`, idempotent), get_file_content (content_of), get_parsed_ast,
//     get_line_index, extract_fixture_imports (imports_of), extract_pytest_plugins (plugins_of) — as unit imports_closure;
//     resolve_module_to_file (resolve + FINITE-UNIVERSE assumption: canonicalised results lie in scan_universe());
//     analyze_file / analyze_file_fresh: hand-written FRAME stubs (an_step / cache_next), see there;
//   * prelude/scanimp_spec.rs: axiom_content_of (get_file_content = cached text else disk; proved in unit memo), fs_read,
//     is_conftest_or_test_name, scan_universe; prelude/scanimp_shims.rs: `for x in &HashSet`, FromIterator for HashSet, vp_chain (T5 wrapper of Iterator::chain);
//   * @wrapexpr helpers: vp_is_conftest_or_test (OsStr file-name test), vp_read_to_string (std::fs::read_to_string);
//   * VpLock (Mutex::lock never poisoned, no thread model).
// NOT assumed: prelude/scanimp_iter.rs (completeness of filter/map/collect) is PROVED from vstd's iterator specs.
use rustpython_parser::ast::{Stmt, Expr};
verus! {
global size_of usize == 8;  // A6: 64-bit target
pub mod pre {
use super::*;
//@include prelude/path.rs
//@include prelude/path_ext.rs
//@include prelude/types.rs
//@include prelude/dashmap.rs
//@include prelude/hashset.rs
//@include prelude/hashset_ext.rs
//@include prelude/scanimp_shims.rs
//@include prelude/atomic.rs
//@include prelude/dbview.rs
//@include prelude/arc.rs
//@include prelude/iter_ext.rs
//@include prelude/scanimp_iter.rs
//@include build/astspec.rs
#[verifier::external_type_specification] #[verifier::reject_recursive_types(R)] pub struct ExMod<R>(rustpython_parser::ast::Mod<R>);
#[verifier::external_type_specification] #[verifier::reject_recursive_types(R)] pub struct ExModModule<R>(rustpython_parser::ast::ModModule<R>);
#[verifier::external_type_specification] #[verifier::reject_recursive_types(R)] pub struct ExModInteractive<R>(rustpython_parser::ast::ModInteractive<R>);
#[verifier::external_type_specification] #[verifier::reject_recursive_types(R)] pub struct ExModExpression<R>(rustpython_parser::ast::ModExpression<R>);
#[verifier::external_type_specification] #[verifier::reject_recursive_types(R)] pub struct ExModFunctionType<R>(rustpython_parser::ast::ModFunctionType<R>);
#[verifier::external_type_specification] #[verifier::reject_recursive_types(R)] pub struct ExTypeIgnore<R>(rustpython_parser::ast::TypeIgnore<R>);
#[verifier::external_type_specification] #[verifier::reject_recursive_types(R)] pub struct ExTypeIgnoreTypeIgnore<R>(rustpython_parser::ast::TypeIgnoreTypeIgnore<R>);
#[verifier::external_type_specification] #[verifier::external_body] pub struct ExIoError(std::io::Error);
#[verifier::external_type_specification] pub struct ExUndeclaredFixture(UndeclaredFixture);
//@include prelude/imports_spec.rs
//@include prelude/scanimp_spec.rs
} // mod pre
use pre::*;

pub mod sc_ax {
    use super::*;
    // (P4') a `&PathBuf` argument passed as `AsRef<Path>` denotes its own components
    pub broadcast axiom fn axiom_pathbuf_ref_as_path<'a>(p: &'a PathBuf)
        ensures #[trigger] as_path_view::<&'a PathBuf>(p) == pbv(p);
}
pub use sc_ax::*;
broadcast use {axiom_path_as_path, axiom_pathbuf_ref_as_path, axiom_content_of,
    vstd::std_specs::iter::filter_postcondition, vstd::std_specs::iter::map_postcondition, lemma_take_filter_index_is_filter, lemma_filter_complete, lemma_filter_map_complete};

//@item src/fixtures/imports.rs struct FixtureImport
spec fn imp_v(i: &FixtureImport) -> ImpV {
    ImpV { module: i.module_path@, star: i.is_star_import, names: strs_v(i.imported_names@) }
}
spec fn imps_v(s: Seq<FixtureImport>) -> Seq<ImpV> { s.map_values(|i: FixtureImport| imp_v(&i)) }

//@item src/fixtures/mod.rs struct EditableInstall

/// sequential stand-in for std::sync::Mutex::lock on the Mutex-wrapped fields (T6 strips `Mutex<..>` from the field
/// type): lock() hands out the protected value, never poisoned.  No thread model (DESIGN §2).  Same as unit classify.
#[derive(Debug)]
pub struct PoisonNever { _p: () }
pub trait VpLock: Sized { fn lock(&self) -> (r: Result<&Self, PoisonNever>) ensures r is Ok, r->Ok_0 == self; }
impl VpLock for Vec<EditableInstall> {
    #[verifier::external_body]
    fn lock(&self) -> (r: Result<&Self, PoisonNever>) { Ok(self) }
}
impl VpLock for Vec<PathBuf> {
    #[verifier::external_body]
    fn lock(&self) -> (r: Result<&Self, PoisonNever>) { Ok(self) }
}

//@dbstruct_arc definitions file_definitions usages usage_by_fixture undeclared_fixtures imports definitions_version file_cache site_packages_paths editable_install_roots workspace_root plugin_fixture_files


// ---- the part of the database analyze_file* writes (besides file_cache), as one value
pub struct Idx {
    pub definitions: DashMap<String, Vec<FixtureDefinition>>,
    pub file_definitions: DashMap<PathBuf, HashSet<String>>,
    pub usages: DashMap<PathBuf, Vec<FixtureUsage>>,
    pub usage_by_fixture: DashMap<String, Vec<(PathBuf, FixtureUsage)>>,
    pub undeclared_fixtures: DashMap<PathBuf, Vec<UndeclaredFixture>>,
    pub imports: DashMap<PathBuf, HashSet<String>>,
    pub definitions_version: AtomicU64,
}
/// the fields the scan only reads
pub struct Consts { pub sp: Vec<PathBuf>, pub er: Vec<EditableInstall>, pub ws: Option<PathBuf> }
/// the effect of one analysis (analyze_file_internal) on the index: an abstract function of what it reads.  Its
/// content is the subject of units analyze / visit / index_maint; here only WHICH analyses run, in which order, on
/// which text and with which plugin marks matters.
pub uninterp spec fn an_step(idx: Idx, k: Consts, cache: Map<PV, Arc<String>>, plugins: Set<PV>, f: PV, text: Seq<char>, cleanup: bool) -> Idx;
pub open spec fn replay(i0: Idx, k: Consts, tr: Seq<AStep>) -> Idx
    decreases tr.len()
{
    if tr.len() == 0 { i0 } else {
        an_step(replay(i0, k, tr.drop_last()), k, tr.last().cache, tr.last().plugins, tr.last().f, tr.last().text, tr.last().cleanup)
    }
}
pub proof fn lemma_replay_push(i0: Idx, k: Consts, tr: Seq<AStep>, s: AStep)
    ensures replay(i0, k, tr.push(s)) == an_step(replay(i0, k, tr), k, s.cache, s.plugins, s.f, s.text, s.cleanup)
{ assert(tr.push(s).drop_last() =~= tr); }
pub open spec fn entry_key_fn<'a>() -> spec_fn(RefMulti<'a, PathBuf, Arc<String>>) -> PV { |e: RefMulti<'a, PathBuf, Arc<String>>| pbv(e.k) }
pub open spec fn roots(s: Seq<EditableInstall>) -> Seq<PV> { s.map_values(|e: EditableInstall| pbv(&e.source_root)) }
pub open spec fn set_of(s: Seq<PathBuf>) -> Set<PV> { pbvs(s).to_set() }

/// a queued module: `src[m].by` is an examined file one of whose imports resolved to m while file_cache was src[m].cache
pub open spec fn src_ok(snap: Map<PV, Snap>, src: Map<PV, Src>, m: PV) -> bool {
    src.contains_key(m) && snap.contains_key(src[m].by) && any_edge(env_of(src[m].cache), src[m].by, m) && canon(m) == m
}
/// the index already has entries for the file (what the analysis loop tests before choosing analyze_file / _fresh)
pub open spec fn has_entries(idx: Idx, m: PV) -> bool {
    idx.file_definitions.m().contains_key(m) || idx.usages.m().contains_key(m)
}
/// every discovery analysis cleans up exactly when the index had entries for the file at that moment
#[verifier::opaque]
pub open spec fn cleanup_ok(i0: Idx, k: Consts, tr: Seq<AStep>, n: int) -> bool {
    forall|i: int| 0 <= i < n && i < tr.len() ==> (#[trigger] tr[i]).cleanup == has_entries(replay(i0, k, tr.take(i)), tr[i].f)
}
pub proof fn lemma_cleanup_push(i0: Idx, k: Consts, tr: Seq<AStep>, s: AStep)
    requires cleanup_ok(i0, k, tr, tr.len() as int), s.cleanup == has_entries(replay(i0, k, tr), s.f)
    ensures cleanup_ok(i0, k, tr.push(s), (tr.len() + 1) as int)
{
    reveal(cleanup_ok);
    let t2 = tr.push(s);
    assert forall|i: int| 0 <= i < t2.len() implies (#[trigger] t2[i]).cleanup == has_entries(replay(i0, k, t2.take(i)), t2[i].f) by {
        if i < tr.len() { assert(t2.take(i) =~= tr.take(i)); } else { assert(t2.take(i) =~= tr); }
    }
}
pub proof fn lemma_cleanup_ext(i0: Idx, k: Consts, tr: Seq<AStep>, n: int, tr2: Seq<AStep>)
    requires cleanup_ok(i0, k, tr, n), 0 <= n <= tr.len(), n <= tr2.len(), tr2.take(n) == tr.take(n)
    ensures cleanup_ok(i0, k, tr2, n)
{
    reveal(cleanup_ok);
    assert forall|i: int| 0 <= i < n && i < tr2.len() implies (#[trigger] tr2[i]).cleanup == has_entries(replay(i0, k, tr2.take(i)), tr2[i].f) by {
        assert(tr2.take(n)[i] == tr2[i]); assert(tr.take(n)[i] == tr[i]);
        assert(tr2.take(i) =~= tr2.take(n).take(i)); assert(tr.take(i) =~= tr.take(n).take(i));
    }
}
/// a re-analysis step: analyze_file (with cleanup) of a module that was cached when it was marked, on the text
/// get_file_content returns, with ALL plugin marks of the run in place
pub open spec fn rean_step_ok(why: Map<PV, Mark>, plf: Set<PV>, s: AStep) -> bool {
    s.cleanup && rean_set(why).contains(s.f) && content_of(s.cache, s.f) == Some(s.text) && s.plugins == plf
}
pub open spec fn has_rean(tr: Seq<AStep>, n: int, m: PV) -> bool { exists|i: int| n <= i < tr.len() && (#[trigger] tr[i]).f == m }

/// the re-analysis phase: every step from nf on is a re-analysis step, no module twice, every queued module that
/// is readable at the end has its step
pub open spec fn rean_final(why: Map<PV, Mark>, tr: Seq<AStep>, nf: int, cache_f: Map<PV, Arc<String>>, plf: Set<PV>) -> bool {
    &&& forall|i: int| nf <= i < tr.len() ==> rean_step_ok(why, plf, #[trigger] tr[i])
    &&& forall|i: int, j: int| nf <= i < j < tr.len() ==> (#[trigger] tr[i]).f != (#[trigger] tr[j]).f
    &&& forall|x: PV| #[trigger] rean_set(why).contains(x) ==> has_rean(tr, nf, x) || content_of(cache_f, x) is None
}

impl FixtureDatabase {
    pub open spec fn cache(&self) -> Map<PV, Arc<String>> { self.file_cache.m() }
    pub open spec fn plugins(&self) -> Set<PV> { self.plugin_fixture_files.m().dom() }
    pub open spec fn idx(&self) -> Idx {
        Idx { definitions: self.definitions, file_definitions: self.file_definitions, usages: self.usages,
              usage_by_fixture: self.usage_by_fixture, undeclared_fixtures: self.undeclared_fixtures, imports: self.imports,
              definitions_version: self.definitions_version }
    }
    pub open spec fn consts(&self) -> Consts { Consts { sp: self.site_packages_paths, er: self.editable_install_roots, ws: self.workspace_root } }
    /// the start set of the worklist (prelude/scanimp_spec.rs is_initial) on this database
    pub open spec fn initial(&self, k: PV) -> bool {
        self.cache().contains_key(k) && is_initial(pbvs(self.site_packages_paths@), roots(self.editable_install_roots@), self.plugins(), k)
    }

    // ---- the postcondition, clause groups (o = state before, f = state after, h = history of the run)
    /// (F) frame: constants untouched; plugin_fixture_files only gains the keys of h.why; the index is the replay of
    /// the analyses h.tr; file_cache changes by these analyses only
    pub open spec fn post_frame(o: &FixtureDatabase, f: &FixtureDatabase, h: Hist) -> bool {
        &&& f.consts() == o.consts()
        &&& f.plugins() == o.plugins().union(h.why.dom()) && o.plugins().disjoint(h.why.dom())
        &&& f.idx() == replay(o.idx(), o.consts(), h.tr)
        &&& chain_ok(o.cache(), h.tr, f.cache())
    }
    /// (P) plugin status: every new mark comes from a star import / pytest_plugins entry of a file that was a plugin
    /// file when it was processed; every such edge of such a file leads to a plugin file
    pub open spec fn post_P(o: &FixtureDatabase, f: &FixtureDatabase, h: Hist) -> bool {
        &&& forall|x: PV| #[trigger] h.why.contains_key(x) ==> mark_ok(h.snap, h.why[x], x)
        &&& forall|g: PV| #[trigger] h.snap.contains_key(g) ==> o.plugins().subset_of(h.snap[g].plugins) && h.snap[g].plugins.subset_of(f.plugins())
        &&& forall|g: PV, x: PV| h.snap.contains_key(g) && h.snap[g].plugins.contains(g) && #[trigger] edge(env_of(h.snap[g].cache), g, x) ==> f.plugins().contains(x)
        // since commit 402a101: an examined file that ends up a plugin file was (last) examined AS a plugin file
        &&& forall|g: PV| #[trigger] h.snap.contains_key(g) && f.plugins().contains(g) ==> h.snap[g].plugins.contains(g)
    }
    /// (D) discovery: the start set is processed; the import targets of a processed file are processed or were cached
    /// when it was processed; a processed file was cached at the start, or was analysed, or does not exist / cannot be
    /// read; nothing else is processed
    pub open spec fn post_D(o: &FixtureDatabase, f: &FixtureDatabase, h: Hist) -> bool {
        &&& forall|k: PV| o.initial(k) ==> #[trigger] h.snap.contains_key(k)
        &&& forall|g: PV, x: PV| h.snap.contains_key(g) && #[trigger] any_edge(env_of(h.snap[g].cache), g, x) ==> h.snap.contains_key(x)
        &&& forall|m: PV| #[trigger] h.snap.contains_key(m) ==> handled(o.cache(), h.tr, h.nfresh, m)
        &&& forall|m: PV| #[trigger] h.snap.contains_key(m) ==> o.initial(m) || src_ok(h.snap, h.src, m)
        &&& h.snap.dom().subset_of(scan_universe())
        &&& forall|g: PV, x: PV| h.snap.contains_key(g) && #[trigger] h.snap[g].cache.contains_key(x) ==> o.cache().contains_key(x) || has_disc(h.tr, h.nfresh, x)
    }
    /// (R) analyses: first analyze_file_fresh of discovered modules (each not cached when its turn came, text read from
    /// disk), then analyze_file of exactly the readable modules that were cached when they were marked, each once
    pub open spec fn post_R(o: &FixtureDatabase, f: &FixtureDatabase, h: Hist) -> bool {
        &&& 0 <= h.nfresh <= h.tr.len()
        &&& forall|i: int| 0 <= i < h.nfresh ==> disc_step_ok(#[trigger] h.tr[i]) && h.snap.contains_key(h.tr[i].f)
                && o.plugins().subset_of(h.tr[i].plugins) && h.tr[i].plugins.subset_of(f.plugins())
        // analyze_file (cleanup) iff the index had entries for the module, else analyze_file_fresh (commit e159908)
        &&& cleanup_ok(o.idx(), o.consts(), h.tr, h.nfresh)
        &&& rean_final(h.why, h.tr, h.nfresh, f.cache(), f.plugins())
    }
    pub open spec fn hist_post(o: &FixtureDatabase, f: &FixtureDatabase, h: Hist) -> bool {
        Self::post_frame(o, f, h) && Self::post_P(o, f, h) && Self::post_D(o, f, h) && Self::post_R(o, f, h)
    }

    /// loop invariant shared by all loops of the scan
    pub open spec fn ginv(&self, o: &FixtureDatabase, pset: Set<PV>, queued: Set<PV>, snap: Map<PV, Snap>, why: Map<PV, Mark>, src: Map<PV, Src>,
                          tr: Seq<AStep>, ra: Set<PV>, cur: Option<PV>) -> bool {
        &&& self.consts() == o.consts()
        &&& pset.subset_of(queued) && queued.subset_of(scan_universe())
        &&& pset.subset_of(snap.dom()) && snap.dom().subset_of(queued)
        &&& snap_ok(snap, o.plugins(), self.plugins())
        &&& why_ok(snap, why, o.plugins(), self.plugins(), pset)
        &&& asp_ok(snap, pset, self.plugins())
        &&& cleanup_ok(o.idx(), o.consts(), tr, tr.len() as int)
        &&& done_ok(snap, self.plugins(), queued, cur)
        &&& ra == rean_set(why)
        &&& chain_ok(o.cache(), tr, self.cache())
        &&& disc_ok(tr, queued, o.plugins(), self.plugins())
        &&& self.idx() == replay(o.idx(), o.consts(), tr)
        &&& cache_src(o.cache(), tr, self.cache()) && snapc_ok(snap, o.cache(), tr)
        &&& forall|k: PV| o.initial(k) ==> #[trigger] queued.contains(k)
        &&& forall|m: PV| #[trigger] queued.contains(m) ==> o.initial(m) || src_ok(snap, src, m)
    }

    // ---- callee contracts ASSUMED here (same abstraction as unit imports_closure)
    #[verifier::external_body]
    pub(crate) fn get_canonical_path(&self, path: PathBuf) -> (r: PathBuf)
        ensures pbv(&r) == canon(pbv(&path)),
            canon(pbv(&r)) == pbv(&r),   // canonicalisation is idempotent
    { unimplemented!() }
    /// the contract proved for get_file_content in unit memo, through axiom_content_of
    #[verifier::external_body]
    pub(crate) fn get_file_content(&self, file_path: &Path) -> (r: Option<Arc<String>>)
        ensures match r {
            Some(a) => content_of(self.file_cache.m(), pv(file_path)) == Some((*a)@),
            None => content_of(self.file_cache.m(), pv(file_path)) is None }
    { unimplemented!() }
    #[verifier::external_body]
    pub(crate) fn get_parsed_ast(&self, file_path: &Path, content: &str) -> (r: Option<Arc<rustpython_parser::ast::Mod>>)
        ensures match r { Some(a) => parse_ok(content@) && *a == ast_of(content@), None => !parse_ok(content@) }
    { unimplemented!() }
    #[verifier::external_body]
    pub(crate) fn get_line_index(&self, file_path: &Path, content: &str) -> (r: Arc<Vec<usize>>)
    { unimplemented!() }
    #[verifier::external_body]
    pub(crate) fn extract_fixture_imports(&self, stmts: &[Stmt], file_path: &Path, line_index: &[usize]) -> (r: Vec<FixtureImport>)
        ensures imps_v(r@) == imports_of(stmts@, pv(file_path))
    { unimplemented!() }
    #[verifier::external_body]
    pub(crate) fn extract_pytest_plugins(&self, stmts: &[Stmt]) -> (r: Vec<String>)
        ensures strs_v(r@) == plugins_of(stmts@)
    { unimplemented!() }
    #[verifier::external_body]
    pub(crate) fn resolve_module_to_file(&self, module_path: &str, importing_file: &Path) -> (r: Option<PathBuf>)
        ensures opt_pbv(r) == resolve(module_path@, pv(importing_file), self.file_cache.m().dom()),
            // FINITE-UNIVERSE ASSUMPTION: whatever resolution returns lies, canonicalised, in scan_universe()
            match r { Some(p) => scan_universe().contains(canon(pbv(&p))), None => true },
    { unimplemented!() }
    // analyze_file / analyze_file_fresh: hand-written FRAME stubs (weaker than the contracts proved in unit analyze,
    // which speak about the content of the index and carry a no-wrap precondition on the version counter): the index
    // becomes an_step(..) of what the analysis reads; file_cache gains the text under the canonical path and may lose
    // entries by eviction (never while it holds at most MAX_FILE_CACHE_SIZE entries); nothing else is written.
    #[verifier::external_body]
    pub fn analyze_file(&mut self, file_path: PathBuf, content: &str)
        ensures final(self).plugin_fixture_files == old(self).plugin_fixture_files, final(self).consts() == old(self).consts(),
            final(self).idx() == an_step(old(self).idx(), old(self).consts(), old(self).cache(), old(self).plugins(), canon(pbv(&file_path)), content@, true),
            cache_next(old(self).cache(), canon(pbv(&file_path)), content@, final(self).cache()),
    { unimplemented!() }
    #[verifier::external_body]
    pub(crate) fn analyze_file_fresh(&mut self, file_path: PathBuf, content: &str)
        ensures final(self).plugin_fixture_files == old(self).plugin_fixture_files, final(self).consts() == old(self).consts(),
            final(self).idx() == an_step(old(self).idx(), old(self).consts(), old(self).cache(), old(self).plugins(), canon(pbv(&file_path)), content@, false),
            cache_next(old(self).cache(), canon(pbv(&file_path)), content@, final(self).cache()),
    { unimplemented!() }

//@@EXTRACT-BEGIN
/*@ extract src/fixtures/scanner.rs scan_imported_fixture_modules
@tags C14 C12 C11
@recv mut
@replace 1 `use std::collections::HashSet;` => ``
@wrapexpr 1 `key .file_name() .and_then(|n| n.to_str()) .map(|n| { n == "conftest.py" || (n.starts_with("test_") && n.ends_with(".py")) || n.ends_with("_test.py") }) .unwrap_or(false)` => `Self::vp_is_conftest_or_test(key)` with fn vp_is_conftest_or_test(key: &PathBuf) -> (r: bool) ensures r == is_conftest_or_test_name(pbv(key))
@wrapexpr 1 `std::fs::read_to_string(module_path)` => `Self::vp_read_to_string(module_path)` with fn vp_read_to_string(module_path: &PathBuf) -> (r: Result<String, std::io::Error>) ensures (match r { Ok(s) => Some(s@), Err(_) => None::<Seq<char>> }) == fs_read(pbv(module_path))
@closure map:1 |e: &EditableInstall| -> (p: PathBuf) ensures pbv(&p) == pbv(&e.source_root)
@closure filter:1 |entry: &RefMulti<'_, PathBuf, Arc<String>>| -> (b: bool) ensures b == is_initial(pbvs(site_packages_paths@), pbvs(editable_roots@), self.plugins(), pbv(entry.k))
@closure any:1 |sp: &PathBuf| -> (b: bool) ensures b == pv_is_prefix(pbv(sp), pbv(key))
@closure any:2 |er: &PathBuf| -> (b: bool) ensures b == pv_is_prefix(pbv(er), pbv(key))
@closure map:3 |entry: RefMulti<'_, PathBuf, Arc<String>>| -> (p: PathBuf) ensures pbv(&p) == pbv(entry.k)
@rename chain vp_chain
@nocontinue 2
@sig
    requires
        // FINITE-UNIVERSE ASSUMPTION, part 1: the keys of file_cache lie in scan_universe()
        old(self).cache().dom().subset_of(scan_universe()),
        // C11: `iteration` is an i32 counter; it stays below 3 * (number of paths in the universe)
        3 * scan_universe().len() < 0x7fff_ffff,
    ensures
        exists|h: Hist| Self::hist_post(old(self), final(self), h),
@start
    let ghost uni = scan_universe();
    let ghost mut snap: Map<PV, Snap> = Map::empty();
    let ghost mut why: Map<PV, Mark> = Map::empty();
    let ghost mut src: Map<PV, Src> = Map::empty();
    let ghost mut tr: Seq<AStep> = Seq::empty();
    let ghost mut queued: Set<PV> = Set::empty();
@after is_venv_plugin 1
    proof {
        let s = site_packages_paths@;
        assert(is_venv_plugin == seq_has_prefix_of(pbvs(s), pbv(key))) by {
            if is_venv_plugin { let i = choose|i: int| 0 <= i < s.len() && pv_is_prefix(pbv(#[trigger] s.as_ref()[i]), pbv(key)); assert(pbvs(s)[i] == pbv(&s[i])); }
            if seq_has_prefix_of(pbvs(s), pbv(key)) { let i = choose|i: int| 0 <= i < pbvs(s).len() && pv_is_prefix(#[trigger] pbvs(s)[i], pbv(key)); let y = s.as_ref()[i]; }
        }
    }
@after is_editable_plugin 1
    proof {
        let s = editable_roots@;
        assert(is_editable_plugin == seq_has_prefix_of(pbvs(s), pbv(key))) by {
            if is_editable_plugin { let i = choose|i: int| 0 <= i < s.len() && pv_is_prefix(pbv(#[trigger] s.as_ref()[i]), pbv(key)); assert(pbvs(s)[i] == pbv(&s[i])); }
            if seq_has_prefix_of(pbvs(s), pbv(key)) { let i = choose|i: int| 0 <= i < pbvs(s).len() && pv_is_prefix(#[trigger] pbvs(s)[i], pbv(key)); let y = s.as_ref()[i]; }
        }
    }
@after files_to_check 1
    proof {
        assert(pbvs(site_packages_paths@) =~= pbvs(self.site_packages_paths@));
        assert(pbvs(editable_roots@) =~= roots(self.editable_install_roots@));
        assert forall|j: int| 0 <= j < files_to_check@.len() implies old(self).initial(pbv(&#[trigger] files_to_check@[j])) by { }
        assert forall|k: PV| old(self).initial(k) implies set_of(files_to_check@).contains(k) by {
            assert(want(entry_key_fn(), k));
            assert(exists|j: int| 0 <= j < files_to_check@.len() && pbv(&#[trigger] files_to_check@[j]) == k);
            let j = choose|j: int| 0 <= j < files_to_check@.len() && pbv(&#[trigger] files_to_check@[j]) == k;
            assert(pbvs(files_to_check@)[j] == k);
        }
        queued = set_of(files_to_check@);
    }
@return 1
    let h = Hist { snap: snap, why: why, src: src, tr: tr, nfresh: 0 };
    assert(set_of(files_to_check@) =~= Set::<PV>::empty());
    assert(Self::post_frame(old(self), self, h)) by { assert(self.plugins() =~= old(self).plugins().union(why.dom())); }
    assert(Self::post_P(old(self), self, h));
    assert(Self::post_D(old(self), self, h));
    assert(Self::post_R(old(self), self, h)) by { reveal(cleanup_ok); }
    assert(Self::hist_post(old(self), self, h));
@before files_to_check 4
    let ghost mut m0: nat = scan_measure(uni, self.plugins(), processed_files.s());
    proof {
        assert(snap.dom() =~= processed_files.s());
        assert(self.plugins() =~= old(self).plugins().union(why.dom()));
        assert(done_ok(snap, self.plugins(), queued, None)) by { reveal(done_ok); }
        assert(snap_ok(snap, old(self).plugins(), self.plugins())) by { reveal(snap_ok); }
        assert(why_ok(snap, why, old(self).plugins(), self.plugins(), processed_files.s())) by { reveal(why_ok); }
        assert(asp_ok(snap, processed_files.s(), self.plugins())) by { reveal(asp_ok); }
        assert(cleanup_ok(old(self).idx(), old(self).consts(), tr, tr.len() as int)) by { reveal(cleanup_ok); }
        assert(reanalyze_as_plugin.s() =~= rean_set(why));
        assert(disc_ok(tr, queued, old(self).plugins(), self.plugins())) by { reveal(disc_ok); }
        assert(handled_ok(old(self).cache(), tr, queued, Set::<PV>::empty())) by { reveal(handled_ok); }
        assert(cache_src(old(self).cache(), tr, self.cache())) by { reveal(cache_src); }
        assert(snapc_ok(snap, old(self).cache(), tr)) by { reveal(snapc_ok); }
        lemma_todo_le(uni, processed_files.s()); lemma_todo_le(uni, self.plugins());
    }
@loop 1
    invariant_except_break
        iteration as int + scan_measure(uni, self.plugins(), processed_files.s()) <= 3 * uni.len(),
    invariant
        uni == scan_universe(), 3 * uni.len() < 0x7fff_ffff,
        self.ginv(old(self), processed_files.s(), queued, snap, why, src, tr, reanalyze_as_plugin.s(), None),
        handled_ok(old(self).cache(), tr, queued, Set::<PV>::empty()),
        set_of(files_to_check@).subset_of(queued), queued.subset_of(processed_files.s().union(set_of(files_to_check@))),
        0 <= iteration as int,
    ensures
        queued =~= processed_files.s(),
    decreases scan_measure(uni, self.plugins(), processed_files.s()),
@loopstart 1
    proof { m0 = scan_measure(uni, self.plugins(), processed_files.s()); }
    let ghost c_it = self.cache();
@loopvar 2 it2
@loop 2
    invariant
        uni == scan_universe(), c_it == self.cache(), it2.seq() == files_to_check@.as_ref(),
        self.ginv(old(self), processed_files.s(), queued, snap, why, src, tr, reanalyze_as_plugin.s(), None),
        handled_ok(old(self).cache(), tr, queued, new_modules.s()),
        set_of(files_to_check@).subset_of(queued), new_modules.s().subset_of(queued), already_cached.s().subset_of(queued),
        queued.subset_of(processed_files.s().union(set_of(files_to_check@)).union(new_modules.s()).union(already_cached.s())),
        forall|m: PV| #[trigger] new_modules.s().contains(m) ==> canon(m) == m && !c_it.contains_key(m),
        forall|j: int| 0 <= j < it2.index@ ==> (processed_files.s().contains(pbv(&#[trigger] files_to_check@[j])) || new_modules.s().contains(pbv(&files_to_check@[j])) || already_cached.s().contains(pbv(&files_to_check@[j]))),
        scan_measure(uni, self.plugins(), processed_files.s()) <= m0,
        new_modules.s().len() > 0 || already_cached.s().len() > 0 ==> scan_measure(uni, self.plugins(), processed_files.s()) < m0,
@loopstart 2
    let ghost cur = pbv(file_path);
    let ghost i2 = it2.index@ as int;
    let ghost pset0 = processed_files.s();
    proof {
        assert(*file_path == files_to_check@[i2]);
        assert(pbvs(files_to_check@)[i2] == cur);
        assert(set_of(files_to_check@).contains(cur));
    }
@after importer_is_plugin 1
    let ghost sc = Snap { cache: self.cache(), plugins: self.plugins() };
    let ghost env = env_of(c_it);
    proof {
        lemma_why_pl(snap, why, old(self).plugins(), self.plugins(), pset0);
        lemma_done_begin(snap, self.plugins(), queued, cur, sc);
        lemma_snap_ok_add(snap, old(self).plugins(), self.plugins(), cur, sc);
        lemma_why_ok_snap(snap, why, old(self).plugins(), self.plugins(), pset0, cur, sc);
        lemma_asp_add(snap, pset0, self.plugins(), cur, sc);
        lemma_snapc_add(snap, old(self).cache(), tr, cur, sc);
        snap = snap.insert(cur, sc);
        lemma_todo_insert(uni, pset0, cur);
        assert(pset0.insert(cur) =~= processed_files.s());
    }
@continueproof 2 2
    lemma_file_done_no_body(snap[cur], cur, self.plugins(), queued);
    lemma_done_end(snap, self.plugins(), queued, cur);
@continueproof 2 3
    lemma_file_done_no_body(snap[cur], cur, self.plugins(), queued);
    lemma_done_end(snap, self.plugins(), queued, cur);
@after imports 1
    let ghost body = module.body@;
    let ghost imps0 = imports@;
    proof {
        assert(body_at(env, cur) == Some(body));
        assert(imps_v(imps0) == imps(env, cur));
        lemma_cur_imps_zero(env, cur, importer_is_plugin, self.plugins(), queued);
    }
@loopvar 3 it3
@loop 3
    invariant
        uni == scan_universe(), c_it == self.cache(), env == env_of(c_it), cur == pbv(file_path),
        self.ginv(old(self), processed_files.s(), queued, snap, why, src, tr, reanalyze_as_plugin.s(), Some(cur)),
        snap.contains_key(cur), snap[cur].cache == c_it, importer_is_plugin == snap[cur].plugins.contains(cur), processed_files.s().contains(cur),
        importer_is_plugin ==> self.plugins().contains(cur),
        body == module.body@, body_at(env, cur) == Some(body), it3.seq() == imps0, imps_v(imps0) == imps(env, cur),
        cur_imps_done(env, cur, importer_is_plugin, it3.index@ as int, self.plugins(), queued),
        handled_ok(old(self).cache(), tr, queued, new_modules.s()),
        set_of(files_to_check@).subset_of(queued), new_modules.s().subset_of(queued), already_cached.s().subset_of(queued),
        queued.subset_of(processed_files.s().union(set_of(files_to_check@)).union(new_modules.s()).union(already_cached.s())),
        forall|m: PV| #[trigger] new_modules.s().contains(m) ==> canon(m) == m && !c_it.contains_key(m),
        0 <= i2 < files_to_check@.len(), pbv(&files_to_check@[i2]) == cur,
        forall|j: int| 0 <= j <= i2 ==> (processed_files.s().contains(pbv(&#[trigger] files_to_check@[j])) || new_modules.s().contains(pbv(&files_to_check@[j])) || already_cached.s().contains(pbv(&files_to_check@[j]))),
        scan_measure(uni, self.plugins(), processed_files.s()) < m0,
@loopstart 3
    let ghost ii = it3.index@ as int;
    let ghost pl_a = self.plugins();
    let ghost q_a = queued;
    let ghost nm_a = new_modules.s();
    let ghost p_a = processed_files.s();
    proof { assert(import == imps0[ii]); assert(imp_v(&import) == imps(env, cur)[ii]); }
@after resolved_path 2
    let ghost h = pbv(&canonical);
    proof { assert(imp_target(env, cur, ii) == Some(h)); assert(imp_any_at(env, cur, ii, h)); lemma_any_edge_imp(env, cur, ii, h); }
@after insert 2
    proof {
        let m = Mark { by: cur, cached: c_it.contains_key(h) };
        assert(star_at(env, cur, ii, h));
        lemma_edge_star(env, cur, ii, h);
        lemma_why_ok_mark(snap, why, old(self).plugins(), pl_a, p_a, h, m);
        lemma_rean_mark(why, h, m);
        lemma_asp_mark(snap, p_a, pl_a, h);
        lemma_measure_mark(uni, pl_a, p_a, h);
        why = why.insert(h, m);
        assert(self.plugins() =~= pl_a.insert(h));
    }
@loopend 3
    proof {
        let tgt = imp_target(env, cur, ii);
        if tgt is None { lemma_cur_imps_unresolved(env, cur, importer_is_plugin, ii, self.plugins(), queued); }
        else {
            let h = tgt->Some_0;
            if !processed_files.s().contains(h) {
                if c_it.contains_key(h) { lemma_handled_enqueue_cached(old(self).cache(), tr, q_a, nm_a, c_it, h); }
                else { lemma_handled_enqueue(old(self).cache(), tr, q_a, nm_a, h); }
                src = src.insert(h, Src { by: cur, cache: c_it });
                queued = queued.insert(h);
            }
            lemma_snap_ok_mono(snap, old(self).plugins(), pl_a, self.plugins());
            lemma_done_mono(snap, pl_a, q_a, Some(cur), self.plugins(), queued);
            lemma_disc_ok_mono(tr, q_a, old(self).plugins(), pl_a, queued, self.plugins());
            lemma_cur_imps_mono(env, cur, importer_is_plugin, ii, pl_a, q_a, self.plugins(), queued);
            lemma_cur_imps_step(env, cur, importer_is_plugin, ii, h, self.plugins(), queued);
        }
    }
@after plugin_modules 1
    let ghost plugs0 = plugin_modules@;
    proof { assert(strs_v(plugs0) == plugs(env, cur)); lemma_cur_plugs_zero(env, cur, importer_is_plugin, self.plugins(), queued); }
@loopvar 4 it4
@loop 4
    invariant
        uni == scan_universe(), c_it == self.cache(), env == env_of(c_it), cur == pbv(file_path),
        self.ginv(old(self), processed_files.s(), queued, snap, why, src, tr, reanalyze_as_plugin.s(), Some(cur)),
        snap.contains_key(cur), snap[cur].cache == c_it, importer_is_plugin == snap[cur].plugins.contains(cur), processed_files.s().contains(cur),
        importer_is_plugin ==> self.plugins().contains(cur),
        body_at(env, cur) == Some(body), it4.seq() == plugs0, strs_v(plugs0) == plugs(env, cur),
        cur_imps_done(env, cur, importer_is_plugin, imps(env, cur).len() as int, self.plugins(), queued),
        cur_plugs_done(env, cur, importer_is_plugin, it4.index@ as int, self.plugins(), queued),
        handled_ok(old(self).cache(), tr, queued, new_modules.s()),
        set_of(files_to_check@).subset_of(queued), new_modules.s().subset_of(queued), already_cached.s().subset_of(queued),
        queued.subset_of(processed_files.s().union(set_of(files_to_check@)).union(new_modules.s()).union(already_cached.s())),
        forall|m: PV| #[trigger] new_modules.s().contains(m) ==> canon(m) == m && !c_it.contains_key(m),
        0 <= i2 < files_to_check@.len(), pbv(&files_to_check@[i2]) == cur,
        forall|j: int| 0 <= j <= i2 ==> (processed_files.s().contains(pbv(&#[trigger] files_to_check@[j])) || new_modules.s().contains(pbv(&files_to_check@[j])) || already_cached.s().contains(pbv(&files_to_check@[j]))),
        scan_measure(uni, self.plugins(), processed_files.s()) < m0,
@loopstart 4
    let ghost jj = it4.index@ as int;
    let ghost pl_a = self.plugins();
    let ghost q_a = queued;
    let ghost nm_a = new_modules.s();
    let ghost p_a = processed_files.s();
    proof { assert(module_path == plugs0[jj]); assert(module_path@ == plugs(env, cur)[jj]); }
@after resolved_path 4
    let ghost h = pbv(&canonical);
    proof { assert(plug_target(env, cur, jj) == Some(h)); assert(plug_at(env, cur, jj, h)); lemma_any_edge_plug(env, cur, jj, h); }
@after insert 6
    proof {
        let m = Mark { by: cur, cached: c_it.contains_key(h) };
        lemma_edge_plug(env, cur, jj, h);
        lemma_why_ok_mark(snap, why, old(self).plugins(), pl_a, p_a, h, m);
        lemma_rean_mark(why, h, m);
        lemma_asp_mark(snap, p_a, pl_a, h);
        lemma_measure_mark(uni, pl_a, p_a, h);
        why = why.insert(h, m);
        assert(self.plugins() =~= pl_a.insert(h));
    }
@loopend 4
    proof {
        let tgt = plug_target(env, cur, jj);
        if tgt is None { lemma_cur_plugs_unresolved(env, cur, importer_is_plugin, jj, self.plugins(), queued); }
        else {
            let h = tgt->Some_0;
            if !processed_files.s().contains(h) {
                if c_it.contains_key(h) { lemma_handled_enqueue_cached(old(self).cache(), tr, q_a, nm_a, c_it, h); }
                else { lemma_handled_enqueue(old(self).cache(), tr, q_a, nm_a, h); }
                src = src.insert(h, Src { by: cur, cache: c_it });
                queued = queued.insert(h);
            }
            lemma_snap_ok_mono(snap, old(self).plugins(), pl_a, self.plugins());
            lemma_done_mono(snap, pl_a, q_a, Some(cur), self.plugins(), queued);
            lemma_disc_ok_mono(tr, q_a, old(self).plugins(), pl_a, queued, self.plugins());
            lemma_cur_imps_mono(env, cur, importer_is_plugin, imps(env, cur).len() as int, pl_a, q_a, self.plugins(), queued);
            lemma_cur_plugs_mono(env, cur, importer_is_plugin, jj, pl_a, q_a, self.plugins(), queued);
            lemma_cur_plugs_step(env, cur, importer_is_plugin, jj, h, self.plugins(), queued);
        }
    }
@after for 3
    proof {
        lemma_file_done_from_lists(snap[cur], cur, self.plugins(), queued);
        lemma_done_end(snap, self.plugins(), queued, cur);
    }
@after parsed 2
    proof {
        if body_at(env, cur) is None {
            lemma_file_done_no_body(snap[cur], cur, self.plugins(), queued);
            lemma_done_end(snap, self.plugins(), queued, cur);
        }
    }
@before new_modules 4
    proof {
        if new_modules.s().len() == 0 { lemma_len0_empty(new_modules.s()); }
        if already_cached.s().len() == 0 { lemma_len0_empty(already_cached.s()); }
        assert(set_of(files_to_check@).subset_of(processed_files.s().union(new_modules.s()).union(already_cached.s()))) by {
            assert forall|x: PV| set_of(files_to_check@).contains(x) implies processed_files.s().union(new_modules.s()).union(already_cached.s()).contains(x) by {
                let j = choose|j: int| 0 <= j < pbvs(files_to_check@).len() && pbvs(files_to_check@)[j] == x;
                assert((processed_files.s().contains(pbv(&files_to_check@[j])) || new_modules.s().contains(pbv(&files_to_check@[j])) || already_cached.s().contains(pbv(&files_to_check@[j]))));
            }
        }
    }
@before for 4
    let ghost nm = new_modules.s();
    let ghost ac = already_cached.s();
    let ghost mut left: Set<PV> = nm;
    let ghost pl5 = self.plugins();
@loopvar 5 it5
@loop 5
    invariant
        uni == scan_universe(), nm == new_modules.s(), ac == already_cached.s(), self.plugins() == pl5,
        forall|j: int| 0 <= j < it5.seq().len() ==> nm.contains(pbv(#[trigger] it5.seq()[j])),
        forall|i: int, j: int| 0 <= i < j < it5.seq().len() ==> pbv(it5.seq()[i]) != pbv(it5.seq()[j]),
        self.ginv(old(self), processed_files.s(), queued, snap, why, src, tr, reanalyze_as_plugin.s(), None),
        handled_ok(old(self).cache(), tr, queued, left), left.subset_of(nm),
        forall|m: PV| #[trigger] left.contains(m) ==> exists|j: int| it5.index@ <= j < it5.seq().len() && pbv(#[trigger] it5.seq()[j]) == m,
        forall|m: PV| #[trigger] nm.contains(m) ==> canon(m) == m,
        forall|j: int| it5.index@ <= j < it5.seq().len() ==> !self.cache().contains_key(pbv(#[trigger] it5.seq()[j])),
        nm.subset_of(queued), ac.subset_of(queued), queued.subset_of(processed_files.s().union(nm).union(ac)),
@loopstart 5
    let ghost m = pbv(module_path);
    let ghost i5 = it5.index@ as int;
    let ghost c_b = self.cache();
    let ghost i_b = self.idx();
    let ghost tr_b = tr;
    proof { assert(*module_path == *it5.seq()[i5]); lemma_why_pl(snap, why, old(self).plugins(), self.plugins(), processed_files.s()); }
@loopend 5
    proof {
        if fs_exists(m) && fs_read(m) is Some {
            // the module was analysed: with cleanup iff the index had entries for it
            let s = AStep { f: m, text: fs_read(m)->Some_0, cleanup: has_entries(i_b, m), cache: c_b, plugins: self.plugins() };
            lemma_chain_push(old(self).cache(), tr, c_b, s, self.cache());
            lemma_disc_ok_push(tr, queued, old(self).plugins(), self.plugins(), s);
            lemma_cache_src_push(old(self).cache(), tr, c_b, s, self.cache());
            lemma_snapc_push(snap, old(self).cache(), tr, s);
            lemma_replay_push(old(self).idx(), old(self).consts(), tr, s);
            lemma_cleanup_push(old(self).idx(), old(self).consts(), tr, s);
            tr = tr.push(s);
            assert(tr[tr.len() - 1].f == m);
            assert(tr.last() == s);
        }
        lemma_handled_dequeue(old(self).cache(), tr_b, tr, queued, left, m);
        left = left.remove(m);
    }
@after for 4
    proof { assert(left =~= Set::<PV>::empty()); }
@after files_to_check 7
    proof {
        assert(set_of(files_to_check@) =~= nm.union(ac)) by {
            assert forall|x: PV| nm.union(ac).contains(x) implies set_of(files_to_check@).contains(x) by {
                let j = choose|j: int| 0 <= j < files_to_check@.len() && pbv(&#[trigger] files_to_check@[j]) == x;
                assert(pbvs(files_to_check@)[j] == x);
            }
            assert forall|x: PV| set_of(files_to_check@).contains(x) implies nm.union(ac).contains(x) by {
                let j = choose|j: int| 0 <= j < pbvs(files_to_check@).len() && pbvs(files_to_check@)[j] == x;
                assert(nm.union(ac).contains(pbv(&files_to_check@[j])));
            }
        }
    }
@before reanalyze_as_plugin 4
    let ghost nf = tr.len() as int;
    let ghost tr_f = tr;
    let ghost plf = self.plugins();
    let ghost ra = reanalyze_as_plugin.s();
    let ghost mut done6: Set<PV> = Set::empty();
    proof {
        assert(tr.take(nf) =~= tr_f);
        assert forall|x: PV| #[trigger] ra.contains(x) implies canon(x) == x by { reveal(why_ok); assert(why.contains_key(x)); }
    }
@loopvar 6 it6
@loop 6
    invariant
        ra == reanalyze_as_plugin.s(), ra == rean_set(why), plf == self.plugins(), self.consts() == old(self).consts(),
        forall|j: int| 0 <= j < it6.seq().len() ==> ra.contains(pbv(#[trigger] it6.seq()[j])),
        forall|i: int, j: int| 0 <= i < j < it6.seq().len() ==> pbv(it6.seq()[i]) != pbv(it6.seq()[j]),
        forall|x: PV| #[trigger] ra.contains(x) ==> canon(x) == x,
        chain_ok(old(self).cache(), tr, self.cache()), self.idx() == replay(old(self).idx(), old(self).consts(), tr),
        0 <= nf <= tr.len(), tr.take(nf) == tr_f,
        forall|i: int| nf <= i < tr.len() ==> rean_step_ok(why, plf, #[trigger] tr[i]) && done6.contains(tr[i].f),
        forall|i: int, j: int| nf <= i < j < tr.len() ==> (#[trigger] tr[i]).f != (#[trigger] tr[j]).f,
        forall|x: PV| #[trigger] ra.contains(x) ==> done6.contains(x) || exists|j: int| it6.index@ <= j < it6.seq().len() && pbv(#[trigger] it6.seq()[j]) == x,
        forall|j: int| it6.index@ <= j < it6.seq().len() ==> !done6.contains(pbv(#[trigger] it6.seq()[j])),
        forall|x: PV| #[trigger] done6.contains(x) ==> has_rean(tr, nf, x) || (!self.cache().contains_key(x) && fs_read(x) is None),
@loopstart 6
    let ghost m = pbv(module_path);
    let ghost i6 = it6.index@ as int;
    let ghost c_b = self.cache();
    let ghost tr_b = tr;
    proof { assert(*module_path == *it6.seq()[i6]); }
@after clone -1
    proof {
        let s = AStep { f: m, text: (*content)@, cleanup: true, cache: c_b, plugins: plf };
        lemma_chain_push(old(self).cache(), tr, c_b, s, self.cache());
        lemma_replay_push(old(self).idx(), old(self).consts(), tr, s);
        tr = tr.push(s);
        assert(tr.take(nf) =~= tr_f);
        assert(tr[tr.len() - 1].f == m);
    }
@loopend 6
    proof {
        assert forall|x: PV| done6.contains(x) && has_rean(tr_b, nf, x) implies has_rean(tr, nf, x) by {
            let i = choose|i: int| nf <= i < tr_b.len() && (#[trigger] tr_b[i]).f == x;
            assert(tr[i].f == x);
        }
        done6 = done6.insert(m);
    }
@after for 5
    proof {
        assert(rean_final(why, tr, nf, self.cache(), plf)) by {
            assert forall|x: PV| #[trigger] rean_set(why).contains(x) implies has_rean(tr, nf, x) || content_of(self.cache(), x) is None by {
                assert(done6.contains(x));
            }
        }
    }
@end
    proof {
        let h = Hist { snap: snap, why: why, src: src, tr: tr, nfresh: nf };
        assert(tr.take(nf) =~= tr_f);
        assert(snap.dom() =~= processed_files.s());
        assert(rean_final(why, tr, nf, self.cache(), plf)) by {
            if ra.len() == 0 { assert(ra =~= Set::<PV>::empty()); assert(tr == tr_f); }
        }
        assert(Self::post_frame(old(self), self, h)) by { reveal(why_ok); }
        assert(Self::post_P(old(self), self, h)) by { reveal(why_ok); reveal(snap_ok); reveal(done_ok); reveal(file_done); reveal(asp_ok); }
        assert(Self::post_D(old(self), self, h)) by {
            reveal(done_ok); reveal(file_done); reveal(handled_ok);
            assert forall|g: PV, x: PV| snap.contains_key(g) && #[trigger] snap[g].cache.contains_key(x) implies old(self).cache().contains_key(x) || has_disc(tr, nf, x) by {
                reveal(snapc_ok); reveal(cache_src);
                if has_disc(tr_f, tr_f.len() as int, x) {
                    let i = choose|i: int| 0 <= i < tr_f.len() && (#[trigger] tr_f[i]).f == x;
                    assert(tr.take(nf)[i] == tr[i]);
                }
            }
            assert forall|m: PV| #[trigger] snap.contains_key(m) implies handled(old(self).cache(), tr, nf, m) by {
                assert(queued.contains(m));
                if has_disc(tr_f, tr_f.len() as int, m) {
                    let i = choose|i: int| 0 <= i < tr_f.len() && (#[trigger] tr_f[i]).f == m;
                    assert(tr.take(nf)[i] == tr[i]);
                }
            }
        }
        assert(Self::post_R(old(self), self, h)) by {
            reveal(disc_ok);
            lemma_cleanup_ext(old(self).idx(), old(self).consts(), tr_f, nf, tr);
            assert forall|i: int| 0 <= i < nf implies disc_step_ok(#[trigger] tr[i]) && snap.contains_key(tr[i].f)
                && old(self).plugins().subset_of(tr[i].plugins) && tr[i].plugins.subset_of(self.plugins()) by {
                assert(tr.take(nf)[i] == tr[i]);
            }
        }
        assert(Self::hist_post(old(self), self, h));
    }
@*/
//@@EXTRACT-END
//@@CANARY-BEGIN
/*@ extract src/fixtures/scanner.rs scan_imported_fixture_modules
@tags C14 C12
@as canary_scan_contract_vacuous
@recv mut
@replace 1 `use std::collections::HashSet;` => ``
@wrapexpr 1 `key .file_name() .and_then(|n| n.to_str()) .map(|n| { n == "conftest.py" || (n.starts_with("test_") && n.ends_with(".py")) || n.ends_with("_test.py") }) .unwrap_or(false)` => `Self::vp_is_conftest_or_test_c(key)` with fn vp_is_conftest_or_test_c(key: &PathBuf) -> (r: bool) ensures r == is_conftest_or_test_name(pbv(key))
@wrapexpr 1 `std::fs::read_to_string(module_path)` => `Self::vp_read_to_string_c(module_path)` with fn vp_read_to_string_c(module_path: &PathBuf) -> (r: Result<String, std::io::Error>) ensures (match r { Ok(s) => Some(s@), Err(_) => None::<Seq<char>> }) == fs_read(pbv(module_path))
@closure map:1 |e: &EditableInstall| -> (p: PathBuf) ensures pbv(&p) == pbv(&e.source_root)
@closure filter:1 |entry: &RefMulti<'_, PathBuf, Arc<String>>| -> (b: bool) ensures b == is_initial(pbvs(site_packages_paths@), pbvs(editable_roots@), self.plugins(), pbv(entry.k))
@closure any:1 |sp: &PathBuf| -> (b: bool) ensures b == pv_is_prefix(pbv(sp), pbv(key))
@closure any:2 |er: &PathBuf| -> (b: bool) ensures b == pv_is_prefix(pbv(er), pbv(key))
@closure map:3 |entry: RefMulti<'_, PathBuf, Arc<String>>| -> (p: PathBuf) ensures pbv(&p) == pbv(entry.k)
@rename chain vp_chain
@nocontinue 2
@sig
    requires
        // FINITE-UNIVERSE ASSUMPTION, part 1: the keys of file_cache lie in scan_universe()
        old(self).cache().dom().subset_of(scan_universe()),
        // C11: `iteration` is an i32 counter; it stays below 3 * (number of paths in the universe)
        3 * scan_universe().len() < 0x7fff_ffff,
    ensures
        exists|h: Hist| Self::hist_post(old(self), final(self), h),
@start
    let ghost uni = scan_universe();
    let ghost mut snap: Map<PV, Snap> = Map::empty();
    let ghost mut why: Map<PV, Mark> = Map::empty();
    let ghost mut src: Map<PV, Src> = Map::empty();
    let ghost mut tr: Seq<AStep> = Seq::empty();
    let ghost mut queued: Set<PV> = Set::empty();
@after is_venv_plugin 1
    proof {
        let s = site_packages_paths@;
        assert(is_venv_plugin == seq_has_prefix_of(pbvs(s), pbv(key))) by {
            if is_venv_plugin { let i = choose|i: int| 0 <= i < s.len() && pv_is_prefix(pbv(#[trigger] s.as_ref()[i]), pbv(key)); assert(pbvs(s)[i] == pbv(&s[i])); }
            if seq_has_prefix_of(pbvs(s), pbv(key)) { let i = choose|i: int| 0 <= i < pbvs(s).len() && pv_is_prefix(#[trigger] pbvs(s)[i], pbv(key)); let y = s.as_ref()[i]; }
        }
    }
@after is_editable_plugin 1
    proof {
        let s = editable_roots@;
        assert(is_editable_plugin == seq_has_prefix_of(pbvs(s), pbv(key))) by {
            if is_editable_plugin { let i = choose|i: int| 0 <= i < s.len() && pv_is_prefix(pbv(#[trigger] s.as_ref()[i]), pbv(key)); assert(pbvs(s)[i] == pbv(&s[i])); }
            if seq_has_prefix_of(pbvs(s), pbv(key)) { let i = choose|i: int| 0 <= i < pbvs(s).len() && pv_is_prefix(#[trigger] pbvs(s)[i], pbv(key)); let y = s.as_ref()[i]; }
        }
    }
@after files_to_check 1
    proof {
        assert(pbvs(site_packages_paths@) =~= pbvs(self.site_packages_paths@));
        assert(pbvs(editable_roots@) =~= roots(self.editable_install_roots@));
        assert forall|j: int| 0 <= j < files_to_check@.len() implies old(self).initial(pbv(&#[trigger] files_to_check@[j])) by { }
        assert forall|k: PV| old(self).initial(k) implies set_of(files_to_check@).contains(k) by {
            assert(want(entry_key_fn(), k));
            assert(exists|j: int| 0 <= j < files_to_check@.len() && pbv(&#[trigger] files_to_check@[j]) == k);
            let j = choose|j: int| 0 <= j < files_to_check@.len() && pbv(&#[trigger] files_to_check@[j]) == k;
            assert(pbvs(files_to_check@)[j] == k);
        }
        queued = set_of(files_to_check@);
    }
@return 1
    assert(false);   // V1: context of the start-set computation
    let h = Hist { snap: snap, why: why, src: src, tr: tr, nfresh: 0 };
    assert(set_of(files_to_check@) =~= Set::<PV>::empty());
    assert(Self::post_frame(old(self), self, h)) by { assert(self.plugins() =~= old(self).plugins().union(why.dom())); }
    assert(Self::post_P(old(self), self, h));
    assert(Self::post_D(old(self), self, h));
    assert(Self::post_R(old(self), self, h)) by { reveal(cleanup_ok); }
    assert(Self::hist_post(old(self), self, h));
@before files_to_check 4
    let ghost mut m0: nat = scan_measure(uni, self.plugins(), processed_files.s());
    proof {
        assert(snap.dom() =~= processed_files.s());
        assert(self.plugins() =~= old(self).plugins().union(why.dom()));
        assert(done_ok(snap, self.plugins(), queued, None)) by { reveal(done_ok); }
        assert(snap_ok(snap, old(self).plugins(), self.plugins())) by { reveal(snap_ok); }
        assert(why_ok(snap, why, old(self).plugins(), self.plugins(), processed_files.s())) by { reveal(why_ok); }
        assert(asp_ok(snap, processed_files.s(), self.plugins())) by { reveal(asp_ok); }
        assert(cleanup_ok(old(self).idx(), old(self).consts(), tr, tr.len() as int)) by { reveal(cleanup_ok); }
        assert(reanalyze_as_plugin.s() =~= rean_set(why));
        assert(disc_ok(tr, queued, old(self).plugins(), self.plugins())) by { reveal(disc_ok); }
        assert(handled_ok(old(self).cache(), tr, queued, Set::<PV>::empty())) by { reveal(handled_ok); }
        assert(cache_src(old(self).cache(), tr, self.cache())) by { reveal(cache_src); }
        assert(snapc_ok(snap, old(self).cache(), tr)) by { reveal(snapc_ok); }
        lemma_todo_le(uni, processed_files.s()); lemma_todo_le(uni, self.plugins());
    }
@loop 1
    invariant_except_break
        iteration as int + scan_measure(uni, self.plugins(), processed_files.s()) <= 3 * uni.len(),
    invariant
        uni == scan_universe(), 3 * uni.len() < 0x7fff_ffff,
        self.ginv(old(self), processed_files.s(), queued, snap, why, src, tr, reanalyze_as_plugin.s(), None),
        handled_ok(old(self).cache(), tr, queued, Set::<PV>::empty()),
        set_of(files_to_check@).subset_of(queued), queued.subset_of(processed_files.s().union(set_of(files_to_check@))),
        0 <= iteration as int,
    ensures
        queued =~= processed_files.s(),
    decreases scan_measure(uni, self.plugins(), processed_files.s()),
@loopstart 1
    proof { m0 = scan_measure(uni, self.plugins(), processed_files.s()); }
    let ghost c_it = self.cache();
@loopvar 2 it2
@loop 2
    invariant
        uni == scan_universe(), c_it == self.cache(), it2.seq() == files_to_check@.as_ref(),
        self.ginv(old(self), processed_files.s(), queued, snap, why, src, tr, reanalyze_as_plugin.s(), None),
        handled_ok(old(self).cache(), tr, queued, new_modules.s()),
        set_of(files_to_check@).subset_of(queued), new_modules.s().subset_of(queued), already_cached.s().subset_of(queued),
        queued.subset_of(processed_files.s().union(set_of(files_to_check@)).union(new_modules.s()).union(already_cached.s())),
        forall|m: PV| #[trigger] new_modules.s().contains(m) ==> canon(m) == m && !c_it.contains_key(m),
        forall|j: int| 0 <= j < it2.index@ ==> (processed_files.s().contains(pbv(&#[trigger] files_to_check@[j])) || new_modules.s().contains(pbv(&files_to_check@[j])) || already_cached.s().contains(pbv(&files_to_check@[j]))),
        scan_measure(uni, self.plugins(), processed_files.s()) <= m0,
        new_modules.s().len() > 0 || already_cached.s().len() > 0 ==> scan_measure(uni, self.plugins(), processed_files.s()) < m0,
@loopstart 2
    let ghost cur = pbv(file_path);
    let ghost i2 = it2.index@ as int;
    let ghost pset0 = processed_files.s();
    proof {
        assert(*file_path == files_to_check@[i2]);
        assert(pbvs(files_to_check@)[i2] == cur);
        assert(set_of(files_to_check@).contains(cur));
    }
@after importer_is_plugin 1
    let ghost sc = Snap { cache: self.cache(), plugins: self.plugins() };
    let ghost env = env_of(c_it);
    proof {
        lemma_why_pl(snap, why, old(self).plugins(), self.plugins(), pset0);
        lemma_done_begin(snap, self.plugins(), queued, cur, sc);
        lemma_snap_ok_add(snap, old(self).plugins(), self.plugins(), cur, sc);
        lemma_why_ok_snap(snap, why, old(self).plugins(), self.plugins(), pset0, cur, sc);
        lemma_asp_add(snap, pset0, self.plugins(), cur, sc);
        lemma_snapc_add(snap, old(self).cache(), tr, cur, sc);
        snap = snap.insert(cur, sc);
        lemma_todo_insert(uni, pset0, cur);
        assert(pset0.insert(cur) =~= processed_files.s());
    }
@continueproof 2 2
    lemma_file_done_no_body(snap[cur], cur, self.plugins(), queued);
    lemma_done_end(snap, self.plugins(), queued, cur);
@continueproof 2 3
    lemma_file_done_no_body(snap[cur], cur, self.plugins(), queued);
    lemma_done_end(snap, self.plugins(), queued, cur);
@after imports 1
    let ghost body = module.body@;
    let ghost imps0 = imports@;
    proof {
        assert(body_at(env, cur) == Some(body));
        assert(imps_v(imps0) == imps(env, cur));
        lemma_cur_imps_zero(env, cur, importer_is_plugin, self.plugins(), queued);
    }
@loopvar 3 it3
@loop 3
    invariant
        uni == scan_universe(), c_it == self.cache(), env == env_of(c_it), cur == pbv(file_path),
        self.ginv(old(self), processed_files.s(), queued, snap, why, src, tr, reanalyze_as_plugin.s(), Some(cur)),
        snap.contains_key(cur), snap[cur].cache == c_it, importer_is_plugin == snap[cur].plugins.contains(cur), processed_files.s().contains(cur),
        importer_is_plugin ==> self.plugins().contains(cur),
        body == module.body@, body_at(env, cur) == Some(body), it3.seq() == imps0, imps_v(imps0) == imps(env, cur),
        cur_imps_done(env, cur, importer_is_plugin, it3.index@ as int, self.plugins(), queued),
        handled_ok(old(self).cache(), tr, queued, new_modules.s()),
        set_of(files_to_check@).subset_of(queued), new_modules.s().subset_of(queued), already_cached.s().subset_of(queued),
        queued.subset_of(processed_files.s().union(set_of(files_to_check@)).union(new_modules.s()).union(already_cached.s())),
        forall|m: PV| #[trigger] new_modules.s().contains(m) ==> canon(m) == m && !c_it.contains_key(m),
        0 <= i2 < files_to_check@.len(), pbv(&files_to_check@[i2]) == cur,
        forall|j: int| 0 <= j <= i2 ==> (processed_files.s().contains(pbv(&#[trigger] files_to_check@[j])) || new_modules.s().contains(pbv(&files_to_check@[j])) || already_cached.s().contains(pbv(&files_to_check@[j]))),
        scan_measure(uni, self.plugins(), processed_files.s()) < m0,
@loopstart 3
    let ghost ii = it3.index@ as int;
    let ghost pl_a = self.plugins();
    let ghost q_a = queued;
    let ghost nm_a = new_modules.s();
    let ghost p_a = processed_files.s();
    proof { assert(import == imps0[ii]); assert(imp_v(&import) == imps(env, cur)[ii]); }
@after resolved_path 2
    let ghost h = pbv(&canonical);
    proof { assert(imp_target(env, cur, ii) == Some(h)); assert(imp_any_at(env, cur, ii, h)); lemma_any_edge_imp(env, cur, ii, h); }
@after insert 2
    proof {
        assert(false);   // V2: imports loop, branch that marks a star-imported module (resolve / canonicalise / insert)
        let m = Mark { by: cur, cached: c_it.contains_key(h) };
        assert(star_at(env, cur, ii, h));
        lemma_edge_star(env, cur, ii, h);
        lemma_why_ok_mark(snap, why, old(self).plugins(), pl_a, p_a, h, m);
        lemma_rean_mark(why, h, m);
        lemma_asp_mark(snap, p_a, pl_a, h);
        lemma_measure_mark(uni, pl_a, p_a, h);
        why = why.insert(h, m);
        assert(self.plugins() =~= pl_a.insert(h));
    }
@loopend 3
    proof {
        let tgt = imp_target(env, cur, ii);
        if tgt is None { lemma_cur_imps_unresolved(env, cur, importer_is_plugin, ii, self.plugins(), queued); }
        else {
            let h = tgt->Some_0;
            if !processed_files.s().contains(h) {
                if c_it.contains_key(h) { lemma_handled_enqueue_cached(old(self).cache(), tr, q_a, nm_a, c_it, h); }
                else { lemma_handled_enqueue(old(self).cache(), tr, q_a, nm_a, h); }
                src = src.insert(h, Src { by: cur, cache: c_it });
                queued = queued.insert(h);
            }
            lemma_snap_ok_mono(snap, old(self).plugins(), pl_a, self.plugins());
            lemma_done_mono(snap, pl_a, q_a, Some(cur), self.plugins(), queued);
            lemma_disc_ok_mono(tr, q_a, old(self).plugins(), pl_a, queued, self.plugins());
            lemma_cur_imps_mono(env, cur, importer_is_plugin, ii, pl_a, q_a, self.plugins(), queued);
            lemma_cur_imps_step(env, cur, importer_is_plugin, ii, h, self.plugins(), queued);
        }
    }
@after plugin_modules 1
    let ghost plugs0 = plugin_modules@;
    proof { assert(strs_v(plugs0) == plugs(env, cur)); lemma_cur_plugs_zero(env, cur, importer_is_plugin, self.plugins(), queued); }
@loopvar 4 it4
@loop 4
    invariant
        uni == scan_universe(), c_it == self.cache(), env == env_of(c_it), cur == pbv(file_path),
        self.ginv(old(self), processed_files.s(), queued, snap, why, src, tr, reanalyze_as_plugin.s(), Some(cur)),
        snap.contains_key(cur), snap[cur].cache == c_it, importer_is_plugin == snap[cur].plugins.contains(cur), processed_files.s().contains(cur),
        importer_is_plugin ==> self.plugins().contains(cur),
        body_at(env, cur) == Some(body), it4.seq() == plugs0, strs_v(plugs0) == plugs(env, cur),
        cur_imps_done(env, cur, importer_is_plugin, imps(env, cur).len() as int, self.plugins(), queued),
        cur_plugs_done(env, cur, importer_is_plugin, it4.index@ as int, self.plugins(), queued),
        handled_ok(old(self).cache(), tr, queued, new_modules.s()),
        set_of(files_to_check@).subset_of(queued), new_modules.s().subset_of(queued), already_cached.s().subset_of(queued),
        queued.subset_of(processed_files.s().union(set_of(files_to_check@)).union(new_modules.s()).union(already_cached.s())),
        forall|m: PV| #[trigger] new_modules.s().contains(m) ==> canon(m) == m && !c_it.contains_key(m),
        0 <= i2 < files_to_check@.len(), pbv(&files_to_check@[i2]) == cur,
        forall|j: int| 0 <= j <= i2 ==> (processed_files.s().contains(pbv(&#[trigger] files_to_check@[j])) || new_modules.s().contains(pbv(&files_to_check@[j])) || already_cached.s().contains(pbv(&files_to_check@[j]))),
        scan_measure(uni, self.plugins(), processed_files.s()) < m0,
@loopstart 4
    let ghost jj = it4.index@ as int;
    let ghost pl_a = self.plugins();
    let ghost q_a = queued;
    let ghost nm_a = new_modules.s();
    let ghost p_a = processed_files.s();
    proof { assert(module_path == plugs0[jj]); assert(module_path@ == plugs(env, cur)[jj]); }
@after resolved_path 4
    let ghost h = pbv(&canonical);
    proof { assert(plug_target(env, cur, jj) == Some(h)); assert(plug_at(env, cur, jj, h)); lemma_any_edge_plug(env, cur, jj, h); }
@after insert 6
    proof {
        assert(false);   // V3: pytest_plugins loop, branch that marks a module
        let m = Mark { by: cur, cached: c_it.contains_key(h) };
        lemma_edge_plug(env, cur, jj, h);
        lemma_why_ok_mark(snap, why, old(self).plugins(), pl_a, p_a, h, m);
        lemma_rean_mark(why, h, m);
        lemma_asp_mark(snap, p_a, pl_a, h);
        lemma_measure_mark(uni, pl_a, p_a, h);
        why = why.insert(h, m);
        assert(self.plugins() =~= pl_a.insert(h));
    }
@loopend 4
    proof {
        let tgt = plug_target(env, cur, jj);
        if tgt is None { lemma_cur_plugs_unresolved(env, cur, importer_is_plugin, jj, self.plugins(), queued); }
        else {
            let h = tgt->Some_0;
            if !processed_files.s().contains(h) {
                if c_it.contains_key(h) { lemma_handled_enqueue_cached(old(self).cache(), tr, q_a, nm_a, c_it, h); }
                else { lemma_handled_enqueue(old(self).cache(), tr, q_a, nm_a, h); }
                src = src.insert(h, Src { by: cur, cache: c_it });
                queued = queued.insert(h);
            }
            lemma_snap_ok_mono(snap, old(self).plugins(), pl_a, self.plugins());
            lemma_done_mono(snap, pl_a, q_a, Some(cur), self.plugins(), queued);
            lemma_disc_ok_mono(tr, q_a, old(self).plugins(), pl_a, queued, self.plugins());
            lemma_cur_imps_mono(env, cur, importer_is_plugin, imps(env, cur).len() as int, pl_a, q_a, self.plugins(), queued);
            lemma_cur_plugs_mono(env, cur, importer_is_plugin, jj, pl_a, q_a, self.plugins(), queued);
            lemma_cur_plugs_step(env, cur, importer_is_plugin, jj, h, self.plugins(), queued);
        }
    }
@after for 3
    proof {
        lemma_file_done_from_lists(snap[cur], cur, self.plugins(), queued);
        lemma_done_end(snap, self.plugins(), queued, cur);
    }
@after parsed 2
    proof {
        if body_at(env, cur) is None {
            lemma_file_done_no_body(snap[cur], cur, self.plugins(), queued);
            lemma_done_end(snap, self.plugins(), queued, cur);
        }
    }
@before new_modules 4
    proof {
        if new_modules.s().len() == 0 { lemma_len0_empty(new_modules.s()); }
        if already_cached.s().len() == 0 { lemma_len0_empty(already_cached.s()); }
        assert(set_of(files_to_check@).subset_of(processed_files.s().union(new_modules.s()).union(already_cached.s()))) by {
            assert forall|x: PV| set_of(files_to_check@).contains(x) implies processed_files.s().union(new_modules.s()).union(already_cached.s()).contains(x) by {
                let j = choose|j: int| 0 <= j < pbvs(files_to_check@).len() && pbvs(files_to_check@)[j] == x;
                assert((processed_files.s().contains(pbv(&files_to_check@[j])) || new_modules.s().contains(pbv(&files_to_check@[j])) || already_cached.s().contains(pbv(&files_to_check@[j]))));
            }
        }
    }
@before for 4
    let ghost nm = new_modules.s();
    let ghost ac = already_cached.s();
    let ghost mut left: Set<PV> = nm;
    let ghost pl5 = self.plugins();
@loopvar 5 it5
@loop 5
    invariant
        uni == scan_universe(), nm == new_modules.s(), ac == already_cached.s(), self.plugins() == pl5,
        forall|j: int| 0 <= j < it5.seq().len() ==> nm.contains(pbv(#[trigger] it5.seq()[j])),
        forall|i: int, j: int| 0 <= i < j < it5.seq().len() ==> pbv(it5.seq()[i]) != pbv(it5.seq()[j]),
        self.ginv(old(self), processed_files.s(), queued, snap, why, src, tr, reanalyze_as_plugin.s(), None),
        handled_ok(old(self).cache(), tr, queued, left), left.subset_of(nm),
        forall|m: PV| #[trigger] left.contains(m) ==> exists|j: int| it5.index@ <= j < it5.seq().len() && pbv(#[trigger] it5.seq()[j]) == m,
        forall|m: PV| #[trigger] nm.contains(m) ==> canon(m) == m,
        forall|j: int| it5.index@ <= j < it5.seq().len() ==> !self.cache().contains_key(pbv(#[trigger] it5.seq()[j])),
        nm.subset_of(queued), ac.subset_of(queued), queued.subset_of(processed_files.s().union(nm).union(ac)),
@loopstart 5
    let ghost m = pbv(module_path);
    let ghost i5 = it5.index@ as int;
    let ghost c_b = self.cache();
    let ghost i_b = self.idx();
    let ghost tr_b = tr;
    proof { assert(*module_path == *it5.seq()[i5]); lemma_why_pl(snap, why, old(self).plugins(), self.plugins(), processed_files.s()); }
@loopend 5
    proof {
        if fs_exists(m) && fs_read(m) is Some {
            assert(false);   // V4: analysis loop, after exists / read / analyze_file or analyze_file_fresh
            // the module was analysed: with cleanup iff the index had entries for it
            let s = AStep { f: m, text: fs_read(m)->Some_0, cleanup: has_entries(i_b, m), cache: c_b, plugins: self.plugins() };
            lemma_chain_push(old(self).cache(), tr, c_b, s, self.cache());
            lemma_disc_ok_push(tr, queued, old(self).plugins(), self.plugins(), s);
            lemma_cache_src_push(old(self).cache(), tr, c_b, s, self.cache());
            lemma_snapc_push(snap, old(self).cache(), tr, s);
            lemma_replay_push(old(self).idx(), old(self).consts(), tr, s);
            lemma_cleanup_push(old(self).idx(), old(self).consts(), tr, s);
            tr = tr.push(s);
            assert(tr[tr.len() - 1].f == m);
            assert(tr.last() == s);
        }
        lemma_handled_dequeue(old(self).cache(), tr_b, tr, queued, left, m);
        left = left.remove(m);
    }
@after for 4
    proof { assert(left =~= Set::<PV>::empty()); }
@after files_to_check 7
    proof {
        assert(set_of(files_to_check@) =~= nm.union(ac)) by {
            assert forall|x: PV| nm.union(ac).contains(x) implies set_of(files_to_check@).contains(x) by {
                let j = choose|j: int| 0 <= j < files_to_check@.len() && pbv(&#[trigger] files_to_check@[j]) == x;
                assert(pbvs(files_to_check@)[j] == x);
            }
            assert forall|x: PV| set_of(files_to_check@).contains(x) implies nm.union(ac).contains(x) by {
                let j = choose|j: int| 0 <= j < pbvs(files_to_check@).len() && pbvs(files_to_check@)[j] == x;
                assert(nm.union(ac).contains(pbv(&files_to_check@[j])));
            }
        }
    }
@before reanalyze_as_plugin 4
    let ghost nf = tr.len() as int;
    let ghost tr_f = tr;
    let ghost plf = self.plugins();
    let ghost ra = reanalyze_as_plugin.s();
    let ghost mut done6: Set<PV> = Set::empty();
    proof {
        assert(tr.take(nf) =~= tr_f);
        assert forall|x: PV| #[trigger] ra.contains(x) implies canon(x) == x by { reveal(why_ok); assert(why.contains_key(x)); }
    }
@loopvar 6 it6
@loop 6
    invariant
        ra == reanalyze_as_plugin.s(), ra == rean_set(why), plf == self.plugins(), self.consts() == old(self).consts(),
        forall|j: int| 0 <= j < it6.seq().len() ==> ra.contains(pbv(#[trigger] it6.seq()[j])),
        forall|i: int, j: int| 0 <= i < j < it6.seq().len() ==> pbv(it6.seq()[i]) != pbv(it6.seq()[j]),
        forall|x: PV| #[trigger] ra.contains(x) ==> canon(x) == x,
        chain_ok(old(self).cache(), tr, self.cache()), self.idx() == replay(old(self).idx(), old(self).consts(), tr),
        0 <= nf <= tr.len(), tr.take(nf) == tr_f,
        forall|i: int| nf <= i < tr.len() ==> rean_step_ok(why, plf, #[trigger] tr[i]) && done6.contains(tr[i].f),
        forall|i: int, j: int| nf <= i < j < tr.len() ==> (#[trigger] tr[i]).f != (#[trigger] tr[j]).f,
        forall|x: PV| #[trigger] ra.contains(x) ==> done6.contains(x) || exists|j: int| it6.index@ <= j < it6.seq().len() && pbv(#[trigger] it6.seq()[j]) == x,
        forall|j: int| it6.index@ <= j < it6.seq().len() ==> !done6.contains(pbv(#[trigger] it6.seq()[j])),
        forall|x: PV| #[trigger] done6.contains(x) ==> has_rean(tr, nf, x) || (!self.cache().contains_key(x) && fs_read(x) is None),
@loopstart 6
    let ghost m = pbv(module_path);
    let ghost i6 = it6.index@ as int;
    let ghost c_b = self.cache();
    let ghost tr_b = tr;
    proof { assert(*module_path == *it6.seq()[i6]); }
@after clone -1
    proof {
        assert(false);   // V5: re-analysis loop, after get_file_content / analyze_file
        let s = AStep { f: m, text: (*content)@, cleanup: true, cache: c_b, plugins: plf };
        lemma_chain_push(old(self).cache(), tr, c_b, s, self.cache());
        lemma_replay_push(old(self).idx(), old(self).consts(), tr, s);
        tr = tr.push(s);
        assert(tr.take(nf) =~= tr_f);
        assert(tr[tr.len() - 1].f == m);
    }
@loopend 6
    proof {
        assert forall|x: PV| done6.contains(x) && has_rean(tr_b, nf, x) implies has_rean(tr, nf, x) by {
            let i = choose|i: int| nf <= i < tr_b.len() && (#[trigger] tr_b[i]).f == x;
            assert(tr[i].f == x);
        }
        done6 = done6.insert(m);
    }
@after for 5
    proof {
        assert(rean_final(why, tr, nf, self.cache(), plf)) by {
            assert forall|x: PV| #[trigger] rean_set(why).contains(x) implies has_rean(tr, nf, x) || content_of(self.cache(), x) is None by {
                assert(done6.contains(x));
            }
        }
    }
@end
    proof {
        let h = Hist { snap: snap, why: why, src: src, tr: tr, nfresh: nf };
        assert(tr.take(nf) =~= tr_f);
        assert(snap.dom() =~= processed_files.s());
        assert(rean_final(why, tr, nf, self.cache(), plf)) by {
            if ra.len() == 0 { assert(ra =~= Set::<PV>::empty()); assert(tr == tr_f); }
        }
        assert(Self::post_frame(old(self), self, h)) by { reveal(why_ok); }
        assert(Self::post_P(old(self), self, h)) by { reveal(why_ok); reveal(snap_ok); reveal(done_ok); reveal(file_done); reveal(asp_ok); }
        assert(Self::post_D(old(self), self, h)) by {
            reveal(done_ok); reveal(file_done); reveal(handled_ok);
            assert forall|g: PV, x: PV| snap.contains_key(g) && #[trigger] snap[g].cache.contains_key(x) implies old(self).cache().contains_key(x) || has_disc(tr, nf, x) by {
                reveal(snapc_ok); reveal(cache_src);
                if has_disc(tr_f, tr_f.len() as int, x) {
                    let i = choose|i: int| 0 <= i < tr_f.len() && (#[trigger] tr_f[i]).f == x;
                    assert(tr.take(nf)[i] == tr[i]);
                }
            }
            assert forall|m: PV| #[trigger] snap.contains_key(m) implies handled(old(self).cache(), tr, nf, m) by {
                assert(queued.contains(m));
                if has_disc(tr_f, tr_f.len() as int, m) {
                    let i = choose|i: int| 0 <= i < tr_f.len() && (#[trigger] tr_f[i]).f == m;
                    assert(tr.take(nf)[i] == tr[i]);
                }
            }
        }
        assert(Self::post_R(old(self), self, h)) by {
            reveal(disc_ok);
            lemma_cleanup_ext(old(self).idx(), old(self).consts(), tr_f, nf, tr);
            assert forall|i: int| 0 <= i < nf implies disc_step_ok(#[trigger] tr[i]) && snap.contains_key(tr[i].f)
                && old(self).plugins().subset_of(tr[i].plugins) && tr[i].plugins.subset_of(self.plugins()) by {
                assert(tr.take(nf)[i] == tr[i]);
            }
        }
        assert(Self::hist_post(old(self), self, h));
    }
@*/
//@@CANARY-END

}

// =====================================================================================================
// L2: statements of the property texts over the postcondition (hist_post) of the scan
// =====================================================================================================
pub open spec fn post(o: FixtureDatabase, f: FixtureDatabase, h: Hist) -> bool { FixtureDatabase::hist_post(&o, &f, h) }

//@tags C14
/// (F) the scan never removes a plugin mark and never touches the constants it reads
pub proof fn lemma_C14_marks_only_grow(o: FixtureDatabase, f: FixtureDatabase, h: Hist)
    requires post(o, f, h)
    ensures o.plugins().subset_of(f.plugins()), f.site_packages_paths == o.site_packages_paths,
        f.editable_install_roots == o.editable_install_roots, f.workspace_root == o.workspace_root,
{ }
//@tags C14
/// (P) one hop from a cached entry-point plugin file is unconditional: it is in the start set, it is a plugin file
/// when it is processed, so everything it star-imports / names in pytest_plugins ends up marked
pub proof fn lemma_C14_entry_plugin_targets_marked(o: FixtureDatabase, f: FixtureDatabase, h: Hist, e: PV, x: PV)
    requires post(o, f, h), o.plugins().contains(e), o.cache().contains_key(e),
    ensures h.snap.contains_key(e), edge(env_of(h.snap[e].cache), e, x) ==> f.plugins().contains(x),
{
    assert(o.initial(e));
}
/// a chain e = p[0] -> p[1] -> ... of star imports / pytest_plugins declarations; the edge out of an examined file is
/// read in the state of its LAST examination (file_cache may grow during the scan and module resolution looks at it)
pub open spec fn star_chain(h: Hist, p: Seq<PV>) -> bool {
    p.len() >= 1 && forall|i: int| 0 <= i < p.len() - 1 && h.snap.contains_key(#[trigger] p[i]) ==> edge(env_of(h.snap[p[i]].cache), p[i], p[i + 1])
}
//@tags C14
/// (P) transitive propagation, NO order hypothesis any more (commit 402a101: a module marked after it was examined is
/// examined again): if the head of the chain is examined and ends up a plugin file, every module on the chain is
/// examined and ends up a plugin file
pub proof fn lemma_C14_plugin_chain_marked(o: FixtureDatabase, f: FixtureDatabase, h: Hist, p: Seq<PV>, n: int)
    requires post(o, f, h), star_chain(h, p), h.snap.contains_key(p[0]), f.plugins().contains(p[0]), 0 <= n < p.len(),
    ensures h.snap.contains_key(p[n]), f.plugins().contains(p[n]),
    decreases n,
{
    if n > 0 {
        lemma_C14_plugin_chain_marked(o, f, h, p, n - 1);
        let g = p[n - 1];
        assert(edge(env_of(h.snap[g].cache), g, p[n - 1 + 1]));
        assert(h.snap[g].plugins.contains(g));
        lemma_edge_is_any_edge(env_of(h.snap[g].cache), g, p[n]);
    }
}
//@tags C14
/// ... in particular from a cached pytest11 entry-point plugin file (it is in the start set and a plugin file throughout)
pub proof fn lemma_C14_entry_plugin_chain_marked(o: FixtureDatabase, f: FixtureDatabase, h: Hist, p: Seq<PV>, n: int)
    requires post(o, f, h), star_chain(h, p), o.plugins().contains(p[0]), o.cache().contains_key(p[0]), 0 <= n < p.len(),
    ensures f.plugins().contains(p[n]),
{
    assert(o.initial(p[0]));
    lemma_C14_plugin_chain_marked(o, f, h, p, n);
}
//@tags C14
/// every examined file that ends up a plugin file was (last) examined as one
pub proof fn lemma_C14_plugins_examined_as_plugins(o: FixtureDatabase, f: FixtureDatabase, h: Hist, g: PV)
    requires post(o, f, h), h.snap.contains_key(g), f.plugins().contains(g),
    ensures h.snap[g].plugins.contains(g),
{ }
//@tags C14
/// (P) exactness: a module is newly marked only through a star import / pytest_plugins entry of a file that was a
/// plugin file when it was processed.  In particular `from X import y` in a plugin file leaves X's status unchanged.
pub proof fn lemma_C14_explicit_import_keeps_status(o: FixtureDatabase, f: FixtureDatabase, h: Hist, x: PV)
    requires post(o, f, h), !o.plugins().contains(x),
        forall|g: PV| h.snap.contains_key(g) && h.snap[g].plugins.contains(g) ==> !edge(env_of(h.snap[g].cache), g, x),
    ensures !f.plugins().contains(x),
{
    if f.plugins().contains(x) { assert(h.why.contains_key(x)); assert(mark_ok(h.snap, h.why[x], x)); }
}
//@tags C14
/// an explicit import is not a propagation edge: if every import of g that resolves to x is explicit and no
/// pytest_plugins entry of g resolves to x, there is no edge g -> x
pub proof fn lemma_C14_explicit_import_is_no_edge(env: Env, g: PV, x: PV)
    requires forall|i: int| #[trigger] imp_any_at(env, g, i, x) ==> !imps(env, g)[i].star, forall|j: int| !#[trigger] plug_at(env, g, j, x),
    ensures !edge(env, g, x),
{
    reveal(edge);
    if exists|i: int| #[trigger] star_at(env, g, i, x) { let i = choose|i: int| #[trigger] star_at(env, g, i, x); assert(imp_any_at(env, g, i, x)); }
}
//@tags C14
/// (D) one step, unconditional since commit 415c9c5: every import target (star, explicit, pytest_plugins) of an
/// examined file is examined — also when it already was a file_cache key
pub proof fn lemma_C14_import_targets_examined(o: FixtureDatabase, f: FixtureDatabase, h: Hist, a: PV, b: PV)
    requires post(o, f, h), h.snap.contains_key(a), any_edge(env_of(h.snap[a].cache), a, b),
    ensures h.snap.contains_key(b),
{ }
//@tags C14
/// (D) discovery along a chain of imports, no hypothesis on what was cached: every file on a chain that starts at an
/// examined file is examined (edges read in the state of each importer's last examination)
pub proof fn lemma_C14_discovery_chain(o: FixtureDatabase, f: FixtureDatabase, h: Hist, p: Seq<PV>, n: int)
    requires post(o, f, h), p.len() >= 1, h.snap.contains_key(p[0]), 0 <= n < p.len(),
        forall|i: int| 0 <= i < p.len() - 1 && h.snap.contains_key(#[trigger] p[i]) ==> any_edge(env_of(h.snap[p[i]].cache), p[i], p[i + 1]),
    ensures h.snap.contains_key(p[n]),
    decreases n,
{
    if n > 0 {
        lemma_C14_discovery_chain(o, f, h, p, n - 1);
        let g = p[n - 1];
        assert(any_edge(env_of(h.snap[g].cache), g, p[n - 1 + 1]));
    }
}
//@tags C14
/// (D) every processed file is accounted for: cached before the scan, or analysed once with the text on disk, or it
/// does not exist / cannot be read
pub proof fn lemma_C14_processed_accounted_for(o: FixtureDatabase, f: FixtureDatabase, h: Hist, m: PV)
    requires post(o, f, h), h.snap.contains_key(m), !o.cache().contains_key(m), fs_exists(m), fs_read(m) is Some,
    ensures exists|i: int| 0 <= i < h.nfresh && (#[trigger] h.tr[i]).f == m && Some(h.tr[i].text) == fs_read(m),
{
    assert(handled(o.cache(), h.tr, h.nfresh, m));
    let i = choose|i: int| 0 <= i < h.nfresh && i < h.tr.len() && (#[trigger] h.tr[i]).f == m;
    assert(disc_step_ok(h.tr[i]));
}
//@tags C14
/// (R) a module is re-analysed (analyze_file, with cleanup) only if it was newly marked while it was cached
pub proof fn lemma_C14_reanalysis_only_for_cached_marks(o: FixtureDatabase, f: FixtureDatabase, h: Hist, i: int)
    requires post(o, f, h), h.nfresh <= i < h.tr.len(),
    ensures h.tr[i].cleanup, h.why.contains_key(h.tr[i].f), h.why[h.tr[i].f].cached, !o.plugins().contains(h.tr[i].f),
        f.plugins().contains(h.tr[i].f), h.tr[i].plugins == f.plugins(),
{
    assert(rean_step_ok(h.why, f.plugins(), h.tr[i]));
}
//@tags C14
/// (R) ... and every such module that is readable at the end has been re-analysed
pub proof fn lemma_C14_cached_marks_are_reanalysed(o: FixtureDatabase, f: FixtureDatabase, h: Hist, x: PV)
    requires post(o, f, h), h.why.contains_key(x), h.why[x].cached, content_of(f.cache(), x) is Some,
    ensures exists|i: int| h.nfresh <= i < h.tr.len() && (#[trigger] h.tr[i]).f == x && h.tr[i].cleanup,
{
    assert(rean_set(h.why).contains(x));
    let i = choose|i: int| h.nfresh <= i < h.tr.len() && (#[trigger] h.tr[i]).f == x;
    assert(rean_step_ok(h.why, f.plugins(), h.tr[i]));
}

// ---- eviction: with at most MAX_FILE_CACHE_SIZE candidate paths no analysis evicts anything
pub open spec fn paths(tr: Seq<AStep>) -> Set<PV>
    decreases tr.len()
{ if tr.len() == 0 { Set::<PV>::empty() } else { paths(tr.drop_last()).insert(tr.last().f) } }
pub proof fn lemma_paths_contains(tr: Seq<AStep>, i: int)
    requires 0 <= i < tr.len() ensures paths(tr).contains(tr[i].f)
    decreases tr.len()
{
    if i < tr.len() - 1 { lemma_paths_contains(tr.drop_last(), i); }
}
pub proof fn lemma_paths_subset(tr: Seq<AStep>, w: Set<PV>)
    requires forall|i: int| 0 <= i < tr.len() ==> w.contains((#[trigger] tr[i]).f) ensures paths(tr).subset_of(w)
    decreases tr.len()
{
    if tr.len() > 0 {
        let t = tr.drop_last();
        assert forall|i: int| 0 <= i < t.len() implies w.contains((#[trigger] t[i]).f) by { assert(t[i] == tr[i]); }
        lemma_paths_subset(t, w);
    }
}
//@tags C14
pub proof fn lemma_chain_no_eviction(c0: Map<PV, Arc<String>>, tr: Seq<AStep>, c1: Map<PV, Arc<String>>, w: Set<PV>)
    requires chain_ok(c0, tr, c1), c0.dom().subset_of(w), forall|i: int| 0 <= i < tr.len() ==> w.contains((#[trigger] tr[i]).f), w.len() <= max_file_cache(),
    ensures c1.dom() =~= c0.dom().union(paths(tr)),
    decreases tr.len(),
{
    if tr.len() > 0 {
        let t = tr.drop_last(); let s = tr.last();
        assert forall|i: int| 0 <= i < t.len() implies w.contains((#[trigger] t[i]).f) by { assert(t[i] == tr[i]); }
        lemma_chain_no_eviction(c0, t, s.cache, w);
        lemma_paths_subset(t, w);
        assert(w.contains(tr[tr.len() - 1].f));
        vstd::set_lib::lemma_len_subset(s.cache.dom().insert(s.f), w);
    }
}
pub proof fn lemma_chain_prefix(c0: Map<PV, Arc<String>>, tr: Seq<AStep>, c1: Map<PV, Arc<String>>, j: int)
    requires chain_ok(c0, tr, c1), 0 <= j < tr.len() ensures chain_ok(c0, tr.take(j), tr[j].cache)
    decreases tr.len()
{
    if j == tr.len() - 1 { assert(tr.take(j) =~= tr.drop_last()); }
    else { lemma_chain_prefix(c0, tr.drop_last(), tr.last().cache, j); assert(tr.drop_last().take(j) =~= tr.take(j)); }
}
/// every path an analysis of the run stores under lies in the universe
pub proof fn lemma_steps_in_universe(o: FixtureDatabase, f: FixtureDatabase, h: Hist)
    requires post(o, f, h) ensures forall|i: int| 0 <= i < h.tr.len() ==> scan_universe().contains((#[trigger] h.tr[i]).f)
{
    assert forall|i: int| 0 <= i < h.tr.len() implies scan_universe().contains((#[trigger] h.tr[i]).f) by {
        if i < h.nfresh { assert(h.snap.contains_key(h.tr[i].f)); }
        else { assert(rean_step_ok(h.why, f.plugins(), h.tr[i])); assert(mark_ok(h.snap, h.why[h.tr[i].f], h.tr[i].f)); }
    }
}
//@tags C14
/// (D) with at most MAX_FILE_CACHE_SIZE (2000) candidate paths nothing is evicted: every processed file is a
/// file_cache key at exit, or it does not exist / cannot be read
pub proof fn lemma_C14_processed_files_end_up_cached(o: FixtureDatabase, f: FixtureDatabase, h: Hist, m: PV)
    requires post(o, f, h), o.cache().dom().subset_of(scan_universe()), scan_universe().len() <= max_file_cache(), h.snap.contains_key(m),
    ensures f.cache().contains_key(m) || !fs_exists(m) || fs_read(m) is None,
{
    lemma_steps_in_universe(o, f, h);
    lemma_chain_no_eviction(o.cache(), h.tr, f.cache(), scan_universe());
    assert(handled(o.cache(), h.tr, h.nfresh, m));
    if has_disc(h.tr, h.nfresh, m) {
        let i = choose|i: int| 0 <= i < h.nfresh && i < h.tr.len() && (#[trigger] h.tr[i]).f == m;
        lemma_paths_contains(h.tr, i);
    }
}
//@tags C14
/// (R) no duplicate index entries, as far as the frame stubs go, WITHOUT a size bound (commit e159908): a discovered
/// module is analysed with analyze_file_fresh only if the index has no definitions / usages entry for it at that
/// moment, and with analyze_file (cleanup first) whenever it has.  (That a file with recorded definitions always has a
/// file_definitions entry is invariant W1 of unit index_maint, not restated here.)
pub proof fn lemma_C14_fresh_only_without_entries(o: FixtureDatabase, f: FixtureDatabase, h: Hist, i: int)
    requires post(o, f, h), 0 <= i < h.nfresh,
    ensures h.tr[i].cleanup == has_entries(replay(o.idx(), o.consts(), h.tr.take(i)), h.tr[i].f),
{ reveal(cleanup_ok); }
//@tags C14
/// (R) with at most MAX_FILE_CACHE_SIZE candidate paths every discovered module is analysed at most once
pub proof fn lemma_C14_fresh_analysis_once(o: FixtureDatabase, f: FixtureDatabase, h: Hist, i: int, j: int)
    requires post(o, f, h), o.cache().dom().subset_of(scan_universe()), scan_universe().len() <= max_file_cache(), 0 <= i < j < h.nfresh,
    ensures h.tr[i].f != h.tr[j].f,
{
    lemma_steps_in_universe(o, f, h);
    lemma_chain_prefix(o.cache(), h.tr, f.cache(), j);
    let t = h.tr.take(j);
    assert forall|k: int| 0 <= k < t.len() implies scan_universe().contains((#[trigger] t[k]).f) by { assert(t[k] == h.tr[k]); }
    lemma_chain_no_eviction(o.cache(), t, h.tr[j].cache, scan_universe());
    lemma_paths_contains(t, i);
    assert(t[i] == h.tr[i]);
    assert(disc_step_ok(h.tr[j]));
}

// ---- canaries (must FAIL)
/// "a plugin file that is NOT a file_cache key (never examined) propagates its status"
pub proof fn canary_uncached_plugin_propagates(o: FixtureDatabase, f: FixtureDatabase, h: Hist, e: PV, x: PV)
    requires post(o, f, h), o.plugins().contains(e), edge(env_of(f.cache()), e, x),
    ensures f.plugins().contains(x),
{ }
/// "propagation can be read off the FINAL file_cache" (edges are fixed at the importer's last examination)
pub proof fn canary_plugin_edge_in_final_state(o: FixtureDatabase, f: FixtureDatabase, h: Hist, e: PV, x: PV)
    requires post(o, f, h), h.snap.contains_key(e), f.plugins().contains(e), edge(env_of(f.cache()), e, x),
    ensures f.plugins().contains(x),
{ }
/// "an explicit import from a plugin file marks the imported module"
pub proof fn canary_explicit_import_marks(o: FixtureDatabase, f: FixtureDatabase, h: Hist, g: PV, i: int, x: PV)
    requires post(o, f, h), h.snap.contains_key(g), h.snap[g].plugins.contains(g), imp_any_at(env_of(h.snap[g].cache), g, i, x),
    ensures f.plugins().contains(x),
{ }
/// "every file_cache key is examined" (only the start set and what is reachable from it)
pub proof fn canary_all_cached_files_examined(o: FixtureDatabase, f: FixtureDatabase, h: Hist, k: PV)
    requires post(o, f, h), o.cache().contains_key(k),
    ensures h.snap.contains_key(k),
{ }
/// "a discovered module is analysed at most once" (without the size bound: eviction)
pub proof fn canary_discovery_analyses_distinct(o: FixtureDatabase, f: FixtureDatabase, h: Hist, i: int, j: int)
    requires post(o, f, h), 0 <= i < j < h.nfresh,
    ensures h.tr[i].f != h.tr[j].f,
{ }
/// "discovered modules are always analysed with analyze_file_fresh"
pub proof fn canary_discovery_analyses_all_fresh(o: FixtureDatabase, f: FixtureDatabase, h: Hist, i: int)
    requires post(o, f, h), 0 <= i < h.nfresh,
    ensures !h.tr[i].cleanup,
{ }
/// "nothing is ever evicted" (without the size bound)
pub proof fn canary_processed_files_always_cached(o: FixtureDatabase, f: FixtureDatabase, h: Hist, m: PV)
    requires post(o, f, h), o.cache().dom().subset_of(scan_universe()), h.snap.contains_key(m), fs_exists(m), fs_read(m) is Some,
    ensures f.cache().contains_key(m),
{ }
/// "the scan marks nothing"
pub proof fn canary_no_new_marks(o: FixtureDatabase, f: FixtureDatabase, h: Hist)
    requires post(o, f, h) ensures f.plugins() == o.plugins(),
{ }
/// "modules marked while cached are re-analysed with analyze_file_fresh"
pub proof fn canary_reanalysis_is_fresh(o: FixtureDatabase, f: FixtureDatabase, h: Hist, i: int)
    requires post(o, f, h), h.nfresh <= i < h.tr.len() ensures !h.tr[i].cleanup,
{ }
/// the postcondition is satisfiable only vacuously
pub proof fn canary_post_contradictory(o: FixtureDatabase, f: FixtureDatabase, h: Hist)
    requires post(o, f, h) ensures false,
{ }
} // verus!
fn main() {}
