//@include prelude/header.rs
verus! {
// Unit cycles — C16 (cycle part: every reported path is a real closed dependency chain), the termination clause of
// C12 for the explicit-stack DFS, and the per-file filter.
//   L1: resolver.rs compute_fixture_cycles: every reported FixtureCycle is `cycle_ok` (closed chain of the name graph G,
//       attached to the first definition of its last name); no two reported cycles have the same de-duplication key;
//       the `while let Some(..) = stack.pop()` loop terminates (lexicographic measure dfs_a, dfs_b).
//       resolver.rs detect_fixture_cycles_in_file == the cached cycles filtered by file, order preserved.
//   proved on the way: the `if rec_stack.contains(&current)` block of the first visit (resolver.rs ~1549-1571) is
//       UNREACHABLE (a node is never pushed while it is on the recursion set; `assert(false)` there), and the
//       `.unwrap_or(0)` fallback of `position` in the live cycle block is never taken (the dependency is on the path).
//   L2: lemma_C16_* below;  proved library: prelude/cycles_spec.rs;
//   assumed: prelude/cycles_std.rs (position, to_vec/cloned/sort/join wrappers, FixtureCycle::clone), prelude/hashmap_ext.rs
//       (HashMap::keys = some duplicate-free enumeration) + the shims every unit uses
//   source rewrites: the function-local `use std::collections::HashMap;` is dropped (T9: `HashMap` then names the prelude
//       shim), `f == dep` -> `*f == *dep` (T9), `.cloned( .sort( .join( .to_vec(` -> wrappers (T5), for-`continue` (T11)
//   anchors: `position:last` / negative ordinals (`@after cycle_path -4`) count from the END of the body, so that the
//       contract text stays attached to the live cycle block when the dead one is removed or a call argument changes
//   WEAK COMPLETENESS (prelude/cycles_complete.rs, all proved): `r@.len() == 0 ==> acyclic(self.defs())` — when the
//       first-definition name graph has a closed chain, at least one cycle is reported.  Ingredients: loop 1 builds the
//       WHOLE graph (graph_full + graph_dom_full, the converse of graph_ok; completeness of `.filter(..)` by the proved
//       lemma_filter_complete of prelude/scanimp_iter.rs); a detection always leaves a report (keys_conv + tables_dom +
//       dfs2_inv: the recursion set holds only names with an adjacency entry); while nothing is reported the ghost
//       finishing order is a reverse topological order (stack_inv, topo_inv); every key is a root (lemma_roots_cover).
//   NOT claimed: full completeness (every closed chain is reported) — false of the code: see canary_C16_every_cycle_reported
global size_of usize == 8;  // A6: 64-bit target
pub mod pre {
use super::*;
//@include prelude/path.rs
//@include prelude/types.rs
//@include prelude/dashmap.rs
//@include prelude/hashset.rs
//@include prelude/hashmap.rs
//@include prelude/hashmap_ext.rs
//@include prelude/atomic.rs
//@include prelude/arc.rs
//@include prelude/dbview.rs
//@include prelude/hof.rs
//@include prelude/iter_ext.rs
//@include prelude/scanimp_iter.rs
//@include prelude/cycles_std.rs
//@include prelude/cycles_spec.rs
//@include prelude/cycles_complete.rs
//@include prelude/cycles_roots.rs
} // mod pre
use pre::*;


//@dbstruct_arc definitions file_cache available_fixtures_cache cycle_cache definitions_version

// ---- the memo layer's vocabulary (copied from units/memo.rs, where detect_fixture_cycles is proved against it;
// //@stub takes the contract text from there)
pub struct QView { pub defs: Map<Seq<char>, Seq<DefV>>, pub texts: Map<PV, Seq<char>> }
/// what compute_fixture_cycles returns, abstractly (any function of the query view)
pub uninterp spec fn op_cycles(q: QView) -> Seq<FixtureCycle>;

/// the per-file filter on views
pub open spec fn in_file_v(f: PV) -> spec_fn(CycV) -> bool { |c: CycV| c.fixture.file == f }
pub open spec fn in_file_ref<'a>(f: PV) -> spec_fn(&'a FixtureCycle) -> bool { |c: &'a FixtureCycle| pbv(&c.fixture.file_path) == f }
pub open spec fn cyv_ref<'a>() -> spec_fn(&'a FixtureCycle) -> CycV { |c: &'a FixtureCycle| cyv(c) }
/// the view through which the completeness of `.filter(..)` over `def.dependencies.iter()` is stated
pub open spec fn str_ref_view<'a>() -> spec_fn(&'a String) -> Seq<char> { |s: &'a String| s@ }

pub mod resolver { // mirrors crate::fixtures::resolver so that `super::types::…` paths in the source resolve
use super::*;
broadcast use {vstd::std_specs::iter::filter_postcondition, lemma_take_filter_index_is_filter, lemma_filter_complete};
impl FixtureDatabase {
    pub open spec fn defs(&self) -> Map<Seq<char>, Seq<DefV>> { defs_view(self.definitions.m()) }
    pub open spec fn q(&self) -> QView {
        QView { defs: defs_view(self.definitions.m()), texts: self.file_cache.m().map_values(|a: Arc<String>| (*a)@) }
    }
    pub open spec fn version(&self) -> u64 { self.definitions_version.v }
    pub open spec fn cycle_cache_ok(&self) -> bool {
        self.cycle_cache.m().contains_key(()) && self.cycle_cache.m()[()].0 == self.version()
            ==> (*self.cycle_cache.m()[()].1)@ == op_cycles(self.q())
    }

//@stub memo detect_fixture_cycles

/*@ extract src/fixtures/resolver.rs detect_fixture_cycles_in_file
@tags C16 C08
@recv mut
@ret r
@rename cloned vp_cloned
@closure 1 |cycle: &&FixtureCycle| -> (b: bool) ensures b == (pbv(&cycle.fixture.file_path) == pv(file_path))
@sig
    requires old(self).cycle_cache_ok(),
    ensures
        // the cached (== recomputed, unit memo) cycles whose fixture is defined in the file, order preserved
        cyvs(r@) =~= cyvs(op_cycles(old(self).q())).filter(in_file_v(pv(file_path))),
        final(self).cycle_cache_ok(), final(self).q() == old(self).q(), final(self).version() == old(self).version(),
@after all_cycles 1
    proof {
        let s = (*all_cycles)@.as_ref();
        let fp = pv(file_path);
        lemma_filter_map_commute(s, cyv_ref(), in_file_ref(fp), in_file_v(fp));
        assert(s.map_values(cyv_ref()) =~= cyvs((*all_cycles)@));
        let kept = s.filter(in_file_ref(fp));
    }
@*/

/*@ extract src/fixtures/resolver.rs detect_fixture_cycles_in_file
@as canary_in_file_unfiltered
@recv mut
@ret r
@rename cloned vp_cloned
@closure 1 |cycle: &&FixtureCycle| -> (b: bool) ensures b == (pbv(&cycle.fixture.file_path) == pv(file_path))
@sig
    requires old(self).cycle_cache_ok(),
    ensures cyvs(r@) =~= cyvs(op_cycles(old(self).q())),
@*/

/*@ extract src/fixtures/resolver.rs compute_fixture_cycles
@tags C16 C12 C08
@ret r
@replace 1 `use std::collections::HashMap;` => ``
@rename cloned vp_cloned
@rename sort vp_sort
@rename join vp_join
@rename to_vec vp_to_vec
@nocontinue 2
@wrapexpr 1 `dep_graph.keys().collect()` => `Self::vp_root_keys(&dep_graph)` with fn vp_root_keys<'a>(dep_graph: &'a HashMap<String, Vec<String>>) -> (r: Vec<&'a String>) ensures enumerates(strs_r(r@), dep_graph.m().dom())
@closure filter:1 |d: &&String| -> (b: bool) ensures b == self.definitions.m().contains_key(d@)
@closure position:last |f: &String| -> (b: bool) ensures b == (f@ == dep@)
@derefcmp f dep
@sig
    ensures
        // soundness: every reported path is a real closed dependency chain of the name graph
        cycles_ok(self.defs(), r@),
        // no two reported cycles have the same de-duplication key
        exists|seen: Set<Seq<char>>| keys_ok(r@, seen),
        // weak completeness: when nothing is reported, the first-definition name graph has no closed chain
        r@.len() == 0 ==> acyclic(self.defs()),
@start
    let ghost defs = self.defs();
    let ghost m0 = self.definitions.m();
@before for 1
    let ghost mut done1: Set<Seq<char>> = Set::empty();
    proof { lemma_tables_empty(defs); lemma_full_empty(defs); }
@loopvar 1 it1
@loop 1
    invariant
        defs == self.defs(), m0 == self.definitions.m(),
        forall|j: int| 0 <= j < it1.seq().len() ==> m0.contains_key((#[trigger] it1.seq()[j]).k@) && *it1.seq()[j].v == m0[it1.seq()[j].k@],
        graph_ok(dg_view(dep_graph.m()), defs), fdefs_ok(fixture_defs.m(), defs),
        // the converse inclusion: the table holds every edge of G that leaves one of its keys, and every name
        // looked at so far that has a non-empty bucket is a key
        graph_full(dg_view(dep_graph.m()), defs), tables_dom(dep_graph.m(), fixture_defs.m()),
        forall|x: Seq<char>| #[trigger] m0.contains_key(x) ==> done1.contains(x) || exists|j: int| it1.index@ <= j < it1.seq().len() && (#[trigger] it1.seq()[j]).k@ == x,
        forall|x: Seq<char>| #[trigger] done1.contains(x) && m0.contains_key(x) && m0[x]@.len() > 0 ==> dep_graph.m().contains_key(x),
@loopstart 1
    let ghost nm = entry.k@;
    let ghost dg0 = dep_graph.m();
    let ghost fd0 = fixture_defs.m();
    proof { assert(m0.contains_key(nm) && *entry.v == m0[nm]); }
@after valid_deps 1
    proof {
        assert(defs[nm][0] == dv(def));
        assert forall|j: int| 0 <= j < valid_deps@.len() implies edge(defs, nm, #[trigger] strs_v(valid_deps@)[j]) by {
            let x = valid_deps@[j];
            let ds = def.dependencies@;
            assert(exists|i: int| 0 <= i < ds.len() && (#[trigger] ds[i])@ == x@ && m0.contains_key(x@));
            let i = choose|i: int| 0 <= i < ds.len() && (#[trigger] ds[i])@ == x@ && m0.contains_key(x@);
            assert(strs_v(ds)[i] == x@);
            assert(dv(def).dependencies.contains(x@));
        }
        // ... and every known dependency of the first definition is kept by the filter
        assert forall|x: Seq<char>| #[trigger] edge(defs, nm, x) implies strs_v(valid_deps@).contains(x) by {
            let ds = def.dependencies@;
            assert(dv(def).dependencies.contains(x));
            let i = choose|i: int| 0 <= i < strs_v(ds).len() && strs_v(ds)[i] == x;
            assert(ds[i]@ == x && m0.contains_key(x));
            let y = ds.as_ref()[i];
            assert(want(str_ref_view(), x));
            assert(exists|k: int| 0 <= k < valid_deps@.len() && (#[trigger] valid_deps@[k])@ == x);
            let k = choose|k: int| 0 <= k < valid_deps@.len() && (#[trigger] valid_deps@[k])@ == x;
            assert(strs_v(valid_deps@)[k] == x);
        }
    }
@after valid_deps 2
    proof {
        lemma_tables_insert(defs, dg0, dep_graph.m(), fd0, fixture_defs.m(), nm, dep_graph.m()[nm], fixture_defs.m()[nm]);
        lemma_full_insert(defs, dg0, dep_graph.m(), fd0, fixture_defs.m(), nm, dep_graph.m()[nm], fixture_defs.m()[nm]);
    }
@loopend 1
    proof { done1 = done1.insert(nm); }
@before visited 1
    let ghost g = dg_view(dep_graph.m());
    // the finishing order: one tick per `visited.insert`
    let ghost mut fin: Map<Seq<char>, nat> = Map::empty();
    let ghost mut cnt: nat = 0;
    proof {
        assert(graph_dom_full(g, defs)) by {
            reveal(graph_dom_full);
            assert forall|n: Seq<char>| #[trigger] defs.contains_key(n) && defs[n].len() > 0 implies g.contains_key(n) by {
                assert(m0.contains_key(n));
                assert(done1.contains(n));
            }
        }
        lemma_topo_empty(g);
    }
@after roots 1
    let ghost keys0 = strs_r(roots@);
@after roots 2
    proof {
        assert(strs_r(roots@) == roots_of(dep_graph.m().dom(), keys0));
        // the sorted roots are still all the keys of the table
        lemma_roots_cover(keys0, strs_r(roots@), g.dom());
        assert forall|x: Seq<char>| #[trigger] g.contains_key(x) implies exists|j: int| 0 <= j < roots@.len() && (#[trigger] roots@[j])@ == x by {
            assert(g.dom().contains(x));
            assert(strs_r(roots@).contains(x));
            let j = choose|j: int| 0 <= j < strs_r(roots@).len() && strs_r(roots@)[j] == x;
            assert(roots@[j]@ == x);
        }
        assert forall|j: int| 0 <= j < roots@.len() implies g.contains_key((#[trigger] roots@[j])@) by {
            assert(strs_r(roots@)[j] == roots@[j]@);
            assert(strs_r(roots@).contains(roots@[j]@));
            assert(g.dom().contains(roots@[j]@));
        }
    }
@loopvar 2 it2
@loop 2
    invariant
        defs == self.defs(), g == dg_view(dep_graph.m()),
        graph_ok(g, defs), fdefs_ok(fixture_defs.m(), defs),
        cycles_ok(defs, cycles@), keys_ok(cycles@, seen_cycles.s()),
        tables_dom(dep_graph.m(), fixture_defs.m()), keys_conv(cycles@, seen_cycles.s()),
        cycles@.len() == 0 ==> topo_inv(g, visited.s(), fin, cnt),
        forall|j: int| 0 <= j < it2.seq().len() ==> g.contains_key((#[trigger] it2.seq()[j])@),
        // every key of the table is finished or still to come as a root
        forall|x: Seq<char>| #[trigger] g.contains_key(x) ==> visited.s().contains(x) || exists|j: int| it2.index@ <= j < it2.seq().len() && (#[trigger] it2.seq()[j])@ == x,
@loopstart 2
    let ghost root_v = start_fixture@;
    let ghost vis_b = visited.s();
    proof { assert(*start_fixture == *it2.seq()[it2.index@ as int]); }
@loopend 2
    proof { assert(visited.s().contains(root_v)); }
@after rec_stack 1
    let ghost mut gsv: Seq<EntV> = evs(stack@);
    proof {
        assert(stack@.len() == 1);
        lemma_dfs_init(defs, gsv, visited.s());
        lemma2_init(g, gsv, visited.s());
    }
@loop 3
    invariant
        defs == self.defs(), g == dg_view(dep_graph.m()),
        graph_ok(g, defs), fdefs_ok(fixture_defs.m(), defs),
        cycles_ok(defs, cycles@), keys_ok(cycles@, seen_cycles.s()),
        gsv == evs(stack@),
        dfs_inv(defs, gsv, rec_stack.s(), visited.s()),
        tables_dom(dep_graph.m(), fixture_defs.m()), keys_conv(cycles@, seen_cycles.s()),
        dfs2_inv(g, gsv, rec_stack.s(), visited.s()),
        // while nothing has been reported: stack discipline + the finishing order is a reverse topological order
        cycles@.len() == 0 ==> stack_inv(g, gsv, visited.s()) && topo_inv(g, visited.s(), fin, cnt),
        // the bottom entry is the root; the root is finished when the stack is empty; `visited` only grows
        g.contains_key(root_v), gsv.len() > 0 ==> gsv[0].node == root_v, gsv.len() == 0 ==> visited.s().contains(root_v),
        vis_b.subset_of(visited.s()),
    ensures gsv.len() == 0,
    decreases dfs_a(g, rec_stack.s(), visited.s()), dfs_b(g, gsv),
@loopstart 3
    let ghost sv0 = gsv;
    let ghost rec0 = rec_stack.s();
    let ghost vis0 = visited.s();
    let ghost e = sv0.last();
    let ghost cycles0 = cycles@;
    let ghost seen0 = seen_cycles.s();
    proof {
        assert(sv0.len() > 0);
        assert(evs(stack@) =~= sv0.drop_last());
        // the popped entry: its node, index and path are what the loop body works on
        assert(e.node == current@ && e.idx == idx as int);
        assert(e.path == strs_v(path@));
        lemma_mid(defs, sv0, rec0, vis0);
    }
@before continue 2
    proof {
        // a node is never pushed while it is on the recursion stack: this block is unreachable
        assert(false);
    }
@before deps 1
    let ghost cp = cur_path(e);
    let ghost rec1 = cur_rec(e, rec0);
    proof {
        assert(strs_v(path@) =~= cp);
        assert(rec_stack.s() =~= rec1);
    }
@before continue 3
    proof {
        lemma_step_pop(defs, sv0, rec0, vis0, vis0);
        lemma2_none(defs, g, sv0, rec0, vis0);
        lemma_meas_none(g, sv0, rec0, vis0);
        gsv = sv0.drop_last();
    }
@after dep 1
    let ghost dep_v = g[e.node][e.idx];
    proof {
        assert(g[e.node] == strs_v(deps@));
        assert(dep_v == dep@);
    }
@after cycle_start_idx -2
    proof {
        // the dependency is on the recursion set, hence on the current path: `position` finds it
        lemma_cycle(defs, g, sv0, rec0, vis0);
        let j = choose|j: int| 0 <= j < cp.len() && cp[j] == dep_v;
        let y = path@.as_ref()[j];
        assert(path@[j]@ == dep@);
        assert(cycle_start_idx < path@.len() && path@[cycle_start_idx as int]@ == dep@);
        assert(strs_v(path@.subrange(cycle_start_idx as int, path@.len() as int)) =~= cp.subrange(cycle_start_idx as int, cp.len() as int));
    }
@after cycle_path -4
    let ghost cpv = strs_v(cycle_path@);
    proof {
        let i = cycle_start_idx as int;
        assert(cp[i] == dep_v);
        assert(cpv =~= cp.subrange(i, cp.len() as int).push(dep_v));
        assert(is_closed_chain(defs, cpv));
        assert(strs_v(cycle_path@.subrange(0, cycle_path@.len() - 1)) =~= cpv.drop_last());
    }
@after cycle_key -1
    proof {
        assert(cycle_key_str@ == cyc_key(cpv));
        // a key seen before is the key of a cycle reported before
        if seen0.contains(cyc_key(cpv)) { lemma_conv_seen(cycles0, seen0, cyc_key(cpv)); }
    }
@after fixture_defs -1
    proof {
        assert(cycle_key_str@ == cyc_key(cpv));
        assert(cpv.last() == dep@);
        // local completeness: the dependency is on the recursion set, so it has an adjacency entry, so the table of
        // first definitions has an entry for it: the report IS pushed
        lemma2_detect(g, sv0, rec0, vis0, dep_v);
        assert(fixture_defs.m().contains_key(dep@)) by { reveal(tables_dom); assert(dep_graph.m().contains_key(dep_v)); }
        assert(cycles@.len() == cycles0.len() + 1);
        if cycles@.len() != cycles0.len() {
            assert(cycles@.drop_last() =~= cycles0);
            assert(strs_v(cycles@.last().cycle_path@) == cpv);
        }
        lemma_report(defs, fixture_defs.m(), cycles0, cycles@, seen0, cpv);
        lemma_report_conv(cycles0, cycles@, seen0, cpv);
    }
@after dep 2
    proof {
        let explore = !rec1.contains(dep_v) && !vis0.contains(dep_v);
        lemma_step_dep(defs, g, sv0, rec0, vis0, explore);
        lemma2_dep(defs, g, sv0, rec0, vis0, explore);
        // a detection always leaves a report behind; without one the stack discipline goes on
        if rec1.contains(dep_v) { assert(cycles@.len() > 0); }
        else if cycles0.len() == 0 { lemma2_dep_stack(g, sv0, rec0, vis0, explore); }
        lemma_meas_dep(g, sv0, rec0, vis0, explore);
        gsv = next_sv(sv0, dep_v, explore);
        assert(evs(stack@) =~= gsv);
    }
@after rec_stack -1
    proof {
        lemma_step_pop(defs, sv0, rec0, vis0, vis0.insert(e.node));
        lemma2_done(defs, g, sv0, rec0, vis0);
        if cycles0.len() == 0 {
            assert(g[e.node] == strs_v(deps@));
            lemma2_done_topo(g, sv0, vis0, fin, cnt);
            fin = fin.insert(e.node, cnt);
            cnt = cnt + 1;
        }
        lemma_meas_done(g, sv0, rec0, vis0);
        gsv = sv0.drop_last();
    }
@return tail
    if cycles@.len() == 0 {
        // every key of the table is finished and nothing was reported: no closed chain in the table, hence none in G
        assert(forall|x: Seq<char>| #[trigger] g.contains_key(x) ==> visited.s().contains(x));
        lemma_no_cycle(g, visited.s(), fin, cnt);
        lemma_acyclic_lift(g, defs);
    }
@*/
}
} // mod resolver
use resolver::*;

// ---- L2: the statements of the property text --------------------------------------------------------------
/// C16 (cycle part): every reported path is a real closed dependency chain — at least two entries, first == last,
/// every consecutive pair (a, b): b is a parameter of the first registered definition of a and b is a known fixture
/// name — and the cycle is attached to the first registered definition of that first/last name.
//@tags C16
pub proof fn lemma_C16_reported_cycle_is_real(defs: Map<Seq<char>, Seq<DefV>>, cs: Seq<FixtureCycle>, k: int)
    requires cycles_ok(defs, cs), 0 <= k < cs.len(),
    ensures ({
        let p = strs_v(cs[k].cycle_path@);
        &&& p.len() >= 2 && p[0] == p[p.len() - 1]
        &&& forall|i: int| 0 <= i < p.len() - 1 ==> defs.contains_key(#[trigger] p[i]) && defs[p[i]].len() > 0
                && defs[p[i]][0].dependencies.contains(p[i + 1]) && defs.contains_key(p[i + 1])
        &&& defs.contains_key(p[0]) && defs[p[0]].len() > 0 && dv(&cs[k].fixture) == defs[p[0]][0]
    }),
{
    reveal(cycles_ok); reveal(is_chain);
    assert(cycle_ok(defs, cyv(&cs[k])));
}
/// C16 (cycle part): a fixture whose exploration has nothing to do with the closing edge cannot appear on a reported
/// path — one non-edge anywhere on the path contradicts the contract (this is what the shared-path refactoring
/// C16-1 produces: `client -> store -> cfg -> session -> clock -> client` with cfg not requesting session).
//@tags C16
pub proof fn lemma_C16_no_foreign_node_on_path(defs: Map<Seq<char>, Seq<DefV>>, cs: Seq<FixtureCycle>, k: int, i: int)
    requires cycles_ok(defs, cs), 0 <= k < cs.len(), 0 <= i < strs_v(cs[k].cycle_path@).len() - 1,
    ensures edge(defs, strs_v(cs[k].cycle_path@)[i], strs_v(cs[k].cycle_path@)[i + 1]),
{
    lemma_C16_reported_cycle_is_real(defs, cs, k);
}
/// C16: no cycle is reported twice — two reported cycles never consist of the same names (with multiplicity, the
/// repeated last name not counted).  Only as good as the key: `sort` + `join(",")` modelled as functions of the contents
/// (prelude/cycles_std.rs K1, K2); two cycles over the same names in a different order share the key, so only the first
/// one found is reported.
//@tags C16
pub proof fn lemma_C16_no_cycle_reported_twice(cs: Seq<FixtureCycle>, seen: Set<Seq<char>>, i: int, j: int)
    requires keys_ok(cs, seen), 0 <= i < j < cs.len(),
    ensures strs_v(cs[i].cycle_path@).drop_last().to_multiset() != strs_v(cs[j].cycle_path@).drop_last().to_multiset(),
{
    reveal(keys_ok);
    assert(cyc_key(cyv(&cs[i]).path) != cyc_key(cyv(&cs[j]).path));
}
/// F-16b, stated on the contract: G is built from the FIRST registered definition of every name only, so the override
/// pattern `def cli(cli)` (a child conftest overriding and requesting the parent's fixture) IS a closed chain of G
/// whenever the overriding definition happens to be registered first — the contract accepts that report.
//@tags C16
pub proof fn lemma_F16b_override_is_self_loop_of_G(defs: Map<Seq<char>, Seq<DefV>>, n: Seq<char>)
    requires defs.contains_key(n), defs[n].len() > 0, defs[n][0].dependencies.contains(n),
    ensures is_closed_chain(defs, seq![n, n]),
{
    reveal(is_chain);
    assert(edge(defs, n, n));
}

/// C16 (weak completeness): when the first-definition name graph G has a closed dependency chain — at least two
/// entries, first == last, every consecutive pair (a, b): b is a parameter of the first registered definition of a and b
/// is a known fixture name — then compute_fixture_cycles reports AT LEAST ONE cycle, and what it reports first is a real
/// closed chain of G.  (Not: that very chain; not: every chain — canary_C16_every_cycle_reported.)  The hypotheses on
/// `cs` are the L1 postconditions of compute_fixture_cycles (cycles_ok; `r@.len() == 0 ==> acyclic(self.defs())`).
//@tags C16
pub proof fn lemma_C16_some_cycle_reported_when_one_exists(defs: Map<Seq<char>, Seq<DefV>>, cs: Seq<FixtureCycle>, p: Seq<Seq<char>>)
    requires cycles_ok(defs, cs), cs.len() == 0 ==> acyclic(defs),
        p.len() >= 2, p[0] == p[p.len() - 1],
        forall|i: int| 0 <= i < p.len() - 1 ==> defs.contains_key(#[trigger] p[i]) && defs[p[i]].len() > 0
            && defs[p[i]][0].dependencies.contains(p[i + 1]) && defs.contains_key(p[i + 1]),
    ensures cs.len() > 0, is_closed_chain(defs, strs_v(cs[0].cycle_path@)),
{
    assert(is_closed_chain(defs, p)) by {
        reveal(is_chain);
        assert forall|i: int| 0 <= i && i + 1 < p.len() implies edge(defs, #[trigger] p[i], p[i + 1]) by { }
    }
    assert(cs.len() > 0);
    reveal(cycles_ok);
    assert(cycle_ok(defs, cyv(&cs[0])));
}
/// C16 (weak completeness, contrapositive): an empty report means that no fixture depends on itself, directly or
/// through other fixtures, in G (self-loops included: the override pattern of F-16b counts when it is registered first).
//@tags C16
pub proof fn lemma_C16_empty_report_means_no_dependency_cycle(defs: Map<Seq<char>, Seq<DefV>>, cs: Seq<FixtureCycle>, n: Seq<char>)
    requires cs.len() == 0 ==> acyclic(defs), cs.len() == 0,
    ensures !edge(defs, n, n),
        forall|p: Seq<Seq<char>>| p.len() >= 2 && p[0] == p[p.len() - 1] ==> !#[trigger] is_chain(defs, p),
{
    if edge(defs, n, n) {
        reveal(is_chain);
        assert(is_closed_chain(defs, seq![n, n]));
    }
    assert forall|p: Seq<Seq<char>>| p.len() >= 2 && p[0] == p[p.len() - 1] implies !#[trigger] is_chain(defs, p) by {
        if is_chain(defs, p) { assert(is_closed_chain(defs, p)); }
    }
}

// ---- vacuity guards (must FAIL) -----------------------------------------------------------------------------
/// the completeness invariants are satisfiable (a two-entry stack; something finished)
pub proof fn canary_dfs2_inv_unsatisfiable(g: Map<Seq<char>, Seq<Seq<char>>>, sv: Seq<EntV>, rec: Set<Seq<char>>, vis: Set<Seq<char>>)
    requires dfs2_inv(g, sv, rec, vis), stack_inv(g, sv, vis), sv.len() == 2, sv[0].idx > 0, sv[1].idx > 0,
    ensures false,
{
    reveal(dfs2_inv); reveal(stack_inv);
}
pub proof fn canary_topo_inv_unsatisfiable(g: Map<Seq<char>, Seq<Seq<char>>>, vis: Set<Seq<char>>, fin: Map<Seq<char>, nat>, cnt: nat, n: Seq<char>)
    requires topo_inv(g, vis, fin, cnt), vis.contains(n), g.contains_key(n), g[n].len() > 0,
    ensures false,
{
    reveal(topo_inv);
}
/// acyclicity is not claimed of an arbitrary table
pub proof fn canary_C16_any_table_acyclic(g: Map<Seq<char>, Seq<Seq<char>>>)
    ensures g_acyclic(g),
{
    reveal(g_chain);
}
/// weak completeness needs its hypothesis: without the L1 postcondition nothing follows about the report
pub proof fn canary_C16_report_nonempty_without_L1(defs: Map<Seq<char>, Seq<DefV>>, cs: Seq<FixtureCycle>, p: Seq<Seq<char>>)
    requires cycles_ok(defs, cs), is_closed_chain(defs, p),
    ensures cs.len() > 0,
{
    reveal(cycles_ok); reveal(is_chain);
}
/// the loop invariant is satisfiable
pub proof fn canary_dfs_inv_unsatisfiable(defs: Map<Seq<char>, Seq<DefV>>, sv: Seq<EntV>, rec: Set<Seq<char>>, vis: Set<Seq<char>>)
    requires dfs_inv(defs, sv, rec, vis), sv.len() > 0,
    ensures false,
{
    reveal(dfs_inv); reveal(is_chain);
}
/// the assumed key axioms are consistent with the proved library
pub proof fn canary_cycles_axioms_inconsistent()
    ensures false,
{
    axiom_sorted_names_perm(vstd::multiset::Multiset::<Seq<char>>::empty());
    lemma_tables_empty(Map::empty());
}
/// the contract rejects the output of the shared-path refactoring (C16-1): a path with one non-edge is not `cycles_ok`
pub proof fn canary_C16_stale_path_accepted(defs: Map<Seq<char>, Seq<DefV>>, cs: Seq<FixtureCycle>)
    requires cs.len() == 1,
        strs_v(cs[0].cycle_path@) == seq!["client"@, "store"@, "cfg"@, "session"@, "clock"@, "client"@],
        !edge(defs, "cfg"@, "session"@),
    ensures cycles_ok(defs, cs),
{
    reveal(cycles_ok); reveal(is_chain);
}
/// C16 / C08 ("which cycles are reported, and on which fixture, does not vary between runs"), after the repair of
/// F-16c: the DFS roots are `sorted_names` of the adjacency table's key set — whatever enumeration `HashMap::keys()`
/// produced (two runs = two enumerations of the same key set).  The body of compute_fixture_cycles asserts that its
/// `roots` ARE roots_of(key set, enumeration) (obligation `@after roots 2`).  Not proved: that the rest of the DFS is a
/// function of (graph, roots) — it is sequential code over Vec / HashMap::get / HashSet::contains with no other iteration
/// over a hash container (by reading); the replay scenario F-16c (24 fresh databases) observes one report.
//@tags C16 C08
pub proof fn lemma_C16_roots_independent_of_hash_order(e1: Seq<Seq<char>>, e2: Seq<Seq<char>>, dom: Set<Seq<char>>)
    requires enumerates(e1, dom), enumerates(e2, dom),
    ensures roots_of(dom, e1) == roots_of(dom, e2), roots_of(dom, e1).to_multiset() == e1.to_multiset(),
{
    lemma_enumerations_same_multiset(e1, e2, dom);
    axiom_sorted_names_perm(e1.to_multiset());
}
/// vacuity guard: roots of DIFFERENT key sets are not claimed equal
pub proof fn canary_C16_roots_of_any_two_tables_equal(e1: Seq<Seq<char>>, e2: Seq<Seq<char>>, d1: Set<Seq<char>>, d2: Set<Seq<char>>)
    requires enumerates(e1, d1), enumerates(e2, d2),
    ensures roots_of(d1, e1) == roots_of(d2, e2),
{
}
/// KNOWN INCOMPLETENESS (not claimed): the contract does not say that every closed chain of G is reported.  The code
/// does not do it either: (1) a dependency that is already `visited` is never re-entered (`else if !visited.contains(dep)`),
/// so with a -> b -> a and a -> c -> b only [a, b, a] is reported when the DFS starts at a (the chain a, c, b, a is not),
/// while a start at c reports both — which cycles are reported depends on the order of the DFS roots (since the
/// repair of F-16c: the name order, lemma_C16_roots_independent_of_hash_order; before it: the hash order of `dep_graph.keys()`);
/// (2) cycles over the same names share the key; (3) G uses `first()` only (F-16b).
pub proof fn canary_C16_every_cycle_reported(defs: Map<Seq<char>, Seq<DefV>>, cs: Seq<FixtureCycle>, seen: Set<Seq<char>>, p: Seq<Seq<char>>)
    requires cycles_ok(defs, cs), keys_ok(cs, seen), is_closed_chain(defs, p),
    ensures exists|k: int| 0 <= k < cs.len() && strs_v(#[trigger] cs[k].cycle_path@) == p,
{
    reveal(cycles_ok); reveal(keys_ok); reveal(is_chain);
}
} // verus!
fn main() {}
