//@include prelude/header.rs
verus! {
global size_of usize == 8;  // A6: 64-bit target
pub mod pre {
use super::*;
//@include prelude/path.rs
//@include prelude/types.rs
//@include prelude/dashmap.rs
//@include prelude/hashset.rs
//@include prelude/hashmap.rs
//@include prelude/hashmap_ext.rs
//@include prelude/dbview.rs
//@include prelude/cycles_std.rs
} // mod pre
use pre::*;

//@dbstruct definitions

pub mod resolver { // mirrors crate::fixtures::resolver so that `super::types::…` paths in the source resolve
use super::*;
impl FixtureDatabase {
    pub open spec fn defs(&self) -> Map<Seq<char>, Seq<DefV>> { defs_view(self.definitions.m()) }

/*@ extract src/fixtures/resolver.rs compute_fixture_cycles
@tags C16 C12 C08
@ret r
@replace 1 `use std::collections::HashMap;` => ``
@rename cloned vp_cloned
@rename sort vp_sort
@rename join vp_join
@nocontinue 2
@closure filter:1 |d: &&String| -> (b: bool) ensures b == self.definitions.m().contains_key(d@)
@closure position:last |f: &String| -> (b: bool) ensures b == (f@ == dep@)
@derefcmp f dep
@loopvar 1 it1
@loopvar 2 it2
@loop 3
    invariant true,
    decreases stack@.len(),
@*/
}
} // mod resolver
use resolver::*;
} // verus!
fn main() {}
