//@include prelude/header.rs
verus! {
// Unit cycles — C16 (cycle part: every reported path is a real closed dependency chain), the termination clause of
// C12 for the explicit-stack DFS, and the per-file filter.
//   L1: resolver.rs compute_fixture_cycles: every reported FixtureCycle is `cycle_ok` (closed chain of the name graph G,
//       attached to the first definition of its last name); no two reported cycles have the same de-duplication key;
//       the `while let Some(..) = stack.pop()` loop terminates (lexicographic measure dfs_a, dfs_b).
//       resolver.rs detect_fixture_cycles_in_file == the cached cycles filtered by file, order preserved.
//   proved library: prelude/cycles_spec.rs;  assumed: prelude/cycles_std.rs, prelude/hashmap_ext.rs (+ the shims)
global size_of usize == 8;  // A6: 64-bit target
pub mod pre {
use super::*;
//@include prelude/path.rs
//@include prelude/types.rs
//@include prelude/dashmap.rs
//@include prelude/hashset.rs
//@include prelude/hashmap.rs
//@include prelude/hashmap_ext.rs
//@include prelude/atomic.rs
//@include prelude/arc.rs
//@include prelude/dbview.rs
//@include prelude/cycles_std.rs
//@include prelude/cycles_spec.rs
} // mod pre
use pre::*;

broadcast use {vstd::std_specs::iter::filter_postcondition};

//@dbstruct_arc definitions file_cache available_fixtures_cache cycle_cache definitions_version

pub mod resolver { // mirrors crate::fixtures::resolver so that `super::types::…` paths in the source resolve
use super::*;
impl FixtureDatabase {
    pub open spec fn defs(&self) -> Map<Seq<char>, Seq<DefV>> { defs_view(self.definitions.m()) }

/*@ extract src/fixtures/resolver.rs compute_fixture_cycles
@tags C16 C12 C08
@ret r
@replace 1 `use std::collections::HashMap;` => ``
@rename cloned vp_cloned
@rename sort vp_sort
@rename join vp_join
@rename to_vec vp_to_vec
@nocontinue 2
@closure filter:1 |d: &&String| -> (b: bool) ensures b == self.definitions.m().contains_key(d@)
@closure position:last |f: &String| -> (b: bool) ensures b == (f@ == dep@)
@derefcmp f dep
@sig
    ensures
        // soundness: every reported path is a real closed dependency chain of the name graph
        cycles_ok(self.defs(), r@),
        // no two reported cycles have the same de-duplication key
        exists|seen: Set<Seq<char>>| keys_ok(r@, seen),
@start
    let ghost defs = self.defs();
    let ghost m0 = self.definitions.m();
@before for 1
    proof { lemma_tables_empty(defs); }
@loopvar 1 it1
@loop 1
    invariant
        defs == self.defs(), m0 == self.definitions.m(),
        forall|j: int| 0 <= j < it1.seq().len() ==> m0.contains_key((#[trigger] it1.seq()[j]).k@) && *it1.seq()[j].v == m0[it1.seq()[j].k@],
        graph_ok(dg_view(dep_graph.m()), defs), fdefs_ok(fixture_defs.m(), defs),
@loopstart 1
    let ghost nm = entry.k@;
    let ghost dg0 = dep_graph.m();
    let ghost fd0 = fixture_defs.m();
    proof { assert(m0.contains_key(nm) && *entry.v == m0[nm]); }
@after valid_deps 1
    proof {
        assert(defs[nm][0] == dv(def));
        assert forall|j: int| 0 <= j < valid_deps@.len() implies edge(defs, nm, #[trigger] strs_v(valid_deps@)[j]) by {
            let x = valid_deps@[j];
            let ds = def.dependencies@;
            assert(exists|i: int| 0 <= i < ds.len() && (#[trigger] ds[i])@ == x@ && m0.contains_key(x@));
            let i = choose|i: int| 0 <= i < ds.len() && (#[trigger] ds[i])@ == x@ && m0.contains_key(x@);
            assert(strs_v(ds)[i] == x@);
            assert(dv(def).dependencies.contains(x@));
        }
    }
@after valid_deps 2
    proof {
        lemma_tables_insert(defs, dg0, dep_graph.m(), fd0, fixture_defs.m(), nm, dep_graph.m()[nm], fixture_defs.m()[nm]);
    }
@before visited 1
    let ghost g = dg_view(dep_graph.m());
@loopvar 2 it2
@loop 2
    invariant
        defs == self.defs(), g == dg_view(dep_graph.m()),
        graph_ok(g, defs), fdefs_ok(fixture_defs.m(), defs),
        cycles_ok(defs, cycles@), keys_ok(cycles@, seen_cycles.s()),
@after rec_stack 1
    let ghost mut gsv: Seq<EntV> = evs(stack@);
    proof {
        assert(stack@.len() == 1);
        lemma_dfs_init(defs, gsv, visited.s());
    }
@loop 3
    invariant
        defs == self.defs(), g == dg_view(dep_graph.m()),
        graph_ok(g, defs), fdefs_ok(fixture_defs.m(), defs),
        cycles_ok(defs, cycles@), keys_ok(cycles@, seen_cycles.s()),
        gsv == evs(stack@),
        dfs_inv(defs, gsv, rec_stack.s(), visited.s()),
    decreases dfs_a(g, rec_stack.s(), visited.s()), dfs_b(g, gsv),
@loopstart 3
    let ghost sv0 = gsv;
    let ghost rec0 = rec_stack.s();
    let ghost vis0 = visited.s();
    let ghost e = sv0.last();
    let ghost cycles0 = cycles@;
    let ghost seen0 = seen_cycles.s();
    proof {
        assert(sv0.len() > 0);
        assert(evs(stack@) =~= sv0.drop_last());
        // the popped entry: its node, index and path are what the loop body works on
        assert(e.node == current@ && e.idx == idx as int);
        assert(e.path == strs_v(path@));
        lemma_mid(defs, sv0, rec0, vis0);
    }
@before continue 2
    proof {
        // a node is never pushed while it is on the recursion stack: this block is unreachable
        assert(false);
    }
@before deps 1
    let ghost cp = cur_path(e);
    let ghost rec1 = cur_rec(e, rec0);
    proof {
        assert(strs_v(path@) =~= cp);
        assert(rec_stack.s() =~= rec1);
    }
@before continue 3
    proof {
        lemma_step_pop(defs, sv0, rec0, vis0, vis0);
        lemma_meas_none(g, sv0, rec0, vis0);
        gsv = sv0.drop_last();
    }
@after dep 1
    let ghost dep_v = g[e.node][e.idx];
    proof {
        assert(g[e.node] == strs_v(deps@));
        assert(dep_v == dep@);
    }
@after dep 3
    proof {
        // the dependency is on the recursion set, hence on the current path: `position` finds it
        lemma_cycle(defs, g, sv0, rec0, vis0);
        let j = choose|j: int| 0 <= j < cp.len() && cp[j] == dep_v;
        let y = path@.as_ref()[j];
        assert(path@[j]@ == dep@);
        assert(cycle_start_idx < path@.len() && path@[cycle_start_idx as int]@ == dep@);
        assert(strs_v(path@.subrange(cycle_start_idx as int, path@.len() as int)) =~= cp.subrange(cycle_start_idx as int, cp.len() as int));
    }
@after dep 4
    let ghost cpv = strs_v(cycle_path@);
    proof {
        let i = cycle_start_idx as int;
        assert(cp[i] == dep_v);
        assert(cpv =~= cp.subrange(i, cp.len() as int).push(dep_v));
        assert(is_closed_chain(defs, cpv));
        assert(strs_v(cycle_path@.subrange(0, cycle_path@.len() - 1)) =~= cpv.drop_last());
    }
@after dep 5
    proof {
        assert(cycle_key_str@ == cyc_key(cpv));
        assert(cpv.last() == dep@);
        if cycles@.len() != cycles0.len() {
            assert(cycles@.drop_last() =~= cycles0);
            assert(strs_v(cycles@.last().cycle_path@) == cpv);
        }
        lemma_report(defs, fixture_defs.m(), cycles0, cycles@, seen0, cpv);
    }
@after dep 2
    proof {
        let explore = !rec1.contains(dep_v) && !vis0.contains(dep_v);
        lemma_step_dep(defs, g, sv0, rec0, vis0, explore);
        lemma_meas_dep(g, sv0, rec0, vis0, explore);
        gsv = next_sv(sv0, dep_v, explore);
        assert(evs(stack@) =~= gsv);
    }
@after rec_stack 6
    proof {
        lemma_step_pop(defs, sv0, rec0, vis0, vis0.insert(e.node));
        lemma_meas_done(g, sv0, rec0, vis0);
        gsv = sv0.drop_last();
    }
@*/
}
} // mod resolver
use resolver::*;
} // verus!
fn main() {}
