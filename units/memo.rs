//@include prelude/header.rs
verus! {
global size_of usize == 8;  // A6: 64-bit target
pub mod pre {
use super::*;
//@include prelude/path.rs
//@include prelude/types.rs
//@include prelude/dashmap.rs
//@include prelude/hashset.rs
//@include prelude/atomic.rs
//@include prelude/dbview.rs
//@include prelude/arc.rs
//@include prelude/path_ext.rs
//@include build/astspec.rs
#[verifier::external_type_specification] #[verifier::reject_recursive_types(R)] pub struct ExMod<R>(rustpython_parser::ast::Mod<R>);
#[verifier::external_type_specification] #[verifier::reject_recursive_types(R)] pub struct ExModModule<R>(rustpython_parser::ast::ModModule<R>);
#[verifier::external_type_specification] #[verifier::reject_recursive_types(R)] pub struct ExModInteractive<R>(rustpython_parser::ast::ModInteractive<R>);
#[verifier::external_type_specification] #[verifier::reject_recursive_types(R)] pub struct ExModExpression<R>(rustpython_parser::ast::ModExpression<R>);
#[verifier::external_type_specification] #[verifier::reject_recursive_types(R)] pub struct ExModFunctionType<R>(rustpython_parser::ast::ModFunctionType<R>);
#[verifier::external_type_specification] #[verifier::reject_recursive_types(R)] pub struct ExTypeIgnore<R>(rustpython_parser::ast::TypeIgnore<R>);
#[verifier::external_type_specification] #[verifier::reject_recursive_types(R)] pub struct ExTypeIgnoreTypeIgnore<R>(rustpython_parser::ast::TypeIgnoreTypeIgnore<R>);
} // mod pre
use pre::*;

#[verifier::external_type_specification] pub struct ExFixtureCycle(FixtureCycle);
broadcast use {axiom_path_as_path};
pub const MAX_FILE_CACHE_SIZE: usize = 2000;

#[verifier::external_type_specification] pub struct ExUndeclaredFixture(UndeclaredFixture);
//@item src/fixtures/mod.rs struct EditableInstall
// v2: ALL 18 fields of the database (added: site_packages_paths editable_install_roots workspace_root
// plugin_fixture_files), so that the frame of evict_cache_if_needed below is proved for every field it does not write
//@dbstruct_arc definitions file_definitions usages usage_by_fixture undeclared_fixtures imports file_cache available_fixtures_cache cycle_cache definitions_version canonical_path_cache line_index_cache imported_fixtures_cache ast_cache site_packages_paths editable_install_roots workspace_root plugin_fixture_files

/// everything the memoised computations may read: definitions and cached texts (the file system is a constant)
pub struct QView { pub defs: Map<Seq<char>, Seq<DefV>>, pub texts: Map<PV, Seq<char>> }
/// what compute_available_fixtures returns (specified concretely in unit `available`; abstract here)
pub uninterp spec fn op_avail(q: QView, file: PV) -> Seq<DefV>;
/// what compute_fixture_cycles returns, abstractly (any function of the query view)
pub uninterp spec fn op_cycles(q: QView) -> Seq<FixtureCycle>;
/// canonicalisation of a path (file-system fact, idempotent; get_canonical_path memoises it)
pub uninterp spec fn canon(p: PV) -> PV;
/// content of a file on disk (None if unreadable): file-system fact
pub uninterp spec fn fs_read(p: PV) -> Option<Seq<char>>;

#[verifier::external_type_specification] #[verifier::external_body] pub struct ExIoError(std::io::Error);
#[verifier::allow(undeclared_external_trait)]
pub assume_specification<P: AsRef<Path>>[ std::fs::read_to_string::<P> ](p: P) -> (r: Result<String, std::io::Error>)
    ensures (match r { Ok(s) => Some(s@), Err(_) => None::<Seq<char>> }) == fs_read(as_path_view(p));

pub mod resolver {
use super::*;
impl FixtureDatabase {
    pub open spec fn q(&self) -> QView {
        QView { defs: defs_view(self.definitions.m()), texts: self.file_cache.m().map_values(|a: Arc<String>| (*a)@) }
    }
    pub open spec fn version(&self) -> u64 { self.definitions_version.v }
    /// cache invariant: an entry stamped with the current version holds what a recomputation would return
    pub open spec fn avail_cache_ok(&self) -> bool {
        forall|f: PV| #[trigger] self.available_fixtures_cache.m().contains_key(f)
            && self.available_fixtures_cache.m()[f].0 == self.version()
            ==> dvs((*self.available_fixtures_cache.m()[f].1)@) == op_avail(self.q(), f)
    }
    pub open spec fn cycle_cache_ok(&self) -> bool {
        self.cycle_cache.m().contains_key(()) && self.cycle_cache.m()[()].0 == self.version()
            ==> (*self.cycle_cache.m()[()].1)@ == op_cycles(self.q())
    }

    // callee contracts assumed here
    #[verifier::external_body]
    pub(crate) fn get_canonical_path(&self, path: PathBuf) -> (r: PathBuf)
        ensures pbv(&r) == canon(pbv(&path))
    { unimplemented!() }
    #[verifier::external_body]
    fn compute_available_fixtures(&self, file_path: &Path) -> (r: Vec<FixtureDefinition>)
        ensures dvs(r@) == op_avail(self.q(), pv(file_path))
    { unimplemented!() }
    #[verifier::external_body]
    fn compute_fixture_cycles(&self) -> (r: Vec<super::types::FixtureCycle>)
        ensures r@ == op_cycles(self.q())
    { unimplemented!() }

/*@ extract src/fixtures/resolver.rs get_available_fixtures
@tags C07 C05
@recv mut
@ret r
@sig
    requires old(self).avail_cache_ok(),
    ensures
        // warm == cold: whatever the cache holds, the answer is what a recomputation returns
        dvs(r@) == op_avail(old(self).q(), canon(pv(file_path))),
        final(self).avail_cache_ok(),
        final(self).q() == old(self).q(), final(self).version() == old(self).version(),
        final(self).cycle_cache == old(self).cycle_cache,
@before insert 1
    let ghost fp = pbv(&file_path);
@after insert 1
    proof {
        let st = self.available_fixtures_cache.m()[fp].1;
        assert(dvs((*st)@) =~= dvs(available_fixtures@));
    }
@*/

/*@ extract src/fixtures/resolver.rs detect_fixture_cycles
@tags C07 C16 C19
@recv mut
@ret r
@sig
    requires old(self).cycle_cache_ok(),
    ensures
        (*r)@ == op_cycles(old(self).q()),
        final(self).cycle_cache_ok(),
        final(self).q() == old(self).q(), final(self).version() == old(self).version(),
        final(self).available_fixtures_cache == old(self).available_fixtures_cache,
@*/

/*@ extract src/fixtures/mod.rs get_file_content
@tags C07 C06
@ret r
@wrapexpr_opt 1 `std::fs::read_to_string(file_path).ok().map(Arc::new)` => `Self::vp_read_file(file_path)` with fn vp_read_file(file_path: &Path) -> (r: Option<Arc<String>>) ensures (match r { Some(a) => Some((*a)@), None => None::<Seq<char>> }) == fs_read(pv(file_path))
@sig
    // a pure query (&self receiver): the cached text if there is one, else the file on disk — and NO write to any map
    ensures (match r { Some(a) => Some((*a)@), None => None::<Seq<char>> }) ==
        (if self.file_cache.m().contains_key(pv(file_path)) { Some((*self.file_cache.m()[pv(file_path)])@) } else { fs_read(pv(file_path)) }),
@*/

/*@ extract src/fixtures/mod.rs cleanup_file_cache
@tags C07 C06 C19
@recv mut
@wrapexpr 1 `file_path .canonicalize() .unwrap_or_else(|_| file_path.to_path_buf())` => `Self::vp_canonicalize_or_self(file_path)` with fn vp_canonicalize_or_self(file_path: &Path) -> (r: PathBuf) ensures pbv(&r) == canon(pv(file_path))
@sig
    ensures
        // closing a document drops only cached data of that file: the index (definitions) and the version stay
        // frame: no index map is touched
        final(self).file_definitions == old(self).file_definitions, final(self).usages == old(self).usages,
        final(self).usage_by_fixture == old(self).usage_by_fixture, final(self).undeclared_fixtures == old(self).undeclared_fixtures,
        final(self).imports == old(self).imports,
        final(self).definitions == old(self).definitions, final(self).version() == old(self).version(),
        final(self).file_cache.m() == old(self).file_cache.m().remove(canon(pv(file_path))),
        final(self).available_fixtures_cache.m() == old(self).available_fixtures_cache.m().remove(canon(pv(file_path))),
        final(self).cycle_cache == old(self).cycle_cache,
        // v2: the other per-file memo entries of the canonical path go too ...
        final(self).line_index_cache.m() == old(self).line_index_cache.m().remove(canon(pv(file_path))),
        final(self).imported_fixtures_cache.m() == old(self).imported_fixtures_cache.m().remove(canon(pv(file_path))),
        // ... and the canonical-path table and the environment fields are not touched
        final(self).canonical_path_cache == old(self).canonical_path_cache,
        final(self).site_packages_paths == old(self).site_packages_paths,
        final(self).editable_install_roots == old(self).editable_install_roots,
        final(self).workspace_root == old(self).workspace_root,
        final(self).plugin_fixture_files == old(self).plugin_fixture_files,
@*/

// exec vacuity guard (must FAIL): the real body of cleanup_file_cache under "the line-index table is left alone"
/*@ extract src/fixtures/mod.rs cleanup_file_cache
@tags C07
@as canary_cleanup_keeps_line_index_entry
@recv mut
@wrapexpr 1 `file_path .canonicalize() .unwrap_or_else(|_| file_path.to_path_buf())` => `Self::vp_canonicalize_or_self_c(file_path)` with fn vp_canonicalize_or_self_c(file_path: &Path) -> (r: PathBuf) ensures pbv(&r) == canon(pv(file_path))
@sig
    ensures final(self).line_index_cache.m() == old(self).line_index_cache.m(),
@*/

/*@ extract src/fixtures/mod.rs evict_cache_if_needed
@tags C07 C06 C19
@recv mut
@closure map:1 |entry: RefMulti<'_, PathBuf, Arc<String>>| -> (p: PathBuf) ensures pbv(&p) == pbv(entry.k)
@sig
    ensures
        // eviction only ever drops cached data: the index and the version stay, cached texts only shrink
        // frame: no index map is touched
        final(self).file_definitions == old(self).file_definitions, final(self).usages == old(self).usages,
        final(self).usage_by_fixture == old(self).usage_by_fixture, final(self).undeclared_fixtures == old(self).undeclared_fixtures,
        final(self).imports == old(self).imports,
        final(self).definitions == old(self).definitions, final(self).version() == old(self).version(),
        final(self).cycle_cache == old(self).cycle_cache,
        final(self).file_cache.m().submap_of(old(self).file_cache.m()),
        final(self).available_fixtures_cache.m().submap_of(old(self).available_fixtures_cache.m()),
        // v2: the other memo tables only shrink too (so invariants of the form "every entry is ..." survive: unit
        // memo_keys li_cache_wf / ast_cache_wf) ...
        final(self).line_index_cache.m().submap_of(old(self).line_index_cache.m()),
        final(self).imported_fixtures_cache.m().submap_of(old(self).imported_fixtures_cache.m()),
        // ... and the canonical-path table and the environment fields are not touched
        final(self).canonical_path_cache == old(self).canonical_path_cache,
        final(self).site_packages_paths == old(self).site_packages_paths,
        final(self).editable_install_roots == old(self).editable_install_roots,
        final(self).workspace_root == old(self).workspace_root,
        final(self).plugin_fixture_files == old(self).plugin_fixture_files,
@loopvar 1 it
@loop 1
    invariant
        self.file_definitions == old(self).file_definitions, self.usages == old(self).usages, self.usage_by_fixture == old(self).usage_by_fixture,
        self.undeclared_fixtures == old(self).undeclared_fixtures, self.imports == old(self).imports,
        self.definitions == old(self).definitions, self.version() == old(self).version(), self.cycle_cache == old(self).cycle_cache,
        self.file_cache.m().submap_of(old(self).file_cache.m()),
        self.available_fixtures_cache.m().submap_of(old(self).available_fixtures_cache.m()),
        self.line_index_cache.m().submap_of(old(self).line_index_cache.m()),
        self.imported_fixtures_cache.m().submap_of(old(self).imported_fixtures_cache.m()),
        self.canonical_path_cache == old(self).canonical_path_cache,
        self.site_packages_paths == old(self).site_packages_paths, self.editable_install_roots == old(self).editable_install_roots,
        self.workspace_root == old(self).workspace_root, self.plugin_fixture_files == old(self).plugin_fixture_files,
@*/
}
} // mod resolver
use resolver::*;
} // verus!
fn main() {}
