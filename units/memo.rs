//@include prelude/header.rs
verus! {
global size_of usize == 8;  // A6: 64-bit target
pub mod pre {
use super::*;
//@include prelude/path.rs
//@include prelude/types.rs
//@include prelude/dashmap.rs
//@include prelude/hashset.rs
//@include prelude/atomic.rs
//@include prelude/dbview.rs
//@include prelude/arc.rs
} // mod pre
use pre::*;

#[verifier::external_type_specification] pub struct ExFixtureCycle(FixtureCycle);

//@dbstruct_arc definitions file_cache available_fixtures_cache cycle_cache definitions_version canonical_path_cache

/// everything the memoised computations may read: definitions and cached texts (the file system is a constant)
pub struct QView { pub defs: Map<Seq<char>, Seq<DefV>>, pub texts: Map<PV, Seq<char>> }
/// what compute_available_fixtures returns (specified concretely in unit `available`; abstract here)
pub uninterp spec fn op_avail(q: QView, file: PV) -> Seq<DefV>;
/// what compute_fixture_cycles returns, abstractly (any function of the query view)
pub uninterp spec fn op_cycles(q: QView) -> Seq<FixtureCycle>;
/// canonicalisation of a path (file-system fact, idempotent; get_canonical_path memoises it)
pub uninterp spec fn canon(p: PV) -> PV;

pub mod resolver {
use super::*;
impl FixtureDatabase {
    pub open spec fn q(&self) -> QView {
        QView { defs: defs_view(self.definitions.m()), texts: self.file_cache.m().map_values(|a: Arc<String>| (*a)@) }
    }
    pub open spec fn version(&self) -> u64 { self.definitions_version.v }
    /// cache invariant: an entry stamped with the current version holds what a recomputation would return
    pub open spec fn avail_cache_ok(&self) -> bool {
        forall|f: PV| #[trigger] self.available_fixtures_cache.m().contains_key(f)
            && self.available_fixtures_cache.m()[f].0 == self.version()
            ==> dvs((*self.available_fixtures_cache.m()[f].1)@) == op_avail(self.q(), f)
    }
    pub open spec fn cycle_cache_ok(&self) -> bool {
        self.cycle_cache.m().contains_key(()) && self.cycle_cache.m()[()].0 == self.version()
            ==> (*self.cycle_cache.m()[()].1)@ == op_cycles(self.q())
    }

    // callee contracts assumed here
    #[verifier::external_body]
    pub(crate) fn get_canonical_path(&self, path: PathBuf) -> (r: PathBuf)
        ensures pbv(&r) == canon(pbv(&path))
    { unimplemented!() }
    #[verifier::external_body]
    fn compute_available_fixtures(&self, file_path: &Path) -> (r: Vec<FixtureDefinition>)
        ensures dvs(r@) == op_avail(self.q(), pv(file_path))
    { unimplemented!() }
    #[verifier::external_body]
    fn compute_fixture_cycles(&self) -> (r: Vec<super::types::FixtureCycle>)
        ensures r@ == op_cycles(self.q())
    { unimplemented!() }

/*@ extract src/fixtures/resolver.rs get_available_fixtures
@tags C07 C05
@recv mut
@ret r
@sig
    requires old(self).avail_cache_ok(),
    ensures
        // warm == cold: whatever the cache holds, the answer is what a recomputation returns
        dvs(r@) == op_avail(old(self).q(), canon(pv(file_path))),
        final(self).avail_cache_ok(),
        final(self).q() == old(self).q(), final(self).version() == old(self).version(),
        final(self).cycle_cache == old(self).cycle_cache,
@before insert 1
    let ghost fp = pbv(&file_path);
@after insert 1
    proof {
        let st = self.available_fixtures_cache.m()[fp].1;
        assert(dvs((*st)@) =~= dvs(available_fixtures@));
    }
@*/

/*@ extract src/fixtures/resolver.rs detect_fixture_cycles
@tags C07 C16
@recv mut
@ret r
@sig
    requires old(self).cycle_cache_ok(),
    ensures
        (*r)@ == op_cycles(old(self).q()),
        final(self).cycle_cache_ok(),
        final(self).q() == old(self).q(), final(self).version() == old(self).version(),
        final(self).available_fixtures_cache == old(self).available_fixtures_cache,
@*/
}
} // mod resolver
use resolver::*;
} // verus!
fn main() {}
