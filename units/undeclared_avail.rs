//@include prelude/header.rs
verus! {
global size_of usize == 8;  // A6: 64-bit target
pub mod pre {
use super::*;
//@include prelude/path.rs
//@include prelude/types.rs
//@include prelude/dashmap.rs
//@include prelude/hashset.rs
//@include prelude/atomic.rs
//@include prelude/dbview.rs
//@include prelude/hof.rs
//@include prelude/resolve_spec.rs
//@include prelude/resolve_l2.rs
//@include prelude/path_ext.rs
} // mod pre
use pre::*;

//@dbstruct definitions file_cache

//@include prelude/db_specs.rs

broadcast use {axiom_has_parent_nonempty, axiom_path_as_path};

/// what is_available_fixture accepts for one definition d seen from `file`
pub open spec fn avail_ok(file: PV) -> spec_fn(DefV) -> bool {
    |d: DefV| d.file == file
        || (d.file.len() > 0 && d.file.last() == conftest_name()
            && pv_is_prefix(if pv_has_parent(d.file) { d.file.drop_last() } else { Seq::<Seq<char>>::empty() }, file))
        || d.is_third_party || d.is_plugin
}
pub open spec fn op_is_available(ds: Seq<DefV>, file: PV) -> bool { exists|i: int| 0 <= i < ds.len() && avail_ok(file)(#[trigger] ds[i]) }

impl FixtureDatabase {
/*@ extract src/fixtures/undeclared.rs is_available_fixture
@tags C17
@ret r
@wrapexpr 1 `def.file_path.file_name().and_then(|n| n.to_str()) == Some("conftest.py")` => `Self::vp_named_conftest(def)` with fn vp_named_conftest(def: &FixtureDefinition) -> (r: bool) ensures r == (pbv(&def.file_path).len() > 0 && pbv(&def.file_path).last() == conftest_name())
@wrapexpr 1 `def.file_path.parent().unwrap_or(Path::new(""))` => `Self::vp_parent_or_empty(def)` with fn vp_parent_or_empty(def: &FixtureDefinition) -> (r: &Path) ensures pv(r) == (if pv_has_parent(pbv(&def.file_path)) { pbv(&def.file_path).drop_last() } else { Seq::<Seq<char>>::empty() })
@sig
    ensures r == op_is_available(bucket(self.defs(), fixture_name@), pv(file_path)),
@before for 1
    let ghost dsx = definitions.r@;
    let ghost ds = dvs(dsx);
    proof { assert(ds == bucket(self.defs(), fixture_name@)); }
@loopvar 1 it
@loop 1
    invariant dsx == definitions.r@, ds == dvs(dsx), it.seq() == dsx.as_ref(), ds == bucket(self.defs(), fixture_name@),
        forall|j: int| 0 <= j < it.index@ ==> !avail_ok(pv(file_path))(#[trigger] ds[j]),
@return 1
    assert(avail_ok(pv(file_path))(ds[it.index@ as int]));
@return 2
    assert(avail_ok(pv(file_path))(ds[it.index@ as int]));
@return 3
    assert(avail_ok(pv(file_path))(ds[it.index@ as int]));
@return 4
    assert(avail_ok(pv(file_path))(ds[it.index@ as int]));
@*/
}

//@tags C17
/// C17.a — precision: a name is only ever treated as an available fixture when some registered definition of
/// it is visible from the file in the sense of is_available_fixture: same file, a conftest.py whose directory
/// is an ancestor (prefix) of the file's path, a plugin or a third-party definition.  A name no fixture
/// carries (empty bucket) is never available.
pub proof fn lemma_C17_a_available_has_visible_def(ds: Seq<DefV>, file: PV)
    requires op_is_available(ds, file)
    ensures exists|i: int| 0 <= i < ds.len() && (ds[i].file == file || ds[i].is_third_party || ds[i].is_plugin
        || (#[trigger] ds[i]).file.last() == conftest_name())
{
    let i = choose|i: int| 0 <= i < ds.len() && avail_ok(file)(#[trigger] ds[i]);
}
//@tags C17
pub proof fn lemma_C17_unknown_name_not_available(file: PV)
    ensures !op_is_available(Seq::<DefV>::empty(), file)
{
}
//@tags C17 C05
/// every definition go-to-definition can return from the same file, an ancestor conftest (own definition), a
/// plugin or third-party is also accepted here — but NOT one reached only through a conftest IMPORT: a fixture
/// that resolution finds through `from x import *` in a conftest is not "available" for the undeclared check
/// unless its defining module happens to be a plugin / third-party file (documented gap, see DESIGN §5-C17)
pub proof fn lemma_C17_resolved_own_is_available(ds: Seq<DefV>, file: PV, d: DefV)
    requires in_seq(ds, d), d.file == file || d.is_third_party || d.is_plugin
    ensures op_is_available(ds, file)
{
    let i = choose|i: int| 0 <= i < ds.len() && ds[i] == d;
    assert(avail_ok(file)(ds[i]));
}
// ---- canary: must FAIL — a definition in an unrelated test module does not make the name available
pub proof fn canary_C17_any_def_available(ds: Seq<DefV>, file: PV)
    requires ds.len() > 0
    ensures op_is_available(ds, file)
{
}
} // verus!
fn main() {}
