//@include prelude/header.rs
// Unit handlers_main: the notification handlers at the top of the server, src/main.rs `impl LanguageServer for Backend`:
// did_open, did_change, did_close (there is no did_save), under contract.  Real async bodies read sequentially (T13),
// writes modelled as `&mut self` with the Arc wrappers stripped (T3/T6: prelude/lsp_backend_mut.rs).
//   L1: did_open_post / did_change_post / did_close_post (prelude/main_spec.rs): the database afterwards is the post
//       state PROVED for analyze_file (//@stub analyze) / cleanup_file_cache (//@stub memo); the no-wrap precondition
//       of analyze_file is carried as `requires`.  publish_diagnostics_for_file is called through the T5b helper
//       vp_publish_on whose PRECONDITION says on which state it runs: the post-analysis state of (path, text).
//   L2: prelude/main_l2.rs (C06 / C10 / C19 lemmas composed with prelude/analyze_l2.rs, canaries).
// v2 (composed with analyze_v2 / memo_v2): the explicit hypotheses of analyze_file (env_ok, li_cache_wf, canon_cache_wf,
// H-ideal for the text: prelude/main_spec_v2.rs analyze_pre) are carried as `requires`; the state part db_inv is
// re-established by all three handlers (did_close: from the frame of cleanup_file_cache proved in unit memo_v2).
// v3 (composed with unit uri_glue: prelude/lsp_backend_mut.rs): uri_to_path is `//@stub uri_glue uri_to_path`;
// uri_path := op_uri_to_path.  Each real body additionally PROVES cache_inv_kept (the URI-cache invariant survives) and
// did_open own_uri_after_open (path_to_uri answers the opened document's path with the client's own URI); the ghost
// text sits at @start / @end only (no anchor inside the body: a dropped / changed insert or remove stays DECIDED).
// L2 (prelude/main_l2.rs): lemma_C19_open_remembers_uri IS lemma_opened_document_gets_its_own_uri (unit uri_glue) on the
// transition proved for did_open; lemma_cache_inv_is_invariant / lemma_srv_inv_is_invariant (below);
// lemma_C19_open_document_keeps_its_uri; FINDING lemma_C05_FINDING_second_open_of_same_file_replaces_uri.
// MUTATION RECORD (2026-09-27, scratch copy of /repo/src, VERIF_REPO):
//   m1  did_open without `self.uri_cache.insert(..)`  -> did_open FAILS did_open_post, own_uri_after_open and the
//       precondition of vp_publish_on (the URI is remembered before diagnostics are published); cache_inv_kept holds (true)
//   m2  did_open inserts under the URI's RAW path (`if let Some(raw) = uri.to_file_path() { insert(raw.to_path_buf(), ..) }`)
//       -> as written UNDECIDED (tool limit: Uri::to_file_path returns Cow<Path>, no specification possible; @rename
//       cannot be pre-armed: it refuses a function without an occurrence).  With the T5 rename applied in the mutant text
//       (`uri.vp_to_file_path()`, stand-in US5 of prelude/uri_shims.rs spliced from a scratch file): did_open FAILS
//       did_open_post, cache_inv_kept, own_uri_after_open and the precondition of vp_publish_on
//   m4a did_close without `self.uri_cache.remove(..)` -> did_close FAILS did_close_post (cache' == cache.remove(p));
//       canary_exec_did_close_keeps_uri_cache stops failing; cache_inv_kept holds (true: nothing removed)
//   m4b did_close removes another key (`remove(&file_path.join("x"))`) -> did_close FAILS did_close_post; cache_inv_kept
//       holds (true: removing ANY key keeps the invariant -- the invariant does not say WHICH entry goes)
//   m5 / m6 (providers/mod.rs path_to_uri ignores the cache / uri_to_path does not canonicalise) -> support unit uri_glue
//       FAILS its L1 contracts (reached through the `//@stub uri_glue` lines below)
use rustpython_parser::{parse, Mode};
use rustpython_parser::ast::{Stmt, Expr, Keyword, Identifier, Constant, ExceptHandler, ExprCall, Alias, Arguments, ArgWithDefault};
use rustpython_parser::text_size::TextRange;
use ls_types::*;
verus! {
global size_of usize == 8;  // A6: 64-bit target
pub mod pre {
use super::*;
//@include prelude/path.rs
//@include prelude/path_ext.rs
//@include prelude/types.rs
//@include prelude/dashmap.rs
//@include prelude/hashset.rs
//@include prelude/atomic.rs
//@include prelude/dbview.rs
//@include prelude/hof.rs
//@include prelude/arc.rs
//@include prelude/index_spec.rs
//@include prelude/strings.rs
//@include prelude/iter_ext.rs
//@include prelude/iter_slice.rs
//@include prelude/bytes.rs
//@include build/astspec.rs
#[verifier::external_type_specification] #[verifier::reject_recursive_types(R)] pub struct ExMod<R>(rustpython_parser::ast::Mod<R>);
#[verifier::external_type_specification] #[verifier::reject_recursive_types(R)] pub struct ExModModule<R>(rustpython_parser::ast::ModModule<R>);
#[verifier::external_type_specification] #[verifier::reject_recursive_types(R)] pub struct ExModInteractive<R>(rustpython_parser::ast::ModInteractive<R>);
#[verifier::external_type_specification] #[verifier::reject_recursive_types(R)] pub struct ExModExpression<R>(rustpython_parser::ast::ModExpression<R>);
#[verifier::external_type_specification] #[verifier::reject_recursive_types(R)] pub struct ExModFunctionType<R>(rustpython_parser::ast::ModFunctionType<R>);
#[verifier::external_type_specification] #[verifier::reject_recursive_types(R)] pub struct ExTypeIgnore<R>(rustpython_parser::ast::TypeIgnore<R>);
#[verifier::external_type_specification] #[verifier::reject_recursive_types(R)] pub struct ExTypeIgnoreTypeIgnore<R>(rustpython_parser::ast::TypeIgnoreTypeIgnore<R>);
//@include prelude/ast_spec.rs
//@include prelude/line_spec.rs
//@include prelude/visit_spec.rs
//@include prelude/analyze_spec.rs
//@include prelude/analyze_imports.rs
//@include prelude/analyze_l2.rs
//@include prelude/memokeys_spec.rs
//@include prelude/fs_canonical_decl.rs
//@include prelude/memokeys_canon_spec.rs
//@include build/lspspec_main.rs
//@include prelude/undecl_avail_spec.rs
//@include prelude/undecl_spec.rs
//@include prelude/visit_undecl.rs
//@include prelude/analyze_undecl.rs
} // mod pre
use pre::*;

#[verifier::external_type_specification] pub struct ExUndeclaredFixture(UndeclaredFixture);
#[verifier::external_type_specification] pub struct ExFixtureCycle(FixtureCycle);

//@item src/fixtures/mod.rs struct EditableInstall
//@dbstruct_arc definitions file_definitions usages usage_by_fixture definitions_version file_cache undeclared_fixtures imports canonical_path_cache line_index_cache cycle_cache available_fixtures_cache imported_fixtures_cache site_packages_paths editable_install_roots workspace_root plugin_fixture_files

//@include prelude/index_dbspecs_all.rs

/// canonicalisation of a path -- as in unit analyze_v2: what get_canonical_path is PROVED to return (unit memo_keys)
pub open spec fn canon(p: PV) -> PV { canon_now(p) }

//@include prelude/lsp_backend_mut.rs
//@include prelude/classify_spec.rs
//@include prelude/visit_env.rs
//@include prelude/main_spec_v2.rs
//@include prelude/main_l2.rs

// Backend::uri_to_path / path_to_uri (src/providers/mod.rs): the contracts PROVED on the real bodies in unit uri_glue
impl Backend {
//@stub uri_glue uri_to_path
//@stub uri_glue path_to_uri
}

impl FixtureDatabase {
//@stub analyze analyze_file
//@stub memo cleanup_file_cache
}

impl Backend {
/*@ extract src/main.rs did_open
@tags C06 C10 C19 C11
@stripasync
@recv mut
@wrapexpr 1 `self.publish_diagnostics_for_file(&uri, &file_path)` => `self.vp_publish_on(&uri, &file_path, Ghost(db0), Ghost(txt))` with fn vp_publish_on(&self, uri: &Uri, file_path: &PathBuf, Ghost(db0): Ghost<FixtureDatabase>, Ghost(txt): Ghost<Seq<char>>) requires analyze_file_post(db0, self.fixture_db, pbv(file_path), txt), self.uri_cache.m().contains_key(pbv(file_path)) && self.uri_cache.m()[pbv(file_path)] == *uri
@sig
    requires uri_path(params.text_document.uri) is Some ==> analyze_pre(old(self).fixture_db, uri_path(params.text_document.uri)->0, params.text_document.text@),
    ensures did_open_post(*old(self), *final(self), params.text_document.uri, params.text_document.text@),
        cache_inv_kept(*old(self), *final(self)),
        own_uri_after_open(*final(self), params.text_document.uri),
@start
    let ghost db0 = self.fixture_db;
    let ghost txt = params.text_document.text@;
    let ghost uc0 = self.uri_cache.m();
    let ghost g_uri = params.text_document.uri;
@end
    proof { if cache_inv(uc0) && uri_path(g_uri) is Some { lemma_did_open_keeps_cache_invariant(uc0, g_uri, uri_path(g_uri)->0); } }
@*/

/*@ extract src/main.rs did_change
@tags C06 C10 C19 C11
@stripasync
@recv mut
@wrapexpr 1 `self.publish_diagnostics_for_file(&uri, &file_path)` => `self.vp_publish_on_change(&uri, &file_path, Ghost(db0), Ghost(change.text@))` with fn vp_publish_on_change(&self, uri: &Uri, file_path: &PathBuf, Ghost(db0): Ghost<FixtureDatabase>, Ghost(txt): Ghost<Seq<char>>) requires analyze_file_post(db0, self.fixture_db, pbv(file_path), txt)
@sig
    requires (uri_path(params.text_document.uri) is Some && params.content_changes@.len() > 0)
        ==> analyze_pre(old(self).fixture_db, uri_path(params.text_document.uri)->0, params.content_changes@.last().text@),
    ensures did_change_post(*old(self), *final(self), params.text_document.uri, params.content_changes@),
        cache_inv_kept(*old(self), *final(self)),
@start
    let ghost db0 = self.fixture_db;
@*/

/*@ extract src/main.rs did_close
@tags C06 C19 C11
@stripasync
@recv mut
@sig
    ensures did_close_post(*old(self), *final(self), params.text_document.uri),
        cache_inv_kept(*old(self), *final(self)),
@start
    let ghost uc0 = self.uri_cache.m();
    let ghost g_uri = params.text_document.uri;
@end
    proof { if cache_inv(uc0) && uri_path(g_uri) is Some { lemma_did_close_keeps_cache_invariant(uc0, uri_path(g_uri)->0); } }
@*/

// ---- exec vacuity guards (each must FAIL): the real bodies under deliberately wrong contracts
/*@ extract src/main.rs did_open
@as canary_exec_did_open_is_noop
@stripasync
@recv mut
@wrapexpr 1 `self.publish_diagnostics_for_file(&uri, &file_path)` => `self.vp_publish_on_c1(&uri, &file_path)` with fn vp_publish_on_c1(&self, uri: &Uri, file_path: &PathBuf)
@sig
    requires uri_path(params.text_document.uri) is Some ==> analyze_pre(old(self).fixture_db, uri_path(params.text_document.uri)->0, params.text_document.text@),
    ensures final(self).fixture_db.version() == old(self).fixture_db.version(),
@*/

/*@ extract src/main.rs did_change
@as canary_exec_did_change_publishes_on_old_state
@stripasync
@recv mut
@wrapexpr 1 `self.publish_diagnostics_for_file(&uri, &file_path)` => `self.vp_publish_on_c2(&uri, &file_path, Ghost(db0))` with fn vp_publish_on_c2(&self, uri: &Uri, file_path: &PathBuf, Ghost(db0): Ghost<FixtureDatabase>) requires self.fixture_db.version() == db0.version()
@sig
    requires (uri_path(params.text_document.uri) is Some && params.content_changes@.len() > 0)
        ==> analyze_pre(old(self).fixture_db, uri_path(params.text_document.uri)->0, params.content_changes@.last().text@),
@start
    let ghost db0 = self.fixture_db;
@*/

// (v3) didOpen ESTABLISHES the cache invariant whatever the cache held before
/*@ extract src/main.rs did_open
@as canary_exec_did_open_establishes_cache_inv
@stripasync
@recv mut
@wrapexpr 1 `self.publish_diagnostics_for_file(&uri, &file_path)` => `self.vp_publish_on_c3(&uri, &file_path)` with fn vp_publish_on_c3(&self, uri: &Uri, file_path: &PathBuf)
@sig
    requires uri_path(params.text_document.uri) is Some ==> analyze_pre(old(self).fixture_db, uri_path(params.text_document.uri)->0, params.text_document.text@),
    ensures cache_inv(final(self).uri_cache.m()),
@start
    let ghost uc0 = self.uri_cache.m();
    let ghost g_uri = params.text_document.uri;
@end
    proof { if cache_inv(uc0) && uri_path(g_uri) is Some { lemma_did_open_keeps_cache_invariant(uc0, g_uri, uri_path(g_uri)->0); } }
@*/

// (v3) didClose leaves the URI cache as it was
/*@ extract src/main.rs did_close
@as canary_exec_did_close_keeps_uri_cache
@stripasync
@recv mut
@sig
    ensures final(self).uri_cache.m() == old(self).uri_cache.m(),
@*/

/*@ extract src/main.rs did_close
@as canary_exec_did_close_keeps_text_cache
@stripasync
@recv mut
@sig
    ensures final(self).fixture_db.file_cache.m() == old(self).fixture_db.file_cache.m(),
@*/
}


//@tags C06 C07 C19
/// the state hypotheses are an INVARIANT of the notification handlers: whichever of the three runs, db_inv holds again
/// (for didOpen / didChange with a path it is even established outright by the analysis)
pub proof fn lemma_db_inv_is_invariant(o: Backend, s: Backend, uri: Uri, text: Seq<char>, changes: Seq<TextDocumentContentChangeEvent>)
    requires db_inv(o.fixture_db),
        did_open_post(o, s, uri, text) || did_change_post(o, s, uri, changes) || did_close_post(o, s, uri),
    ensures db_inv(s.fixture_db),
{}
//@tags C04 C05 C06 C15 C19
/// v3: the WHOLE server invariant (database part + URI-cache part) is an invariant of the notification handlers
pub proof fn lemma_srv_inv_is_invariant(o: Backend, s: Backend, uri: Uri, text: Seq<char>, changes: Seq<TextDocumentContentChangeEvent>)
    requires srv_inv(o),
        did_open_post(o, s, uri, text) || did_change_post(o, s, uri, changes) || did_close_post(o, s, uri),
    ensures srv_inv(s),
{
    lemma_db_inv_is_invariant(o, s, uri, text, changes);
    lemma_cache_inv_is_invariant(o, s, uri, text, changes);
}
/// canary: "the state hypotheses are contradictory"
pub proof fn canary_db_inv_contradictory(o: FixtureDatabase, t: Seq<char>)
    requires db_inv(o), hash_collides_with_nothing(t), forall|f: PV| li_no_collision(o.line_index_cache.m(), f, t),
    ensures false,
{}
/// canary: "didClose establishes the state hypotheses from nothing"
pub proof fn canary_did_close_establishes_db_inv(o: Backend, s: Backend, uri: Uri)
    requires did_close_post(o, s, uri),
    ensures db_inv(s.fixture_db),
{}

} // verus!
fn main() {}
