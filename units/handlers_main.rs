//@include prelude/header.rs
// Unit handlers_main: the notification handlers at the top of the server, src/main.rs `impl LanguageServer for Backend`:
// did_open, did_change, did_close (there is no did_save), under contract.  Real async bodies read sequentially (T13),
// writes modelled as `&mut self` with the Arc wrappers stripped (T3/T6: prelude/lsp_backend_mut.rs).
//   L1: did_open_post / did_change_post / did_close_post (prelude/main_spec.rs): the database afterwards is the post
//       state PROVED for analyze_file (//@stub analyze) / cleanup_file_cache (//@stub memo); the no-wrap precondition
//       of analyze_file is carried as `requires`.  publish_diagnostics_for_file is called through the T5b helper
//       vp_publish_on whose PRECONDITION says on which state it runs: the post-analysis state of (path, text).
//   L2: prelude/main_l2.rs (C06 / C10 / C19 lemmas composed with prelude/analyze_l2.rs, canaries).
// v2 (composed with analyze_v2 / memo_v2): the explicit hypotheses of analyze_file (env_ok, li_cache_wf, canon_cache_wf,
// H-ideal for the text: prelude/main_spec_v2.rs analyze_pre) are carried as `requires`; the state part db_inv is
// re-established by all three handlers (did_close: from the frame of cleanup_file_cache proved in unit memo_v2).
use rustpython_parser::{parse, Mode};
use rustpython_parser::ast::{Stmt, Expr, Keyword, Identifier, Constant, ExceptHandler, ExprCall, Alias, Arguments, ArgWithDefault};
use rustpython_parser::text_size::TextRange;
use ls_types::*;
verus! {
global size_of usize == 8;  // A6: 64-bit target
pub mod pre {
use super::*;
//@include prelude/path.rs
//@include prelude/path_ext.rs
//@include prelude/types.rs
//@include prelude/dashmap.rs
//@include prelude/hashset.rs
//@include prelude/atomic.rs
//@include prelude/dbview.rs
//@include prelude/hof.rs
//@include prelude/arc.rs
//@include prelude/index_spec.rs
//@include prelude/strings.rs
//@include prelude/iter_ext.rs
//@include prelude/iter_slice.rs
//@include prelude/bytes.rs
//@include build/astspec.rs
#[verifier::external_type_specification] #[verifier::reject_recursive_types(R)] pub struct ExMod<R>(rustpython_parser::ast::Mod<R>);
#[verifier::external_type_specification] #[verifier::reject_recursive_types(R)] pub struct ExModModule<R>(rustpython_parser::ast::ModModule<R>);
#[verifier::external_type_specification] #[verifier::reject_recursive_types(R)] pub struct ExModInteractive<R>(rustpython_parser::ast::ModInteractive<R>);
#[verifier::external_type_specification] #[verifier::reject_recursive_types(R)] pub struct ExModExpression<R>(rustpython_parser::ast::ModExpression<R>);
#[verifier::external_type_specification] #[verifier::reject_recursive_types(R)] pub struct ExModFunctionType<R>(rustpython_parser::ast::ModFunctionType<R>);
#[verifier::external_type_specification] #[verifier::reject_recursive_types(R)] pub struct ExTypeIgnore<R>(rustpython_parser::ast::TypeIgnore<R>);
#[verifier::external_type_specification] #[verifier::reject_recursive_types(R)] pub struct ExTypeIgnoreTypeIgnore<R>(rustpython_parser::ast::TypeIgnoreTypeIgnore<R>);
//@include prelude/ast_spec.rs
//@include prelude/line_spec.rs
//@include prelude/visit_spec.rs
//@include prelude/analyze_spec.rs
//@include prelude/analyze_imports.rs
//@include prelude/analyze_l2.rs
//@include prelude/memokeys_spec.rs
//@include prelude/fs_canonical_decl.rs
//@include prelude/memokeys_canon_spec.rs
//@include build/lspspec_main.rs
} // mod pre
use pre::*;

#[verifier::external_type_specification] pub struct ExUndeclaredFixture(UndeclaredFixture);
#[verifier::external_type_specification] pub struct ExFixtureCycle(FixtureCycle);

//@item src/fixtures/mod.rs struct EditableInstall
//@dbstruct_arc definitions file_definitions usages usage_by_fixture definitions_version file_cache undeclared_fixtures imports canonical_path_cache line_index_cache cycle_cache available_fixtures_cache imported_fixtures_cache site_packages_paths editable_install_roots workspace_root plugin_fixture_files

//@include prelude/index_dbspecs_all.rs

/// canonicalisation of a path -- as in unit analyze_v2: what get_canonical_path is PROVED to return (unit memo_keys)
pub open spec fn canon(p: PV) -> PV { canon_now(p) }

//@include prelude/lsp_backend_mut.rs
//@include prelude/classify_spec.rs
//@include prelude/visit_env.rs
//@include prelude/main_spec_v2.rs
//@include prelude/main_l2.rs

impl FixtureDatabase {
//@stub analyze analyze_file
//@stub memo cleanup_file_cache
}

impl Backend {
/*@ extract src/main.rs did_open
@tags C06 C10 C19 C11
@stripasync
@recv mut
@wrapexpr 1 `self.publish_diagnostics_for_file(&uri, &file_path)` => `self.vp_publish_on(&uri, &file_path, Ghost(db0), Ghost(txt))` with fn vp_publish_on(&self, uri: &Uri, file_path: &PathBuf, Ghost(db0): Ghost<FixtureDatabase>, Ghost(txt): Ghost<Seq<char>>) requires analyze_file_post(db0, self.fixture_db, pbv(file_path), txt), self.uri_cache.m().contains_key(pbv(file_path)) && self.uri_cache.m()[pbv(file_path)] == *uri
@sig
    requires uri_path(params.text_document.uri) is Some ==> analyze_pre(old(self).fixture_db, uri_path(params.text_document.uri)->0, params.text_document.text@),
    ensures did_open_post(*old(self), *final(self), params.text_document.uri, params.text_document.text@),
@start
    let ghost db0 = self.fixture_db;
    let ghost txt = params.text_document.text@;
@*/

/*@ extract src/main.rs did_change
@tags C06 C10 C19 C11
@stripasync
@recv mut
@wrapexpr 1 `self.publish_diagnostics_for_file(&uri, &file_path)` => `self.vp_publish_on_change(&uri, &file_path, Ghost(db0), Ghost(change.text@))` with fn vp_publish_on_change(&self, uri: &Uri, file_path: &PathBuf, Ghost(db0): Ghost<FixtureDatabase>, Ghost(txt): Ghost<Seq<char>>) requires analyze_file_post(db0, self.fixture_db, pbv(file_path), txt)
@sig
    requires (uri_path(params.text_document.uri) is Some && params.content_changes@.len() > 0)
        ==> analyze_pre(old(self).fixture_db, uri_path(params.text_document.uri)->0, params.content_changes@.last().text@),
    ensures did_change_post(*old(self), *final(self), params.text_document.uri, params.content_changes@),
@start
    let ghost db0 = self.fixture_db;
@*/

/*@ extract src/main.rs did_close
@tags C06 C19 C11
@stripasync
@recv mut
@sig
    ensures did_close_post(*old(self), *final(self), params.text_document.uri),
@*/

// ---- exec vacuity guards (each must FAIL): the real bodies under deliberately wrong contracts
/*@ extract src/main.rs did_open
@as canary_exec_did_open_is_noop
@stripasync
@recv mut
@wrapexpr 1 `self.publish_diagnostics_for_file(&uri, &file_path)` => `self.vp_publish_on_c1(&uri, &file_path)` with fn vp_publish_on_c1(&self, uri: &Uri, file_path: &PathBuf)
@sig
    requires uri_path(params.text_document.uri) is Some ==> analyze_pre(old(self).fixture_db, uri_path(params.text_document.uri)->0, params.text_document.text@),
    ensures final(self).fixture_db.version() == old(self).fixture_db.version(),
@*/

/*@ extract src/main.rs did_change
@as canary_exec_did_change_publishes_on_old_state
@stripasync
@recv mut
@wrapexpr 1 `self.publish_diagnostics_for_file(&uri, &file_path)` => `self.vp_publish_on_c2(&uri, &file_path, Ghost(db0))` with fn vp_publish_on_c2(&self, uri: &Uri, file_path: &PathBuf, Ghost(db0): Ghost<FixtureDatabase>) requires self.fixture_db.version() == db0.version()
@sig
    requires (uri_path(params.text_document.uri) is Some && params.content_changes@.len() > 0)
        ==> analyze_pre(old(self).fixture_db, uri_path(params.text_document.uri)->0, params.content_changes@.last().text@),
@start
    let ghost db0 = self.fixture_db;
@*/

/*@ extract src/main.rs did_close
@as canary_exec_did_close_keeps_text_cache
@stripasync
@recv mut
@sig
    ensures final(self).fixture_db.file_cache.m() == old(self).fixture_db.file_cache.m(),
@*/
}


//@tags C06 C07 C19
/// the state hypotheses are an INVARIANT of the notification handlers: whichever of the three runs, db_inv holds again
/// (for didOpen / didChange with a path it is even established outright by the analysis)
pub proof fn lemma_db_inv_is_invariant(o: Backend, s: Backend, uri: Uri, text: Seq<char>, changes: Seq<TextDocumentContentChangeEvent>)
    requires db_inv(o.fixture_db),
        did_open_post(o, s, uri, text) || did_change_post(o, s, uri, changes) || did_close_post(o, s, uri),
    ensures db_inv(s.fixture_db),
{}
/// canary: "the state hypotheses are contradictory"
pub proof fn canary_db_inv_contradictory(o: FixtureDatabase, t: Seq<char>)
    requires db_inv(o), hash_collides_with_nothing(t), forall|f: PV| li_no_collision(o.line_index_cache.m(), f, t),
    ensures false,
{}
/// canary: "didClose establishes the state hypotheses from nothing"
pub proof fn canary_did_close_establishes_db_inv(o: Backend, s: Backend, uri: Uri)
    requires did_close_post(o, s, uri),
    ensures db_inv(s.fixture_db),
{}

} // verus!
fn main() {}
