//@include prelude/strstruct_header.rs
// Unit sig_end (properties C18 / C17 / C11 / C12): FixtureDatabase::find_signature_end_line (src/fixtures/resolver.rs), the
// function that decides where "signature" ends and "body" begins for get_func_context (`in_signature = target_line <= r`).
// In unit completion_ctx its result is the uninterpreted `sig_end_line`; here the REAL body is under contract, on the REAL
// rustpython AST types (build/astspec.rs), for ALL arguments / bodies / texts / line indexes.
//   L1  find_signature_end_line   r == op_sig_end(func_start_line, *args, *returns, body@, content@, line_index@)
//                                 (prelude/sigend_spec.rs), no panic (C11: `last_sig_line + 10`, `i + 1`), terminates (C12)
//       requires: the line index IS a line index (PROVED for build_line_index in unit line_index) and
//                 func_start_line + 10 <= usize::MAX, line_index.len() + 10 <= usize::MAX (`last_sig_line + 10` is an
//                 unchecked addition in the source)
//   L2  prelude/sigend_l2.rs: lemma_C18_* / lemma_C17_* incl. the departures lemma_C18_FINDING_* / lemma_C17_FINDING_*
//   canaries (7 proof, one exec canary @as, one exec canary over the assumed specs) below: each must FAIL.
// ASSUMED here (each stated at its place):
//   prelude/sigend_prims.rs S1..S7 (std primitives: trim, ends_with, lines, enumerate, map_or, chain, max)
//   A-cc5 `Ranged::range` of Expr / Stmt is a function of the node (expr_range / stmt_range; prelude/completion_ctx_spec.rs)
//   astspec accessors tsv / tr_start / tr_end (TextSize::to_usize, TextRange::start / end)
//   callee contract PROVED elsewhere: get_line_from_offset (unit line_index)
use rustpython_parser::ast::{Expr, Stmt, Keyword, Identifier, Constant, ExceptHandler, ExprCall, Alias, Arguments, ArgWithDefault, Ranged};
use rustpython_parser::text_size::TextRange;
verus! {
global size_of usize == 8;  // A6: 64-bit target
pub mod pre {
use super::*;
//@include build/astspec.rs
#[verifier::external_type_specification] #[verifier::reject_recursive_types(R)] pub struct ExMod<R>(rustpython_parser::ast::Mod<R>);
#[verifier::external_type_specification] #[verifier::reject_recursive_types(R)] pub struct ExModModule<R>(rustpython_parser::ast::ModModule<R>);
#[verifier::external_type_specification] #[verifier::reject_recursive_types(R)] pub struct ExModInteractive<R>(rustpython_parser::ast::ModInteractive<R>);
#[verifier::external_type_specification] #[verifier::reject_recursive_types(R)] pub struct ExModExpression<R>(rustpython_parser::ast::ModExpression<R>);
#[verifier::external_type_specification] #[verifier::reject_recursive_types(R)] pub struct ExModFunctionType<R>(rustpython_parser::ast::ModFunctionType<R>);
#[verifier::external_type_specification] #[verifier::reject_recursive_types(R)] pub struct ExTypeIgnore<R>(rustpython_parser::ast::TypeIgnore<R>);
#[verifier::external_type_specification] #[verifier::reject_recursive_types(R)] pub struct ExTypeIgnoreTypeIgnore<R>(rustpython_parser::ast::TypeIgnoreTypeIgnore<R>);
//@include prelude/path.rs
//@include prelude/types.rs
//@include prelude/arc.rs
//@include prelude/box_asref.rs
//@include prelude/hof.rs
//@include prelude/strings.rs
//@include prelude/iter_ext.rs
//@include prelude/iter_slice.rs
//@include prelude/bytes.rs
//@include prelude/ast_spec.rs
//@include prelude/line_spec.rs
//@include prelude/completion_ctx_spec.rs
//@include prelude/sigend_spec.rs
//@include prelude/sigend_prims.rs
//@include prelude/sigend_l2.rs
} // mod pre
use pre::*;

// no field of the database is read by find_signature_end_line (a field access would not compile: UNDECIDED)
pub struct FixtureDatabase {}

pub mod resolver {
use super::*;
broadcast use {axiom_pat_char, axiom_pat_str, vstd::std_specs::iter::map_postcondition,
    vstd::std_specs::iter::skip_postcondition, vstd::std_specs::iter::take_postcondition};
impl FixtureDatabase {
//@stub line_index get_line_from_offset

/*@ extract src/fixtures/resolver.rs find_signature_end_line
@tags C18 C17 C11 C12
@ret r
@rename chain se_chain
@rename max se_max
@rename enumerate vp_enumerate
@wrapexpr 1 `content.lines().collect()` => `Self::vp_lines_of(content)` with fn vp_lines_of<'a>(content: &'a str) -> (r: Vec<&'a str>) ensures sv(r@) == lines_v(content@)
@closure map:1 |a: &ArgWithDefault| -> (o: usize) ensures o == awd_end(*a)
@closure map:2 |a: &Box<rustpython_parser::ast::Arg>| -> (o: usize) ensures o == tsv(tr_end(a.range))
@closure map:3 |a: &Box<rustpython_parser::ast::Arg>| -> (o: usize) ensures o == tsv(tr_end(a.range))
@closure map_or:1 |prev: usize| -> (o: usize) ensures o == umax(prev, max_arg_end)
@closure map:4 |offset: usize| -> (o: usize) requires is_line_index(ints(line_index@)) ensures 1 <= o <= line_index@.len(), o == lno(line_index@, offset)
@closure map:5 |stmt: &Stmt| -> (o: usize) requires is_line_index(ints(line_index@)) ensures 1 <= o <= line_index@.len(), o == lno(line_index@, tsv(tr_start(stmt_range(*stmt))))
@closure map:6 |body_line: usize| -> (o: usize) ensures o == imax(sat_sub1(body_line as int), last_sig_line as int)
@sig
    requires is_line_index(ints(line_index@)),
        func_start_line + 10 <= usize::MAX, line_index@.len() + 10 <= usize::MAX,
    ensures r == op_sig_end(func_start_line, *args, *returns, body@, content@, line_index@),
@start
    proof { reveal(op_sig_end); }
@after all_arg_ends 1
    let ghost ends = all_arg_ends.remaining();
    proof {
        assert(ends =~= arg_ends(*args));
        lemma_max_all(ends);
    }
@before last_sig_line 1
    proof { assert(last_sig_offset == last_sig_off(*args, *returns)); }
@before lines 1
    proof {
        assert(last_sig_line == last_sig_ln(func_start_line, *args, *returns, line_index@));
        assert(opt_int(first_body_line) == first_body_ln(body@, line_index@));
    }
@before for 1
    let ghost ls = sv(lines@);
    let ghost lo = scan_start as int;
    let ghost hi = scan_end as int;
    proof {
        assert(ls.len() == lines@.len());
        assert(lo == scan_lo(last_sig_line as int));
        assert(hi == scan_hi(last_sig_line as int, opt_int(first_body_line), ls.len() as int));
    }
@loopvar 1 it
@loop 1
    invariant ls == sv(lines@), ls == lines_v(content@), lo == scan_start, hi == scan_end, 0 <= lo, hi <= lines@.len(),
        lo == scan_lo(last_sig_ln(func_start_line, *args, *returns, line_index@)),
        hi == scan_hi(last_sig_ln(func_start_line, *args, *returns, line_index@), first_body_ln(body@, line_index@), ls.len() as int),
        it.seq().len() == (if lo <= hi { hi - lo } else { 0 }),
        forall|k: int| 0 <= k < it.seq().len() ==> (#[trigger] it.seq()[k]).0 == lo + k && it.seq()[k].1@ == ls[lo + k],
        first_colon(ls, lo, hi) == first_colon(ls, lo + it.index@, hi),
@loopstart 1
    proof {
        assert(i == lo + it.index@);
        assert(line@ == ls[i as int]);
    }
@return 1
    reveal(op_sig_end);
    assert(first_colon(ls, i as int, hi) == Some(i as int));
@*/

// exec canary: the same real body under the claim "the first body line is NEVER signature" (i.e. the last signature line
// is not scanned when the body starts on it, `def f(a): pass`): must FAIL -- at the `return i + 1` exit and at the fallback
// (lemma_C18_FINDING_body_on_def_line_is_signature).  (Before the repair d88f322 this canary stated the opposite case.)
/*@ extract src/fixtures/resolver.rs find_signature_end_line
@tags C18
@as canary_first_body_line_is_never_signature
@ret r
@rename chain se_chain
@rename max se_max
@rename enumerate vp_enumerate
@wrapexpr 1 `content.lines().collect()` => `Self::vp_lines_of2(content)` with fn vp_lines_of2<'a>(content: &'a str) -> (r: Vec<&'a str>) ensures sv(r@) == lines_v(content@)
@closure map:1 |a: &ArgWithDefault| -> (o: usize) ensures o == awd_end(*a)
@closure map:2 |a: &Box<rustpython_parser::ast::Arg>| -> (o: usize) ensures o == tsv(tr_end(a.range))
@closure map:3 |a: &Box<rustpython_parser::ast::Arg>| -> (o: usize) ensures o == tsv(tr_end(a.range))
@closure map_or:1 |prev: usize| -> (o: usize) ensures o == umax(prev, max_arg_end)
@closure map:4 |offset: usize| -> (o: usize) requires is_line_index(ints(line_index@)) ensures 1 <= o <= line_index@.len(), o == lno(line_index@, offset)
@closure map:5 |stmt: &Stmt| -> (o: usize) requires is_line_index(ints(line_index@)) ensures 1 <= o <= line_index@.len(), o == lno(line_index@, tsv(tr_start(stmt_range(*stmt))))
@closure map:6 |body_line: usize| -> (o: usize) ensures o == imax(sat_sub1(body_line as int), last_sig_line as int)
@sig
    requires is_line_index(ints(line_index@)),
        func_start_line + 10 <= usize::MAX, line_index@.len() + 10 <= usize::MAX,
    ensures body@.len() > 0 && func_start_line <= lno(line_index@, tsv(tr_start(stmt_range(body@[0])))) ==> r < lno(line_index@, tsv(tr_start(stmt_range(body@[0])))),
@start
    proof { reveal(op_sig_end); }
@after all_arg_ends 1
    let ghost ends = all_arg_ends.remaining();
    proof {
        assert(ends =~= arg_ends(*args));
        lemma_max_all(ends);
    }
@before last_sig_line 1
    proof { assert(last_sig_offset == last_sig_off(*args, *returns)); }
@before lines 1
    proof {
        assert(last_sig_line == last_sig_ln(func_start_line, *args, *returns, line_index@));
        assert(opt_int(first_body_line) == first_body_ln(body@, line_index@));
    }
@before for 1
    let ghost ls = sv(lines@);
    let ghost lo = scan_start as int;
    let ghost hi = scan_end as int;
    proof {
        assert(ls.len() == lines@.len());
        assert(lo == scan_lo(last_sig_line as int));
        assert(hi == scan_hi(last_sig_line as int, opt_int(first_body_line), ls.len() as int));
    }
@loopvar 1 it
@loop 1
    invariant ls == sv(lines@), ls == lines_v(content@), lo == scan_start, hi == scan_end, 0 <= lo, hi <= lines@.len(),
        lo == scan_lo(last_sig_ln(func_start_line, *args, *returns, line_index@)),
        hi == scan_hi(last_sig_ln(func_start_line, *args, *returns, line_index@), first_body_ln(body@, line_index@), ls.len() as int),
        it.seq().len() == (if lo <= hi { hi - lo } else { 0 }),
        forall|k: int| 0 <= k < it.seq().len() ==> (#[trigger] it.seq()[k]).0 == lo + k && it.seq()[k].1@ == ls[lo + k],
        first_colon(ls, lo, hi) == first_colon(ls, lo + it.index@, hi),
@loopstart 1
    proof {
        assert(i == lo + it.index@);
        assert(line@ == ls[i as int]);
    }
@return 1
    reveal(op_sig_end);
    assert(first_colon(ls, i as int, hi) == Some(i as int));
@*/

}
/// the assumed specifications (S1..S7, the AST accessors, the callee contract) are not contradictory
fn canary_false_from_assumed_specs(db: &FixtureDatabase, a: &str, v: &Vec<&str>, args: &Arguments, e: &Expr, st: &Stmt, o: Option<usize>, n: usize, li: &[usize])
    requires is_line_index(ints(li@)),
    ensures false,
{
    let t = a.trim();
    let c = t.ends_with(':');
    let ls = FixtureDatabase::vp_lines_of(a);
    let mut en = v.iter().vp_enumerate().skip(n).take(n);
    let x = en.next();
    let m = o.map_or(n, |p: usize| -> (q: usize) ensures q == umax(p, n) { p.se_max(n) });
    let ch = args.args.iter().se_chain(args.posonlyargs.iter()).se_chain(args.kwonlyargs.iter())
        .map(|w: &ArgWithDefault| -> (q: usize) ensures q == awd_end(*w) { w.def.range.end().to_usize() })
        .se_chain(o).se_chain(o);
    let ghost ends = ch.remaining();
    let mx = ch.se_max();
    let r1 = e.range().end().to_usize();
    let r2 = st.range().start().to_usize();
    let l1 = db.get_line_from_offset(r1, li);
    proof { lemma_max_all(ends); lemma_line_sound(ints(li@), r1 as int); }
}
} // mod resolver

// ---- vacuity guards: each of these must FAIL ---------------------------------------------------------------
/// the signature always ends on the def line
proof fn canary_sig_end_is_def_line(fsl: int, lsl: int, fbl: Option<int>, ls: Seq<Seq<char>>)
    requires 1 <= fsl <= lsl,
    ensures sig_end_of(fsl, lsl, fbl, ls) == fsl,
{
    lemma_sig_end_cases(fsl, lsl, fbl, ls);
}
/// the boundary lies strictly above the first body line ALSO when the body starts on the last signature line (`def f(a): pass`)
proof fn canary_sig_end_above_first_body_line(fsl: int, lsl: int, b: int, ls: Seq<Seq<char>>)
    requires 1 <= fsl <= lsl <= b,
    ensures sig_end_of(fsl, lsl, Some(b), ls) < b,
{
    lemma_sig_end_cases(fsl, lsl, Some(b), ls);
}
/// the return annotation does not count as a signature element
proof fn canary_return_annotation_ignored(args: CArguments, returns: Option<Box<Expr>>)
    ensures last_sig_off(args, returns) == seq_max_opt(arg_ends(args)),
{
    lemma_C18_last_signature_element_is_latest_end(args, returns);
}
/// the end of a parameter is the end of its DEFAULT VALUE (the whole ArgWithDefault), so `b=lambda:` lines are skipped
proof fn canary_default_value_end_counts(a: CArg, d: Box<Expr>)
    requires a.default == Some(d),
    ensures awd_end(a) == tsv(tr_end(expr_range(*d))),
{ }
/// the first ':' line found is the LAST line of the window that ends in ':' (i.e. the real `):` line wins over `b=lambda:`)
proof fn canary_last_colon_line_wins(fsl: int, lsl: int, fbl: Option<int>, ls: Seq<Seq<char>>, k: int, e: int)
    requires 1 <= lsl <= k < e, in_window(lsl, fbl, ls.len() as int, k), in_window(lsl, fbl, ls.len() as int, e),
        ends_colon(ls[k - 1]), ends_colon(ls[e - 1]),
        forall|l: int| lsl <= l < k ==> !ends_colon(#[trigger] ls[l - 1]),
    ensures sig_end_of(fsl, lsl, fbl, ls) == e,
{
    lemma_sig_end_cases(fsl, lsl, fbl, ls);
}
/// the first body line is still scanned (the pre-repair behaviour): a ':' on it makes it the boundary
proof fn canary_first_body_line_still_scanned(fsl: int, lsl: int, b: int, ls: Seq<Seq<char>>)
    requires 1 <= fsl <= lsl < b <= lsl + 10, b <= ls.len(), ends_colon(ls[b - 1]),
        forall|l: int| lsl <= l < b ==> !ends_colon(#[trigger] ls[l - 1]),
    ensures sig_end_of(fsl, lsl, Some(b), ls) == b,
{
    lemma_sig_end_cases(fsl, lsl, Some(b), ls);
}
/// the hypotheses of the departure lemmas are satisfiable only vacuously
proof fn canary_finding_hypotheses_contradictory(fsl: int, lsl: int, fbl: Option<int>, ls: Seq<Seq<char>>, k: int, e: int)
    requires 1 <= lsl <= k < e, in_window(lsl, fbl, ls.len() as int, k), ends_colon(ls[k - 1]),
        forall|l: int| lsl <= l < k ==> !ends_colon(#[trigger] ls[l - 1]),
    ensures false,
{
    lemma_C18_FINDING_colon_line_inside_parameter_list_ends_signature(fsl, lsl, fbl, ls, k, e);
}

} // verus!
fn main() {}
