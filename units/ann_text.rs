//@include prelude/header.rs
// Unit ann_text — property C03 "return type text (the yielded type for generators)", PRINTER part:
//   src/fixtures/docstring.rs expr_to_string, extracted verbatim, on the REAL rustpython AST (build/astspec.rs), for ALL
//   expressions and ALL source texts.  Unit ast_helpers proves extract_return_type / extract_yielded_type against an
//   ABSTRACT printer `expr_str(expr, content)`; this unit gives it the definition `op_ann_text` (prelude/anntext_spec.rs).
//   L1  r@ == op_ann_text(*expr, content@)   (+ C12: the recursion terminates: `decreases expr`; C11: no slicing panic —
//       the constant's text is taken with the checked `str::get`, never `&content[a..b]`)
//   L2  prelude/anntext_l2.rs: lemma_C03_* (a constant prints its source slice; the printer adds blanks only after ','
//       and around '|' — printed text == token concatenation up to blanks; every kind the printer does not take apart
//       prints its own source slice (F-03d repaired: `Callable[[int], str]` verbatim), `Any` only for an invalid range;
//       FACTS that remain: `tuple[()]` -> `tuple[]`, `X[(a, b), c]` -> `X[a, b, c]`), canaries.
//   assumed: prelude/anntext_prims.rs AT1-AT5 (str::get(a..b), the format! table via prelude/anntext_fmt_macro.rs, join,
//       slice map, AT5 <Expr as Ranged>::range), build/astspec.rs (Identifier::to_string, TextRange::start/end, TextSize::to_usize).
//   transformation beyond T1-T12: none on the function text; `format!` resolves to the table macro of
//       prelude/anntext_fmt_macro.rs (shadows std's inside this file), `.iter().map(` -> `.iter().vp_map(`, `.join(` -> `.vp_join(`.
use rustpython_parser::ast::{Expr, Stmt};
//@include prelude/anntext_fmt_macro.rs
verus! {
pub mod pre {
use super::*;
//@include build/astspec.rs
//@include prelude/anntext_prims.rs
//@include prelude/anntext_spec.rs
//@include prelude/anntext_l2.rs
} // mod pre
use pre::*;

broadcast use {axiom_identifier_to_string, axiom_out_str, axiom_get_range, axiom_disp_string, axiom_disp_identifier};

// no field of the database is read by this method (a field access would not compile: UNDECIDED)
pub struct FixtureDatabase {}

impl FixtureDatabase {
/*@ extract src/fixtures/docstring.rs expr_to_string
@tags C03 C11 C12
@ret r
@replace 1 `.iter() .map(` => `.iter().vp_map(`
@rename join vp_join
@closure map:1 |e: &Expr| -> (s: String) requires decreases_to!(expr => e) ensures s@ == op_ann_text(*e, content@)
@closure map:2 |text: &str| -> (s: String) ensures s@ == text@
@closure unwrap_or_else:1 || -> (s: String) ensures s@ == debug_v(&constant.value)
@closure map:3 |text: &str| -> (s: String) ensures s@ == text@
@closure unwrap_or_else:2 || -> (s: String) ensures s@ == any_text()
@sig
    ensures r@ == op_ann_text(*expr, content@),
    decreases expr,
@before elements 1
    proof {
        assert(match *expr { Expr::Tuple(t) => t == *tuple, _ => false });
        assert forall|j: int| 0 <= j < tuple.elts@.len() implies decreases_to!(expr => #[trigger] tuple.elts@.as_ref()[j]) by {
            assert(decreases_to!(tuple.elts => tuple.elts@[j]));
            assert(*tuple.elts@.as_ref()[j] == tuple.elts@[j]);
        }
    }
@after elements 1
    proof {
        lemma_ann_texts(tuple.elts@, tuple.elts@.len() as int, content@);
        assert(ssv(elements@) =~= ann_texts(tuple.elts@, tuple.elts@.len() as int, content@));
    }
@*/

// exec canary: the same real body under the claim `false` (must FAIL: otherwise the assumed contracts are contradictory)
/*@ extract src/fixtures/docstring.rs expr_to_string
@tags C03
@as canary_expr_to_string_vacuous
@ret r
@replace 1 `.iter() .map(` => `.iter().vp_map(`
@rename join vp_join
@closure map:1 |e: &Expr| -> (s: String) requires decreases_to!(expr => e) ensures s@ == op_ann_text(*e, content@)
@closure map:2 |text: &str| -> (s: String) ensures s@ == text@
@closure unwrap_or_else:1 || -> (s: String) ensures s@ == debug_v(&constant.value)
@closure map:3 |text: &str| -> (s: String) ensures s@ == text@
@closure unwrap_or_else:2 || -> (s: String) ensures s@ == any_text()
@sig
    ensures false,
    decreases expr,
@before elements 1
    proof {
        assert(match *expr { Expr::Tuple(t) => t == *tuple, _ => false });
        assert forall|j: int| 0 <= j < tuple.elts@.len() implies decreases_to!(expr => #[trigger] tuple.elts@.as_ref()[j]) by {
            assert(decreases_to!(tuple.elts => tuple.elts@[j]));
            assert(*tuple.elts@.as_ref()[j] == tuple.elts@[j]);
        }
    }
@after elements 1
    proof {
        lemma_ann_texts(tuple.elts@, tuple.elts@.len() as int, content@);
        assert(ssv(elements@) =~= ann_texts(tuple.elts@, tuple.elts@.len() as int, content@));
    }
@*/

// exec canary: the same real body under the claim "an attribute is printed attr-first"
/*@ extract src/fixtures/docstring.rs expr_to_string
@tags C03
@as canary_attribute_printed_attr_first
@ret r
@replace 1 `.iter() .map(` => `.iter().vp_map(`
@rename join vp_join
@closure map:1 |e: &Expr| -> (s: String) requires decreases_to!(expr => e) ensures s@ == op_ann_text(*e, content@)
@closure map:2 |text: &str| -> (s: String) ensures s@ == text@
@closure unwrap_or_else:1 || -> (s: String) ensures s@ == debug_v(&constant.value)
@closure map:3 |text: &str| -> (s: String) ensures s@ == text@
@closure unwrap_or_else:2 || -> (s: String) ensures s@ == any_text()
@sig
    ensures (match *expr { Expr::Attribute(a) => r@ == idv(&a.attr) + "."@ + op_ann_text(*a.value, content@), _ => true }),
    decreases expr,
@before elements 1
    proof {
        assert(match *expr { Expr::Tuple(t) => t == *tuple, _ => false });
        assert forall|j: int| 0 <= j < tuple.elts@.len() implies decreases_to!(expr => #[trigger] tuple.elts@.as_ref()[j]) by {
            assert(decreases_to!(tuple.elts => tuple.elts@[j]));
            assert(*tuple.elts@.as_ref()[j] == tuple.elts@[j]);
        }
    }
@after elements 1
    proof {
        lemma_ann_texts(tuple.elts@, tuple.elts@.len() as int, content@);
        assert(ssv(elements@) =~= ann_texts(tuple.elts@, tuple.elts@.len() as int, content@));
    }
@*/
}

} // verus!
fn main() {}
