//@include prelude/header.rs
// Unit memo_keys (properties C07 "caching ... invisible", C06, C15, C11): the CONTENT-HASH keyed memo getters of
// src/fixtures/mod.rs -- hash_content, get_line_index, get_parsed_ast -- and the never-invalidated get_canonical_path.
// Every AST-walking unit ASSUMES "get_line_index(file, content) returns the line index of content" and "get_parsed_ast
// returns the parse of content" (external_body stubs in units analyze, completion_ctx, scan_imports, ...).  This unit
// turns the two assumptions into PROVED contracts of the real bodies under ONE explicit idealisation of the hash,
// stated as a hypothesis of each call (never as an axiom):
//     hash_collision_free(t1, t2)  :=  content_hash(t1) == content_hash(t2) ==> t1 == t2
// "no collision between the text asked for and the text the cached entry of that file was built from".
//   L1  hash_content        r == content_hash(content@): the WHOLE text and nothing but the text is fed to a fresh DefaultHasher
//       get_line_index      li_post (operational, any cache content)  +  under li_cache_wf and li_no_collision:
//                           (*r)@ == src_line_index(content@), is_line_index, li_cache_wf(final); frame: every other field
//       get_parsed_ast      ast_post (operational)  +  under ast_cache_wf and ast_no_collision: ast_answer(content@, r)
//                           (Some(a) with *a == ast_of(content@) iff parse_ok(content@)); a parse failure stores nothing
//       get_canonical_path  canon_post (operational)  +  under canon_cache_wf: r == canon_now(path); frame
//       *_anystate (@as)    the same real bodies with the operational contract ALONE: no invariant, no hypothesis
//   L2  lemma_C07_* / lemma_C06_* / compose_* (C15) below; 8 proof canaries + 6 exec canaries (5 @as copies of the real bodies).
// src_line_index is DEFINED here (prelude/memokeys_lineidx.rs) from the contract proved for build_line_index in unit
// line_index (//@stub); parse_ok / ast_of stay uninterpreted (the parser is a function of the text: A-parse).
// ASSUMED (prelude/memokeys_shims.rs): H1 hasher_fed is vstd's DefaultHasher view, H2 <str as Hash>::hash appends
// str_feed(text), (H3/H4 usize / [u8] hashing: not used by /repo), P6 Path::canonicalize == fs_canonical (ONE file
// system state), R2 Result::unwrap_or_else, A-parse rustpython_parser::parse is a function of (text) in Mode::Module;
// vstd's own DefaultHasher::new / finish, Arc::new / clone, Result::ok; the DashMap shim (prelude/dashmap.rs, A3).
use rustpython_parser::{parse, Mode};
verus! {
global size_of usize == 8;  // A6: 64-bit target
pub mod pre {
use super::*;
//@include prelude/path.rs
//@include prelude/types.rs
//@include prelude/dashmap.rs
//@include prelude/hashset.rs
//@include prelude/atomic.rs
//@include prelude/arc.rs
//@include prelude/bytes.rs
//@include prelude/memchr.rs
//@include prelude/line_spec.rs
//@include build/astspec.rs
#[verifier::external_type_specification] #[verifier::reject_recursive_types(R)] pub struct ExMod<R>(rustpython_parser::ast::Mod<R>);
#[verifier::external_type_specification] #[verifier::reject_recursive_types(R)] pub struct ExModModule<R>(rustpython_parser::ast::ModModule<R>);
#[verifier::external_type_specification] #[verifier::reject_recursive_types(R)] pub struct ExModInteractive<R>(rustpython_parser::ast::ModInteractive<R>);
#[verifier::external_type_specification] #[verifier::reject_recursive_types(R)] pub struct ExModExpression<R>(rustpython_parser::ast::ModExpression<R>);
#[verifier::external_type_specification] #[verifier::reject_recursive_types(R)] pub struct ExModFunctionType<R>(rustpython_parser::ast::ModFunctionType<R>);
#[verifier::external_type_specification] #[verifier::reject_recursive_types(R)] pub struct ExTypeIgnore<R>(rustpython_parser::ast::TypeIgnore<R>);
#[verifier::external_type_specification] #[verifier::reject_recursive_types(R)] pub struct ExTypeIgnoreTypeIgnore<R>(rustpython_parser::ast::TypeIgnoreTypeIgnore<R>);
//@include prelude/memokeys_lineidx.rs
//@include prelude/memokeys_spec.rs
//@include prelude/memokeys_shims.rs
//@include prelude/memokeys_canon_spec.rs
//@include prelude/memokeys_l2.rs
} // mod pre
use pre::*;

broadcast use {axiom_default_hasher_fed, lemma_feed_fresh_hasher};

#[verifier::external_type_specification] pub struct ExFixtureCycle(FixtureCycle);
#[verifier::external_type_specification] pub struct ExUndeclaredFixture(UndeclaredFixture);
//@item src/fixtures/mod.rs struct EditableInstall
// ALL fields of the database: the frame clauses below speak about every one of them
//@dbstruct_arc definitions file_definitions usages usage_by_fixture file_cache undeclared_fixtures imports canonical_path_cache line_index_cache ast_cache definitions_version cycle_cache available_fixtures_cache imported_fixtures_cache site_packages_paths editable_install_roots workspace_root plugin_fixture_files

impl FixtureDatabase {
// callee contract PROVED in unit line_index: ints(r@) == op_line_index(str_bytes(content)), is_line_index(ints(r@)), ...
//@stub line_index build_line_index

/*@ extract src/fixtures/mod.rs hash_content
@tags C07 C06
@ret r
@sig
    ensures
        // the WHOLE text and nothing but the text is hashed, by a hasher that has seen nothing else
        r == content_hash(content@),
@*/

/*@ extract src/fixtures/mod.rs get_line_index
@tags C07 C06 C15 C11
@recv mut
@ret r
@sig
    requires
        li_cache_wf(old(self).line_index_cache.m()),
        // H-ideal, for THIS call only: the entry cached under file_path (if any) was built from a text that does not
        // collide with `content`
        li_no_collision(old(self).line_index_cache.m(), pv(file_path), content@),
    ensures
        // warm == cold: whatever the cache holds, the answer is the line index of the text that was passed
        (*r)@ == src_line_index(content@), is_line_index(ints((*r)@)),
        li_cache_wf(final(self).line_index_cache.m()),
        // operational: hit -> the cached Arc, nothing written; miss -> rebuilt and stored under file_path with the hash
        li_post(old(self).line_index_cache.m(), final(self).line_index_cache.m(), pv(file_path), content@, r),
        // frame: no other key of line_index_cache ...
        forall|g: PV| g != pv(file_path) ==> final(self).line_index_cache.m().contains_key(g) == old(self).line_index_cache.m().contains_key(g)
            && (final(self).line_index_cache.m().contains_key(g) ==> #[trigger] final(self).line_index_cache.m()[g] == old(self).line_index_cache.m()[g]),
        // ... and no other field of the database changes
        *final(self) == (FixtureDatabase { line_index_cache: final(self).line_index_cache, ..*old(self) }),
@after line_index 1
    proof { lemma_built_is_src_line_index(content, line_index@); }
@return tail
    assert(li_built_from((crate::content_hash(content@), arc_index), content@));
@*/

/*@ extract src/fixtures/mod.rs get_parsed_ast
@tags C07 C06 C11
@recv mut
@ret r
@sig
    requires
        ast_cache_wf(old(self).ast_cache.m()),
        // H-ideal, for THIS call only
        ast_no_collision(old(self).ast_cache.m(), pv(file_path), content@),
    ensures
        // warm == cold: Some(arc) with *arc == ast_of(content) iff the text parses -- whatever the cache holds
        ast_answer(content@, r),
        ast_cache_wf(final(self).ast_cache.m()),
        // operational: hit -> cached Arc; miss + parse ok -> stored; miss + parse failure -> None and the cache is
        // left EXACTLY as it was (a stale entry of the file, if any, stays in place)
        ast_post(old(self).ast_cache.m(), final(self).ast_cache.m(), pv(file_path), content@, r),
        !parse_ok(content@) ==> r is None && final(self).ast_cache == old(self).ast_cache,
        forall|g: PV| g != pv(file_path) ==> final(self).ast_cache.m().contains_key(g) == old(self).ast_cache.m().contains_key(g)
            && (final(self).ast_cache.m().contains_key(g) ==> #[trigger] final(self).ast_cache.m()[g] == old(self).ast_cache.m()[g]),
        *final(self) == (FixtureDatabase { ast_cache: final(self).ast_cache, ..*old(self) }),
@return tail
    assert(ast_built_from((crate::content_hash(content@), arc_ast), content@));
@*/

/*@ extract src/fixtures/mod.rs get_canonical_path
@tags C07
@recv mut
@ret r
@closure unwrap_or_else:1 |_e: std::io::Error| -> (o: PathBuf) ensures pbv(&o) == pbv(&path)
@sig
    requires
        // A4: ONE file-system state -- every entry holds what the file system answers NOW for its key
        canon_cache_wf(old(self).canonical_path_cache.m()),
    ensures
        pbv(&r) == canon_now(pbv(&path)),
        canon_cache_wf(final(self).canonical_path_cache.m()),
        canon_post(old(self).canonical_path_cache.m(), final(self).canonical_path_cache.m(), pbv(&path), pbv(&r)),
        // entries are only ever added: nothing is removed or rewritten
        old(self).canonical_path_cache.m().submap_of(final(self).canonical_path_cache.m()),
        *final(self) == (FixtureDatabase { canonical_path_cache: final(self).canonical_path_cache, ..*old(self) }),
@start
    let ghost p0 = pbv(&path);
@return 1
    assert(self.canonical_path_cache.m().contains_key(p0));
    assert(pbv(&self.canonical_path_cache.m()[p0]) == canon_in(fs_now(), p0));
    assert(canon_in(fs_now(), p0) == canon_now(p0));
@*/

// ---- the same real bodies with the OPERATIONAL contract alone: no invariant, no hypothesis ---------------------------
/*@ extract src/fixtures/mod.rs get_line_index
@as get_line_index_anystate
@tags C07 C06
@recv mut
@ret r
@sig
    ensures
        li_post(old(self).line_index_cache.m(), final(self).line_index_cache.m(), pv(file_path), content@, r),
        *final(self) == (FixtureDatabase { line_index_cache: final(self).line_index_cache, ..*old(self) }),
@after line_index 1
    proof { lemma_built_is_src_line_index(content, line_index@); }
@*/

/*@ extract src/fixtures/mod.rs get_parsed_ast
@as get_parsed_ast_anystate
@tags C07 C06
@recv mut
@ret r
@sig
    ensures
        ast_post(old(self).ast_cache.m(), final(self).ast_cache.m(), pv(file_path), content@, r),
        *final(self) == (FixtureDatabase { ast_cache: final(self).ast_cache, ..*old(self) }),
@*/

/*@ extract src/fixtures/mod.rs get_canonical_path
@as get_canonical_path_anystate
@tags C07
@recv mut
@ret r
@closure unwrap_or_else:1 |_e: std::io::Error| -> (o: PathBuf) ensures pbv(&o) == pbv(&path)
@sig
    ensures
        // a cached answer is returned verbatim, whatever the file system says now
        canon_post(old(self).canonical_path_cache.m(), final(self).canonical_path_cache.m(), pbv(&path), pbv(&r)),
        old(self).canonical_path_cache.m().submap_of(final(self).canonical_path_cache.m()),
        *final(self) == (FixtureDatabase { canonical_path_cache: final(self).canonical_path_cache, ..*old(self) }),
@*/

// ---- exec vacuity guards (@as: the real bodies under deliberately wrong contracts): each must FAIL -------------------
/*@ extract src/fixtures/mod.rs get_line_index
@as canary_get_line_index_without_no_collision
@recv mut
@ret r
@sig
    requires li_cache_wf(old(self).line_index_cache.m()),
    ensures (*r)@ == src_line_index(content@),
@after line_index 1
    proof { lemma_built_is_src_line_index(content, line_index@); }
@*/
/*@ extract src/fixtures/mod.rs get_parsed_ast
@as canary_get_parsed_ast_without_no_collision
@recv mut
@ret r
@sig
    requires ast_cache_wf(old(self).ast_cache.m()),
    ensures ast_answer(content@, r),
@*/
/*@ extract src/fixtures/mod.rs get_canonical_path
@as canary_get_canonical_path_without_invariant
@recv mut
@ret r
@closure unwrap_or_else:1 |_e: std::io::Error| -> (o: PathBuf) ensures pbv(&o) == pbv(&path)
@sig
    ensures pbv(&r) == canon_now(pbv(&path)),
@*/
/*@ extract src/fixtures/mod.rs get_line_index
@as canary_get_line_index_requires_are_contradictory
@recv mut
@ret r
@sig
    requires
        li_cache_wf(old(self).line_index_cache.m()),
        li_no_collision(old(self).line_index_cache.m(), pv(file_path), content@),
    ensures false,
@*/
/*@ extract src/fixtures/mod.rs get_parsed_ast
@as canary_get_parsed_ast_requires_are_contradictory
@recv mut
@ret r
@sig
    requires
        ast_cache_wf(old(self).ast_cache.m()),
        ast_no_collision(old(self).ast_cache.m(), pv(file_path), content@),
    ensures false,
@*/
}

// ---- L2: the properties, from the operational specifications li_post / ast_post / canon_post ------------------------
// (each *_post relation is PROVED of the real body for ANY cache content: the *_anystate extractions above)

// (how the hypothesis of a call is discharged: prelude/memokeys_l2.rs -- from the skolem witness of the entry, or from
// the state-independent form `hash_collides_with_nothing`)

/// C07 warm == cold (line index): under the invariant and the no-collision hypothesis of the call, the answer from ANY
/// warm cache m0 is the answer an empty (cold) cache gives -- the line index of the text -- and the invariant survives
//@tags C07 C15
pub proof fn lemma_C07_line_index_warm_equals_cold(m0: LiMap, m1: LiMap, f: PV, t: Seq<char>, r: Arc<Vec<usize>>,
                                                   c1: LiMap, rc: Arc<Vec<usize>>)
    requires
        li_post(m0, m1, f, t, r),                          // the call on the warm cache
        li_post(Map::<PV, LiEntry>::empty(), c1, f, t, rc),  // the same call on a cold cache
        li_cache_wf(m0), li_no_collision(m0, f, t),
    ensures
        (*r)@ == (*rc)@, (*r)@ == src_line_index(t), is_line_index(ints((*r)@)),
        li_cache_wf(m1),
        forall|g: PV| g != f ==> m1.contains_key(g) == m0.contains_key(g) && (m1.contains_key(g) ==> #[trigger] m1[g] == m0[g]),
{
    if li_hit(m0, f, t) {
        let t0 = choose|t0: Seq<char>| #[trigger] li_built_from(m0[f], t0) && hash_collision_free(t, t0);
        assert(t0 == t);
    } else {
        assert(li_built_from(m1[f], t));
        assert forall|g: PV| m1.contains_key(g) implies li_entry_ok(#[trigger] m1[g]) by {
            if g != f { assert(m1[g] == m0[g]); assert(li_entry_ok(m0[g])); }
        }
    }
}
/// C07 warm == cold (AST): Some(arc) with *arc == ast_of(text) iff the text parses, whatever the cache holds; the cold
/// cache gives the same answer (same Some/None, equal ASTs)
//@tags C07
pub proof fn lemma_C07_parsed_ast_warm_equals_cold(m0: AstMap, m1: AstMap, f: PV, t: Seq<char>, r: Option<Arc<rustpython_parser::ast::Mod>>,
                                                   c1: AstMap, rc: Option<Arc<rustpython_parser::ast::Mod>>)
    requires
        ast_post(m0, m1, f, t, r),
        ast_post(Map::<PV, AstEntry>::empty(), c1, f, t, rc),
        ast_cache_wf(m0), ast_no_collision(m0, f, t),
    ensures
        ast_answer(t, r), ast_answer(t, rc),
        r is Some <==> rc is Some, r is Some ==> *r->Some_0 == *rc->Some_0,
        ast_cache_wf(m1),
        forall|g: PV| g != f ==> m1.contains_key(g) == m0.contains_key(g) && (m1.contains_key(g) ==> #[trigger] m1[g] == m0[g]),
{
    if ast_hit(m0, f, t) {
        let t0 = choose|t0: Seq<char>| #[trigger] ast_built_from(m0[f], t0) && hash_collision_free(t, t0);
        assert(t0 == t);
    } else if parse_ok(t) {
        assert(ast_built_from(m1[f], t));
        assert forall|g: PV| m1.contains_key(g) implies ast_entry_ok(#[trigger] m1[g]) by {
            if g != f { assert(m1[g] == m0[g]); assert(ast_entry_ok(m0[g])); }
        }
    }
}
/// C07: the invariants hold for the empty caches of `FixtureDatabase::new()` and survive every REMOVAL of entries
/// (cleanup_file_cache / evict_cache_if_needed only `remove` from these maps: unit memo has their bodies; that the three
/// getters and those removals are the only writers is read off the source, see not_covered)
//@tags C07
pub proof fn lemma_C07_invariants_hold_initially_and_survive_removal(lm: LiMap, lm2: LiMap, am: AstMap, am2: AstMap, cm: CanonMap, cm2: CanonMap)
    requires li_cache_wf(lm), lm2.submap_of(lm), ast_cache_wf(am), am2.submap_of(am), canon_cache_wf(cm), cm2.submap_of(cm),
    ensures li_cache_wf(Map::<PV, LiEntry>::empty()), ast_cache_wf(Map::<PV, AstEntry>::empty()), canon_cache_wf(Map::<PV, PathBuf>::empty()),
        li_cache_wf(lm2), ast_cache_wf(am2), canon_cache_wf(cm2),
{
    assert forall|g: PV| lm2.contains_key(g) implies li_entry_ok(#[trigger] lm2[g]) by { assert(lm2.dom().contains(g)); assert(lm.dom().contains(g)); assert(lm2[g] == lm[g]); }
    assert forall|g: PV| am2.contains_key(g) implies ast_entry_ok(#[trigger] am2[g]) by { assert(am2.dom().contains(g)); assert(am.dom().contains(g)); assert(am2[g] == am[g]); }
    assert forall|g: PV| cm2.contains_key(g) implies pbv(&#[trigger] cm2[g]) == canon_in(fs_now(), g) by { assert(cm2.dom().contains(g)); assert(cm.dom().contains(g)); assert(cm2[g] == cm[g]); assert(pbv(&cm[g]) == canon_in(fs_now(), g)); }
}

/// C06: a content change whose hash differs ALWAYS rebuilds -- no invariant, no hypothesis needed: the old entry of the
/// file is replaced by (hash of the new text, index of the new text) and that index is what is returned
//@tags C06 C07
pub proof fn lemma_C06_content_change_with_different_hash_rebuilds(m0: LiMap, m1: LiMap, f: PV, t: Seq<char>, r: Arc<Vec<usize>>)
    requires li_post(m0, m1, f, t, r), m0.contains_key(f), m0[f].0 != content_hash(t),
    ensures (*r)@ == src_line_index(t), m1.contains_key(f), m1[f] == (content_hash(t), r), m1[f] != m0[f],
{}
//@tags C06 C07
pub proof fn lemma_C06_content_change_with_different_hash_reparses(m0: AstMap, m1: AstMap, f: PV, t: Seq<char>, r: Option<Arc<rustpython_parser::ast::Mod>>)
    requires ast_post(m0, m1, f, t, r), m0.contains_key(f), m0[f].0 != content_hash(t),
    ensures ast_answer(t, r),
        parse_ok(t) ==> m1[f] == (content_hash(t), r->Some_0),
        // a parse failure stores nothing: the entry of the superseded text stays in place (stale) ...
        !parse_ok(t) ==> r is None && m1 == m0 && m1[f].0 != content_hash(t),
{}
/// ... but a stale entry is only ever served for a text with the stale entry's hash: under the no-collision hypothesis,
/// for the very text it was built from (for which it is the right answer)
//@tags C06 C07
pub proof fn lemma_C06_stale_ast_entry_is_served_only_for_its_own_text(m0: AstMap, m1: AstMap, f: PV, t_bad: Seq<char>, r1: Option<Arc<rustpython_parser::ast::Mod>>,
                                                                       m2: AstMap, t2: Seq<char>, r2: Option<Arc<rustpython_parser::ast::Mod>>)
    requires ast_cache_wf(m0), m0.contains_key(f),
        ast_post(m0, m1, f, t_bad, r1), ast_no_collision(m0, f, t_bad), !parse_ok(t_bad),   // a version that does not parse
        ast_post(m1, m2, f, t2, r2), ast_no_collision(m1, f, t2),                            // then any version
    ensures r1 is None, m1 == m0,       // nothing stored, nothing removed: the entry of the older version stays
        ast_answer(t2, r2),
        ast_hit(m1, f, t2) ==> ast_built_from(m0[f], t2),
{
    if ast_hit(m0, f, t_bad) {
        // impossible: the entry was built from a text that PARSES and (no collision) equals t_bad
        let t0 = choose|t0: Seq<char>| #[trigger] ast_built_from(m0[f], t0) && hash_collision_free(t_bad, t0);
        assert(t0 == t_bad);
    }
    if ast_hit(m1, f, t2) {
        let t0 = choose|t0: Seq<char>| #[trigger] ast_built_from(m1[f], t0) && hash_collision_free(t2, t0);
        assert(t0 == t2);
    }
}
/// C06 / C07: how the hypothesis propagates along the version history of ONE file: after a call for t1, the hypothesis of
/// the next call for t2 follows from "t2 and t1 do not collide".  So along a history t1, t2, ... tn of one file the
/// idealisation amounts to: CONSECUTIVE versions do not collide (pairs that are never adjacent may).
//@tags C06 C07
pub proof fn lemma_C06_no_collision_propagates_along_a_history(m0: LiMap, m1: LiMap, f: PV, t1: Seq<char>, r1: Arc<Vec<usize>>, t2: Seq<char>)
    requires li_post(m0, m1, f, t1, r1), li_cache_wf(m0), li_no_collision(m0, f, t1), hash_collision_free(t2, t1),
    ensures li_no_collision(m1, f, t2), li_cache_wf(m1),
{
    let c = Map::<PV, LiEntry>::empty();
    lemma_C07_line_index_warm_equals_cold(m0, m1, f, t1, r1, c.insert(f, (content_hash(t1), r1)), r1);
    if li_hit(m0, f, t1) {
        let t0 = choose|t0: Seq<char>| #[trigger] li_built_from(m0[f], t0) && hash_collision_free(t1, t0);
        assert(t0 == t1);
        assert(li_built_from(m1[f], t1));
    } else {
        assert(li_built_from(m1[f], t1));
    }
}
/// C07: the hypothesis is NECESSARY, not a convenience: if two texts do collide, asking for the second right after the
/// first returns the very Arc built for the FIRST text (its line index, whatever the second text looks like)
//@tags C07
pub proof fn lemma_C07_a_collision_serves_the_other_texts_index(m0: LiMap, m1: LiMap, m2: LiMap, f: PV, t1: Seq<char>, t2: Seq<char>,
                                                                  r1: Arc<Vec<usize>>, r2: Arc<Vec<usize>>)
    requires li_post(m0, m1, f, t1, r1), li_post(m1, m2, f, t2, r2), !li_hit(m0, f, t1),
        content_hash(t1) == content_hash(t2),
    ensures r2 == r1, (*r2)@ == src_line_index(t1), m2 == m1,
{}
/// C07: asking again for the same text is a hit: the same Arc, no write
//@tags C07
pub proof fn lemma_C07_second_call_same_text_is_a_hit(m0: LiMap, m1: LiMap, m2: LiMap, f: PV, t: Seq<char>, r1: Arc<Vec<usize>>, r2: Arc<Vec<usize>>)
    requires li_post(m0, m1, f, t, r1), li_post(m1, m2, f, t, r2),
    ensures r2 == r1, m2 == m1,
{}

/// C07 (canonical paths): under the invariant (ONE file-system state, A4) the cached answer is the fresh answer
//@tags C07
pub proof fn lemma_C07_canonical_path_warm_equals_cold(m0: CanonMap, m1: CanonMap, p: PV, r: PV)
    requires canon_post(m0, m1, p, r), canon_cache_wf(m0),
    ensures r == canon_now(p), canon_cache_wf(m1),
{
    if m0.contains_key(p) {
        assert(pbv(&m0[p]) == canon_in(fs_now(), p));
    } else {
        assert forall|q: PV| m1.contains_key(q) implies pbv(&#[trigger] m1[q]) == canon_in(fs_now(), q) by {
            if q != p { assert(m0.contains_key(q)); assert(m1[q] == m0[q]); assert(pbv(&m0[q]) == canon_in(fs_now(), q)); }
        }
    }
}
/// OBSERVATION (staleness; outside A4): canonical_path_cache is never invalidated.  For ANY two file-system states fs1,
/// fs2: a path first asked for in fs1 keeps its fs1 answer when asked for again in fs2 -- the file system is not consulted.
//@tags C07
pub proof fn lemma_C07_OBSERVATION_canonical_path_cache_is_never_invalidated(fs1: spec_fn(PV) -> Option<PV>, fs2: spec_fn(PV) -> Option<PV>,
        m0: CanonMap, m1: CanonMap, m2: CanonMap, p: PV, r1: PV, r2: PV)
    requires !m0.contains_key(p), canon_step_in(fs1, m0, m1, p, r1), canon_step_in(fs2, m1, m2, p, r2),
    ensures r2 == canon_in(fs1, p), m2 == m1,
{}
/// ... a concrete sequence: p = /ws-link/tests/test_new.py is asked for while the file does not exist yet (an unsaved
/// editor buffer: canonicalize fails, p itself is cached); the file is then saved and /ws-link is a symlink to /ws, so the
/// file system now answers /ws/tests/test_new.py -- the cache keeps answering p, and the cache invariant w.r.t. the
/// new file system is broken.  (Not a violation of C10 / C13 as stated: both quantify over ONE directory tree; it IS a
/// warm != cold difference in the sense of C07 once "a file appears on disk" is admitted into the history.  Replayed on the
/// real library with `sub/../test_new.py` in place of the symlink: warm keeps the key sub/../test_new.py and a later scan
/// indexes the same file a second time under test_new.py; cold uses test_new.py throughout.)
pub open spec fn obs_p() -> PV { seq!["ws-link"@, "tests"@, "test_new.py"@] }
pub open spec fn obs_target() -> PV { seq!["ws"@, "tests"@, "test_new.py"@] }
/// before the save: nothing resolves
pub open spec fn obs_fs1() -> spec_fn(PV) -> Option<PV> { |q: PV| None::<PV> }
/// after the save: the path resolves through the symlink
pub open spec fn obs_fs2() -> spec_fn(PV) -> Option<PV> { |q: PV| if q == obs_p() { Some(obs_target()) } else { None::<PV> } }
//@tags C07
pub proof fn lemma_C07_OBSERVATION_stale_canonical_path_sequence(m1: CanonMap, m2: CanonMap, r1: PV, r2: PV)
    requires
        canon_step_in(obs_fs1(), Map::<PV, PathBuf>::empty(), m1, obs_p(), r1),   // empty cache, file not on disk yet
        canon_step_in(obs_fs2(), m1, m2, obs_p(), r2),                             // the same path after the save
    ensures r1 == obs_p(), r2 == obs_p(),
        canon_in(obs_fs2(), obs_p()) == obs_target(), r2 != canon_in(obs_fs2(), obs_p()),
        !canon_cache_wf_in(m2, obs_fs2()),
{
    assert(obs_p()[0] != obs_target()[0]) by {
        assert("ws-link"@.len() == 7) by { reveal_strlit("ws-link"); }
        assert("ws"@.len() == 2) by { reveal_strlit("ws"); }
    }
    assert(m1.contains_key(obs_p()));
    assert(m2 == m1);
    assert(pbv(&m2[obs_p()]) == obs_p());
}

/// C15: the index that is served IS the byte-offset line index unit line_index reasons about (op_line_index of the
/// text's UTF-8 bytes), so that unit's lemma_C15_* speak about what the AST walkers get from get_line_index
//@tags C15 C11
fn compose_src_line_index_is_op_line_index(content: &str) -> (r: Vec<usize>)
    ensures r@ == src_line_index(content@), ints(src_line_index(content@)) == op_line_index(str_bytes(content)),
        is_line_index(ints(src_line_index(content@))),
{
    let r = FixtureDatabase::build_line_index(content);
    proof { lemma_built_is_src_line_index(content, r@); }
    r
}

// ---- vacuity guards: each of these must FAIL ----------------------------------------------------------------------
/// warm == cold WITHOUT the no-collision hypothesis
proof fn canary_warm_equals_cold_without_no_collision(m0: LiMap, m1: LiMap, f: PV, t: Seq<char>, r: Arc<Vec<usize>>)
    requires li_post(m0, m1, f, t, r), li_cache_wf(m0),
    ensures (*r)@ == src_line_index(t),
{}
/// warm == cold without the cache invariant
proof fn canary_warm_equals_cold_without_invariant(m0: LiMap, m1: LiMap, f: PV, t: Seq<char>, r: Arc<Vec<usize>>)
    requires li_post(m0, m1, f, t, r), hash_collides_with_nothing(t),
    ensures (*r)@ == src_line_index(t),
{}
/// the line index of a DIFFERENT text is returned
proof fn canary_line_index_of_another_text(m0: LiMap, m1: LiMap, f: PV, t: Seq<char>, t2: Seq<char>, r: Arc<Vec<usize>>)
    requires li_post(m0, m1, f, t, r), li_cache_wf(m0), li_no_collision(m0, f, t), t2 != t,
    ensures (*r)@ == src_line_index(t2),
{}
/// entries of OTHER files change
proof fn canary_other_keys_change(m0: LiMap, m1: LiMap, f: PV, g: PV, t: Seq<char>, r: Arc<Vec<usize>>)
    requires li_post(m0, m1, f, t, r), g != f, m0.contains_key(g),
    ensures m1[g] != m0[g],
{}
/// a miss leaves the cache alone (nothing is stored)
proof fn canary_miss_stores_nothing(m0: LiMap, m1: LiMap, f: PV, t: Seq<char>, r: Arc<Vec<usize>>)
    requires li_post(m0, m1, f, t, r), !li_hit(m0, f, t),
    ensures m1 == m0,
{}
/// a failed parse is cached / answered with Some
proof fn canary_failed_parse_is_cached(m0: AstMap, m1: AstMap, f: PV, t: Seq<char>, r: Option<Arc<rustpython_parser::ast::Mod>>)
    requires ast_post(m0, m1, f, t, r), !ast_hit(m0, f, t), !parse_ok(t),
    ensures m1.contains_key(f) && m1[f].0 == content_hash(t),
{}
/// the hash idealisation as a GLOBAL fact (it is a hypothesis, not an axiom: this must not be provable)
proof fn canary_hash_is_injective(t1: Seq<char>, t2: Seq<char>)
    ensures hash_collision_free(t1, t2),
{}
/// the canonical-path cache follows the file system (it does not: see the OBSERVATION lemmas)
proof fn canary_canonical_cache_follows_the_file_system(fs1: spec_fn(PV) -> Option<PV>, fs2: spec_fn(PV) -> Option<PV>,
        m0: CanonMap, m1: CanonMap, m2: CanonMap, p: PV, r1: PV, r2: PV)
    requires canon_step_in(fs1, m0, m1, p, r1), canon_step_in(fs2, m1, m2, p, r2),
    ensures r2 == canon_in(fs2, p),
{}
/// the assumed specifications (hash shims, canonicalize, unwrap_or_else, parse, DashMap shim) are not contradictory
fn canary_false_from_assumed_specs(db: &mut FixtureDatabase, p: &Path, content: &str)
    ensures false,
{
    let mut h = DefaultHasher::new();
    content.hash(&mut h);
    content.len().hash(&mut h);
    content.as_bytes().hash(&mut h);
    let x = h.finish();
    let c = p.canonicalize();
    let a = rustpython_parser::parse(content, rustpython_parser::Mode::Module, "");
    let li = FixtureDatabase::build_line_index(content);
    let g = db.line_index_cache.get(p);
    let y = FixtureDatabase::hash_content(content);
}

} // verus!
fn main() {}
