//@include prelude/header.rs
// the handler files say `use tower_lsp_server::ls_types::*;` -- tower-lsp-server re-exports the crate ls_types
use ls_types::*;
// the handler code spells the scope type `crate::fixtures::types::FixtureScope`
pub mod fixtures { pub mod types { pub use crate::types::*; } }
verus! {
global size_of usize == 8;  // A6: 64-bit target
pub mod pre {
use super::*;
//@include prelude/path.rs
//@include prelude/types.rs
//@include prelude/dashmap.rs
//@include prelude/hashset.rs
//@include prelude/atomic.rs
//@include prelude/dbview.rs
//@include prelude/hof.rs
//@include prelude/resolve_spec.rs
//@include prelude/resolve_l2.rs
//@include prelude/refs_spec.rs
//@include prelude/text.rs
//@include prelude/refs_l2.rs
//@include build/lspspec.rs
//@include prelude/handlers_shims.rs
} // mod pre
use pre::*;

//@dbstruct definitions file_cache usages usage_by_fixture

//@include prelude/db_specs.rs
//@include prelude/lsp_backend.rs
//@include prelude/handlers_spec.rs
//@include prelude/handlers_l2.rs

impl FixtureDatabase {
    pub open spec fn byfix(&self) -> Map<Seq<char>, Seq<(PV, UseV)>> { byfix_view(self.usage_by_fixture.m()) }
    pub open spec fn uses(&self) -> Map<PV, Seq<UseV>> { usages_view(self.usages.m()) }
    pub open spec fn provf(&self) -> spec_fn(Seq<char>) -> spec_fn(PV) -> bool { |n: Seq<char>| self.prov(n) }

//@stub refs_goto find_fixture_definition
//@stub refs_goto find_references_for_definition
//@stub refs_goto get_definition_at_line
//@stub refs_goto find_fixture_or_definition_at_position

    // ASSUMED callee contracts: uninterpreted results, to be replaced by `//@stub position <fn>`
    #[verifier::external_body]
    pub fn find_fixture_at_position(&self, file_path: &Path, line: u32, character: u32) -> (r: Option<String>)
        ensures opt_sv(r) == name_at(self.file_cache.m(), self.defs(), self.uses(), pv(file_path), line, character)
    { unimplemented!() }
    #[verifier::external_body]
    pub fn find_containing_function(&self, file_path: &Path, line: usize) -> (r: Option<String>)
        ensures opt_sv(r) == containing_fn(self.file_cache.m(), pv(file_path), line)
    { unimplemented!() }
    #[verifier::external_body]
    pub fn find_fixture_references(&self, fixture_name: &str) -> (r: Vec<FixtureUsage>)
        ensures uvs(r@) == refs_named(self.uses(), fixture_name@)
    { unimplemented!() }
}

impl Backend {
    /// everything of the server state the navigation handlers' answers depend on
    pub open spec fn nv(&self) -> NavV {
        NavV { cache: self.fixture_db.file_cache.m(), defs: self.fixture_db.defs(), uses: self.fixture_db.uses(),
               byfix: self.fixture_db.byfix(), provf: self.fixture_db.provf(), uc: self.uri_cache }
    }
}

pub mod providers {
use super::*;
use jsonrpc::Result;
use ls_types::request::{GotoImplementationParams, GotoImplementationResponse};

pub open spec fn opt_ref_pbv(o: Option<&PathBuf>) -> Option<PV> { match o { Some(p) => Some(pbv(p)), None => None } }
impl Backend {
    // ASSUMED (src/providers/mod.rs): markdown formatting is uninterpreted
    #[verifier::external_body]
    pub fn format_fixture_documentation(fixture: &FixtureDefinition, workspace_root: Option<&PathBuf>) -> (r: String)
        ensures r@ == doc_text(dv(fixture), opt_ref_pbv(workspace_root))
    { unimplemented!() }
}

impl Backend {
/*@ extract src/providers/definition.rs handle_goto_definition
@tags C01 C05 C15 C11
@stripasync
@ret r
@sig
    requires unique_at_line(self.nv().defs),
    ensures
        r is Ok,
        def_fits(goto_target(self.nv(), td_uri(params.text_document_position_params), td_line(params.text_document_position_params), td_char(params.text_document_position_params)))
            ==> r == Ok::<Option<GotoDefinitionResponse>, jsonrpc::Error>(op_handle_goto(self.nv(), td_uri(params.text_document_position_params), td_line(params.text_document_position_params), td_char(params.text_document_position_params))),
@*/

/*@ extract src/providers/references.rs handle_references
@tags C04 C15 C11 C12
@stripasync
@ret r
@rename enumerate vp_enumerate
@replace 1 `let mut skipped_count = 0;` => `let mut skipped_count: usize = 0;`
@sig
    requires unique_at_line(self.nv().defs),
    ensures
        r is Ok,
        sel_fits(refs_sel(self.nv(), td_uri(params.text_document_position), td_line(params.text_document_position), td_char(params.text_document_position)))
            ==> opt_vec_view(r) == op_handle_references(self.nv(), td_uri(params.text_document_position), td_line(params.text_document_position), td_char(params.text_document_position)),
@before for 2
    let ghost mut i: int = 0;
    let ghost us = uvs(references@);
    let ghost od = opt_dv(definition_to_include);
    let ghost pre = locations@;
    let ghost fits = def_fits(od) && uses_fit(us);
    proof { assert(pre + ref_locs(self.uri_cache, us.take(0), od) =~= pre); }
@forloop 2 it
    proof { assert(us.take(i) =~= us); }
@loop 2
    invariant 0 <= i <= references@.len(), it.remaining() == references@.as_ref().skip(i),
        us == uvs(references@), od == opt_dv(definition_to_include), fits == (def_fits(od) && uses_fit(us)),
        skipped_count <= i,
        fits ==> locations@ =~= pre + ref_locs(self.uri_cache, us.take(i), od),
    ensures fits ==> locations@ =~= pre + ref_locs(self.uri_cache, us, od),
    decreases references@.len() - i
@loopstart 2
    let ghost i0 = i;
    let ghost locs0 = locations@;
    proof {
        assert(*reference == references@[i]);
        assert(us.take(i + 1).drop_last() =~= us.take(i));
        assert(us.take(i + 1).last() == uv(reference));
        assert(us[i] == uv(reference));
        assert(i < references@.len() && references@.len() == references.len());
        i = i + 1;
    }
@return 3
    // C11: the info!() dropped by T2 in front of this return computes `references.len() - skipped_count`
    assert(skipped_count <= references.len());
@*/

/*@ extract src/providers/implementation.rs handle_goto_implementation
@tags C05 C15 C11
@stripasync
@ret r
@sig
    requires unique_at_line(self.nv().defs),
    ensures
        r is Ok,
        impl_fits(goto_or_def_target(self.nv(), td_uri(params.text_document_position_params), td_line(params.text_document_position_params), td_char(params.text_document_position_params)))
            ==> r == Ok::<Option<GotoDefinitionResponse>, jsonrpc::Error>(op_handle_impl(self.nv(), td_uri(params.text_document_position_params), td_line(params.text_document_position_params), td_char(params.text_document_position_params))),
@*/

/*@ extract src/providers/hover.rs handle_hover
@tags C05 C11
@stripasync
@ret r
@sig
    requires unique_at_line(self.nv().defs),
    ensures
        hover_post(self.nv(), opt_pbv(self.workspace_root.v), td_uri(params.text_document_position_params), td_line(params.text_document_position_params), td_char(params.text_document_position_params), r),
@*/

/*@ extract src/providers/call_hierarchy.rs handle_prepare_call_hierarchy
@tags C05 C15 C11
@stripasync
@ret r
@wrapexpr 1 `SymbolKind::FUNCTION` => `Self::vp_sk_function_prep()` with fn vp_sk_function_prep() -> (r: SymbolKind) ensures r == sk_function()
@wrapexpr 1 `format!( "@pytest.fixture{}", if definition.scope != crate::fixtures::types::FixtureScope::Function { format!("(scope=\"{}\")", definition.scope.as_str()) } else { String::new() } )` => `Self::vp_detail_of(&definition)` with fn vp_detail_of(definition: &FixtureDefinition) -> (r: String) ensures r@ == fixture_detail(definition.scope)
@sig
    requires unique_at_line(self.nv().defs),
    ensures
        r is Ok,
        def_fits(goto_or_def_target(self.nv(), td_uri(params.text_document_position_params), td_line(params.text_document_position_params), td_char(params.text_document_position_params)))
            ==> opt_items_view(r) == op_handle_prepare(self.nv(), td_uri(params.text_document_position_params), td_line(params.text_document_position_params), td_char(params.text_document_position_params)),
@*/

/*@ extract src/providers/code_lens.rs handle_code_lens
@tags C04 C15 C11 C12
@stripasync
@ret r
@replace 1 `tracing::` => ``
@wrapexpr 1 `format!("{} usages", usage_count)` => `Self::vp_fmt_usages(usage_count)` with fn vp_fmt_usages(usage_count: usize) -> (r: String) ensures r@ == fmt_usages(usage_count as nat)
@wrapexpr 1 `uri.to_string()` => `Self::vp_uri_to_string(uri)` with fn vp_uri_to_string(uri: &Uri) -> (r: String) ensures r@ == uri_text(*uri)
@sig
    requires unique_at_line(self.nv().defs),
    ensures
        r is Ok,
        defs_fit(self.nv().defs) ==> lens_post(self.nv(), params.text_document.uri, r),
@before for 1
    let ghost v = self.nv();
    let ghost p = pbv(&file_path);
    let ghost m0 = self.fixture_db.definitions.m();
    let ghost fits = defs_fit(v.defs);
    let ghost mut ks: Seq<Seq<char>> = Seq::empty();
@loopvar 1 it
@loop 1
    invariant
        unique_at_line(self.nv().defs), v == self.nv(), p == pbv(&file_path), m0 == self.fixture_db.definitions.m(),
        fits == defs_fit(v.defs), *uri == params.text_document.uri,
        forall|j: int| 0 <= j < it.seq().len() ==> m0.contains_key((#[trigger] it.seq()[j]).k@) && *it.seq()[j].v == m0[it.seq()[j].k@],
        forall|i: int, j: int| 0 <= i < j < it.seq().len() ==> (#[trigger] it.seq()[i]).k@ != (#[trigger] it.seq()[j]).k@,
        forall|key: Seq<char>| m0.contains_key(key) ==> exists|j: int| 0 <= j < it.seq().len() && (#[trigger] it.seq()[j]).k@ == key,
        ks.len() == it.index@,
        forall|j: int| 0 <= j < ks.len() ==> #[trigger] ks[j] == it.seq()[j].k@,
        forall|j: int| 0 <= j < it.index@ ==> ks.contains((#[trigger] it.seq()[j]).k@),
        fits ==> lenses_v(lenses@) =~= lenses_of_keys(v, *uri, p, ks),
@before for 2
    let ghost mut j: int = 0;
    let ghost dsx = entry.v@;
    let ghost ds = dvs(dsx);
    let ghost base = lenses_v(lenses@);
    proof {
        assert(ds == bucket(v.defs, entry.k@));
        assert(base + lenses_of_defs(v, *uri, p, ds.take(0)) =~= base);
    }
@forloop 2 it2
    proof { assert(ds.take(j) =~= ds); }
@loop 2
    invariant 0 <= j <= dsx.len(), it2.remaining() == dsx.as_ref().skip(j),
        unique_at_line(self.nv().defs), v == self.nv(), p == pbv(&file_path), fits == defs_fit(v.defs), *uri == params.text_document.uri,
        dsx == entry.v@, ds == dvs(dsx), ds == bucket(v.defs, entry.k@), v.defs.contains_key(entry.k@),
        fits ==> lenses_v(lenses@) =~= base + lenses_of_defs(v, *uri, p, ds.take(j)),
    ensures fits ==> lenses_v(lenses@) =~= base + lenses_of_defs(v, *uri, p, ds),
    decreases dsx.len() - j
@loopstart 2
    let ghost j0 = j;
    let ghost l0 = lenses@;
    proof {
        assert(*def == dsx[j]);
        assert(ds[j] == dv(def));
        assert(ds.take(j + 1).drop_last() =~= ds.take(j));
        assert(ds.take(j + 1).last() == dv(def));
        assert(fits ==> line_fits(v.defs[entry.k@][j].line));
        j = j + 1;
    }
@after push 1
    proof {
        assert(lenses@ == l0.push(lens));
        assert(lenses_v(lenses@) =~= lenses_v(l0).push(lens_v(lens)));
        if fits {
            assert(lens_for(v, *uri, dv(def)) == Some(lens_v(lens)));
        }
    }
@loopend 1
    proof {
        let k = entry.k@;
        let ks1 = ks.push(k);
        assert(ks1.drop_last() =~= ks);
        assert(ks1.last() == k);
        assert forall|j: int| 0 <= j <= it.index@ implies ks1.contains((#[trigger] it.seq()[j]).k@) by { assert(ks1[j] == it.seq()[j].k@); }
        ks = ks1;
    }
@return tail
    let n = ks.len() as int;
    assert(ks.no_duplicates());
    assert forall|k: Seq<char>| ks.contains(k) <==> v.defs.contains_key(k) by {
        if ks.contains(k) { let j = choose|j: int| 0 <= j < ks.len() && ks[j] == k; }
        if v.defs.contains_key(k) { assert(m0.contains_key(k)); }
    }
    assert(enumerates_keys(ks, v.defs));
    if fits { assert(lenses_v(lenses@) == lenses_of_keys(v, *uri, p, ks)); }
@*/

/*@ extract src/providers/call_hierarchy.rs handle_incoming_calls
@tags C04 C05 C15 C11 C12
@stripasync
@ret r
@closure find:1 |d: &&FixtureDefinition| -> (b: bool) ensures b == (pbv(&d.file_path) == pbv(&file_path))
@closure unwrap_or_else:1 || -> (s: String) ensures s@ == "<unknown>"@
@wrapexpr 1 `SymbolKind::FUNCTION` => `Self::vp_sk_function_in()` with fn vp_sk_function_in() -> (r: SymbolKind) ensures r == sk_function()
@wrapexpr 1 `usage.file_path.display().to_string()` => `Self::vp_usage_path_display(&usage)` with fn vp_usage_path_display(usage: &FixtureUsage) -> (r: String) ensures r@ == path_display(pbv(&usage.file_path))
@sig
    requires unique_at_line(self.nv().defs),
    ensures
        r is Ok,
        in_fits(self.nv(), params.item.name@, params.item.uri)
            ==> opt_in_calls_view(r) == op_handle_incoming(self.nv(), params.item.name@, params.item.uri),
@after defs 1
    let ghost v = self.nv();
    let ghost p = pbv(&file_path);
    let ghost dsx = defs.r@;
    let ghost ds = dvs(dsx);
    let ghost same = p_same(p, fs_true());
    proof { assert(ds == bucket(v.defs, item.name@)); }
@return 3
    let s = dsx.as_ref();
    assert forall|j: int| 0 <= j < ds.len() implies !same(#[trigger] ds[j]) by { let y = s[j]; }
    lemma_first_none(ds, same);
@after definition 1
    proof {
        let s = dsx.as_ref();
        let i = choose|i: int| 0 <= i < s.len() && s[i] == definition && (forall|j: int| 0 <= j < i ==> pbv(&(#[trigger] s[j]).file_path) != p);
        assert forall|j: int| 0 <= j < i implies !same(#[trigger] ds[j]) by { let y = s[j]; }
        assert(ds[i] == dv(definition));
        lemma_first_idx(ds, same, i);
        assert(item_def(v, item.name@, item.uri) == Some(dv(definition)));
    }
@before for 1
    let ghost mut i: int = 0;
    let ghost refs = references@;
    let ghost us = uvs(refs);
    let ghost od = Some(dv(definition));
    let ghost fits = uses_fit(us);
    proof { assert(in_calls(v, us.take(0), od) =~= Seq::<InCallV>::empty()); }
@forloop 1 it
    proof { assert(us.take(i) =~= us); }
@loop 1
    invariant 0 <= i <= refs.len(), it.remaining() == refs.skip(i),
        v == self.nv(), us == uvs(refs), od == Some(dv(definition)), fits == uses_fit(us),
        fits ==> in_calls_v(incoming_calls@) =~= in_calls(v, us.take(i), od),
    ensures fits ==> in_calls_v(incoming_calls@) =~= in_calls(v, us, od),
    decreases refs.len() - i
@loopstart 1
    let ghost c0 = incoming_calls@;
    proof {
        assert(usage == refs[i]);
        assert(us[i] == uv(&usage));
        assert(us.take(i + 1).drop_last() =~= us.take(i));
        assert(us.take(i + 1).last() == uv(&usage));
        i = i + 1;
    }
@after push 1
    proof {
        let c = incoming_calls@.last();
        assert(incoming_calls@.drop_last() =~= c0);
        assert(in_calls_v(incoming_calls@) =~= in_calls_v(c0).push(in_call_v(c)));
        if fits {
            let x = us[i - 1];
            assert(x == uv(&usage));
            assert(line_fits(x.line));
            assert(from_range == use_range(x));
            assert(c.from_ranges@ =~= seq![use_range(x)]);
            assert(c.from.name@ == caller_name_of(containing_fn(v.cache, x.file, x.line)));
            assert(c.from.kind == sk_function());
            assert(opt_sv(c.from.detail) == Some(path_display(x.file)));
            assert(c.from.uri == usage_uri);
            assert(item_v(c.from) == in_call_for(v, usage_uri, x).from);
            assert(in_call_v(c) == in_call_for(v, usage_uri, us[i - 1]));
        }
    }
@*/

// ---- exec vacuity guards (each must FAIL): the real bodies under deliberately wrong contracts.  A failure on the
// DEEP exit shows that the assumed callee contracts along that path are not contradictory.
/*@ extract src/providers/definition.rs handle_goto_definition
@as canary_exec_goto_never_answers
@stripasync
@ret r
@sig
    requires unique_at_line(self.nv().defs),
    ensures r == Ok::<Option<GotoDefinitionResponse>, jsonrpc::Error>(None),
@*/

/*@ extract src/providers/definition.rs handle_goto_definition
@as canary_exec_goto_line_is_internal_line
@stripasync
@ret r
@sig
    requires unique_at_line(self.nv().defs),
    ensures match r { Ok(Some(GotoDefinitionResponse::Scalar(l))) =>
        l.range.start.line == (goto_target(self.nv(), td_uri(params.text_document_position_params), td_line(params.text_document_position_params), td_char(params.text_document_position_params))->0).line,
        _ => true },
@*/

/*@ extract src/providers/hover.rs handle_hover
@as canary_exec_hover_never_answers
@stripasync
@ret r
@sig
    requires unique_at_line(self.nv().defs),
    ensures r == Ok::<Option<Hover>, jsonrpc::Error>(None),
@*/

/*@ extract src/providers/implementation.rs handle_goto_implementation
@as canary_exec_implementation_is_definition
@stripasync
@ret r
@sig
    requires unique_at_line(self.nv().defs),
    ensures r == Ok::<Option<GotoDefinitionResponse>, jsonrpc::Error>(op_handle_goto(self.nv(), td_uri(params.text_document_position_params), td_line(params.text_document_position_params), td_char(params.text_document_position_params))),
@*/

/*@ extract src/providers/references.rs handle_references
@as canary_exec_references_never_lists
@stripasync
@ret r
@rename enumerate vp_enumerate
@replace 1 `let mut skipped_count = 0;` => `let mut skipped_count: usize = 0;`
@sig
    requires unique_at_line(self.nv().defs),
    ensures opt_vec_view(r) is None,
@before for 2
    let ghost mut i: int = 0;
    let ghost us = uvs(references@);
    let ghost od = opt_dv(definition_to_include);
    let ghost pre = locations@;
    let ghost fits = def_fits(od) && uses_fit(us);
    proof { assert(pre + ref_locs(self.uri_cache, us.take(0), od) =~= pre); }
@forloop 2 it
    proof { assert(us.take(i) =~= us); }
@loop 2
    invariant 0 <= i <= references@.len(), it.remaining() == references@.as_ref().skip(i),
        us == uvs(references@), od == opt_dv(definition_to_include), fits == (def_fits(od) && uses_fit(us)),
        skipped_count <= i,
        fits ==> locations@ =~= pre + ref_locs(self.uri_cache, us.take(i), od),
    ensures fits ==> locations@ =~= pre + ref_locs(self.uri_cache, us, od),
    decreases references@.len() - i
@loopstart 2
    let ghost i0 = i;
    let ghost locs0 = locations@;
    proof {
        assert(*reference == references@[i]);
        assert(us.take(i + 1).drop_last() =~= us.take(i));
        assert(us.take(i + 1).last() == uv(reference));
        assert(us[i] == uv(reference));
        assert(i < references@.len() && references@.len() == references.len());
        i = i + 1;
    }
@*/
}
} // mod providers

} // verus!
fn main() {}
