//@include prelude/header.rs
verus! {
global size_of usize == 8;  // A6: 64-bit target
pub mod pre {
use super::*;
//@include prelude/path.rs
//@include prelude/types.rs
//@include prelude/dashmap.rs
//@include prelude/hashset.rs
//@include prelude/atomic.rs
//@include prelude/dbview.rs
//@include prelude/hof.rs
//@include prelude/resolve_spec.rs
//@include prelude/refs_spec.rs
//@include prelude/text.rs
//@include prelude/refs_l2.rs
} // mod pre
use pre::*;

//@dbstruct definitions file_cache usages usage_by_fixture

//@include prelude/db_specs.rs

broadcast use {axiom_has_parent_nonempty, axiom_str_as_path};

impl FixtureDatabase {
    pub open spec fn byfix(&self) -> Map<Seq<char>, Seq<(PV, UseV)>> { byfix_view(self.usage_by_fixture.m()) }
    pub open spec fn uses(&self) -> Map<PV, Seq<UseV>> { usages_view(self.usages.m()) }
    pub open spec fn provf(&self) -> spec_fn(Seq<char>) -> spec_fn(PV) -> bool { |n: Seq<char>| self.prov(n) }

//@stub resolver_core find_closest_definition
//@stub resolver_core find_closest_definition_excluding

    // callee contracts assumed here (string code: checked bounded by the Kani harnesses)
    #[verifier::external_body]
    pub(crate) fn get_file_content(&self, file_path: &Path) -> (r: Option<Arc<String>>)
        ensures (match r { Some(a) => Some(a.v@), None => None::<Seq<char>> }) == file_content(self.file_cache.m(), pv(file_path))
    { unimplemented!() }
    #[verifier::external_body]
    pub fn extract_word_at_position(&self, line: &str, character: usize) -> (r: Option<String>)
        ensures opt_sv(r) == word_at(line@, character as int)
    { unimplemented!() }

/*@ extract src/fixtures/resolver.rs find_fixture_definition
@tags C01 C02 C04 C05
@ret r
@rename lines vp_lines
@sig
    requires unique_at_line(self.defs()),
    ensures opt_dv(r) == op_goto(self.file_cache.m(), self.defs(), self.uses(), self.provf(), pv(file_path), line, character),
@after current_fixture_def 1
    let ghost w = word_at_cursor@;
    let ghost hitp = hit(line as int + 1, w, character as int);
    proof {
        if current_fixture_def is Some { lemma_pick(self.defs(), pv(file_path), target_line, dv(&current_fixture_def->0)); }
        else { lemma_pick_none(self.defs(), pv(file_path), target_line); }
    }
@before for 1
    let ghost ux = usages.r@;
    proof { assert(uvs(ux) == bucket(self.uses(), pv(file_path))); }
@loopvar 1 it
@loop 1
    invariant
        unique_at_line(self.defs()),
        ux == usages.r@, it.seq() == ux.as_ref(), uvs(ux) == bucket(self.uses(), pv(file_path)),
        w == word_at_cursor@, hitp == hit(line as int + 1, w, character as int), target_line == line as int + 1,
        file_content(self.file_cache.m(), pv(file_path)) == Some(content.v@),
        line_of(content.v@, line as int) == Some(line_content@),
        word_at(line_content@, character as int) == Some(w),
        pick_at_line(self.defs(), pv(file_path), target_line) == opt_dv(current_fixture_def),
        forall|j: int| 0 <= j < it.index@ ==> !hitp(uv(&(#[trigger] ux[j]))),
@return 1
    let i = it.index@ as int;
    assert(ux[i] == *usage);
    assert forall|j: int| 0 <= j < i implies !hitp(#[trigger] uvs(ux)[j]) by { let y = ux[j]; }
    lemma_first_use_idx(uvs(ux), hitp, i);
@return 2
    let i = it.index@ as int;
    assert(ux[i] == *usage);
    assert forall|j: int| 0 <= j < i implies !hitp(#[trigger] uvs(ux)[j]) by { let y = ux[j]; }
    lemma_first_use_idx(uvs(ux), hitp, i);
@return tail
    if file_content(self.file_cache.m(), pv(file_path)) is Some && self.uses().contains_key(pv(file_path)) {
        let us = bucket(self.uses(), pv(file_path));
        assert forall|j: int| 0 <= j < us.len() implies !hitp(#[trigger] us[j]) by { }
        lemma_first_use_none(us, hitp);
    }
@*/

/*@ extract src/fixtures/resolver.rs find_fixture_or_definition_at_position
@tags C02 C05
@ret r
@rename lines vp_lines
@sig
    requires unique_at_line(self.defs()),
    ensures opt_dv(r) == op_goto_or_def(self.file_cache.m(), self.defs(), self.uses(), self.provf(), pv(file_path), line, character),
@before for 1
    let ghost dsx = definitions.r@;
    let ghost ds = dvs(dsx);
    let ghost pp = p_def_at(pv(file_path), line as int + 1, character as int);
    proof { assert(ds == bucket(self.defs(), word_at_cursor@)); }
@loopvar 1 it
@loop 1
    invariant dsx == definitions.r@, ds == dvs(dsx), it.seq() == dsx.as_ref(), ds == bucket(self.defs(), word_at_cursor@),
        pp == p_def_at(pv(file_path), line as int + 1, character as int), target_line == line as int + 1,
        op_goto(self.file_cache.m(), self.defs(), self.uses(), self.provf(), pv(file_path), line, character) is None,
        file_content(self.file_cache.m(), pv(file_path)) == Some(content.v@),
        line_of(content.v@, line as int) == Some(line_content@),
        word_at(line_content@, character as int) == Some(word_at_cursor@),
        forall|j: int| 0 <= j < it.index@ ==> !pp(#[trigger] ds[j]),
@return 2
    let i = it.index@ as int;
    assert(dsx[i] == *def);
    lemma_first_idx(ds, pp, i);
@return tail
    if file_content(self.file_cache.m(), pv(file_path)) is Some && self.defs().contains_key(word_at_cursor@) {
        lemma_first_none(bucket(self.defs(), word_at_cursor@), p_def_at(pv(file_path), line as int + 1, character as int));
    }
@*/

/*@ extract src/fixtures/resolver.rs get_definition_at_line
@tags C02 C04
@ret r
@sig
    ensures opt_dv(r) == first_match(bucket(self.defs(), fixture_name@), p_def_line(pv(file_path), line as int)),
@before for 1
    let ghost dsx = definitions.r@;
    let ghost ds = dvs(dsx);
    let ghost pp = p_def_line(pv(file_path), line as int);
    proof { assert(ds == bucket(self.defs(), fixture_name@)); }
@loopvar 1 it
@loop 1
    invariant dsx == definitions.r@, ds == dvs(dsx), it.seq() == dsx.as_ref(), ds == bucket(self.defs(), fixture_name@),
        pp == p_def_line(pv(file_path), line as int),
        forall|j: int| 0 <= j < it.index@ ==> !pp(#[trigger] ds[j]),
@return 1
    let i = it.index@ as int;
    assert(dsx[i] == *def);
    lemma_first_idx(ds, pp, i);
@return tail
    if self.defs().contains_key(fixture_name@) {
        lemma_first_none(bucket(self.defs(), fixture_name@), p_def_line(pv(file_path), line as int));
    }
@*/

/*@ extract src/fixtures/resolver.rs get_fixture_definition_at_line
@tags C02 C04 C20
@ret r
@sig
    ensures match r {
        Some(d) => at_line(self.defs(), pv(file_path), line, dv(&d)),
        None => none_at_line(self.defs(), pv(file_path), line) },
@start
    let ghost m0 = self.definitions.m();
    let ghost mut done: Set<Seq<char>> = Set::empty();
@loopvar 1 it
@loop 1
    invariant
        m0 == self.definitions.m(),
        forall|j: int| 0 <= j < it.seq().len() ==> m0.contains_key((#[trigger] it.seq()[j]).k@) && *it.seq()[j].v == m0[it.seq()[j].k@],
        forall|key: Seq<char>| m0.contains_key(key) ==> exists|j: int| 0 <= j < it.seq().len() && (#[trigger] it.seq()[j]).k@ == key,
        forall|j: int| 0 <= j < it.index@ ==> done.contains((#[trigger] it.seq()[j]).k@),
        forall|k: Seq<char>, i: int| done.contains(k) && m0.contains_key(k) && 0 <= i < m0[k]@.len() ==>
            !(pbv(&(#[trigger] m0[k]@[i]).file_path) == pv(file_path) && m0[k]@[i].line == line),
@loopvar 2 it2
@loop 2
    invariant
        m0 == self.definitions.m(),
        m0.contains_key(entry.k@), *entry.v == m0[entry.k@],
        it2.seq() == entry.v@.as_ref(),
        forall|i: int| 0 <= i < it2.index@ ==> !(pbv(&(#[trigger] entry.v@[i]).file_path) == pv(file_path) && entry.v@[i].line == line),
@return 1
    assert(at_line(self.defs(), pv(file_path), line, dv(def))) by {
        let n = entry.k@; let i = it2.index@ as int;
        assert(entry.v@[i] == *def);
        assert(self.defs().contains_key(n) && self.defs()[n][i] == dv(def));
    }
@loopend 1
    proof { done = done.insert(entry.k@); }
@return tail
    assert(none_at_line(self.defs(), pv(file_path), line)) by {
        assert forall|n: Seq<char>, i: int| self.defs().contains_key(n) && 0 <= i < self.defs()[n].len() implies
            !((#[trigger] self.defs()[n][i]).file == pv(file_path) && self.defs()[n][i].line == line) by {
            assert(done.contains(n));
            let y = m0[n]@[i];
        }
    }
@*/

/*@ extract src/fixtures/resolver.rs find_references_for_definition
@tags C04 C20
@ret r
@sig
    requires unique_at_line(self.defs()),
    ensures uvs(r@) =~= op_refs(self.defs(), self.byfix(), self.provf(), dv(definition)),
@after usages_for_fixture 1
    let ghost bx = usages_for_fixture.r@;
    let ghost bs = pairs_v(bx);
    let ghost p = refers_to(self.defs(), self.provf(), dv(definition));
    proof { assert(bs == bucket(self.byfix(), definition.name@)); }
@loopvar 1 it
@loop 1
    invariant
        unique_at_line(self.defs()),
        bx == usages_for_fixture.r@, bs == pairs_v(bx), it.seq() == bx.as_ref(),
        p == refers_to(self.defs(), self.provf(), dv(definition)),
        uvs(matching_references@) =~= bs.take(it.index@ as int).filter(p).map_values(pair_snd()),
@loopstart 1
    let ghost i0 = it.index@ as int;
    let ghost before = matching_references@;
    proof {
        assert(bx[i0] == (*file_path, *usage));
        assert(bs[i0] == (pbv(file_path), uv(usage)));
    }
@after fixture_def_at_line 1
    proof {
        if fixture_def_at_line is Some { lemma_pick(self.defs(), pbv(file_path), usage.line, dv(&fixture_def_at_line->0)); }
        else { lemma_pick_none(self.defs(), pbv(file_path), usage.line); }
    }
@after resolved_def 1
    proof {
        assert(opt_dv(resolved_def) == resolve_usage(self.defs(), self.provf(), pbv(file_path), uv(usage)));
    }
@loopend 1
    proof {
        let t1 = bs.take(i0 + 1);
        assert(t1.drop_last() =~= bs.take(i0));
        assert(t1.last() == bs[i0]);
        reveal_with_fuel(Seq::filter, 2);
        assert(p(bs[i0]) == (opt_dv(resolved_def) == Some(dv(definition))));
        let f1 = bs.take(i0).filter(p);
        let snd = pair_snd();
        if p(bs[i0]) {
            assert(t1.filter(p) =~= f1.push(bs[i0]));
            assert(matching_references@.len() == before.len() + 1);
            assert(matching_references@.drop_last() =~= before);
            assert(uv(&matching_references@.last()) == uv(usage));
            assert(uvs(matching_references@) =~= uvs(before).push(uv(usage)));
            assert(f1.push(bs[i0]).map_values(snd) =~= f1.map_values(snd).push(uv(usage)));
        } else {
            assert(t1.filter(p) =~= f1);
            assert(matching_references@ == before);
        }
    }
@return tail
    assert(bs.take(bs.len() as int) =~= bs);
@*/
}
} // verus!
fn main() {}
