//@include prelude/strstruct_header.rs
// Unit strings_struct (properties C03 / C15 / C17 / C11 / C12): the text-processing helpers under contract at the STRUCTURAL
// level.  The primitive `str` operations (trim*, len, lines, find, contains, starts_with, get(a..), slicing, char tests,
// join) are ASSUMED contracts over `Seq<char>` views (prelude/strstruct_prims.rs = the trusted base, P0..P15; byte lengths
// and char boundaries are vstd's own UTF-8 model, not assumptions).  Everything the real functions build on top of them is
// PROVED for all inputs: which lines are considered, loop bounds, index arithmetic (machine integers), min computations,
// branch order, what is pushed / joined / returned.
//   L1  (extracted exec function == operational specification)
//       string_utils.rs format_docstring              r@ == join_v(op_clean(lines_v(doc)), "\n")
//                       find_function_name_position   r == op_name_pos(content, line, name)
//                       extract_word_at_position      r == op_word_at(line, character)        (character = CHAR index)
//                       parameter_has_annotation      r == op_has_annotation(lines, line, end_char)
//       resolver.rs     get_function_param_insertion_info   r == op_insertion(file text, function_line)
//                       (requires function_line + 10 <= usize::MAX: `function_line + 10` is unchecked in the source)
//   L2  lemma_C03_* (min_indent characterisation, blank lines / first line never count, kept window, no text lost under
//       ws_laws, dead else-branch), lemma_C15_* (name span after "def ", fallbacks, width is BYTES, word = maximal run),
//       lemma_C17_* (window, FINDING: edit lands on a later line; FINDING: trailing comma; hanging indent)
//   6 canaries (5 proof, 1 exec over every assumed primitive) must FAIL.
// C11: every slice / index / subtraction in these bodies is an obligation: `line.len() - line.trim_start().len()` (needs the
// suffix fact P2), `lines[start..end]`, `&line_content[def_pos + 4..]` and the three slices of the insertion scan (the
// @wrapexpr helpers REQUIRE char boundaries: proved from P4), `char_indices[..]`.  C12: every loop has a decreases.
verus! {
pub mod pre {
use super::*;
//@include prelude/path.rs
//@include prelude/dashmap.rs
//@include prelude/strstruct_prims.rs
//@include prelude/strstruct_db.rs
} // mod pre
use pre::*;
broadcast use {lemma_fits, axiom_ts_n, axiom_te_n, axiom_pat_str, axiom_pat_char, axiom_out_str, axiom_get_from};

// ---- operational specification of format_docstring -------------------------------------------------------------------
pub open spec fn is_blank(l: Seq<char>) -> bool { trim_v(l).len() == 0 }
pub open spec fn indent_of(l: Seq<char>) -> int { blen(l) - blen(trim_start_v(l)) }
pub open spec fn dedent(l: Seq<char>, n: int) -> Seq<char> {
    if blen(l) > n { match get_from_v(l, n) { Some(t) => t, None => trim_start_v(l) } } else { trim_start_v(l) }
}
/// first index >= k of a non-blank line (|ls| if there is none)
pub open spec fn skip_fwd(ls: Seq<Seq<char>>, k: int) -> int
    decreases ls.len() - k
{
    if 0 <= k < ls.len() && is_blank(ls[k]) { skip_fwd(ls, k + 1) } else { k }
}
/// smallest e >= start such that ls[e - 1] is not blank (start if there is none), searching down from e
pub open spec fn skip_bwd(ls: Seq<Seq<char>>, start: int, e: int) -> int
    decreases e
{
    if e > start && 0 < e <= ls.len() && is_blank(ls[e - 1]) { skip_bwd(ls, start, e - 1) } else { e }
}
/// does line i of the kept lines take part in the minimum: never the first one, never a blank one
pub open spec fn counts(ls: Seq<Seq<char>>, i: int) -> bool { i != 0 && !is_blank(ls[i]) }
/// the running minimum after the first n lines (usize::MAX: nothing counted yet)
pub open spec fn fold_min(ls: Seq<Seq<char>>, n: int) -> int
    decreases n
{
    if n <= 0 { usize::MAX as int } else {
        let a = fold_min(ls, n - 1);
        if counts(ls, n - 1) && indent_of(ls[n - 1]) < a { indent_of(ls[n - 1]) } else { a }
    }
}
pub open spec fn min_indent_v(ls: Seq<Seq<char>>) -> int {
    if fold_min(ls, ls.len() as int) == usize::MAX { 0 } else { fold_min(ls, ls.len() as int) }
}
pub open spec fn out_line(ls: Seq<Seq<char>>, mi: int, i: int) -> Seq<char> {
    if i == 0 { trim_v(ls[0]) } else if is_blank(ls[i]) { Seq::empty() } else { dedent(ls[i], mi) }
}
pub open spec fn clean_kept(kept: Seq<Seq<char>>) -> Seq<Seq<char>> {
    Seq::new(kept.len(), |i: int| out_line(kept, min_indent_v(kept), i))
}
pub open spec fn kept_start(ls: Seq<Seq<char>>) -> int { skip_fwd(ls, 0) }
pub open spec fn kept_end(ls: Seq<Seq<char>>) -> int { skip_bwd(ls, kept_start(ls), ls.len() as int) }
pub open spec fn op_clean(ls: Seq<Seq<char>>) -> Seq<Seq<char>> {
    if ls.len() == 0 || kept_start(ls) >= kept_end(ls) { Seq::empty() }
    else { clean_kept(ls.subrange(kept_start(ls), kept_end(ls))) }
}
pub open spec fn nl() -> Seq<char> { "\n"@ }
pub open spec fn op_format_docstring(doc: Seq<char>) -> Seq<char> { join_v(op_clean(lines_v(doc)), nl()) }

pub proof fn lemma_skip_fwd_bounds(ls: Seq<Seq<char>>, k: int)
    requires 0 <= k <= ls.len(),
    ensures k <= skip_fwd(ls, k) <= ls.len(),
    decreases ls.len() - k,
{
    if k < ls.len() && is_blank(ls[k]) { lemma_skip_fwd_bounds(ls, k + 1); }
}
pub proof fn lemma_skip_bwd_bounds(ls: Seq<Seq<char>>, start: int, e: int)
    requires 0 <= start <= e <= ls.len(),
    ensures start <= skip_bwd(ls, start, e) <= e,
    decreases e,
{
    if e > start && is_blank(ls[e - 1]) { lemma_skip_bwd_bounds(ls, start, e - 1); }
}

// ---- L1 ---------------------------------------------------------------------------------------------------------------
/*@ extract src/fixtures/string_utils.rs format_docstring
@tags C03 C11 C12
@ret r
@rename enumerate vp_enumerate
@nocontinue 3
@wrapexpr 1 `docstring.lines().collect()` => `vp_lines_vec(&docstring)` with fn vp_lines_vec<'a>(docstring: &'a String) -> (r: Vec<&'a str>) ensures sv(r@) == lines_v(docstring@)
@wrapexpr 1 `result.join("\n")` => `vp_join_nl(&result)` with fn vp_join_nl(result: &Vec<String>) -> (r: String) ensures r@ == join_v(ssv(result@), nl())
@closure 1 || -> (t: &str) ensures t@ == trim_start_v(line@)
@replace 1 `let mut result = Vec::new();` => `let mut result: Vec<String> = Vec::new();`
@sig
    ensures r@ == op_format_docstring(docstring@),
@before while 1
    let ghost ls = sv(lines@);
    proof { assert(ls.len() == lines@.len()); }
@loop 1
    invariant 0 <= start <= lines@.len(), ls == sv(lines@), skip_fwd(ls, 0) == skip_fwd(ls, start as int),
    decreases lines@.len() - start
@loop 2
    invariant start <= end <= lines@.len(), ls == sv(lines@),
        skip_bwd(ls, start as int, ls.len() as int) == skip_bwd(ls, start as int, end as int),
    decreases end
@return 2
    assert(join_v(Seq::<Seq<char>>::empty(), nl()) =~= Seq::<char>::empty());
@before min_indent 1
    let ghost kept = sv(lines@);
    proof {
        assert(kept =~= ls.subrange(start as int, end as int));
        assert(start == kept_start(ls) && end == kept_end(ls));
    }
@loopvar 3 it
@loop 3
    invariant kept == sv(lines@), it.seq().len() == lines@.len(),
        forall|k: int| 0 <= k < it.seq().len() ==> (#[trigger] it.seq()[k]).0 == k && *it.seq()[k].1 == lines@[k],
        min_indent == fold_min(kept, it.index@ as int),
@before indent 1
    proof { lemma_blen_split(line@, ts_n(line@)); }
@loopvar 4 it4
@loop 4
    invariant kept == sv(lines@), it4.seq().len() == lines@.len(),
        forall|k: int| 0 <= k < it4.seq().len() ==> (#[trigger] it4.seq()[k]).0 == k && *it4.seq()[k].1 == lines@[k],
        result@.len() == it4.index@,
        forall|k: int| 0 <= k < result@.len() ==> (#[trigger] result@[k])@ == out_line(kept, min_indent as int, k),
@return tail
    assert(ssv(result@) =~= clean_kept(kept));
@*/


// ---- operational specification of find_function_name_position --------------------------------------------------------
pub open spec fn def_pat() -> PatV { PatV::Str("def "@) }
pub open spec fn sat_sub1(n: usize) -> int { if n == 0 { 0 } else { n - 1 } }
/// the byte span of the occurrence of `name` that starts at character k of l
pub open spec fn span_at(l: Seq<char>, k: int, name: Seq<char>) -> (usize, usize) {
    (boff(l, k) as usize, (boff(l, k) + blen(name)) as usize)
}
pub open spec fn name_anywhere(l: Seq<char>, name: Seq<char>) -> Option<(usize, usize)> {
    match find_k(l, PatV::Str(name)) { Some(k) => Some(span_at(l, k, name)), None => None }
}
/// first occurrence of the name in the text after the first "def " of the line; else first occurrence anywhere
pub open spec fn name_in_line(l: Seq<char>, name: Seq<char>) -> Option<(usize, usize)> {
    match find_k(l, def_pat()) {
        Some(k) => match find_k(l.skip(k + 4), PatV::Str(name)) {
            Some(j) => Some(span_at(l, k + 4 + j, name)),
            None => name_anywhere(l, name),
        },
        None => name_anywhere(l, name),
    }
}
pub open spec fn op_name_pos(content: Seq<char>, line: usize, name: Seq<char>) -> (usize, usize) {
    match nth_line(lines_v(content), sat_sub1(line)) {
        Some(l) => match name_in_line(l, name) { Some(p) => p, None => (0usize, blen(name) as usize) },
        None => (0usize, blen(name) as usize),
    }
}
pub proof fn lemma_def_lit()
    ensures "def "@ =~= seq!['d', 'e', 'f', ' '], blen("def "@) == 4, pat_len(def_pat()) == 4,
{
    reveal_strlit("def ");
    lemma_ascii_blen("def "@);
}
/// the span of an occurrence found in the suffix l.skip(m), in offsets of l: PROVED arithmetic facts
pub proof fn lemma_span_in_suffix(l: Seq<char>, m: int, name: Seq<char>)
    requires 0 <= m <= l.len(), find_k(l.skip(m), PatV::Str(name)) is Some,
    ensures ({
        let j = find_k(l.skip(m), PatV::Str(name))->0;
        &&& 0 <= j && m + j + name.len() <= l.len()
        &&& boff(l.skip(m), j) + boff(l, m) == boff(l, m + j)
        &&& boff(l, m + j) + blen(name) <= blen(l)
        &&& l.subrange(m + j, m + j + name.len()) == name
    }),
{
    let a = l.skip(m);
    let p = PatV::Str(name);
    let j = find_k(a, p)->0;
    lemma_find_k(a, p);
    lemma_boff_skip(l, m, j);
    lemma_boff_add(a, j, name.len() as int);
    lemma_blen_split(l, m);
    assert(a.subrange(j, j + name.len()) =~= l.subrange(m + j, m + j + name.len()));
}

/*@ extract src/fixtures/string_utils.rs find_function_name_position
@tags C15 C11
@ret r
@rename lines vp_lines
@wrapexpr_opt 1 `&line_content[def_pos + 4..]` => `vp_after_def(line_content, def_pos)` with fn vp_after_def<'a>(line_content: &'a str, def_pos: usize) -> (r: &'a str) requires def_pos + 4 <= usize::MAX, is_bnd(line_content@, def_pos + 4) ensures r@ == line_content@.skip(cidx(line_content@, def_pos + 4))
@sig
    ensures r == op_name_pos(content@, line, func_name@),
@before after_def 1
    let ghost l = line_content@;
    let ghost k = find_k(l, def_pat())->0;
    proof {
        lemma_fits(line_content);
        lemma_def_lit();
        lemma_hit(l, def_pat());
        assert(l.subrange(k, k + 4) == "def "@);
    }
@before start_char 1
    proof { lemma_span_in_suffix(l, k + 4, func_name@); }
@return 2
    lemma_fits(line_content);
    assert(line_content@.skip(0) =~= line_content@);
    lemma_span_in_suffix(line_content@, 0, func_name@);
    lemma_boff_ends(line_content@);
@*/

// ---- operational specification of extract_word_at_position -----------------------------------------------------------
pub open spec fn is_word(c: char) -> bool { is_alnum(c) || c == '_' }
pub open spec fn word_start(s: Seq<char>, i: int) -> int
    decreases i
{
    if 0 < i <= s.len() && is_word(s[i - 1]) { word_start(s, i - 1) } else { i }
}
pub open spec fn word_end(s: Seq<char>, e: int) -> int
    decreases s.len() - e
{
    if 0 <= e < s.len() && is_word(s[e]) { word_end(s, e + 1) } else { e }
}
pub open spec fn op_word_at(s: Seq<char>, ch: usize) -> Option<Seq<char>> {
    if ch >= s.len() || !is_word(s[ch as int]) { None } else { Some(s.subrange(word_start(s, ch as int), word_end(s, ch + 1))) }
}
pub open spec fn osv2(o: Option<String>) -> Option<Seq<char>> { match o { Some(t) => Some(t@), None => None } }

/*@ extract src/fixtures/string_utils.rs extract_word_at_position
@tags C15 C11 C12
@ret r
@wrapexpr_opt 1 `line.char_indices().collect()` => `vp_char_indices(line)` with fn vp_char_indices(line: &str) -> (r: Vec<(usize, char)>) ensures r@.len() == line@.len(), forall|k: int| 0 <= k < r@.len() ==> (#[trigger] r@[k]).0 == boff(line@, k) && r@[k].1 == line@[k]
@wrapexpr_opt 1 `line[start_byte..end_byte].to_string()` => `vp_substring(line, start_byte, end_byte)` with fn vp_substring(line: &str, start_byte: usize, end_byte: usize) -> (r: String) requires start_byte <= end_byte <= blen(line@), is_bnd(line@, start_byte as int), is_bnd(line@, end_byte as int) ensures r@ == line@.subrange(cidx(line@, start_byte as int), cidx(line@, end_byte as int))
@sig
    ensures osv2(r) == op_word_at(line@, character),
@loop 1
    invariant 0 <= start_idx <= character < char_indices@.len() == line@.len(),
        forall|k: int| 0 <= k < char_indices@.len() ==> (#[trigger] char_indices@[k]).0 == boff(line@, k) && char_indices@[k].1 == line@[k],
        word_start(line@, character as int) == word_start(line@, start_idx as int),
    ensures 0 <= start_idx <= character, start_idx == word_start(line@, character as int),
    decreases start_idx
@loop 2
    invariant character < end_idx <= char_indices@.len() == line@.len(),
        forall|k: int| 0 <= k < char_indices@.len() ==> (#[trigger] char_indices@[k]).0 == boff(line@, k) && char_indices@[k].1 == line@[k],
        word_end(line@, character + 1) == word_end(line@, end_idx as int),
    ensures character < end_idx <= line@.len(), end_idx == word_end(line@, character + 1),
    decreases char_indices@.len() - end_idx
@return tail
    let s = line@;
    lemma_boff_ends(s);
    lemma_cidx(s, start_idx as int);
    lemma_cidx(s, end_idx as int);
    lemma_boff_mono(s, start_idx as int, end_idx as int);
    lemma_blen_split(s, end_idx as int);
@*/

// ---- operational specification of parameter_has_annotation ------------------------------------------------------------
pub open spec fn colon_pat() -> PatV { PatV::Ch(':') }
pub open spec fn op_has_annotation(lines: Seq<Seq<char>>, line: usize, end_char: usize) -> bool {
    match nth_line(lines, sat_sub1(line)) {
        None => false,
        Some(l) => end_char < blen(l) && match get_from_v(l, end_char as int) {
            Some(t) => occurs_at(trim_start_v(t), colon_pat(), 0),
            None => false,
        },
    }
}

/*@ extract src/fixtures/string_utils.rs parameter_has_annotation
@tags C15 C11
@ret r
@sig
    ensures r == op_has_annotation(sv(lines@), line, end_char),
@*/

// ---- get_function_param_insertion_info (src/fixtures/resolver.rs) ----------------------------------------------------
#[verifier::external_type_specification] pub struct ExParamInsertionInfo(ParamInsertionInfo);
//@dbstruct file_cache

pub open spec fn close_pat() -> PatV { PatV::Str("):"@) }
pub open spec fn open_pat() -> PatV { PatV::Ch('(') }
/// the searched window: lines (0-based) win_lo(fl) .. win_hi(n, fl), fl = the function's 1-based line
pub open spec fn win_lo(fl: usize) -> int { sat_sub1(fl) }
pub open spec fn win_hi(n: int, fl: usize) -> int { if n <= fl + 10 { n } else { fl + 10 } }
/// an earlier line of the window shows that the signature already has a parameter: text after its first '(' , or - on a
/// line without '(' - any text at all
pub open spec fn prev_signals(l: Seq<char>) -> bool {
    match find_k(l, open_pat()) { Some(o) => !is_blank(l.skip(o + 1)), None => !is_blank(l) }
}
pub open spec fn sig_from(ls: Seq<Seq<char>>, j: int, i: int) -> bool
    decreases i - j
{
    if j >= i || j < 0 || j >= ls.len() { false } else if prev_signals(ls[j]) { true } else { sig_from(ls, j + 1, i) }
}
/// needs_comma for a closing "):" found at character kc of line i
pub open spec fn has_params_v(ls: Seq<Seq<char>>, lo: int, i: int, kc: int) -> bool {
    let l = ls[i];
    match find_k(l, open_pat()) {
        Some(o) => if o < kc { !is_blank(l.subrange(o + 1, kc)) } else { true },
        None => if !is_blank(l.take(kc)) { true } else { sig_from(ls, lo, i) },
    }
}
pub open spec fn ins_at(ls: Seq<Seq<char>>, fl: usize, i: int, kc: int) -> ParamInsertionInfo {
    ParamInsertionInfo { line: (i + 1) as usize, char_pos: boff(ls[i], kc) as usize, needs_comma: has_params_v(ls, win_lo(fl), i, kc) }
}
/// the first line of [i, hi) that contains "):" decides
pub open spec fn ins_from(ls: Seq<Seq<char>>, fl: usize, i: int, hi: int) -> Option<ParamInsertionInfo>
    decreases hi - i
{
    if i >= hi || i < 0 || i >= ls.len() { None } else {
        match find_k(ls[i], close_pat()) { Some(kc) => Some(ins_at(ls, fl, i, kc)), None => ins_from(ls, fl, i + 1, hi) }
    }
}
pub open spec fn op_insertion(content: Option<Seq<char>>, fl: usize) -> Option<ParamInsertionInfo> {
    match content {
        None => None,
        Some(c) => ins_from(lines_v(c), fl, win_lo(fl), win_hi(lines_v(c).len() as int, fl)),
    }
}
pub proof fn lemma_close_lit()
    ensures "):"@ =~= seq![')', ':'], blen("):"@) == 2, pat_len(close_pat()) == 2,
{
    reveal_strlit("):");
    lemma_ascii_blen("):"@);
}
/// a one-byte character: the next boundary is one byte further
pub proof fn lemma_ascii_char_step(l: Seq<char>, o: int)
    requires 0 <= o < l.len(), (l[o] as u32) < 0x80,
    ensures boff(l, o + 1) == boff(l, o) + 1,
{
    lemma_boff_add(l, o, 1);
    assert(l.subrange(o, o + 1) =~= seq![l[o]]);
    lemma_ascii_blen(seq![l[o]]);
}
pub proof fn lemma_sig_none(ls: Seq<Seq<char>>, j: int, i: int)
    requires 0 <= j <= i <= ls.len(), forall|k: int| j <= k < i ==> !prev_signals(#[trigger] ls[k]),
    ensures !sig_from(ls, j, i),
    decreases i - j,
{
    if j < i { lemma_sig_none(ls, j + 1, i); }
}
pub proof fn lemma_sig_some(ls: Seq<Seq<char>>, j: int, i: int, k: int)
    requires 0 <= j <= k < i <= ls.len(), prev_signals(ls[k]),
    ensures sig_from(ls, j, i),
    decreases i - j,
{
    if !prev_signals(ls[j]) { lemma_sig_some(ls, j + 1, i, k); }
}

impl FixtureDatabase {
    // callee contract as in units refs_goto / position (implied by the contract PROVED for get_file_content in unit memo)
    #[verifier::external_body]
    pub(crate) fn get_file_content(&self, file_path: &Path) -> (r: Option<Arc<String>>)
        ensures (match r { Some(a) => Some(a.v@), None => None::<Seq<char>> }) == file_content(self.file_cache.m(), pv(file_path))
    { unimplemented!() }

/*@ extract src/fixtures/resolver.rs get_function_param_insertion_info
@tags C17 C11 C12
@ret r
@wrapexpr 1 `content.lines().collect()` => `Self::vp_lines_of(&content)` with fn vp_lines_of<'a>(content: &'a Arc<String>) -> (r: Vec<&'a str>) ensures sv(r@) == lines_v(content.v@)
@wrapexpr_opt 1 `&line[open_pos + 1..paren_pos]` => `Self::vp_between(line, open_pos, paren_pos)` with fn vp_between<'a>(line: &'a str, open_pos: usize, paren_pos: usize) -> (r: &'a str) requires open_pos + 1 <= paren_pos <= blen(line@), is_bnd(line@, open_pos + 1), is_bnd(line@, paren_pos as int) ensures r@ == line@.subrange(cidx(line@, open_pos + 1), cidx(line@, paren_pos as int))
@wrapexpr_opt 1 `&line[..paren_pos]` => `Self::vp_before(line, paren_pos)` with fn vp_before<'a>(line: &'a str, paren_pos: usize) -> (r: &'a str) requires paren_pos <= blen(line@), is_bnd(line@, paren_pos as int) ensures r@ == line@.take(cidx(line@, paren_pos as int))
@wrapexpr_opt 1 `&prev_line[open_pos + 1..]` => `Self::vp_after_open(prev_line, open_pos)` with fn vp_after_open<'a>(prev_line: &&'a str, open_pos: usize) -> (r: &'a str) requires open_pos + 1 <= blen(prev_line@), is_bnd(prev_line@, open_pos + 1) ensures r@ == prev_line@.skip(cidx(prev_line@, open_pos + 1))
@sig
    requires function_line + 10 <= usize::MAX,
    ensures r == op_insertion(file_content(self.file_cache.m(), pv(file_path)), function_line),
@before for 1
    let ghost ls = sv(lines@);
    let ghost lo = win_lo(function_line);
    let ghost hi = win_hi(ls.len() as int, function_line);
    proof { assert(ls.len() == lines@.len()); }
@loopvar 1 it
@loop 1
    invariant ls == sv(lines@), lo == win_lo(function_line), hi == win_hi(ls.len() as int, function_line),
        function_line + 10 <= usize::MAX,
        file_content(self.file_cache.m(), pv(file_path)) == Some(content.v@), ls == lines_v(content.v@),
        it.seq().len() == (if lo <= hi { hi - lo } else { 0 }),
        forall|k: int| 0 <= k < it.seq().len() ==> #[trigger] it.seq()[k] == lo + k,
        ins_from(ls, function_line, lo, hi) == ins_from(ls, function_line, lo + it.index@, hi),
@before has_params 1
    let ghost ii = lo + it.index@;
    let ghost l = line@;
    let ghost kc = find_k(l, close_pat())->0;
    proof {
        assert(l == ls[ii]);
        lemma_fits(line);
        lemma_close_lit();
        lemma_hit(l, close_pat());
        if find_k(l, open_pat()) is Some {
            let o = find_k(l, open_pat())->0;
            lemma_hit(l, open_pat());
            assert(l.subrange(o, o + 1) =~= seq!['(']);
            lemma_ascii_blen(seq!['(']);
            lemma_boff_order(l, o, kc);
            lemma_boff_order(l, o + 1, kc);
        }
    }
@before for 2
    let ghost mut n: int = 0;
    let ghost win = lines@.as_ref().take(i as int).skip(lo);
    proof { assert(win.len() == ii - lo); }
@forloop 2 it2
    proof { assert(n == win.len()); lemma_sig_none(ls, lo, ii); }
@loop 2
    invariant_except_break !found_params,
        forall|k: int| lo <= k < lo + n ==> !prev_signals(#[trigger] ls[k]),
    invariant 0 <= n <= win.len(), it2.remaining() =~= win.skip(n), win == lines@.as_ref().take(i as int).skip(lo),
        ls == sv(lines@), 0 <= lo <= ii == i <= lines@.len(), win.len() == ii - lo,
    ensures found_params == sig_from(ls, lo, ii),
    decreases win.len() - n
@loopstart 2
    let ghost pl = prev_line@;
    proof {
        assert(*prev_line == lines@[lo + n]);
        assert(pl == ls[lo + n]);
        lemma_fits(*prev_line);
        if find_k(pl, open_pat()) is Some {
            let o = find_k(pl, open_pat())->0;
            lemma_hit(pl, open_pat());
            assert(pl.subrange(o, o + 1) =~= seq!['(']);
            lemma_ascii_blen(seq!['(']);
        }
        n = n + 1;
    }
@break 1
    lemma_sig_some(ls, lo, ii, lo + n - 1);
@break 2
    lemma_sig_some(ls, lo, ii, lo + n - 1);
@return 1
    assert(i == ii);
    assert(paren_pos == boff(l, kc) as usize);
    assert(has_params == has_params_v(ls, lo, ii, kc));
    assert(ii < hi);
    assert(ins_from(ls, function_line, ii, hi) == Some(ins_at(ls, function_line, ii, kc)));
@*/
}

// ======== L2: property-level lemmas (pure; from the operational specifications above) =====================================
// ---- C03 "cleaned docstring" -------------------------------------------------------------------------------------------
pub proof fn lemma_indent_nonneg(l: Seq<char>)
    ensures 0 <= indent_of(l) <= blen(l), indent_of(l) == boff(l, ts_n(l)),
{
    lemma_blen_split(l, ts_n(l));
}
pub proof fn lemma_fold_min_le(ls: Seq<Seq<char>>, n: int, i: int)
    requires 0 <= i < n <= ls.len(), counts(ls, i),
    ensures fold_min(ls, n) <= indent_of(ls[i]), fold_min(ls, n) <= usize::MAX,
    decreases n,
{
    if i < n - 1 { lemma_fold_min_le(ls, n - 1, i); }
    lemma_fold_min_max(ls, n - 1);
}
pub proof fn lemma_fold_min_max(ls: Seq<Seq<char>>, n: int)
    requires n <= ls.len(),
    ensures fold_min(ls, n) <= usize::MAX,
    decreases n,
{
    if n > 0 { lemma_fold_min_max(ls, n - 1); }
}
/// the running minimum is usize::MAX or the indentation of a counted line
pub proof fn lemma_fold_min_witness(ls: Seq<Seq<char>>, n: int)
    requires 0 <= n <= ls.len(),
    ensures fold_min(ls, n) == usize::MAX || exists|j: int| 0 <= j < n && counts(ls, j) && fold_min(ls, n) == indent_of(#[trigger] ls[j]),
    decreases n,
{
    if n > 0 {
        lemma_fold_min_witness(ls, n - 1);
        let a = fold_min(ls, n - 1);
        if counts(ls, n - 1) && indent_of(ls[n - 1]) < a {
            assert(fold_min(ls, n) == indent_of(ls[n - 1]));
        } else if a != usize::MAX {
            let j = choose|j: int| 0 <= j < n - 1 && counts(ls, j) && a == indent_of(#[trigger] ls[j]);
            assert(0 <= j < n && counts(ls, j) && fold_min(ls, n) == indent_of(ls[j]));
        }
    }
}
/// C03 (what min_indent IS): a lower bound of the indentation of every counted line (non-blank, not the first kept line);
/// 0 when nothing counts; the indentation of some counted line otherwise (lines of usize::MAX bytes aside)
//@tags C03
pub proof fn lemma_C03_min_indent_is_min_over_nonblank_nonfirst(kept: Seq<Seq<char>>)
    ensures
        0 <= min_indent_v(kept),
        forall|i: int| 0 <= i < kept.len() && counts(kept, i) ==> min_indent_v(kept) <= indent_of(#[trigger] kept[i]),
        (forall|i: int| 0 <= i < kept.len() ==> !counts(kept, i)) ==> min_indent_v(kept) == 0,
        (exists|i: int| 0 <= i < kept.len() && counts(kept, i) && indent_of(#[trigger] kept[i]) < usize::MAX)
            ==> exists|j: int| 0 <= j < kept.len() && counts(kept, j) && min_indent_v(kept) == indent_of(#[trigger] kept[j]),
{
    let n = kept.len() as int;
    lemma_fold_min_witness(kept, n);
    assert forall|i: int| 0 <= i < kept.len() && counts(kept, i) implies min_indent_v(kept) <= indent_of(#[trigger] kept[i]) by {
        lemma_fold_min_le(kept, n, i);
        lemma_indent_nonneg(kept[i]);
    }
    if fold_min(kept, n) != usize::MAX {
        let j = choose|j: int| 0 <= j < n && counts(kept, j) && fold_min(kept, n) == indent_of(#[trigger] kept[j]);
        lemma_indent_nonneg(kept[j]);
    }
    if exists|i: int| 0 <= i < kept.len() && counts(kept, i) && indent_of(#[trigger] kept[i]) < usize::MAX {
        let i = choose|i: int| 0 <= i < kept.len() && counts(kept, i) && indent_of(#[trigger] kept[i]) < usize::MAX;
        lemma_fold_min_le(kept, n, i);
    }
}
proof fn lemma_fold_min_ext(a: Seq<Seq<char>>, b: Seq<Seq<char>>, n: int)
    requires a.len() == b.len(), 0 <= n <= a.len(),
        forall|i: int| 0 <= i < a.len() ==> counts(a, i) == counts(b, i),
        forall|i: int| 0 <= i < a.len() && counts(a, i) ==> indent_of(#[trigger] a[i]) == indent_of(b[i]),
    ensures fold_min(a, n) == fold_min(b, n),
    decreases n,
{
    if n > 0 { lemma_fold_min_ext(a, b, n - 1); }
}
/// C03: blank (whitespace-only) lines never influence min_indent: two line sequences that differ only in the CONTENT of
/// their blank lines (how much whitespace they hold) get the same min_indent
//@tags C03
pub proof fn lemma_C03_blank_lines_never_influence_min_indent(a: Seq<Seq<char>>, b: Seq<Seq<char>>)
    requires a.len() == b.len(),
        forall|i: int| 0 <= i < a.len() ==> is_blank(#[trigger] a[i]) == is_blank(b[i]),
        forall|i: int| 0 <= i < a.len() && !is_blank(#[trigger] a[i]) ==> a[i] == b[i],
    ensures min_indent_v(a) == min_indent_v(b),
{
    lemma_fold_min_ext(a, b, a.len() as int);
}
/// C03: the first kept line's indentation never counts: replacing it by anything leaves min_indent unchanged
//@tags C03
pub proof fn lemma_C03_first_line_indent_never_counts(kept: Seq<Seq<char>>, x: Seq<char>)
    requires kept.len() > 0,
    ensures min_indent_v(kept.update(0, x)) == min_indent_v(kept),
{
    let b = kept.update(0, x);
    assert forall|i: int| 0 <= i < kept.len() implies counts(kept, i) == counts(b, i) by { if i != 0 { assert(b[i] == kept[i]); } }
    lemma_fold_min_ext(kept, b, kept.len() as int);
}
/// C03: which lines are kept: leading / trailing blank lines are dropped and nothing else; the first and the last kept
/// line are not blank; the number of output lines is end - start
//@tags C03
pub proof fn lemma_C03_kept_window(ls: Seq<Seq<char>>)
    ensures ({
        let s = kept_start(ls); let e = kept_end(ls);
        &&& 0 <= s <= e <= ls.len() || (ls.len() == 0)
        &&& forall|i: int| 0 <= i < s ==> is_blank(#[trigger] ls[i])
        &&& forall|i: int| e <= i < ls.len() ==> is_blank(#[trigger] ls[i])
        &&& (s < e ==> !is_blank(ls[s]) && !is_blank(ls[e - 1]))
        &&& op_clean(ls).len() == (if s < e { e - s } else { 0 })
    }),
{
    lemma_fwd_char(ls, 0);
    lemma_skip_fwd_bounds(ls, 0);
    let s = kept_start(ls);
    lemma_bwd_char(ls, s, ls.len() as int);
    lemma_skip_bwd_bounds(ls, s, ls.len() as int);
}
proof fn lemma_fwd_char(ls: Seq<Seq<char>>, k: int)
    requires 0 <= k <= ls.len(),
    ensures forall|i: int| k <= i < skip_fwd(ls, k) ==> is_blank(#[trigger] ls[i]),
        skip_fwd(ls, k) < ls.len() ==> !is_blank(ls[skip_fwd(ls, k)]),
    decreases ls.len() - k,
{
    if k < ls.len() && is_blank(ls[k]) { lemma_fwd_char(ls, k + 1); }
}
proof fn lemma_bwd_char(ls: Seq<Seq<char>>, start: int, e: int)
    requires 0 <= start <= e <= ls.len(),
    ensures forall|i: int| skip_bwd(ls, start, e) <= i < e ==> is_blank(#[trigger] ls[i]),
        skip_bwd(ls, start, e) > start ==> !is_blank(ls[skip_bwd(ls, start, e) - 1]),
    decreases e,
{
    if e > start && is_blank(ls[e - 1]) { lemma_bwd_char(ls, start, e - 1); }
}
/// the laws of whitespace trimming the next lemma NEEDS and the primitives' contracts do not give (assumptions, stated
/// explicitly; each is true of `str::trim` / `trim_start` with ts_n = the number of leading White_Space characters):
/// trimming nothing gives nothing; trim is idempotent; removing at most the leading whitespace does not change trim
pub open spec fn ws_laws() -> bool {
    &&& trim_v(Seq::<char>::empty()) == Seq::<char>::empty()
    &&& forall|s: Seq<char>| trim_v(#[trigger] trim_v(s)) == trim_v(s)
    &&& forall|s: Seq<char>, k: int| 0 <= k <= ts_n(s) ==> trim_v(#[trigger] s.skip(k)) == trim_v(s)
}
/// C03: no kept line loses non-whitespace text: every output line has the same trimmed content as the line it comes from
/// (under ws_laws).  The removed part of a dedented line is a prefix of its leading whitespace.
//@tags C03
pub proof fn lemma_C03_no_kept_line_loses_text(kept: Seq<Seq<char>>, i: int)
    requires ws_laws(), 0 <= i < kept.len(),
    ensures trim_v(clean_kept(kept)[i]) == trim_v(kept[i]),
{
    let mi = min_indent_v(kept);
    let l = kept[i];
    if i == 0 {
    } else if is_blank(l) {
        assert(trim_v(l) =~= Seq::<char>::empty());
    } else {
        lemma_C03_min_indent_is_min_over_nonblank_nonfirst(kept);
        assert(counts(kept, i));
        lemma_indent_nonneg(l);
        assert(trim_start_v(l) == l.skip(ts_n(l)));
        if blen(l) > mi && get_from_v(l, mi) is Some {
            let c = cidx(l, mi);
            if c > ts_n(l) { lemma_boff_mono(l, ts_n(l), c); }
            assert(dedent(l, mi) == l.skip(c));
        }
    }
}
/// C03 FINDING (differs from inspect.cleandoc, which expands tabs to 8 columns first): indentation is the BYTE count of the
/// removed leading whitespace - a tab counts 1, U+3000 counts 3.  `a` / `\tb` / `        c` is cleaned to
/// `a` / `b` / `       c` (CPython: `a` / `b` / `c`)
//@tags C03
pub proof fn lemma_C03_FINDING_indent_is_byte_count_of_leading_whitespace(l: Seq<char>)
    ensures indent_of(l) == blen(l.take(ts_n(l))), l =~= l.take(ts_n(l)) + trim_start_v(l),
{
    lemma_indent_nonneg(l);
}
/// C03: for a counted line the guard `line.len() > min_indent` always holds (the else-branch `line.trim_start()` is dead),
/// assuming a non-blank line still has text after trim_start
//@tags C03
pub proof fn lemma_C03_dedent_guard_always_true(kept: Seq<Seq<char>>, i: int)
    requires 0 <= i < kept.len(), counts(kept, i),
        !is_blank(kept[i]) ==> blen(trim_start_v(kept[i])) > 0,
    ensures blen(kept[i]) > min_indent_v(kept),
{
    lemma_C03_min_indent_is_min_over_nonblank_nonfirst(kept);
}

// ---- C15 name / word positions -----------------------------------------------------------------------------------------
/// C15 (what find_function_name_position returns, exactly): with "def " at character k of the line and the name occurring
/// in the text after it, first at character j of that text: the BYTE span [boff(k+4+j), + blen(name)) of that occurrence -
/// an occurrence of the name, the first one at or after the end of "def ", start a char boundary inside the line
//@tags C15
pub proof fn lemma_C15_name_span_after_def(l: Seq<char>, name: Seq<char>)
    requires find_k(l, def_pat()) is Some, find_k(l.skip(find_k(l, def_pat())->0 + 4), PatV::Str(name)) is Some,
    ensures ({
        let k = find_k(l, def_pat())->0;
        let j = find_k(l.skip(k + 4), PatV::Str(name))->0;
        let m = k + 4 + j;
        &&& name_in_line(l, name) == Some(span_at(l, m, name))
        &&& l.subrange(k, k + 4) == "def "@
        &&& k + 4 <= m && m + name.len() <= l.len() && l.subrange(m, m + name.len()) == name
        &&& forall|q: int| k + 4 <= q < m ==> !#[trigger] occurs_at(l, PatV::Str(name), q)
        &&& boff(l, m) + blen(name) <= blen(l)
        &&& boff(l, m) + blen(name) == boff(l, m + name.len())
    }),
{
    lemma_def_lit();
    lemma_find_k(l, def_pat());
    let k = find_k(l, def_pat())->0;
    let a = l.skip(k + 4);
    let p = PatV::Str(name);
    lemma_find_k(a, p);
    let j = find_k(a, p)->0;
    lemma_span_in_suffix(l, k + 4, name);
    lemma_boff_add(l, k + 4 + j, name.len() as int);
    assert forall|q: int| k + 4 <= q < k + 4 + j implies !#[trigger] occurs_at(l, p, q) by {
        assert(!occurs_at(a, p, q - (k + 4)));
        assert(a.subrange(q - (k + 4), q - (k + 4) + name.len()) =~= l.subrange(q, q + name.len()));
    }
}
/// C15: the fallbacks, exactly: no "def " or no name after it -> first occurrence of the name anywhere on the line; no such
/// line or no occurrence -> (0, byte length of the name)
//@tags C15
pub proof fn lemma_C15_name_span_fallbacks(content: Seq<char>, line: usize, name: Seq<char>)
    ensures ({
        let r = op_name_pos(content, line, name);
        match nth_line(lines_v(content), sat_sub1(line)) {
            None => r == (0usize, blen(name) as usize),
            Some(l) => (find_k(l, PatV::Str(name)) is None ==> r == (0usize, blen(name) as usize))
                && ((find_k(l, def_pat()) is None && find_k(l, PatV::Str(name)) is Some) ==> r == span_at(l, find_k(l, PatV::Str(name))->0, name)),
        }
    }),
{
    match nth_line(lines_v(content), sat_sub1(line)) {
        None => {}
        Some(l) => {
            let p = PatV::Str(name);
            if find_k(l, p) is None && find_k(l, def_pat()) is Some {
                let k = find_k(l, def_pat())->0;
                lemma_def_lit();
                lemma_find_k(l, def_pat());
                let a = l.skip(k + 4);
                if find_k(a, p) is Some {
                    lemma_span_in_suffix(l, k + 4, name);
                    lemma_find_k(l, p);
                    let j = find_k(a, p)->0;
                    assert(occurs_at(l, p, k + 4 + j));
                }
            }
        }
    }
}
/// C15: the width of the reported name span is the BYTE length of the name, not its UTF-16 length (same unit as every
/// column the analyzer records: known finding F-15a); for an ASCII name it is the character count
//@tags C15
pub proof fn lemma_C15_name_span_width_is_bytes(l: Seq<char>, k: int, name: Seq<char>)
    requires 0 <= k <= l.len(), boff(l, k) + blen(name) <= usize::MAX,
    ensures span_at(l, k, name).1 - span_at(l, k, name).0 == blen(name),
        vstd::utf8::is_ascii_chars(name) ==> span_at(l, k, name).1 - span_at(l, k, name).0 == name.len(),
{
    lemma_blen_split(l, k);
    if vstd::utf8::is_ascii_chars(name) { lemma_ascii_blen(name); }
}
proof fn lemma_word_start(s: Seq<char>, i: int)
    requires 0 <= i <= s.len(),
    ensures 0 <= word_start(s, i) <= i,
        forall|q: int| word_start(s, i) <= q < i ==> is_word(#[trigger] s[q]),
        word_start(s, i) > 0 ==> !is_word(s[word_start(s, i) - 1]),
    decreases i,
{
    if 0 < i && is_word(s[i - 1]) { lemma_word_start(s, i - 1); }
}
proof fn lemma_word_end(s: Seq<char>, e: int)
    requires 0 <= e <= s.len(),
    ensures e <= word_end(s, e) <= s.len(),
        forall|q: int| e <= q < word_end(s, e) ==> is_word(#[trigger] s[q]),
        word_end(s, e) < s.len() ==> !is_word(s[word_end(s, e)]),
    decreases s.len() - e,
{
    if e < s.len() && is_word(s[e]) { lemma_word_end(s, e + 1); }
}
/// C15: the word at a CHARACTER index is the maximal run of word characters (alphanumeric or '_') around it
//@tags C15
pub proof fn lemma_C15_word_is_maximal_run(s: Seq<char>, ch: usize)
    ensures match op_word_at(s, ch) {
        None => ch >= s.len() || !is_word(s[ch as int]),
        Some(w) => ({
            let a = word_start(s, ch as int); let b = word_end(s, ch + 1);
            &&& 0 <= a <= ch < b <= s.len() && w == s.subrange(a, b)
            &&& forall|q: int| a <= q < b ==> is_word(#[trigger] s[q])
            &&& (a > 0 ==> !is_word(s[a - 1])) && (b < s.len() ==> !is_word(s[b]))
        }),
    },
{
    if ch < s.len() && is_word(s[ch as int]) {
        lemma_word_start(s, ch as int);
        lemma_word_end(s, ch + 1);
    }
}

// ---- C17 quick fix / completion parameter edit ---------------------------------------------------------------------------
proof fn lemma_ins_from(ls: Seq<Seq<char>>, fl: usize, i: int, hi: int)
    requires 0 <= i, hi <= ls.len(), hi <= usize::MAX,
    ensures match ins_from(ls, fl, i, hi) {
        Some(info) => ({
            let j = info.line - 1;
            &&& i <= j < hi && find_k(ls[j], close_pat()) is Some
            &&& info == ins_at(ls, fl, j, find_k(ls[j], close_pat())->0)
            &&& forall|q: int| i <= q < j ==> find_k(#[trigger] ls[q], close_pat()) is None
        }),
        None => forall|q: int| i <= q < hi ==> find_k(#[trigger] ls[q], close_pat()) is None,
    },
    decreases hi - i,
{
    if i < hi && find_k(ls[i], close_pat()) is None { lemma_ins_from(ls, fl, i + 1, hi); }
}
/// C17: the insertion point lies within the searched window, which starts at the function's own line and holds at most
/// 11 lines: fl <= line <= fl + 10 (fl >= 1), line <= number of lines; that line is the FIRST of the window that contains
/// "):" and char_pos is the byte offset of its first "):" (the edit goes directly in front of it)
//@tags C17
pub proof fn lemma_C17_insertion_line_within_window(c: Seq<char>, fl: usize)
    requires fl >= 1, fl + 10 <= usize::MAX,
    ensures match op_insertion(Some(c), fl) {
        Some(info) => ({
            let ls = lines_v(c);
            &&& fl <= info.line <= fl + 10 && info.line <= ls.len()
            &&& find_b(ls[info.line - 1], close_pat()) == Some(info.char_pos)
            &&& forall|q: int| fl - 1 <= q < info.line - 1 ==> find_k(#[trigger] ls[q], close_pat()) is None
        }),
        None => forall|q: int| fl - 1 <= q < win_hi(lines_v(c).len() as int, fl) ==> find_k(#[trigger] lines_v(c)[q], close_pat()) is None,
    },
{
    let ls = lines_v(c);
    lemma_ins_from(ls, fl, win_lo(fl), win_hi(ls.len() as int, fl));
}
/// a line on which no ')' is directly followed by ':' does not contain the search pattern
pub proof fn lemma_no_close_pattern(l: Seq<char>)
    requires forall|k: int| 0 <= k && k + 1 < l.len() ==> !(l[k] == ')' && #[trigger] l[k + 1] == ':'),
    ensures find_k(l, close_pat()) is None,
{
    lemma_close_lit();
    lemma_find_k(l, close_pat());
    if let Some(i) = find_k(l, close_pat()) {
        let t = l.subrange(i, i + 2);
        assert(t[0] == ')' && t[1] == ':');
        assert(l[i] == ')' && l[i + 1] == ':');
    }
}
/// C17 FINDING (the property fails on the real code): when the function's own signature lines do not contain the two
/// characters "):" - e.g. a return annotation `def test_a(x) -> None:` - the search runs on, and the edit is placed on the
/// first later line of the window that does, whatever that line belongs to (the NEXT function's `def test_b(y):`)
//@tags C17
pub proof fn lemma_C17_FINDING_edit_lands_on_a_later_line(c: Seq<char>, fl: usize, j: int)
    requires fl >= 1, fl + 10 <= usize::MAX,
        fl - 1 < j < win_hi(lines_v(c).len() as int, fl),
        forall|q: int| fl - 1 <= q < j ==> find_k(#[trigger] lines_v(c)[q], close_pat()) is None,
        find_k(lines_v(c)[j], close_pat()) is Some,
    ensures op_insertion(Some(c), fl) is Some,
        op_insertion(Some(c), fl)->0.line == j + 1,
        op_insertion(Some(c), fl)->0.line > fl,
{
    let ls = lines_v(c);
    lemma_ins_from(ls, fl, win_lo(fl), win_hi(ls.len() as int, fl));
}
/// C17 FINDING: a closing line that holds nothing but `):` after a parameter line gets needs_comma = true whether or not
/// that parameter line already ends with a comma (black style `x,` / `):`): the edit `, name` then yields `x,` / `, name):`
//@tags C17
pub proof fn lemma_C17_FINDING_trailing_comma_gets_second_comma(ls: Seq<Seq<char>>, fl: usize, i: int, j: int)
    requires win_lo(fl) <= j < i < ls.len(),
        find_k(ls[i], close_pat()) == Some(0int), find_k(ls[i], open_pat()) is None, is_blank(ls[i].take(0)),
        find_k(ls[j], open_pat()) is None, !is_blank(ls[j]),
    ensures ins_at(ls, fl, i, 0).needs_comma, ins_at(ls, fl, i, 0).char_pos == 0,
{
    lemma_sig_some(ls, win_lo(fl), i, j);
    lemma_boff_ends(ls[i]);
}
/// C17: hanging-indent signatures (`def f(a,` / `      b):`): text in front of the "):" on a line without '(' means the
/// signature has parameters
//@tags C17
pub proof fn lemma_C17_text_before_close_needs_comma(ls: Seq<Seq<char>>, lo: int, i: int, kc: int)
    requires 0 <= i < ls.len(), find_k(ls[i], open_pat()) is None, !is_blank(ls[i].take(kc)),
    ensures has_params_v(ls, lo, i, kc),
{ }

// ======== vacuity guards: each of these must FAIL ========================================================================
/// whitespace-only lines take part in the minimum
proof fn canary_blank_lines_count(kept: Seq<Seq<char>>, i: int)
    requires 0 < i < kept.len(), is_blank(kept[i]),
    ensures min_indent_v(kept) <= indent_of(kept[i]),
{
    lemma_C03_min_indent_is_min_over_nonblank_nonfirst(kept);
}
/// the first kept line takes part in the minimum
proof fn canary_first_line_counts(kept: Seq<Seq<char>>)
    requires kept.len() > 0, !is_blank(kept[0]),
    ensures min_indent_v(kept) <= indent_of(kept[0]),
{
    lemma_C03_min_indent_is_min_over_nonblank_nonfirst(kept);
}
/// no text is lost WITHOUT the whitespace laws (the primitives' contracts alone do not give it)
proof fn canary_no_text_lost_without_ws_laws(kept: Seq<Seq<char>>, i: int)
    requires 0 <= i < kept.len(),
    ensures trim_v(clean_kept(kept)[i]) == trim_v(kept[i]),
{
    lemma_C03_min_indent_is_min_over_nonblank_nonfirst(kept);
}
/// C17 as the property states it: the edit always goes on the function's own line
proof fn canary_insertion_on_function_line(c: Seq<char>, fl: usize)
    requires fl >= 1, fl + 10 <= usize::MAX, op_insertion(Some(c), fl) is Some,
    ensures op_insertion(Some(c), fl)->0.line == fl,
{
    lemma_C17_insertion_line_within_window(c, fl);
}
/// the reported name span is measured in characters
proof fn canary_name_span_in_chars(l: Seq<char>, k: int, name: Seq<char>)
    requires 0 <= k <= l.len(), boff(l, k) + blen(name) <= usize::MAX,
    ensures span_at(l, k, name).1 - span_at(l, k, name).0 == name.len(),
{
    lemma_C15_name_span_width_is_bytes(l, k, name);
}
/// the assumed specifications are not contradictory
fn canary_false_from_assumed_specs(a: &str, b: &str, v: &Vec<&str>, n: usize)
    ensures false,
{
    let t = a.trim(); let u = a.trim_start(); let w = a.trim_end();
    let f = a.find(b); let g = a.find('('); let c = a.contains('('); let s = a.starts_with(':'); let e = a.ends_with(':');
    let h = a.get(n..);
    let x = 'c'.is_alphanumeric();
    let mut ls = a.vp_lines();
    let y = ls.nth(n);
    proof { lemma_fits(a); lemma_find_k(a@, PatV::Str(b@)); }
}

} // verus!
fn main() {}
