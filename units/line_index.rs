//@include prelude/header.rs
verus! {
global size_of usize == 8;  // A6: 64-bit target (only lsp_line_to_internal needs it: `u32 as usize + 1`)
pub mod pre {
use super::*;
//@include prelude/atomic.rs
//@include prelude/bytes.rs
//@include prelude/memchr.rs
//@include prelude/slice_search.rs
} // mod pre
use pre::*;

// PROVED in prelude/memchr.rs: whatever satisfies the declarative memchr contract IS positions(needle, haystack)
broadcast use lemma_positions_unique;

// the receiver of get_line_from_offset / get_char_position_from_offset (they do not read it)
//@dbstruct definitions_version
// providers::Backend holds tower-lsp handles; the two line conversions are associated fns that never see them
pub struct Backend;

// ---- operational specification (L1 target), over mathematical integers --------------------------------
/// a line index: the byte offsets at which lines start — non-empty, starts with 0, strictly increasing
pub open spec fn is_line_index(idx: Seq<int>) -> bool {
    &&& idx.len() > 0
    &&& idx[0] == 0
    &&& forall|i: int, j: int| 0 <= i < j < idx.len() ==> (#[trigger] idx[i]) < (#[trigger] idx[j])
}
pub open spec fn succ_fn() -> spec_fn(int) -> int { |p: int| p + 1 }
/// 0, then one past every b'\n', ascending
pub open spec fn op_line_index(bytes: Seq<u8>) -> Seq<int> {
    seq![0int] + positions(NL(), bytes).map_values(succ_fn())
}
/// 1-based line of byte offset o: the (1-based) number of the last line start that is <= o
pub open spec fn op_line(idx: Seq<int>, o: int) -> int
    decreases idx.len(),
{
    if idx.len() == 0 { 0 } else if idx.last() <= o { idx.len() as int } else { op_line(idx.drop_last(), o) }
}
/// column of byte offset o: distance from the start of its line
pub open spec fn op_col(idx: Seq<int>, o: int) -> int { o - idx[op_line(idx, o) - 1] }
/// declarative reading of "r is the 1-based line containing offset o"
pub open spec fn line_post(idx: Seq<int>, o: int, r: int) -> bool {
    &&& 1 <= r <= idx.len()
    &&& idx[r - 1] <= o
    &&& (r < idx.len() ==> o < idx[r])
}
/// number of bytes of line l (1-based) including its terminating newline if it has one
pub open spec fn line_span(idx: Seq<int>, total: int, l: int) -> int {
    (if l < idx.len() { idx[l] } else { total }) - idx[l - 1]
}

pub proof fn lemma_line_sound(idx: Seq<int>, o: int)
    requires is_line_index(idx), 0 <= o,
    ensures line_post(idx, o, op_line(idx, o)),
    decreases idx.len(),
{
    if idx.last() <= o {
    } else {
        if idx.len() == 1 { assert(idx.last() == idx[0]); }
        let t = idx.drop_last();
        assert(is_line_index(t)) by {
            assert(t[0] == idx[0]);
            assert forall|i: int, j: int| 0 <= i < j < t.len() implies (#[trigger] t[i]) < (#[trigger] t[j]) by {
                assert(t[i] == idx[i] && t[j] == idx[j]);
            }
        }
        lemma_line_sound(t, o);
        let r = op_line(t, o);
        assert(t[r - 1] == idx[r - 1]);
        if r < t.len() { assert(t[r] == idx[r]); } else { assert(idx[r] == idx.last()); }
    }
}
pub proof fn lemma_line_unique(idx: Seq<int>, o: int, r1: int, r2: int)
    requires is_line_index(idx), line_post(idx, o, r1), line_post(idx, o, r2),
    ensures r1 == r2,
{
    if r1 < r2 { if r1 < r2 - 1 { assert(idx[r1] < idx[r2 - 1]); } }
    if r2 < r1 { if r2 < r1 - 1 { assert(idx[r2] < idx[r1 - 1]); } }
}
/// line_post characterises op_line
pub proof fn lemma_line_char(idx: Seq<int>, o: int, r: int)
    requires is_line_index(idx), 0 <= o,
    ensures line_post(idx, o, r) <==> r == op_line(idx, o),
{
    lemma_line_sound(idx, o);
    if line_post(idx, o, r) { lemma_line_unique(idx, o, r, op_line(idx, o)); }
}

/// how a binary search over a line index reads as a line number: found at i -> line i + 1, insertion point i -> line i
pub open spec fn line_of_search(r: Result<usize, usize>) -> int {
    match r { Ok(i) => i + 1, Err(i) => i as int }
}
pub proof fn lemma_search_line(s: Seq<usize>, x: usize, r: Result<usize, usize>)
    requires is_line_index(ints(s)), binary_search_post(s, x, r),
    ensures line_post(ints(s), x as int, line_of_search(r)),
        line_of_search(r) == op_line(ints(s), x as int),
{
    let idx = ints(s);
    match r {
        Ok(i) => {
            assert(idx[i as int] == s[i as int]);
            if i + 1 < s.len() { assert(idx[i as int] < idx[i + 1]); assert(idx[i + 1] == s[i + 1]); }
        }
        Err(i) => {
            assert(idx[0] == s[0]);
            if i == 0 { assert(ord_lt(x, s[0])); }
            else { assert(ord_lt(s[i - 1], x)); assert(idx[i - 1] == s[i - 1]); }
            if i < s.len() { assert(ord_lt(x, s[i as int])); assert(idx[i as int] == s[i as int]); }
        }
    }
    lemma_line_char(idx, x as int, line_of_search(r));
}

/// what the index built from a text looks like
pub proof fn lemma_line_index_wf(bytes: Seq<u8>)
    ensures ({
        let idx = op_line_index(bytes);
        let pos = positions(NL(), bytes);
        &&& is_line_index(idx)
        &&& idx.len() == 1 + pos.len()
        &&& forall|k: int| 0 <= k < idx.len() ==> 0 <= (#[trigger] idx[k]) <= bytes.len()
        &&& forall|k: int| 1 <= k < idx.len() ==> idx[k] == pos[k - 1] + 1 && bytes[(#[trigger] idx[k]) - 1] == NL()
        &&& forall|i: int| 0 <= i < bytes.len() && (#[trigger] bytes[i]) == NL() ==> idx.contains(i + 1)
    }),
{
    let idx = op_line_index(bytes);
    let pos = positions(NL(), bytes);
    lemma_positions_sound(NL(), bytes);
    assert forall|k: int| 1 <= k < idx.len() implies idx[k] == pos[k - 1] + 1 && bytes[(#[trigger] idx[k]) - 1] == NL()
        && 0 <= idx[k] <= bytes.len() by {
        assert(0 <= pos[k - 1] < bytes.len());
    }
    assert forall|i: int, j: int| 0 <= i < j < idx.len() implies (#[trigger] idx[i]) < (#[trigger] idx[j]) by {
        if i > 0 { assert(pos[i - 1] < pos[j - 1]); } else { assert(0 <= pos[j - 1]); }
    }
    assert forall|i: int| 0 <= i < bytes.len() && (#[trigger] bytes[i]) == NL() implies idx.contains(i + 1) by {
        assert(pos.contains(i));
        let k = choose|k: int| 0 <= k < pos.len() && pos[k] == i;
        assert(idx[k + 1] == i + 1);
    }
}

// ---- L1: the extracted functions ----------------------------------------------------------------------
impl FixtureDatabase {
/*@ extract src/fixtures/analyzer.rs build_line_index
@tags C15 C11
@ret r
@sig
    ensures ints(r@) == op_line_index(str_bytes(content)),
        is_line_index(ints(r@)),
        r@.len() == 1 + positions(NL(), str_bytes(content)).len(),
        forall|k: int| 0 <= k < r@.len() ==> (#[trigger] r@[k]) <= str_bytes(content).len(),
@after bytes 1
    proof { assert(vstd::slice::spec_slice_len(bytes) == bytes@.len()); }
@loopvar 1 it
@loop 1
    invariant
        bytes@ == str_bytes(content), bytes@.len() <= usize::MAX,
        yields_pos(NL(), bytes@, ints(it.seq())),
        ints(it.seq()).len() == it.seq().len(),
        line_index@.len() == it.index@ + 1,
        line_index@[0] == 0,
        forall|k: int| 1 <= k < line_index@.len() ==> (#[trigger] line_index@[k]) == positions(NL(), bytes@)[k - 1] + 1,
@loopstart 1
    proof { assert(ints(it.seq())[it.index@ as int] == i); }
@return tail
    assert(line_index@.len() == positions(NL(), bytes@).len() + 1);
    assert(ints(line_index@) =~= op_line_index(bytes@));
    lemma_line_index_wf(bytes@);
    assert forall|k: int| 0 <= k < line_index@.len() implies (#[trigger] line_index@[k]) <= bytes@.len() by {
        assert(ints(line_index@)[k] == line_index@[k]);
    }
@*/

/*@ extract src/fixtures/analyzer.rs get_line_from_offset
@tags C15 C11
@ret r
@sig
    requires is_line_index(ints(line_index@)),
    ensures line_post(ints(line_index@), offset as int, r as int),
        r == op_line(ints(line_index@), offset as int),
        offset == 0 ==> r == 1,
@start
    proof {
        let idx = ints(line_index@);
        assert(vstd::slice::spec_slice_len(line_index) == line_index@.len());
        assert(strictly_sorted(line_index@)) by {
            assert forall|i: int, j: int| 0 <= i < j < line_index@.len() implies ord_lt(#[trigger] line_index@[i], #[trigger] line_index@[j]) by {
                assert(idx[i] < idx[j]);
            }
        }
        assert forall|res: Result<usize, usize>| #[trigger] binary_search_post(line_index@, offset, res) implies
            line_post(idx, offset as int, line_of_search(res)) && line_of_search(res) == op_line(idx, offset as int) by {
            lemma_search_line(line_index@, offset, res);
        }
    }
@*/

/*@ extract src/fixtures/analyzer.rs get_char_position_from_offset
@tags C15 C11
@ret r
@sig
    requires is_line_index(ints(line_index@)),
    ensures r == op_col(ints(line_index@), offset as int),
        r == offset - line_index@[op_line(ints(line_index@), offset as int) - 1],
@*/
}

impl Backend {
/*@ extract src/providers/mod.rs lsp_line_to_internal
@tags C15 C11
@ret r
@sig
    ensures r == line + 1,
@*/

/*@ extract src/providers/mod.rs internal_line_to_lsp
@tags C15 C11
@ret r
@sig
    ensures line <= 0x1_0000_0000 ==> r == (if line == 0 { 0int } else { line - 1 }),
@*/
}

// ---- L2: property C15 (line / column arithmetic) from the operational specification ----------------------
/// (a) the (line, column) pair reported for a byte offset of a text identifies exactly that offset: line start +
/// column is the offset, the column stays within the line (newline included), the line is 1 + the number of
/// newlines before the offset, and no newline lies between the line start and the offset
//@tags C15
pub proof fn lemma_C15_line_col_identify_offset(bytes: Seq<u8>, o: int)
    requires 0 <= o <= bytes.len(),
    ensures ({
        let idx = op_line_index(bytes);
        let l = op_line(idx, o);
        let c = op_col(idx, o);
        &&& 1 <= l <= idx.len()
        &&& idx[l - 1] + c == o
        &&& 0 <= c < line_span(idx, bytes.len() as int, l) + 1
        &&& (l < idx.len() ==> c < line_span(idx, bytes.len() as int, l))
        &&& l - 1 == positions(NL(), bytes.take(o)).len()
        &&& forall|i: int| idx[l - 1] <= i < o ==> (#[trigger] bytes[i]) != NL()
    }),
{
    let idx = op_line_index(bytes);
    let pos = positions(NL(), bytes);
    lemma_line_index_wf(bytes);
    lemma_line_sound(idx, o);
    let l = op_line(idx, o);
    assert forall|i: int| idx[l - 1] <= i < o implies (#[trigger] bytes[i]) != NL() by {
        if bytes[i] == NL() {
            assert(idx.contains(i + 1));
            let k = choose|k: int| 0 <= k < idx.len() && idx[k] == i + 1;
            if k < l - 1 { assert(idx[k] < idx[l - 1]); }
            if k > l { assert(idx[l] < idx[k]); }
        }
    }
    assert forall|k: int| 0 <= k < l - 1 implies (#[trigger] pos[k]) < o by {
        assert(idx[k + 1] == pos[k] + 1);
        if k + 1 < l - 1 { assert(idx[k + 1] < idx[l - 1]); }
    }
    assert forall|k: int| l - 1 <= k < pos.len() implies (#[trigger] pos[k]) >= o by {
        assert(idx[k + 1] == pos[k] + 1);
        if k + 1 > l { assert(idx[l] < idx[k + 1]); }
    }
    lemma_positions_prefix(NL(), bytes, o, l - 1);
}

/// (b) start is never after end: positions are monotone in the offset (lexicographically), and on one line the
/// column difference is the offset difference
//@tags C15
pub proof fn lemma_C15_positions_monotone(idx: Seq<int>, o1: int, o2: int)
    requires is_line_index(idx), 0 <= o1 <= o2,
    ensures op_line(idx, o1) <= op_line(idx, o2),
        op_line(idx, o1) == op_line(idx, o2) ==> op_col(idx, o1) <= op_col(idx, o2)
            && op_col(idx, o2) - op_col(idx, o1) == o2 - o1,
{
    lemma_line_sound(idx, o1);
    lemma_line_sound(idx, o2);
    let l1 = op_line(idx, o1);
    let l2 = op_line(idx, o2);
    if l2 < l1 { if l2 < l1 - 1 { assert(idx[l2] < idx[l1 - 1]); } }
}

/// (b) a token [o1, o2) that contains no newline lies on one line and its range is well-formed:
/// same line, start column <= end column, and the column width is the byte width of the token
//@tags C15
pub proof fn lemma_C15_single_line_token_range_well_formed(bytes: Seq<u8>, o1: int, o2: int)
    requires 0 <= o1 <= o2 <= bytes.len(),
        forall|i: int| o1 <= i < o2 ==> (#[trigger] bytes[i]) != NL(),
    ensures ({
        let idx = op_line_index(bytes);
        &&& op_line(idx, o1) == op_line(idx, o2)
        &&& op_col(idx, o1) <= op_col(idx, o2)
        &&& op_col(idx, o2) - op_col(idx, o1) == o2 - o1
    }),
{
    let idx = op_line_index(bytes);
    lemma_line_index_wf(bytes);
    lemma_line_sound(idx, o1);
    let l1 = op_line(idx, o1);
    if l1 < idx.len() {
        let p = idx[l1] - 1;
        assert(bytes[p] == NL());
        if p < o2 { assert(bytes[p] != NL()); }
    }
    assert(line_post(idx, o2, l1));
    lemma_line_char(idx, o2, l1);
}

/// (c) round trip: every (line, column) inside a line is the position of exactly the offset line start + column
//@tags C15
pub proof fn lemma_C15_round_trip(idx: Seq<int>, l: int, c: int)
    requires is_line_index(idx), 1 <= l <= idx.len(), 0 <= c,
        l < idx.len() ==> c < idx[l] - idx[l - 1],
    ensures op_line(idx, idx[l - 1] + c) == l, op_col(idx, idx[l - 1] + c) == c,
{
    assert(0 <= idx[l - 1]) by { if l > 1 { assert(idx[0] < idx[l - 1]); } }
    lemma_line_char(idx, idx[l - 1] + c, l);
}

/// ... and two different offsets never get the same position
//@tags C15
pub proof fn lemma_C15_position_injective(idx: Seq<int>, o1: int, o2: int)
    requires is_line_index(idx), 0 <= o1, 0 <= o2,
        op_line(idx, o1) == op_line(idx, o2), op_col(idx, o1) == op_col(idx, o2),
    ensures o1 == o2,
{}

/// (d) what the column IS: the number of BYTES between the line start and the offset (not characters, not UTF-16
/// code units — see canary_column_is_utf16_units and lemma_C15_FINDING_column_differs_from_utf16, known finding)
//@tags C15
pub proof fn lemma_C15_column_is_byte_count(bytes: Seq<u8>, o: int)
    requires 0 <= o <= bytes.len(),
    ensures ({
        let idx = op_line_index(bytes);
        let start = idx[op_line(idx, o) - 1];
        &&& 0 <= start <= o
        &&& op_col(idx, o) == o - start
        &&& op_col(idx, o) == bytes.subrange(start, o).len()
    }),
{
    lemma_line_index_wf(bytes);
    lemma_C15_line_col_identify_offset(bytes, o);
}

/// UTF-16 code units denoted by a (valid) UTF-8 byte string: a continuation byte (10xxxxxx) contributes nothing, the
/// leading byte of a 4-byte sequence (a supplementary-plane scalar, i.e. a surrogate pair) two, every other byte one
pub open spec fn utf16_weight(x: u8) -> int { if 0x80 <= x < 0xC0 { 0 } else if x >= 0xF0 { 2 } else { 1 } }
pub open spec fn utf16_len(b: Seq<u8>) -> int
    decreases b.len(),
{
    if b.len() == 0 { 0 } else { utf16_len(b.drop_last()) + utf16_weight(b.last()) }
}
proof fn lemma_utf16_len_ascii(b: Seq<u8>)
    requires forall|i: int| 0 <= i < b.len() ==> (#[trigger] b[i]) < 0x80,
    ensures utf16_len(b) == b.len(),
    decreases b.len(),
{
    if b.len() > 0 {
        let t = b.drop_last();
        assert forall|i: int| 0 <= i < t.len() implies (#[trigger] t[i]) < 0x80 by { assert(t[i] == b[i]); }
        lemma_utf16_len_ascii(t);
        assert(b.last() == b[b.len() - 1]);
    }
}
/// (d') the byte column IS the protocol's UTF-16 column whenever the text between the line start and the offset is ASCII
//@tags C15
pub proof fn lemma_C15_column_is_utf16_when_prefix_ascii(bytes: Seq<u8>, o: int)
    requires 0 <= o <= bytes.len(),
        forall|i: int| op_line_index(bytes)[op_line(op_line_index(bytes), o) - 1] <= i < o ==> (#[trigger] bytes[i]) < 0x80,
    ensures ({
        let idx = op_line_index(bytes);
        op_col(idx, o) == utf16_len(bytes.subrange(idx[op_line(idx, o) - 1], o))
    }),
{
    lemma_C15_column_is_byte_count(bytes, o);
    let idx = op_line_index(bytes);
    let start = idx[op_line(idx, o) - 1];
    let p = bytes.subrange(start, o);
    assert forall|i: int| 0 <= i < p.len() implies (#[trigger] p[i]) < 0x80 by { assert(p[i] == bytes[start + i]); }
    lemma_utf16_len_ascii(p);
}
/// KNOWN FINDING, proved: for the text "\u{e9}x" (bytes C3 A9 78) the offset of `x` gets column 2, its UTF-16 column is 1
//@tags C15
pub proof fn lemma_C15_FINDING_column_differs_from_utf16()
    ensures ({
        let bytes = seq![0xC3u8, 0xA9u8, 0x78u8];
        let idx = op_line_index(bytes);
        &&& op_line(idx, 2) == 1 && op_col(idx, 2) == 2
        &&& utf16_len(bytes.subrange(idx[op_line(idx, 2) - 1], 2)) == 1
    }),
{
    let bytes = seq![0xC3u8, 0xA9u8, 0x78u8];
    let idx = op_line_index(bytes);
    let pos = positions(NL(), bytes);
    lemma_line_index_wf(bytes);
    lemma_positions_sound(NL(), bytes);
    if pos.len() > 0 { assert(bytes[pos[0]] == NL()); }
    lemma_line_sound(idx, 2);
    let p = bytes.subrange(0, 2);
    assert(p.drop_last() =~= seq![0xC3u8]);
    assert(p.drop_last().drop_last() =~= Seq::<u8>::empty());
    assert(p.last() == 0xA9u8 && p.drop_last().last() == 0xC3u8);
    reveal_with_fuel(utf16_len, 3);
}

// ---- the precondition of the two lookups is what build_line_index establishes (C11: no offset panics) -----------
//@tags C11
fn compose_build_then_lookup(db: &FixtureDatabase, content: &str, offset: usize) -> (r: (usize, usize))
    ensures r.0 == op_line(op_line_index(str_bytes(content)), offset as int),
        r.1 == op_col(op_line_index(str_bytes(content)), offset as int),
{
    let line_index = FixtureDatabase::build_line_index(content);
    let line = db.get_line_from_offset(offset, &line_index);
    let col = db.get_char_position_from_offset(offset, &line_index);
    (line, col)
}

// ---- vacuity guards: each of these must FAIL ---------------------------------------------------------
/// KNOWN FINDING (not provable, see the proved counterexample above): the column is the UTF-16 length of the line prefix
proof fn canary_column_is_utf16_units(bytes: Seq<u8>, o: int)
    requires 0 <= o <= bytes.len(),
    ensures ({
        let idx = op_line_index(bytes);
        op_col(idx, o) == utf16_len(bytes.subrange(idx[op_line(idx, o) - 1], o))
    }),
{
    lemma_C15_line_col_identify_offset(bytes, o);
}
/// lines are 0-based
proof fn canary_line_is_zero_based(idx: Seq<int>)
    requires is_line_index(idx),
    ensures op_line(idx, 0) == 0,
{
    lemma_line_sound(idx, 0);
}
/// a token that starts on a newline byte still ends on the same line
proof fn canary_token_across_newline_same_line(bytes: Seq<u8>, o1: int, o2: int)
    requires 0 <= o1 < o2 <= bytes.len(), bytes[o1] == NL(),
    ensures op_line(op_line_index(bytes), o1) == op_line(op_line_index(bytes), o2),
{
    lemma_line_index_wf(bytes);
    lemma_line_sound(op_line_index(bytes), o1);
    lemma_line_sound(op_line_index(bytes), o2);
}
/// the index has one entry per newline (forgets the first line)
proof fn canary_index_len_is_newline_count(bytes: Seq<u8>)
    ensures op_line_index(bytes).len() == positions(NL(), bytes).len(),
{
    lemma_line_index_wf(bytes);
}
/// the assumed specifications (memchr_iter shim, binary_search) are not contradictory
fn canary_false_from_assumed_specs(content: &str, line_index: &[usize], offset: usize)
    requires is_line_index(ints(line_index@)),
    ensures false,
{
    let it = memchr::memchr_iter(b'\n', content.as_bytes());
    proof {
        assert(strictly_sorted(line_index@)) by {
            assert forall|i: int, j: int| 0 <= i < j < line_index@.len() implies ord_lt(#[trigger] line_index@[i], #[trigger] line_index@[j]) by {
                assert(ints(line_index@)[i] < ints(line_index@)[j]);
            }
        }
    }
    let r = line_index.binary_search(&offset);
}

} // verus!
fn main() {}
