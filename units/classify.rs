//@include prelude/header.rs
verus! {
global size_of usize == 8;  // A6: 64-bit target
pub mod pre {
use super::*;
//@include prelude/path.rs
//@include prelude/path_ext.rs
} // mod pre
use pre::*;

pub mod cl_ax {
    use super::*;
    // (P4') a `&PathBuf` argument passed as `AsRef<Path>` denotes its own components; PathBuf derefs to its Path
    pub broadcast axiom fn axiom_pathbuf_ref_as_path<'a>(p: &'a PathBuf)
        ensures #[trigger] as_path_view::<&'a PathBuf>(p) == pbv(p);
}
pub use cl_ax::*;
broadcast use {axiom_path_as_path, axiom_pathbuf_ref_as_path};

// src/fixtures/mod.rs, taken from the source at generation time
//@item src/fixtures/mod.rs struct EditableInstall

/// sequential stand-in for std::sync::Mutex::lock on the two Mutex-wrapped fields (T6 strips `Mutex<..>` from the
/// field type): lock() hands out the protected value, never poisoned.  No thread model (see DESIGN §2).
#[derive(Debug)]
pub struct PoisonNever { _p: () }
pub trait VpLock: Sized { fn lock(&self) -> (r: Result<&Self, PoisonNever>) ensures r is Ok, r->Ok_0 == self; }
impl VpLock for Vec<EditableInstall> {
    #[verifier::external_body]
    fn lock(&self) -> (r: Result<&Self, PoisonNever>) { Ok(self) }
}
impl VpLock for Option<PathBuf> {
    #[verifier::external_body]
    fn lock(&self) -> (r: Result<&Self, PoisonNever>) { Ok(self) }
}

//@dbstruct editable_install_roots workspace_root

/// abstract view of an editable install: only the source root matters for the classification
pub open spec fn roots(s: Seq<EditableInstall>) -> Seq<PV> { s.map_values(|e: EditableInstall| pbv(&e.source_root)) }
/// the decision taken for the FIRST install (list order) whose source root is a prefix of the file: third-party
/// unless the workspace and that source root are nested either way; no such install: not third-party
pub open spec fn op_editable_third_party(rs: Seq<PV>, ws: Option<PV>, file: PV) -> bool
    decreases rs.len()
{
    if rs.len() == 0 { false }
    else if pv_is_prefix(rs[0], file) {
        match ws { Some(w) => !(pv_is_prefix(w, rs[0]) || pv_is_prefix(rs[0], w)), None => true }
    } else { op_editable_third_party(rs.drop_first(), ws, file) }
}
pub open spec fn opt_pbv(o: Option<PathBuf>) -> Option<PV> { match o { Some(p) => Some(pbv(&p)), None => None } }

impl FixtureDatabase {
/*@ extract src/fixtures/mod.rs is_editable_install_third_party
@tags C01 C03
@ret r
@sig
    ensures r == op_editable_third_party(roots(self.editable_install_roots@), opt_pbv(self.workspace_root), pv(file_path)),
@before for 1
    proof { assert(roots(self.editable_install_roots@).skip(0) =~= roots(self.editable_install_roots@)); }
@loopvar 1 it
@loop 1
    invariant it.seq() == installs@.as_ref(), installs@ == self.editable_install_roots@, *workspace == self.workspace_root,
        op_editable_third_party(roots(self.editable_install_roots@), opt_pbv(self.workspace_root), pv(file_path))
            == op_editable_third_party(roots(self.editable_install_roots@).skip(it.index@ as int), opt_pbv(self.workspace_root), pv(file_path)),
@loopstart 1
    proof {
        let rs = roots(self.editable_install_roots@);
        let i = it.index@ as int;
        assert(*install == self.editable_install_roots@[i]);
        assert(rs.skip(i).len() > 0 && rs.skip(i)[0] == pbv(&install.source_root));
        assert(rs.skip(i).drop_first() =~= rs.skip(i + 1));
    }
@*/
}

//@tags C01 C03
/// a project installed editable in its own venv (workspace nested in / around the source root) is first-party
pub proof fn lemma_C03_own_project_is_first_party(r: PV, w: PV, file: PV)
    requires pv_is_prefix(r, file), pv_is_prefix(w, r) || pv_is_prefix(r, w)
    ensures !op_editable_third_party(seq![r], Some(w), file)
{}
//@tags C01 C03
/// a file outside every editable source root is never classified third-party by this test
pub proof fn lemma_C03_outside_all_roots(rs: Seq<PV>, ws: Option<PV>, file: PV)
    requires forall|i: int| 0 <= i < rs.len() ==> !pv_is_prefix(#[trigger] rs[i], file)
    ensures !op_editable_third_party(rs, ws, file)
    decreases rs.len()
{
    if rs.len() > 0 { lemma_C03_outside_all_roots(rs.drop_first(), ws, file); }
}
proof fn canary_every_editable_file_is_third_party(r: PV, w: PV, file: PV)
    requires pv_is_prefix(r, file)
    ensures op_editable_third_party(seq![r], Some(w), file)
{}
} // verus!
fn main() {}
