//@include prelude/header.rs
verus! {
global size_of usize == 8;  // A6: 64-bit target
pub mod pre {
use super::*;
//@include prelude/path.rs
//@include prelude/path_ext.rs
//@include prelude/path_strip.rs
} // mod pre
use pre::*;

pub mod cl_ax {
    use super::*;
    // (P4') a `&PathBuf` argument passed as `AsRef<Path>` denotes its own components; PathBuf derefs to its Path
    pub broadcast axiom fn axiom_pathbuf_ref_as_path<'a>(p: &'a PathBuf)
        ensures #[trigger] as_path_view::<&'a PathBuf>(p) == pbv(p);
}
pub use cl_ax::*;
broadcast use {axiom_path_as_path, axiom_pathbuf_ref_as_path};

// src/fixtures/mod.rs, taken from the source at generation time
//@item src/fixtures/mod.rs struct EditableInstall

/// sequential stand-in for std::sync::Mutex::lock on the two Mutex-wrapped fields (T6 strips `Mutex<..>` from the
/// field type): lock() hands out the protected value, never poisoned.  No thread model (see DESIGN §2).
#[derive(Debug)]
pub struct PoisonNever { _p: () }
pub trait VpLock: Sized { fn lock(&self) -> (r: Result<&Self, PoisonNever>) ensures r is Ok, r->Ok_0 == self; }
impl VpLock for Vec<EditableInstall> {
    #[verifier::external_body]
    fn lock(&self) -> (r: Result<&Self, PoisonNever>) { Ok(self) }
}
impl VpLock for Option<PathBuf> {
    #[verifier::external_body]
    fn lock(&self) -> (r: Result<&Self, PoisonNever>) { Ok(self) }
}

//@dbstruct editable_install_roots workspace_root

/// abstract view of an editable install: only the source root matters for the classification
pub open spec fn roots(s: Seq<EditableInstall>) -> Seq<PV> { s.map_values(|e: EditableInstall| pbv(&e.source_root)) }
/// the decision taken for the FIRST install (list order) whose source root is a prefix of the file: third-party
/// unless the workspace and that source root are nested either way; no such install: not third-party
pub open spec fn op_editable_third_party(rs: Seq<PV>, ws: Option<PV>, file: PV) -> bool
    decreases rs.len()
{
    if rs.len() == 0 { false }
    else if pv_is_prefix(rs[0], file) {
        match ws { Some(w) => !(pv_is_prefix(w, rs[0]) || pv_is_prefix(rs[0], w)), None => true }
    } else { op_editable_third_party(rs.drop_first(), ws, file) }
}
pub open spec fn opt_pbv(o: Option<PathBuf>) -> Option<PV> { match o { Some(p) => Some(pbv(&p)), None => None } }


/// "lives in a site-packages directory": a whole path component named site-packages, looked for only BELOW the
/// workspace root for files inside the workspace (so that where the workspace lives does not matter), in the whole
/// path otherwise / when no workspace root is known
pub open spec fn sp_name() -> Seq<char> { "site-packages"@ }
pub open spec fn has_sp_component(p: PV) -> bool { exists|i: int| 0 <= i < p.len() && #[trigger] p[i] == sp_name() }
pub open spec fn op_in_site_packages(ws: Option<PV>, file: PV) -> bool {
    match ws {
        Some(w) => if pv_is_prefix(w, file) { has_sp_component(file.skip(w.len() as int)) } else { has_sp_component(file) },
        None => has_sp_component(file),
    }
}

impl FixtureDatabase {
/*@ extract src/fixtures/mod.rs is_in_site_packages
@tags C01 C03 C13 C14
@ret r
@wrapexpr 1 `relevant .components() .any(|c| c.as_os_str() == "site-packages")` => `Self::vp_has_sp_component(relevant)` with fn vp_has_sp_component(relevant: &Path) -> (r: bool) ensures r == has_sp_component(pv(relevant))
@sig
    ensures r == op_in_site_packages(opt_pbv(self.workspace_root), pv(file_path)),
@*/

/*@ extract src/fixtures/mod.rs is_editable_install_third_party
@tags C01 C03
@ret r
@sig
    ensures r == op_editable_third_party(roots(self.editable_install_roots@), opt_pbv(self.workspace_root), pv(file_path)),
@before for 1
    proof { assert(roots(self.editable_install_roots@).skip(0) =~= roots(self.editable_install_roots@)); }
@loopvar 1 it
@loop 1
    invariant it.seq() == installs@.as_ref(), installs@ == self.editable_install_roots@, *workspace == self.workspace_root,
        op_editable_third_party(roots(self.editable_install_roots@), opt_pbv(self.workspace_root), pv(file_path))
            == op_editable_third_party(roots(self.editable_install_roots@).skip(it.index@ as int), opt_pbv(self.workspace_root), pv(file_path)),
@loopstart 1
    proof {
        let rs = roots(self.editable_install_roots@);
        let i = it.index@ as int;
        assert(*install == self.editable_install_roots@[i]);
        assert(rs.skip(i).len() > 0 && rs.skip(i)[0] == pbv(&install.source_root));
        assert(rs.skip(i).drop_first() =~= rs.skip(i + 1));
    }
@*/
}

//@tags C01 C03
/// a project installed editable in its own venv (workspace nested in / around the source root) is first-party
pub proof fn lemma_C03_own_project_is_first_party(r: PV, w: PV, file: PV)
    requires pv_is_prefix(r, file), pv_is_prefix(w, r) || pv_is_prefix(r, w)
    ensures !op_editable_third_party(seq![r], Some(w), file)
{}
//@tags C01 C03
/// a file outside every editable source root is never classified third-party by this test
pub proof fn lemma_C03_outside_all_roots(rs: Seq<PV>, ws: Option<PV>, file: PV)
    requires forall|i: int| 0 <= i < rs.len() ==> !pv_is_prefix(#[trigger] rs[i], file)
    ensures !op_editable_third_party(rs, ws, file)
    decreases rs.len()
{
    if rs.len() > 0 { lemma_C03_outside_all_roots(rs.drop_first(), ws, file); }
}
//@tags C13 C14
/// relocation: for a file inside the workspace the answer depends only on its path relative to the workspace root
pub proof fn lemma_C13_site_packages_relocation(w1: PV, w2: PV, rel: PV)
    ensures op_in_site_packages(Some(w1), w1 + rel) == op_in_site_packages(Some(w2), w2 + rel)
{
    assert((w1 + rel).skip(w1.len() as int) =~= rel);
    assert((w2 + rel).skip(w2.len() as int) =~= rel);
    assert((w1 + rel).subrange(0, w1.len() as int) =~= w1);
    assert((w2 + rel).subrange(0, w2.len() as int) =~= w2);
}
proof fn canary_site_packages_substring(ws: PV, file: PV)
    requires pv_is_prefix(ws, file), exists|i: int| 0 <= i < ws.len() && #[trigger] ws[i] == sp_name()
    ensures op_in_site_packages(Some(ws), file)
{}
proof fn canary_every_editable_file_is_third_party(r: PV, w: PV, file: PV)
    requires pv_is_prefix(r, file)
    ensures op_editable_third_party(seq![r], Some(w), file)
{}
} // verus!
fn main() {}
