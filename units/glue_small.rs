//@include prelude/header.rs
// Unit glue_small (properties C16 / C18 / C11): three small real functions no other unit has under contract.
//   L1  types.rs       FixtureScope::as_str          r@ == scope_name(*self)                      exact
//                      FixtureScope::parse           r == parse_scope_v(s@)                        exact: lower-case, then the five names
//       completion.rs  make_fixture_detail           r@ == op_detail(scope, is_third_party, is_plugin)
//                      -- which parts, in which order, under which conditions is PROVED; the two string builders inside it,
//                      `format!("({})", ..)` and `parts.join(" ")`, are ASSUMED (@wrapexpr helpers G4, G5): they are NOT counted
//   L2  prelude/glue_spec.rs: lemma_C16_parse_as_str_round_trip (all five scopes; hypothesis: to_lowercase leaves the lowercase
//       ASCII name unchanged), lemma_C16_parse_accepts_exactly_the_five_names, lemma_C16_as_str_injective, lemma_C18_detail_cases,
//       lemma_C18_third_party_overrides_plugin.   Canaries below: each must FAIL.
// Already under contract elsewhere (not repeated): Backend::create_range / create_point_range (extract blocks in
// prelude/lsp_backend.rs, used by the handler units), Backend::internal_line_to_lsp / lsp_line_to_internal (unit line_index).
// ASSUMED: prelude/glue_prims.rs G1..G5.
verus! {
pub mod pre {
use super::*;
//@include prelude/path.rs
//@include prelude/types.rs
//@include prelude/glue_prims.rs
//@include prelude/glue_spec.rs
} // mod pre
use pre::*;
broadcast use {axiom_str_ext};

pub mod scope_impl {
use super::*;
broadcast use {axiom_str_ext};
// the real methods under other names (the real ones exist already: types.rs is `#[path]`-included, T7)
impl FixtureScope {
/*@ extract src/fixtures/types.rs parse
@tags C16 C11
@as vp_parse
@ret r
@sig
    ensures r == parse_scope_v(s@),
@*/

/*@ extract src/fixtures/types.rs as_str
@tags C16 C11
@as vp_as_str
@ret r
@sig
    ensures r@ == scope_name(*self),
@*/

// exec canary: the same real body of parse under the claim "parse is case-SENSITIVE" (no lower-casing): must FAIL
/*@ extract src/fixtures/types.rs parse
@tags C16
@as canary_parse_is_case_sensitive
@ret r
@sig
    ensures r is Some ==> scope_name(r->0) == s@,
@*/
}
}

// as_str as make_fixture_detail sees it: the contract PROVED above for the real body
pub assume_specification[ FixtureScope::as_str ](s: &FixtureScope) -> (r: &'static str)
    ensures r@ == scope_name(*s);

/*@ extract src/providers/completion.rs make_fixture_detail
@tags C18 C11
@ret r
@replace 1 `let mut parts = Vec::new();` => `let mut parts: Vec<String> = Vec::new();`
@wrapexpr 1 `format!("({})", fixture.scope.as_str())` => `vp_paren_scope(fixture)` with fn vp_paren_scope(fixture: &FixtureDefinition) -> (r: String) ensures r@ == paren(scope_name(fixture.scope))
@wrapexpr 1 `parts.join(" ")` => `vp_join_sp(&parts)` with fn vp_join_sp(parts: &Vec<String>) -> (r: String) ensures r@ == join_v(strs_v(parts@), sp())
@sig
    ensures r@ == op_detail(fixture.scope, fixture.is_third_party, fixture.is_plugin),
@return tail
    assert(strs_v(parts@) =~= detail_parts(fixture.scope, fixture.is_third_party, fixture.is_plugin));
@*/

// ---- vacuity guards: each of these must FAIL ---------------------------------------------------------------
/// the round trip holds WITHOUT the hypothesis about to_lowercase
proof fn canary_round_trip_without_lowercase_law(s: FixtureScope)
    ensures parse_scope_v(scope_name(s)) == Some(s),
{
    lemma_scope_names_distinct();
}
/// the default scope is shown too
proof fn canary_function_scope_is_shown()
    ensures op_detail(FixtureScope::Function, false, false) == paren(scope_name(FixtureScope::Function)),
{
    lemma_C18_detail_cases(FixtureScope::Function, false, false);
}
/// a fixture that is both plugin and third-party shows both tags
proof fn canary_both_tags_shown(scope: FixtureScope)
    ensures op_detail(scope, true, true) != op_detail(scope, true, false),
{ }
/// the assumed specifications are not contradictory
fn canary_false_from_assumed_specs(a: &str, s: FixtureScope, t: FixtureScope, d: &FixtureDefinition, v: &Vec<String>)
    ensures false,
{
    let l = a.to_lowercase();
    let b = s != t;
    let n = s.as_str();
    let p = vp_paren_scope(d);
    let j = vp_join_sp(v);
    proof { lemma_scope_names_distinct(); }
}

} // verus!
fn main() {}
