//@include prelude/strstruct_header.rs
// Unit strings_struct3 (properties C18 / C11 / C12): the two remaining helpers of the TEXT FALLBACK of the completion context
// (src/fixtures/resolver.rs), which unit strings_struct2 leaves abstract (`usefx_ctx`, `scope_txt`), plus FixtureScope::parse
// (src/fixtures/types.rs).  Same method and trusted base as units strings_struct / strings_struct2 (prelude/strstruct_prims.rs
// P0..P15, strstruct_prims2.rs P16..P19) plus prelude/strstruct3_prims.rs (P20 rfind, P21 `&&str` pattern, P22 slicing helpers
// with char-boundary PRECONDITIONS, P23 str extensionality, P24 to_lowercase).
//   L1  get_usefixtures_context_from_text   opt_ccv(r) == op_usefx_ctx(sv(lines), cursor_idx)
//         requires cursor_idx < |lines|, ufx_fits: the cursor line and the 10 lines above hold <= i32::MAX characters (i32 counter)
//       extract_fixture_scope_from_text     r == op_scope_txt(sv(lines), def_line_idx)        requires def_line_idx <= |lines|
//       FixtureScope::parse (as vp_parse)   r == parse_scope_v(s)      (the call in extract_fixture_scope_from_text is @replace'd
//         by a call of this verified copy of the same real body: no assumption about parse)
//       op_usefx_ctx / op_scope_txt / parse_scope_v: prelude/strstruct3_spec.rs (definitions + proved lemmas only)
//   C11 obligations inside these bodies: lines[i] (x2), `i -= 1` (x3), `def_line_idx - 1`, lines[(i + 1)..=cursor_idx],
//       line[pos..] (x3) and trimmed[start..], &trimmed[start..start + end] (char boundaries and ranges: proved from the find
//       contracts), pos + close_pos, pos + .., open_pos + 1, pos + pattern.len(), start + end, depth += 1 / -= 1 (i32)
//   C12 both `loop`s carry `decreases i`; the for loops range over finite iterators
//       (op_usefx_ctx searches `.usefixtures(` - the mark call with its dot, /repo 14e4153; the bare word no longer matches:
//        lemma_C18_usefixtures_text_without_dot_is_none - and counts parentheses from its first occurrence on a line UNTIL the ')' that closes the call - a fold over
//        PD { depth, closed } - as the source does since /repo 3031d33; before that fix the count ran to the end of the cursor line
//        and the `def test_x(` typed below a closed decorator was answered UsefixturesDecorator: former FINDING, now the positive
//        lemma_C18_closed_call_above_cursor_line_does_not_decide / .._closed_decorator_above_and_no_other_usefixtures_text_is_none)
//   L2  lemma_C18_* below (when / only when; closed calls do not decide; same-line rule; scope text), lemma_C18_FINDING_* = where
//       the code departs from the property, each with a replay scenario under replay/proposed/ss3_C18_*.json that reproduces on
//       the real code (ss3_C18_def_below_closed_usefixtures: fixed, no longer reproduces)
//   8 canaries must FAIL (3 exec canaries = the real bodies under wrong contracts, 4 proof, 1 over the assumed primitives).
//
// COMPOSITION RECIPE for units/strings_struct2.rs (APPLIED there by the coordinator; strings_struct2: 71 verified, its 4 canaries fail):
//   1. in `pub mod pre { .. }` add after `//@include prelude/strstruct_prims2.rs`:   //@include prelude/strstruct3_prims.rs
//   2. replace the two lines `pub uninterp spec fn usefx_ctx(..) -> Option<CtxV>;` / `pub uninterp spec fn scope_txt(..) -> ..;` by
//          //@include prelude/strstruct3_spec.rs
//          pub open spec fn usefx_ctx(ls: Seq<Seq<char>>, cur: int) -> Option<CtxV> { op_usefx_ctx(ls, cur) }
//          pub open spec fn scope_txt(ls: Seq<Seq<char>>, d: int) -> Option<FixtureScope> { op_scope_txt(ls, d) }
//      (strings_struct2 already defines CtxV, sat_sub, chars_upto, lemma_chars_upto_mono with the text of
//       prelude/strstruct3_shared.rs, which it therefore must NOT include)
//   3. in `impl FixtureDatabase` replace the comment line and the two `#[verifier::external_body] fn ..{ unimplemented!() }` items by
//          //@stub strings_struct3 get_usefixtures_context_from_text
//          //@stub strings_struct3 extract_fixture_scope_from_text
//   4. in the extract block of get_completion_context_from_text add (the callee's ufx_fits precondition, from the function's own
//      `chars_upto(..) <= i32::MAX`):
//          @before cursor_idx 2
//              proof {
//                  lemma_chars_upto_mono(ls, 0, sat_sub(cursor_idx as int, 10));
//                  lemma_chars_upto_mono(ls, cursor_idx + 1, ls.len() as int);
//                  assert(ufx_fits(ls, cursor_idx as int));
//              }
//   5. units.json: drop the two "left abstract" not_covered lines of strings_struct2.
verus! {
pub mod pre {
use super::*;
//@include prelude/path.rs
//@include prelude/dashmap.rs
//@include prelude/strstruct_prims.rs
//@include prelude/strstruct_db.rs
//@include prelude/strstruct_prims2.rs
//@include prelude/strstruct3_prims.rs
} // mod pre
use pre::*;
broadcast use {lemma_fits, axiom_ts_n, axiom_te_n, axiom_pat_str, axiom_pat_char, axiom_pat_refstr, axiom_out_str, axiom_get_from};

#[verifier::external_type_specification] pub struct ExFixtureScope(FixtureScope);
#[verifier::external_type_specification] pub struct ExCompletionContext(CompletionContext);
//@dbstruct file_cache
//@include prelude/strstruct3_shared.rs
//@include prelude/strstruct3_spec.rs

// ---- FixtureScope::parse (src/fixtures/types.rs): the REAL body, under the name vp_parse -------------------------------------
pub mod scope_parse {
use super::*;
broadcast use {axiom_str_ext};
impl FixtureScope {
/*@ extract src/fixtures/types.rs parse
@tags C18
@as vp_parse
@ret r
@sig
    ensures r == parse_scope_v(s@),
@*/
// exec canary: the same real body under the claim "only lower-case text parses": must FAIL
/*@ extract src/fixtures/types.rs parse
@tags C18
@as canary_exec_parse_is_case_sensitive
@ret r
@sig
    ensures r is Some ==> lower_v(s@) == s@,
@*/
}
}

impl FixtureDatabase {
/*@ extract src/fixtures/resolver.rs get_usefixtures_context_from_text
@tags C18 C11 C12
@ret r
@wrapexpr_opt 1 `line[pos..].chars()` => `Self::vp_chars_from(line, pos)` with fn vp_chars_from<'a>(line: &'a str, pos: usize) -> (r: core::str::Chars<'a>) requires pos <= blen(line@), is_bnd(line@, pos as int) ensures r.remaining() == line@.skip(cidx(line@, pos as int)), r.decrease() is Some
@wrapexpr_opt 1 `line[pos..].rfind(')')` => `Self::vp_rfind_close_from(line, pos)` with fn vp_rfind_close_from(line: &str, pos: usize) -> (r: Option<usize>) requires pos <= blen(line@), is_bnd(line@, pos as int) ensures r == rfind_b(line@.skip(cidx(line@, pos as int)), PatV::Ch(')'))
@wrapexpr_opt 1 `line[pos..].find('(')` => `Self::vp_find_open_from(line, pos)` with fn vp_find_open_from(line: &str, pos: usize) -> (r: Option<usize>) requires pos <= blen(line@), is_bnd(line@, pos as int) ensures r == find_b(line@.skip(cidx(line@, pos as int)), PatV::Ch('('))
@sig
    requires cursor_idx < lines@.len(), ufx_fits(sv(lines@), cursor_idx as int),
    ensures opt_ccv(r) == op_usefx_ctx(sv(lines@), cursor_idx as int),
@before loop 1
    let ghost ls = sv(lines@);
    let ghost cur = cursor_idx as int;
    let ghost lim = sat_sub(cur, ufx_window());
    proof { lemma_ufx_lit(); }
@loop 1
    invariant lim == scan_limit, lim <= i <= cursor_idx < lines@.len(), ls == sv(lines@), cur == cursor_idx, lim == sat_sub(cur, ufx_window()),
        ufx_fits(ls, cur),
        ufx_scan(ls, cur, cur, lim) == ufx_scan(ls, i as int, cur, lim),
    ensures ufx_scan(ls, cur, cur, lim) is None,
    decreases i
@before depth 1
    let ghost k = find_k(line@, ufx_pat())->0;
    let ghost tail = line@.skip(k);
    let ghost budget = chars_upto(ls, cur + 1) - chars_upto(ls, i as int);
    proof {
        lemma_ufx_lit();
        assert(line@ == ls[i as int]);
        lemma_fits(line);
        lemma_hit(line@, ufx_pat());
        lemma_chars_upto_mono(ls, lim, i as int);
        lemma_chars_upto_mono(ls, i + 1, cur + 1);
        assert(chars_upto(ls, i + 1) == chars_upto(ls, i as int) + ls[i as int].len());
    }
@loopvar 2 it2
@loop 2
    invariant it2.seq() == tail, tail.len() <= i32::MAX,
        pd_of(depth, closed) == pd_chars(pd0(), tail, it2.index@ as int), -it2.index@ <= depth <= it2.index@,
@loopvar 3 it3
@loop 3
    invariant ls == sv(lines@), cur == cursor_idx, i < cursor_idx < lines@.len(),
        budget == chars_upto(ls, cur + 1) - chars_upto(ls, i as int), budget <= i32::MAX,
        it3.seq().len() == cur - i,
        forall|j: int| 0 <= j < it3.seq().len() ==> *(#[trigger] it3.seq()[j]) == lines@[i + 1 + j],
        pd_of(depth, closed) == pd_lines(pd_line(pd0(), tail), ls, i + 1, it3.index@ as int),
        -(chars_upto(ls, i + 1 + it3.index@) - chars_upto(ls, i as int)) <= depth <= chars_upto(ls, i + 1 + it3.index@) - chars_upto(ls, i as int),
@before for 3
    let ghost j3 = it3.index@ as int;
    let ghost d3 = pd_of(depth, closed);
    let ghost c3 = chars_upto(ls, i + 1 + j3) - chars_upto(ls, i as int);
    proof {
        assert(line@ == ls[i + 1 + j3]);
        lemma_chars_upto_mono(ls, i + 1 + j3 + 1, cur + 1);
        assert(chars_upto(ls, i + 1 + j3 + 1) == chars_upto(ls, i + 1 + j3) + ls[i + 1 + j3].len());
    }
@loopvar 4 it4
@loop 4
    invariant it4.seq() == line@, c3 + line@.len() <= i32::MAX,
        pd_of(depth, closed) == pd_chars(d3, line@, it4.index@ as int), -(c3 + it4.index@) <= depth <= c3 + it4.index@,
@loopend 3
    proof {
        assert(pd_lines(pd_line(pd0(), tail), ls, i + 1, j3 + 1) == pd_line(pd_lines(pd_line(pd0(), tail), ls, i + 1, j3), ls[i + 1 + j3]));
    }
@return 1
    assert(pd_of(depth, closed) == ufx_depth(ls, i as int, cur, k));
@before abs_close 1
    let ghost c = rfind_k(tail, PatV::Ch(')'))->0;
    proof {
        assert(pd_of(depth, closed) == ufx_depth(ls, i as int, cur, k));
        lemma_rfind_k(tail, PatV::Ch(')'));
        lemma_boff_skip(line@, k, c);
        lemma_blen_split(line@, k + c);
        if find_k(tail, PatV::Ch('(')) is Some {
            let o = find_k(tail, PatV::Ch('('))->0;
            lemma_find_k(tail, PatV::Ch('('));
            lemma_boff_skip(line@, k, o);
            lemma_boff_mono(line@, k + o, k + o + 1);
            lemma_blen_split(line@, k + o + 1);
        } else {
            lemma_boff_mono(line@, k, k + 13);
        }
    }
@return 4
    assert(pd_of(depth, closed) == ufx_depth(ls, i as int, cur, k));
@break 1
    assert(ufx_here(ls, i as int, cur) is None);
@*/

/*@ extract src/fixtures/resolver.rs extract_fixture_scope_from_text
@tags C18 C11 C12
@ret r
@wrapexpr_opt 1 `trimmed[start..].find(quote_char)` => `Self::vp_find_char_from(trimmed, start, quote_char)` with fn vp_find_char_from(trimmed: &str, start: usize, quote_char: char) -> (r: Option<usize>) requires start <= blen(trimmed@), is_bnd(trimmed@, start as int) ensures r == find_b(trimmed@.skip(cidx(trimmed@, start as int)), PatV::Ch(quote_char))
@wrapexpr_opt 1 `&trimmed[start..start + end]` => `Self::vp_between(trimmed, start, end)` with fn vp_between<'a>(trimmed: &'a str, start: usize, end: usize) -> (r: &'a str) requires start + end <= blen(trimmed@), is_bnd(trimmed@, start as int), is_bnd(trimmed@, start + end) ensures r@ == trimmed@.subrange(cidx(trimmed@, start as int), cidx(trimmed@, start + end))
@replace 1 `FixtureScope::parse(scope_str)` => `FixtureScope::vp_parse(scope_str)`
@sig
    requires def_line_idx <= lines@.len(),
    ensures r == op_scope_txt(sv(lines@), def_line_idx as int),
@before loop 1
    let ghost ls = sv(lines@);
@loop 1
    invariant 0 <= i < lines@.len(), ls == sv(lines@), def_line_idx >= 1,
        scope_from(ls, def_line_idx - 1) == scope_from(ls, i as int),
    ensures scope_from(ls, def_line_idx - 1) is None,
    decreases i
@break 1
    assert(scope_from(ls, -1) is None);
    assert(scope_from(ls, 0) == scope_from(ls, -1));
@before for 1
    let ghost t = trimmed@;
    proof { lemma_scope_lits(); assert(t == trim_v(ls[i as int])); lemma_fits(trimmed); }
@loopvar 2 it2
@loop 2
    invariant t == trimmed@, it2.seq().len() == 2,
        ls == sv(lines@), t.len() != 0, occurs_at(t, PatV::Ch('@'), 0), 0 <= i < ls.len(), t == trim_v(ls[i as int]), def_line_idx >= 1,
        scope_from(ls, def_line_idx - 1) == scope_from(ls, i as int),
        forall|j: int| 0 <= j < 2 ==> (*#[trigger] it2.seq()[j])@ == scope_pat(j),
        scope_on_line(t, 0) == scope_on_line(t, it2.index@ as int),
@before start 1
    let ghost p = scope_pat(it2.index@ as int);
    proof {
        assert(pattern@ == p);
        lemma_fits(trimmed);
        lemma_scope_lits();
        lemma_scope_hit(t, p);
    }
@return 2
    assert(scope_try(t, p) == Some(parse_scope_v(scope_str@)));
@break 2
    assert(scope_on_line(t, 2) is None);
    assert(scope_from(ls, -1) is None);
    assert(scope_from(ls, 0) == scope_from(ls, -1));
@*/

// exec canary: the same real body under the claim "only the cursor line can cause an answer": must FAIL at the postcondition
/*@ extract src/fixtures/resolver.rs get_usefixtures_context_from_text
@tags C18
@as canary_exec_usefixtures_only_from_cursor_line
@ret r
@wrapexpr_opt 1 `line[pos..].chars()` => `Self::vp_chars_from2(line, pos)` with fn vp_chars_from2<'a>(line: &'a str, pos: usize) -> (r: core::str::Chars<'a>) requires pos <= blen(line@), is_bnd(line@, pos as int) ensures r.remaining() == line@.skip(cidx(line@, pos as int)), r.decrease() is Some
@wrapexpr_opt 1 `line[pos..].rfind(')')` => `Self::vp_rfind_close_from2(line, pos)` with fn vp_rfind_close_from2(line: &str, pos: usize) -> (r: Option<usize>) requires pos <= blen(line@), is_bnd(line@, pos as int) ensures r == rfind_b(line@.skip(cidx(line@, pos as int)), PatV::Ch(')'))
@wrapexpr_opt 1 `line[pos..].find('(')` => `Self::vp_find_open_from2(line, pos)` with fn vp_find_open_from2(line: &str, pos: usize) -> (r: Option<usize>) requires pos <= blen(line@), is_bnd(line@, pos as int) ensures r == find_b(line@.skip(cidx(line@, pos as int)), PatV::Ch('('))
@sig
    requires cursor_idx < lines@.len(), ufx_fits(sv(lines@), cursor_idx as int),
    ensures r is Some ==> find_k(sv(lines@)[cursor_idx as int], ufx_pat()) is Some,
@before loop 1
    let ghost ls = sv(lines@);
    let ghost cur = cursor_idx as int;
    let ghost lim = sat_sub(cur, ufx_window());
    proof { lemma_ufx_lit(); }
@loop 1
    invariant lim == scan_limit, lim <= i <= cursor_idx < lines@.len(), ls == sv(lines@), cur == cursor_idx, lim == sat_sub(cur, ufx_window()),
        ufx_fits(ls, cur),
        ufx_scan(ls, cur, cur, lim) == ufx_scan(ls, i as int, cur, lim),
    ensures ufx_scan(ls, cur, cur, lim) is None,
    decreases i
@before depth 1
    let ghost k = find_k(line@, ufx_pat())->0;
    let ghost tail = line@.skip(k);
    let ghost budget = chars_upto(ls, cur + 1) - chars_upto(ls, i as int);
    proof {
        lemma_ufx_lit();
        assert(line@ == ls[i as int]);
        lemma_fits(line);
        lemma_hit(line@, ufx_pat());
        lemma_chars_upto_mono(ls, lim, i as int);
        lemma_chars_upto_mono(ls, i + 1, cur + 1);
        assert(chars_upto(ls, i + 1) == chars_upto(ls, i as int) + ls[i as int].len());
    }
@loopvar 2 it2
@loop 2
    invariant it2.seq() == tail, tail.len() <= i32::MAX,
        pd_of(depth, closed) == pd_chars(pd0(), tail, it2.index@ as int), -it2.index@ <= depth <= it2.index@,
@loopvar 3 it3
@loop 3
    invariant ls == sv(lines@), cur == cursor_idx, i < cursor_idx < lines@.len(),
        budget == chars_upto(ls, cur + 1) - chars_upto(ls, i as int), budget <= i32::MAX,
        it3.seq().len() == cur - i,
        forall|j: int| 0 <= j < it3.seq().len() ==> *(#[trigger] it3.seq()[j]) == lines@[i + 1 + j],
        pd_of(depth, closed) == pd_lines(pd_line(pd0(), tail), ls, i + 1, it3.index@ as int),
        -(chars_upto(ls, i + 1 + it3.index@) - chars_upto(ls, i as int)) <= depth <= chars_upto(ls, i + 1 + it3.index@) - chars_upto(ls, i as int),
@before for 3
    let ghost j3 = it3.index@ as int;
    let ghost d3 = pd_of(depth, closed);
    let ghost c3 = chars_upto(ls, i + 1 + j3) - chars_upto(ls, i as int);
    proof {
        assert(line@ == ls[i + 1 + j3]);
        lemma_chars_upto_mono(ls, i + 1 + j3 + 1, cur + 1);
        assert(chars_upto(ls, i + 1 + j3 + 1) == chars_upto(ls, i + 1 + j3) + ls[i + 1 + j3].len());
    }
@loopvar 4 it4
@loop 4
    invariant it4.seq() == line@, c3 + line@.len() <= i32::MAX,
        pd_of(depth, closed) == pd_chars(d3, line@, it4.index@ as int), -(c3 + it4.index@) <= depth <= c3 + it4.index@,
@loopend 3
    proof {
        assert(pd_lines(pd_line(pd0(), tail), ls, i + 1, j3 + 1) == pd_line(pd_lines(pd_line(pd0(), tail), ls, i + 1, j3), ls[i + 1 + j3]));
    }
@return 1
    assert(pd_of(depth, closed) == ufx_depth(ls, i as int, cur, k));
@before abs_close 1
    let ghost c = rfind_k(tail, PatV::Ch(')'))->0;
    proof {
        assert(pd_of(depth, closed) == ufx_depth(ls, i as int, cur, k));
        lemma_rfind_k(tail, PatV::Ch(')'));
        lemma_boff_skip(line@, k, c);
        lemma_blen_split(line@, k + c);
        if find_k(tail, PatV::Ch('(')) is Some {
            let o = find_k(tail, PatV::Ch('('))->0;
            lemma_find_k(tail, PatV::Ch('('));
            lemma_boff_skip(line@, k, o);
            lemma_boff_mono(line@, k + o, k + o + 1);
            lemma_blen_split(line@, k + o + 1);
        } else {
            lemma_boff_mono(line@, k, k + 13);
        }
    }
@return 4
    assert(pd_of(depth, closed) == ufx_depth(ls, i as int, cur, k));
@break 1
    assert(ufx_here(ls, i as int, cur) is None);
@*/

// exec canary: the same real body under the claim "a blank line above the def stops the scan": must FAIL at the postcondition
/*@ extract src/fixtures/resolver.rs extract_fixture_scope_from_text
@tags C18
@as canary_exec_scope_scan_stops_at_blank_line
@ret r
@wrapexpr_opt 1 `trimmed[start..].find(quote_char)` => `Self::vp_find_char_from2(trimmed, start, quote_char)` with fn vp_find_char_from2(trimmed: &str, start: usize, quote_char: char) -> (r: Option<usize>) requires start <= blen(trimmed@), is_bnd(trimmed@, start as int) ensures r == find_b(trimmed@.skip(cidx(trimmed@, start as int)), PatV::Ch(quote_char))
@wrapexpr_opt 1 `&trimmed[start..start + end]` => `Self::vp_between2(trimmed, start, end)` with fn vp_between2<'a>(trimmed: &'a str, start: usize, end: usize) -> (r: &'a str) requires start + end <= blen(trimmed@), is_bnd(trimmed@, start as int), is_bnd(trimmed@, start + end) ensures r@ == trimmed@.subrange(cidx(trimmed@, start as int), cidx(trimmed@, start + end))
@replace 1 `FixtureScope::parse(scope_str)` => `FixtureScope::vp_parse(scope_str)`
@sig
    requires def_line_idx <= lines@.len(),
    ensures (def_line_idx >= 1 && is_blank(sv(lines@)[def_line_idx - 1])) ==> r is None,
@before loop 1
    let ghost ls = sv(lines@);
@loop 1
    invariant 0 <= i < lines@.len(), ls == sv(lines@), def_line_idx >= 1,
        scope_from(ls, def_line_idx - 1) == scope_from(ls, i as int),
    ensures scope_from(ls, def_line_idx - 1) is None,
    decreases i
@break 1
    assert(scope_from(ls, -1) is None);
    assert(scope_from(ls, 0) == scope_from(ls, -1));
@before for 1
    let ghost t = trimmed@;
    proof { lemma_scope_lits(); assert(t == trim_v(ls[i as int])); lemma_fits(trimmed); }
@loopvar 2 it2
@loop 2
    invariant t == trimmed@, it2.seq().len() == 2,
        ls == sv(lines@), t.len() != 0, occurs_at(t, PatV::Ch('@'), 0), 0 <= i < ls.len(), t == trim_v(ls[i as int]), def_line_idx >= 1,
        scope_from(ls, def_line_idx - 1) == scope_from(ls, i as int),
        forall|j: int| 0 <= j < 2 ==> (*#[trigger] it2.seq()[j])@ == scope_pat(j),
        scope_on_line(t, 0) == scope_on_line(t, it2.index@ as int),
@before start 1
    let ghost p = scope_pat(it2.index@ as int);
    proof {
        assert(pattern@ == p);
        lemma_fits(trimmed);
        lemma_scope_lits();
        lemma_scope_hit(t, p);
    }
@return 2
    assert(scope_try(t, p) == Some(parse_scope_v(scope_str@)));
@break 2
    assert(scope_on_line(t, 2) is None);
    assert(scope_from(ls, -1) is None);
    assert(scope_from(ls, 0) == scope_from(ls, -1));
@*/
}

// ======== L2 (C18): get_usefixtures_context_from_text ===========================================================================
/// lines that do not decide are skipped
proof fn lemma_ufx_scan_skip(ls: Seq<Seq<char>>, i: int, cur: int, lim: int, j: int)
    requires 0 <= j <= i < ls.len(), lim <= j, forall|q: int| j < q <= i ==> ufx_here(ls, q, cur) is None,
    ensures ufx_scan(ls, i, cur, lim) == ufx_scan(ls, j, cur, lim),
    decreases i - j,
{
    if j < i { assert(ufx_here(ls, i, cur) is None); lemma_ufx_scan_skip(ls, i - 1, cur, lim, j); }
}
/// C18 ("when", usefixtures argument list): a line i of the window (cursor line and the 10 lines above it) that contains the text
/// `.usefixtures(` (the mark call with its dot, /repo 14e4153) - first at character k - whose call is not closed at the END of the
/// cursor line, with no nearer line deciding, yields UsefixturesDecorator.  NOTE what is still not required (remaining
/// departure, FINDING): that the text is code - a comment or string that spells the dotted call (`# use
/// @pytest.mark.usefixtures() here`) matches like a decorator (scenario ss3_C18_comment_mention_dotted) - and where on the
/// cursor line the cursor is.
//@tags C18
pub proof fn lemma_C18_unclosed_usefixtures_call_in_window_is_usefixtures(ls: Seq<Seq<char>>, cur: int, i: int)
    requires 0 <= i <= cur < ls.len(), sat_sub(cur, ufx_window()) <= i,
        find_k(ls[i], ufx_pat()) is Some, ufx_depth(ls, i, cur, find_k(ls[i], ufx_pat())->0).depth > 0,
        forall|q: int| i < q <= cur ==> ufx_here(ls, q, cur) is None,
    ensures op_usefx_ctx(ls, cur) == Some(CtxV::Usefixtures),
{
    lemma_ufx_scan_skip(ls, cur, cur, sat_sub(cur, ufx_window()), i);
}
/// C18 ("when", the common case while typing): the cursor line itself contains an unclosed `usefixtures(` call
//@tags C18
pub proof fn lemma_C18_cursor_line_with_unclosed_usefixtures_call(ls: Seq<Seq<char>>, cur: int)
    requires 0 <= cur < ls.len(), find_k(ls[cur], ufx_pat()) is Some,
        pd_line(pd0(), ls[cur].skip(find_k(ls[cur], ufx_pat())->0)).depth > 0,
    ensures op_usefx_ctx(ls, cur) == Some(CtxV::Usefixtures),
{
    lemma_C18_unclosed_usefixtures_call_in_window_is_usefixtures(ls, cur, cur);
}
/// C18 ("only when"): without the text `.usefixtures(` on the cursor line or one of the 10 lines above it, no decorator context
//@tags C18
pub proof fn lemma_C18_no_usefixtures_text_in_window_is_none(ls: Seq<Seq<char>>, cur: int)
    requires 0 <= cur < ls.len(),
        forall|j: int| sat_sub(cur, ufx_window()) <= j <= cur ==> find_k(#[trigger] ls[j], ufx_pat()) is None,
    ensures op_usefx_ctx(ls, cur) is None,
{
    let lim = sat_sub(cur, ufx_window());
    assert forall|q: int| lim < q <= cur implies ufx_here(ls, q, cur) is None by { assert(find_k(ls[q], ufx_pat()) is None); }
    lemma_ufx_scan_skip(ls, cur, cur, lim, lim);
    assert(find_k(ls[lim], ufx_pat()) is None);
}
/// the bare word, as the source searched it before /repo 14e4153
pub open spec fn ufx_bare() -> Seq<char> { "usefixtures("@ }
proof fn lemma_ufx_dotted_is_dot_plus_bare()
    ensures ufx_lit() =~= seq!['.'] + ufx_bare(), ufx_bare().len() == 12,
{
    lemma_ufx_lit();
    reveal_strlit("usefixtures(");
}
/// C18 ("only when"; repaired in /repo 14e4153, formerly two FINDINGs): the bare text `usefixtures(` NOT preceded by a dot - a
/// comment `# see usefixtures() for details`, the signature `def test_usefixtures(` - is not the searched pattern: a window in
/// which every occurrence of `usefixtures(` is at the line start or follows a character other than '.' yields None from this
/// helper (scenarios ss3_C18_comment_mention / ss3_C18_test_named_usefixtures no longer reproduce)
//@tags C18
pub proof fn lemma_C18_usefixtures_text_without_dot_is_none(ls: Seq<Seq<char>>, cur: int)
    requires 0 <= cur < ls.len(),
        forall|j: int, q: int| sat_sub(cur, ufx_window()) <= j <= cur && 1 <= q && #[trigger] occurs_at(ls[j], PatV::Str(ufx_bare()), q)
            ==> ls[j][q - 1] != '.',
    ensures op_usefx_ctx(ls, cur) is None,
{
    lemma_ufx_dotted_is_dot_plus_bare();
    assert forall|j: int| sat_sub(cur, ufx_window()) <= j <= cur implies find_k(#[trigger] ls[j], ufx_pat()) is None by {
        lemma_find_k(ls[j], ufx_pat());
        if let Some(k) = find_k(ls[j], ufx_pat()) {
            let l = ls[j];
            assert(l.subrange(k, k + 13) == ufx_lit());
            assert(l[k] == l.subrange(k, k + 13)[0]);
            assert(l.subrange(k + 1, k + 13) =~= ufx_lit().subrange(1, 13));
            assert(ufx_lit().subrange(1, 13) =~= ufx_bare());
            assert(occurs_at(l, PatV::Str(ufx_bare()), k + 1));
        }
    }
    lemma_C18_no_usefixtures_text_in_window_is_none(ls, cur);
}
proof fn lemma_ufx_scan_some(ls: Seq<Seq<char>>, i: int, cur: int, lim: int)
    requires 0 <= lim <= i,
    ensures match ufx_scan(ls, i, cur, lim) {
        Some(x) => x == CtxV::Usefixtures && exists|j: int| lim <= j <= i && j < ls.len() && #[trigger] ufx_here(ls, j, cur) == Some(Some(CtxV::Usefixtures)),
        None => true,
    },
    decreases i + 1,
{
    if i < ls.len() {
        match ufx_here(ls, i, cur) {
            Some(a) => { if a is Some { assert(ufx_here(ls, i, cur) == Some(Some(CtxV::Usefixtures))); } },
            None => {
                if !(i == 0 || i <= lim) {
                    lemma_ufx_scan_some(ls, i - 1, cur, lim);
                    if ufx_scan(ls, i - 1, cur, lim) is Some {
                        let j = choose|j: int| lim <= j <= i - 1 && j < ls.len() && #[trigger] ufx_here(ls, j, cur) == Some(Some(CtxV::Usefixtures));
                        assert(lim <= j <= i && ufx_here(ls, j, cur) == Some(Some(CtxV::Usefixtures)));
                    }
                }
            },
        }
    }
}
/// C18 ("only when", exactly): every answer of this helper is UsefixturesDecorator, and it is caused by a line j of the window
/// that contains `usefixtures(` with either an open parenthesis count at the end of the cursor line, or - j the cursor line,
/// count 0 - the same-line rule (lemma_C18_same_line_rule)
//@tags C18
pub proof fn lemma_C18_usefixtures_answer_has_a_cause_in_window(ls: Seq<Seq<char>>, cur: int)
    requires 0 <= cur < ls.len(),
    ensures match op_usefx_ctx(ls, cur) {
        Some(x) => x == CtxV::Usefixtures && exists|j: int| sat_sub(cur, ufx_window()) <= j <= cur && find_k(#[trigger] ls[j], ufx_pat()) is Some && ({
            let k = find_k(ls[j], ufx_pat())->0;
            ufx_depth(ls, j, cur, k).depth > 0 || (j == cur && ufx_depth(ls, j, cur, k).depth == 0 && ufx_same_line(ls[j].skip(k)) is Some)
        }),
        None => true,
    },
{
    let lim = sat_sub(cur, ufx_window());
    lemma_ufx_scan_some(ls, cur, cur, lim);
    if op_usefx_ctx(ls, cur) is Some {
        let j = choose|j: int| lim <= j <= cur && j < ls.len() && #[trigger] ufx_here(ls, j, cur) == Some(Some(CtxV::Usefixtures));
        assert(find_k(ls[j], ufx_pat()) is Some);
    }
}
/// C18 FINDING (the property names the indirect-parametrize argument list; the text fallback has no such case): whatever the
/// text, this helper never answers ParametrizeIndirect (nor a function context).  With unit strings_struct2's op_text_ctx -
/// which answers this helper's result or a FunctionSignature - a document that does not parse never gets a ParametrizeIndirect
/// context: `@pytest.mark.parametrize("db", [1], indirect=["` + cursor gives None (scenario ss3_C18_parametrize_indirect_text)
//@tags C18
pub proof fn lemma_C18_FINDING_text_fallback_never_answers_parametrize(ls: Seq<Seq<char>>, cur: int)
    requires 0 <= cur < ls.len(),
    ensures op_usefx_ctx(ls, cur) != Some(CtxV::Parametrize),
{
    lemma_C18_usefixtures_answer_has_a_cause_in_window(ls, cur);
}
/// in a text that starts with `.usefixtures(`: the first '(' is character 12 = byte 12, byte 13 is character 13
proof fn lemma_ufx_tail(tail: Seq<char>)
    requires starts(tail, ufx_lit()),
    ensures find_k(tail, PatV::Ch('(')) == Some(12int), boff(tail, 12) == 12, boff(tail, 13) == 13, tail.len() >= 13, tail[12] == '(',
        forall|j: int| 0 <= j < 12 ==> tail[j] != '(' && #[trigger] tail[j] != ')',
        pd_chars(pd0(), tail, 13) == (PD { depth: 1, closed: false }),
{
    lemma_ufx_lit();
    let u = ufx_lit();
    assert(tail.subrange(0, 13) == u);
    assert forall|j: int| 0 <= j < 13 implies #[trigger] tail[j] == u[j] by { assert(tail.subrange(0, 13)[j] == tail[j]); }
    lemma_find_k(tail, PatV::Ch('('));
    assert(occurs_at(tail, PatV::Ch('('), 12));
    assert(tail.take(12) =~= u.take(12));
    assert(tail.take(13) =~= u);
    assert(u.take(12) =~= seq!['.', 'u', 's', 'e', 'f', 'i', 'x', 't', 'u', 'r', 'e', 's']);
    lemma_ascii_blen(u.take(12));
    let z = pd0();
    assert(pd_chars(z, tail, 0) == z);
    assert(pd_chars(z, tail, 1) == z); assert(pd_chars(z, tail, 2) == z); assert(pd_chars(z, tail, 3) == z);
    assert(pd_chars(z, tail, 4) == z); assert(pd_chars(z, tail, 5) == z); assert(pd_chars(z, tail, 6) == z);
    assert(pd_chars(z, tail, 7) == z); assert(pd_chars(z, tail, 8) == z); assert(pd_chars(z, tail, 9) == z);
    assert(pd_chars(z, tail, 10) == z); assert(pd_chars(z, tail, 11) == z); assert(pd_chars(z, tail, 12) == z);
}
/// C18 (the same-line rule, read at character level): on the cursor line with a balanced count, the answer is
/// UsefixturesDecorator exactly when the LAST ')' of the line directly follows the `usefixtures(` (the empty call
/// `usefixtures()`, possibly followed by text without ')'); the source's `unwrap_or(0)` fallback can never be taken
//@tags C18
pub proof fn lemma_C18_same_line_rule(tail: Seq<char>)
    requires starts(tail, ufx_lit()),
    ensures ufx_same_line(tail) == (match rfind_k(tail, PatV::Ch(')')) {
        Some(c) => if c == 13 { Some(CtxV::Usefixtures) } else { None },
        None => Some(CtxV::Usefixtures),
    }),
{
    lemma_ufx_tail(tail);
    lemma_rfind_k(tail, PatV::Ch(')'));
    if let Some(c) = rfind_k(tail, PatV::Ch(')')) {
        lemma_boff_order(tail, c, 13);
    }
}
proof fn lemma_pd_no_close(st: PD, s: Seq<char>, a: int, n: int)
    requires 0 <= a <= n <= s.len(), forall|j: int| a <= j < n ==> s[j] != ')', !pd_chars(st, s, a).closed,
    ensures pd_chars(st, s, n).depth >= pd_chars(st, s, a).depth, !pd_chars(st, s, n).closed,
    decreases n - a,
{
    if a < n { lemma_pd_no_close(st, s, a, n - 1); }
}
/// the counter from the pattern on is never negative: open with a count >= 1 or closed at 0 (pd_good), on the pattern's line and
/// on every later line; in particular `depth == 0` means "the call is closed"
proof fn lemma_pd_tail_good(tail: Seq<char>, n: int)
    requires starts(tail, ufx_lit()), 13 <= n <= tail.len(),
    ensures pd_good(pd_chars(pd0(), tail, n)),
    decreases n,
{
    lemma_ufx_tail(tail);
    if n > 13 { lemma_pd_tail_good(tail, n - 1); }
}
proof fn lemma_ufx_depth_good(ls: Seq<Seq<char>>, i: int, cur: int)
    requires 0 <= i <= cur < ls.len(), find_k(ls[i], ufx_pat()) is Some,
    ensures pd_good(ufx_depth(ls, i, cur, find_k(ls[i], ufx_pat())->0)),
        starts(ls[i].skip(find_k(ls[i], ufx_pat())->0), ufx_lit()),
{
    let k = find_k(ls[i], ufx_pat())->0;
    let tail = ls[i].skip(k);
    lemma_ufx_lit();
    lemma_find_k(ls[i], ufx_pat());
    assert(tail.subrange(0, 13) =~= ls[i].subrange(k, k + 13));
    lemma_pd_tail_good(tail, tail.len() as int);
    lemma_pd_lines_good(pd_line(pd0(), tail), ls, i + 1, cur - i);
}
/// C18 (dead code): with a balanced count the line has a ')' - the source's branch "no closing paren found on this line:
/// unclosed call -> UsefixturesDecorator" is unreachable
//@tags C18
pub proof fn lemma_C18_no_close_paren_branch_unreachable(tail: Seq<char>)
    requires starts(tail, ufx_lit()), pd_line(pd0(), tail).depth == 0,
    ensures rfind_k(tail, PatV::Ch(')')) is Some,
{
    lemma_ufx_tail(tail);
    lemma_rfind_k(tail, PatV::Ch(')'));
    if rfind_k(tail, PatV::Ch(')')) is None {
        assert forall|j: int| 13 <= j < tail.len() implies tail[j] != ')' by { assert(!occurs_at(tail, PatV::Ch(')'), j)); }
        lemma_pd_no_close(pd0(), tail, 13, tail.len() as int);
    }
}
/// C18 FINDING ("when" fails): a `usefixtures(...)` call that is CLOSED on the cursor line and has any content - the cursor may
/// well be between its parentheses, e.g. inside the second string of `@pytest.mark.usefixtures("db", "")` - yields None: the
/// helper has no cursor column.  (In a document that parses the AST path answers; in one that does not, no fixture names are
/// offered inside the argument list: scenario ss3_C18_balanced_usefixtures_none)
//@tags C18
pub proof fn lemma_C18_FINDING_balanced_call_with_content_on_cursor_line_is_none(ls: Seq<Seq<char>>, cur: int)
    requires 0 <= cur < ls.len(), find_k(ls[cur], ufx_pat()) is Some,
        pd_line(pd0(), ls[cur].skip(find_k(ls[cur], ufx_pat())->0)).depth == 0,
        rfind_k(ls[cur].skip(find_k(ls[cur], ufx_pat())->0), PatV::Ch(')')) != Some(13int),
    ensures op_usefx_ctx(ls, cur) is None,
{
    let k = find_k(ls[cur], ufx_pat())->0;
    let tail = ls[cur].skip(k);
    lemma_ufx_lit();
    lemma_find_k(ls[cur], ufx_pat());
    assert(tail.subrange(0, 13) =~= ls[cur].subrange(k, k + 13));
    lemma_C18_same_line_rule(tail);
    lemma_C18_no_close_paren_branch_unreachable(tail);
}
/// C18 (a closed call does not reach down; repaired in /repo 3031d33, formerly a FINDING): when the call that starts at the first
/// `usefixtures(` of a line ABOVE the cursor line is closed - the count came back to zero - somewhere before the end of the
/// cursor line, that line does not decide: whatever follows the closing ')' (the `(` of the `def test_x(` typed right below
/// `@pytest.mark.usefixtures("db")`) is not counted, and the scan goes on upwards
//@tags C18
pub proof fn lemma_C18_closed_call_above_cursor_line_does_not_decide(ls: Seq<Seq<char>>, cur: int, i: int)
    requires 0 <= i < cur < ls.len(), find_k(ls[i], ufx_pat()) is Some,
        ufx_depth(ls, i, cur, find_k(ls[i], ufx_pat())->0).closed,
    ensures ufx_here(ls, i, cur) is None,
{
    lemma_ufx_depth_good(ls, i, cur);
}
/// ... in particular when the call is closed on its own line, whatever the lines below it contain
//@tags C18
pub proof fn lemma_C18_call_closed_on_its_own_line_does_not_decide_below(ls: Seq<Seq<char>>, cur: int, i: int)
    requires 0 <= i < cur < ls.len(), find_k(ls[i], ufx_pat()) is Some,
        pd_line(pd0(), ls[i].skip(find_k(ls[i], ufx_pat())->0)).closed,
    ensures ufx_here(ls, i, cur) is None, ufx_depth(ls, i, cur, find_k(ls[i], ufx_pat())->0).closed,
{
    lemma_pd_lines_closed(pd_line(pd0(), ls[i].skip(find_k(ls[i], ufx_pat())->0)), ls, i + 1, cur - i);
    lemma_C18_closed_call_above_cursor_line_does_not_decide(ls, cur, i);
}
/// C18 ("only when"; the def line below a closed decorator falls through to the function context): the nearest line of the
/// window with `usefixtures(` lies above the cursor line and carries a call that is closed before the end of the cursor line,
/// and no other line of the window contains the text: the answer is None (get_completion_context_from_text then looks for
/// the enclosing def: scenario ss3_C18_def_below_closed_usefixtures no longer reproduces)
//@tags C18
pub proof fn lemma_C18_closed_decorator_above_and_no_other_usefixtures_text_is_none(ls: Seq<Seq<char>>, cur: int, i: int)
    requires 0 <= i < cur < ls.len(), sat_sub(cur, ufx_window()) <= i,
        find_k(ls[i], ufx_pat()) is Some, ufx_depth(ls, i, cur, find_k(ls[i], ufx_pat())->0).closed,
        forall|q: int| sat_sub(cur, ufx_window()) <= q <= cur && q != i ==> find_k(#[trigger] ls[q], ufx_pat()) is None,
    ensures op_usefx_ctx(ls, cur) is None,
{
    let lim = sat_sub(cur, ufx_window());
    lemma_C18_closed_call_above_cursor_line_does_not_decide(ls, cur, i);
    assert forall|q: int| lim < q <= cur implies ufx_here(ls, q, cur) is None by { if q != i { assert(find_k(ls[q], ufx_pat()) is None); } }
    lemma_ufx_scan_skip(ls, cur, cur, lim, lim);
    if lim != i { assert(find_k(ls[lim], ufx_pat()) is None); }
}
/// C18 (what the count means now): from the pattern on the counter is open with a count >= 1 or closed at 0 - never negative;
/// `depth > 0` (the answer UsefixturesDecorator) is exactly "the call is not closed at the end of the cursor line"
//@tags C18
pub proof fn lemma_C18_depth_positive_iff_call_not_closed(ls: Seq<Seq<char>>, cur: int, i: int)
    requires 0 <= i <= cur < ls.len(), find_k(ls[i], ufx_pat()) is Some,
    ensures ({ let st = ufx_depth(ls, i, cur, find_k(ls[i], ufx_pat())->0); st.depth >= 0 && (st.depth > 0) == !st.closed }),
{
    lemma_ufx_depth_good(ls, i, cur);
}
/// C18 FINDING ("when" fails, scan limit): a multi-line `usefixtures(` call whose opening line is more than 10 lines above the
/// cursor is not seen, however many parentheses are open (scenario ss3_C18_usefixtures_window_10)
//@tags C18
pub proof fn lemma_C18_FINDING_opening_line_more_than_10_lines_above_is_not_seen(ls: Seq<Seq<char>>, cur: int, i: int)
    requires 0 <= i < cur - ufx_window(), cur < ls.len(),
        find_k(ls[i], ufx_pat()) is Some, ufx_depth(ls, i, cur, find_k(ls[i], ufx_pat())->0).depth > 0,
        forall|q: int| i < q <= cur ==> find_k(#[trigger] ls[q], ufx_pat()) is None,
    ensures op_usefx_ctx(ls, cur) is None,
{
    lemma_C18_no_usefixtures_text_in_window_is_none(ls, cur);
}
/// C18 FINDING (what "inside" means here): the counter sees '(' and ')' only - two texts with the same parenthesis skeleton get
/// the same count, so parentheses inside string literals and comments count (`usefixtures("a(")` never closes, `usefixtures("a)"`
/// is closed at the ')' inside the string) and quotes,
/// brackets and '#' mean nothing
//@tags C18
pub proof fn lemma_C18_FINDING_counter_sees_parentheses_only(d: PD, s1: Seq<char>, s2: Seq<char>, n: int)
    requires 0 <= n <= s1.len(), s1.len() == s2.len(),
        forall|j: int| 0 <= j < n ==> (s1[j] == '(') == (s2[j] == '(') && (s1[j] == ')') == (s2[j] == ')'),
    ensures pd_chars(d, s1, n) == pd_chars(d, s2, n),
    decreases n,
{
    if n > 0 { lemma_C18_FINDING_counter_sees_parentheses_only(d, s1, s2, n - 1); }
}

// ======== L2 (C18): extract_fixture_scope_from_text ==============================================================================
/// what `str::to_lowercase` does to text that is already lower-case ASCII: an explicit hypothesis (P24 leaves lower_v
/// uninterpreted); true of the real function
pub open spec fn is_lower_ascii(s: Seq<char>) -> bool { forall|i: int| 0 <= i < s.len() ==> 'a' <= #[trigger] s[i] <= 'z' }
pub open spec fn lower_laws() -> bool { forall|s: Seq<char>| is_lower_ascii(s) ==> #[trigger] lower_v(s) == s }
/// C18 (scope names): under lower_laws the five pytest scope names parse to their scopes
//@tags C18
pub proof fn lemma_C18_scope_names_parse(which: int)
    requires lower_laws(),
    ensures parse_scope_v("session"@) == Some(FixtureScope::Session), parse_scope_v("package"@) == Some(FixtureScope::Package),
        parse_scope_v("module"@) == Some(FixtureScope::Module), parse_scope_v("class"@) == Some(FixtureScope::Class),
        parse_scope_v("function"@) == Some(FixtureScope::Function),
{
    reveal_strlit("session"); reveal_strlit("package"); reveal_strlit("module"); reveal_strlit("class"); reveal_strlit("function");
    assert("session"@ =~= seq!['s', 'e', 's', 's', 'i', 'o', 'n']);
    assert("package"@ =~= seq!['p', 'a', 'c', 'k', 'a', 'g', 'e']);
    assert("module"@ =~= seq!['m', 'o', 'd', 'u', 'l', 'e']);
    assert("class"@ =~= seq!['c', 'l', 'a', 's', 's']);
    assert("function"@ =~= seq!['f', 'u', 'n', 'c', 't', 'i', 'o', 'n']);
    assert(is_lower_ascii("session"@)); assert(is_lower_ascii("package"@)); assert(is_lower_ascii("module"@));
    assert(is_lower_ascii("class"@)); assert(is_lower_ascii("function"@));
    assert("session"@[0] != "package"@[0]);
}
proof fn lemma_scope_from_skip(ls: Seq<Seq<char>>, i: int, j: int)
    requires -1 <= j <= i < ls.len(),
        forall|q: int| j < q <= i ==> { let t = trim_v(#[trigger] ls[q]); t.len() == 0 || (occurs_at(t, PatV::Ch('@'), 0) && scope_on_line(t, 0) is None) },
    ensures scope_from(ls, i) == scope_from(ls, j),
    decreases i - j,
{
    if j < i { let t = trim_v(ls[i]); lemma_scope_from_skip(ls, i - 1, j); }
}
/// C18 (scope text, "yields"): the NEAREST decorator line above the def that contains `scope="` (tried first) or `scope='`
/// followed somewhere by the matching closing quote decides - the text between is parsed (None if it is not a scope name, no
/// further search); only blank lines and decorator lines without such text may lie between it and the def.  NOTE what is not
/// required: that the deciding line is the `@pytest.fixture` decorator (FINDING, see the next lemma)
//@tags C18
pub proof fn lemma_C18_scope_nearest_decorator_line_with_scope_text_decides(ls: Seq<Seq<char>>, d: int, i: int)
    requires 0 <= i < d <= ls.len(),
        forall|q: int| i < q < d ==> { let t = trim_v(#[trigger] ls[q]); t.len() == 0 || (occurs_at(t, PatV::Ch('@'), 0) && scope_on_line(t, 0) is None) },
        trim_v(ls[i]).len() != 0, occurs_at(trim_v(ls[i]), PatV::Ch('@'), 0), scope_on_line(trim_v(ls[i]), 0) is Some,
    ensures op_scope_txt(ls, d) == scope_on_line(trim_v(ls[i]), 0)->0,
{
    lemma_scope_from_skip(ls, d - 1, i);
}
/// C18 (scope text, the example of the property): `@pytest.fixture(scope="session")` directly above the def yields Session
/// (stated on the trimmed decorator line t: `scope="` first at character k, the next '"' after it e characters on, "session" between)
//@tags C18
pub proof fn lemma_C18_scope_session_on_decorator_line_above(ls: Seq<Seq<char>>, d: int)
    requires lower_laws(), 1 <= d <= ls.len(),
        trim_v(ls[d - 1]).len() != 0, occurs_at(trim_v(ls[d - 1]), PatV::Ch('@'), 0),
        find_k(trim_v(ls[d - 1]), PatV::Str(scope_pat(0))) is Some,
        ({ let t = trim_v(ls[d - 1]); let rest = t.skip(find_k(t, PatV::Str(scope_pat(0)))->0 + 7);
           find_k(rest, PatV::Ch('"')) is Some && rest.take(find_k(rest, PatV::Ch('"'))->0) == "session"@ }),
    ensures op_scope_txt(ls, d) == Some(FixtureScope::Session),
{
    lemma_scope_lits();
    lemma_C18_scope_names_parse(0);
    let t = trim_v(ls[d - 1]);
    assert(scope_try(t, scope_pat(0)) == Some(parse_scope_v("session"@)));
    lemma_C18_scope_nearest_decorator_line_with_scope_text_decides(ls, d, d - 1);
}
/// C18 (scope text, "no scope keyword yields None" -> Function at the caller): when no line above the def contains `scope="` or
/// `scope='`, the answer is None
//@tags C18
pub proof fn lemma_C18_scope_none_without_scope_keyword(ls: Seq<Seq<char>>, d: int)
    requires 0 <= d <= ls.len(),
        forall|q: int| 0 <= q < d ==> find_k(trim_v(#[trigger] ls[q]), PatV::Str(scope_pat(0))) is None && find_k(trim_v(ls[q]), PatV::Str(scope_pat(1))) is None,
    ensures op_scope_txt(ls, d) is None,
    decreases d,
{
    if d > 0 { lemma_scope_none_from(ls, d - 1); }
}
proof fn lemma_scope_none_from(ls: Seq<Seq<char>>, i: int)
    requires -1 <= i < ls.len(),
        forall|q: int| 0 <= q <= i ==> find_k(trim_v(#[trigger] ls[q]), PatV::Str(scope_pat(0))) is None && find_k(trim_v(ls[q]), PatV::Str(scope_pat(1))) is None,
    ensures scope_from(ls, i) is None,
    decreases i + 1,
{
    if i >= 0 {
        let t = trim_v(ls[i]);
        assert(scope_try(t, scope_pat(0)) is None && scope_try(t, scope_pat(1)) is None);
        assert(scope_on_line(t, 2) is None);
        assert(scope_on_line(t, 1) is None);
        assert(scope_on_line(t, 0) is None);
        lemma_scope_none_from(ls, i - 1);
    }
}
/// C18 FINDING ("minus fixtures of narrower scope" is computed from a scope that may not be the fixture's): the deciding line
/// is ANY line that starts with '@' - `@other(scope="session")` above `@pytest.fixture` makes the function-scoped fixture
/// below session-scoped for the completion filter (scenario ss3_C18_scope_from_other_decorator).  Stated: a decorator line
/// with scope text two lines above the def, a decorator line WITHOUT scope text (the real `@pytest.fixture`) directly above it
//@tags C18
pub proof fn lemma_C18_FINDING_scope_taken_from_any_decorator_line(ls: Seq<Seq<char>>, d: int)
    requires 2 <= d <= ls.len(),
        trim_v(ls[d - 1]).len() != 0, occurs_at(trim_v(ls[d - 1]), PatV::Ch('@'), 0), scope_on_line(trim_v(ls[d - 1]), 0) is None,
        trim_v(ls[d - 2]).len() != 0, occurs_at(trim_v(ls[d - 2]), PatV::Ch('@'), 0), scope_on_line(trim_v(ls[d - 2]), 0) is Some,
    ensures op_scope_txt(ls, d) == scope_on_line(trim_v(ls[d - 2]), 0)->0,
{
    lemma_C18_scope_nearest_decorator_line_with_scope_text_decides(ls, d, d - 2);
}
/// C18 FINDING: the scan stops at the first line above the def that is neither blank nor starts with '@' - the `scope=` of a
/// decorator written over several lines (`@pytest.fixture(` / `    scope="session",` / `)`) is never seen: None, whatever is above
//@tags C18
pub proof fn lemma_C18_FINDING_scope_of_multi_line_decorator_not_seen(ls: Seq<Seq<char>>, d: int)
    requires 1 <= d <= ls.len(), trim_v(ls[d - 1]).len() != 0, !occurs_at(trim_v(ls[d - 1]), PatV::Ch('@'), 0),
    ensures op_scope_txt(ls, d) is None,
{ }

// ======== vacuity guards: must FAIL ==========================================================================================
/// an unclosed call is found at any distance
proof fn canary_usefixtures_found_at_any_distance(ls: Seq<Seq<char>>, cur: int, i: int)
    requires 0 <= i <= cur < ls.len(),
        find_k(ls[i], ufx_pat()) is Some, ufx_depth(ls, i, cur, find_k(ls[i], ufx_pat())->0).depth > 0,
        forall|q: int| i < q <= cur ==> find_k(#[trigger] ls[q], ufx_pat()) is None,
    ensures op_usefx_ctx(ls, cur) == Some(CtxV::Usefixtures),
{
    if sat_sub(cur, ufx_window()) <= i {
        assert forall|q: int| i < q <= cur implies ufx_here(ls, q, cur) is None by { assert(find_k(ls[q], ufx_pat()) is None); }
        lemma_C18_unclosed_usefixtures_call_in_window_is_usefixtures(ls, cur, i);
    }
}
/// every balanced call on the cursor line offers completions
proof fn canary_balanced_call_on_cursor_line_offers(ls: Seq<Seq<char>>, cur: int)
    requires 0 <= cur < ls.len(), find_k(ls[cur], ufx_pat()) is Some,
        pd_line(pd0(), ls[cur].skip(find_k(ls[cur], ufx_pat())->0)).depth == 0,
    ensures op_usefx_ctx(ls, cur) == Some(CtxV::Usefixtures),
{ }
/// the scope text is found through any lines
proof fn canary_scope_found_through_any_line(ls: Seq<Seq<char>>, d: int, i: int)
    requires 0 <= i < d <= ls.len(),
        trim_v(ls[i]).len() != 0, occurs_at(trim_v(ls[i]), PatV::Ch('@'), 0), scope_on_line(trim_v(ls[i]), 0) is Some,
        forall|q: int| i < q < d ==> scope_on_line(trim_v(#[trigger] ls[q]), 0) is None,
    ensures op_scope_txt(ls, d) == scope_on_line(trim_v(ls[i]), 0)->0,
{ }
/// "session" parses without the hypothesis about to_lowercase
proof fn canary_session_parses_without_lower_laws()
    ensures parse_scope_v("session"@) == Some(FixtureScope::Session),
{
    reveal_strlit("session");
}
/// the assumed specifications added by this unit (P20 rfind, P21 &&str pattern, P23 str extensionality, P24 to_lowercase) are
/// not contradictory
fn canary_false_from_assumed_specs3(a: &str, b: &str)
    ensures false,
{
    let r = a.rfind(')');
    let r2 = a.rfind(b);
    let pb = &b;
    let f = a.find(pb);
    let l = a.to_lowercase();
    let e = l.as_str() == b;
    proof { axiom_str_ext(a, b); lemma_rfind_k(a@, PatV::Ch(')')); lemma_ufx_lit(); lemma_scope_lits(); }
}

} // verus!
fn main() {}
