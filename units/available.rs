//@include prelude/header.rs
verus! {
global size_of usize == 8;  // A6: 64-bit target
pub mod pre {
use super::*;
//@include prelude/path.rs
//@include prelude/types.rs
//@include prelude/dashmap.rs
//@include prelude/hashset.rs
//@include prelude/atomic.rs
//@include prelude/dbview.rs
//@include prelude/hof.rs
//@include prelude/resolve_spec.rs
//@include prelude/sort.rs
//@include prelude/path_ext.rs
//@include prelude/avail_spec.rs
} // mod pre
use pre::*;

//@dbstruct definitions file_cache

//@include prelude/db_specs.rs

broadcast use {axiom_has_parent_nonempty, axiom_str_as_path, axiom_path_as_path};

impl FixtureDatabase {
    pub open spec fn avv(&self) -> AvV { AvV { defs: self.defs(), td: self.text_dom(), imp: imp_of(self.file_cache.m(), self.defs()) } }

    #[verifier::external_body]
    pub fn get_imported_fixtures(&self, file_path: &Path, visited: &mut HashSet<PathBuf>) -> (r: HashSet<String>)
        ensures r.s() == imported_set(self.file_cache.m(), self.defs(), pv(file_path))
    { unimplemented!() }

    #[verifier::external_body]
    pub(crate) fn get_canonical_path(&self, path: PathBuf) -> (r: PathBuf)
        ensures pbv(&r) == canon_pv(pbv(&path))
    { unimplemented!() }

/*@ extract src/fixtures/resolver.rs compute_available_fixtures
@tags C05 C18 C08
@ret r
@rename sort_by vp_sort_by
@closure 1 |a: &FixtureDefinition, b: &FixtureDefinition| -> (o: core::cmp::Ordering) ensures o == name_cmp()(*a, *b)
@sig
    requires wf_names(self.defs()),
@*/
}

} // verus!
fn main() {}
