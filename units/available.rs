//@include prelude/header.rs
verus! {
global size_of usize == 8;  // A6: 64-bit target
pub mod pre {
use super::*;
//@include prelude/path.rs
//@include prelude/types.rs
//@include prelude/dashmap.rs
//@include prelude/hashset.rs
//@include prelude/atomic.rs
//@include prelude/dbview.rs
//@include prelude/hof.rs
//@include prelude/resolve_spec.rs
//@include prelude/resolve_l2.rs
//@include prelude/sort.rs
//@include prelude/path_ext.rs
//@include prelude/avail_spec.rs
//@include prelude/avail_l2.rs
} // mod pre
use pre::*;

//@dbstruct definitions file_cache

//@include prelude/db_specs.rs

broadcast use {axiom_has_parent_nonempty, axiom_str_as_path, axiom_path_as_path, axiom_vp_le_usize};

impl FixtureDatabase {
    /// the part of the database compute_available_fixtures depends on
    pub open spec fn avv(&self) -> AvV { AvV { defs: self.defs(), td: self.text_dom(), imp: imp_of(self.file_cache.m(), self.defs()) } }

    // ASSUMED callee contract (imports.rs, owned by the imports unit): the result is an abstract function of the
    // cached texts, the definitions and the file; the effect on `visited` is unconstrained
    #[verifier::external_body]
    pub fn get_imported_fixtures(&self, file_path: &Path, visited: &mut HashSet<PathBuf>) -> (r: HashSet<String>)
        ensures r.s() == imported_set(self.file_cache.m(), self.defs(), pv(file_path))
    { unimplemented!() }

    // ASSUMED callee contract (mod.rs): canonical_path_cache / Path::canonicalize — abstract function of the path
    #[verifier::external_body]
    pub(crate) fn get_canonical_path(&self, path: PathBuf) -> (r: PathBuf)
        ensures pbv(&r) == canon_pv(pbv(&path))
    { unimplemented!() }

/*@ extract src/fixtures/resolver.rs compute_available_fixtures
@tags C05 C18 C08
@ret r
@rename sort_by vp_sort_by
@rename filter vp_filter
@closure filter:1 |def: &&FixtureDefinition| -> (b: bool) ensures b == (pbv(&def.file_path) == pv(file_path))
@closure 2 |def: &&FixtureDefinition| -> (k: usize) ensures k == def.line
@closure sort_by:1 |a: &FixtureDefinition, b: &FixtureDefinition| -> (o: core::cmp::Ordering) ensures o == name_cmp()(*a, *b)
@sig
    requires wf_names(self.defs()),
    ensures avail_post(dvs(r@), self.avv(), pv(file_path)),
@before for 1
    let ghost v = self.avv();
    let ghost file = pv(file_path);
    let ghost pick = rf_pick(v, file);
    let ghost m0 = self.definitions.m();
    let ghost mut done: Set<Seq<char>> = Set::empty();
    let ghost cond = p_same(file, fs_true());
    let ghost curf = rf_pick(v, file);
    let ghost nxtf = rf_after_same(v, file);
    proof {
        lemma_rest_init(pick);
        assert(dvs(available_fixtures@) =~= Seq::<DefV>::empty());
        lemma_step_start(pick, dvs(available_fixtures@), seen_names.s(), curf, nxtf);
    }
@loopvar 1 it
@loop 1
    invariant
        cond == p_same(file, fs_true()),
        wf_names(self.defs()), m0 == self.definitions.m(), v == self.avv(), file == pv(file_path), pick == rf_pick(v, file),
        forall|j: int| 0 <= j < it.seq().len() ==> m0.contains_key((#[trigger] it.seq()[j]).k@) && *it.seq()[j].v == m0[it.seq()[j].k@],
        forall|key: Seq<char>| m0.contains_key(key) ==> exists|j: int| 0 <= j < it.seq().len() && (#[trigger] it.seq()[j]).k@ == key,
        forall|j: int| 0 <= j < it.index@ ==> done.contains((#[trigger] it.seq()[j]).k@),
        step_inv(pick, dvs(available_fixtures@), seen_names.s(), done, curf, nxtf),
        phase_rel_best(v, curf, cond, nxtf),
        // this phase starts with an empty list and visits every key once: a visited name is never met again
        // (the `!seen_names.contains(..)` test of this phase is always true — the proof does not rely on it)
        forall|i: int, j: int| 0 <= i < j < it.seq().len() ==> (#[trigger] it.seq()[i]).k@ != (#[trigger] it.seq()[j]).k@,
        forall|n: Seq<char>| seen_names.s().contains(n) ==> done.contains(n),
        forall|n: Seq<char>| done.contains(n) ==> exists|j: int| 0 <= j < it.index@ && (#[trigger] it.seq()[j]).k@ == n,
@loopstart 1
    let ghost nm = entry.k@;
    let ghost av0 = dvs(available_fixtures@);
    let ghost seen0 = seen_names.s();
    let ghost mut bi: int = 0;
@before push 1
    proof {
        // `def` is what `.filter(same file).max_by_key(line)` returned: the last same-file definition of maximal line
        if seen0.contains(nm) {
            assert(done.contains(nm));
            let j = choose|j: int| 0 <= j < it.index@ && (#[trigger] it.seq()[j]).k@ == nm;
            assert(0 <= j < it.index@ && it.seq()[j].k@ == nm);
            assert(it.index@ < it.seq().len());
            assert(it.seq()[it.index@ as int].k@ == nm);
            assert(it.seq()[j].k@ != it.seq()[it.index@ as int].k@);
        }
        assert(!seen0.contains(nm));
        let s = entry.v@.as_ref();
        let i = vp_witness(s, def);
        let ds = v.defs[nm];
        assert(ds == dvs(entry.v@));
        assert forall|j: int| 0 <= j < ds.len() && cond(#[trigger] ds[j]) implies ds[j].line <= ds[i].line by { let y = s[j]; }
        assert forall|j: int| i < j < ds.len() && cond(#[trigger] ds[j]) implies ds[j].line < ds[i].line by { let y = s[j]; }
        assert(ds[i] == dv(def));
        assert(is_best(ds, cond, i));
        lemma_best_push(v, pick, av0, seen0, done, curf, nxtf, cond, nm, i);
        bi = i;
    }
@after insert 1
    proof {
        assert(dvs(available_fixtures@) =~= av0.push(v.defs[nm][bi]));
        assert(seen_names.s() == seen0.insert(nm));
    }
@loopend 1
    proof {
        if !seen_names.s().contains(nm) {
            // nothing pushed and the name was not in the list before: max_by_key returned None
            let ds = bucket(v.defs, nm);
            let s = entry.v@.as_ref();
            assert forall|j: int| 0 <= j < ds.len() implies !cond(#[trigger] ds[j]) by { let y = s[j]; }
        }
        lemma_best_done(v, pick, dvs(available_fixtures@), seen_names.s(), done, curf, nxtf, cond, nm);
        done = done.insert(nm);
        assert(it.seq()[it.index@ as int].k@ == nm);
    }
@before current_dir 1
    proof {
        lemma_best_end(v, pick, dvs(available_fixtures@), seen_names.s(), done, curf, nxtf, cond);
        lemma_walk_enter(v, pick, dvs(available_fixtures@), seen_names.s(), file);
    }
@loop 2
    invariant_except_break
        rest_inv(pick, dvs(available_fixtures@), seen_names.s(), rf_from_dir(v, pv(current_dir))),
    invariant
        wf_names(self.defs()), m0 == self.definitions.m(), v == self.avv(), file == pv(file_path), pick == rf_pick(v, file),
    ensures
        rest_inv(pick, dvs(available_fixtures@), seen_names.s(), rf_plugin(v)),
    decreases pv(current_dir).len(),
@after conftest_path 1
    let ghost dir = pv(current_dir);
    let ghost c = pbv(&conftest_path);
    let ghost cond = p_same(c, fs_true());
    let ghost curf = rf_from_dir(v, dir);
    let ghost nxtf = rf_dir_imp(v, dir);
    proof {
        assert(c == conftest_of(dir));
        done = Set::empty();
        assert(phase_rel(v, curf, cond, nxtf)) by {
            assert forall|n: Seq<char>| #[trigger] curf(n) == or_else(first_match(bucket(v.defs, n), cond), nxtf(n)) by { lemma_av_from_dir_unfold(v, dir, n); }
        }
        lemma_step_start(pick, dvs(available_fixtures@), seen_names.s(), curf, nxtf);
    }
@loopvar 3 it
@loop 3
    invariant
        dir == pv(current_dir), c == pbv(&conftest_path), c == conftest_of(dir), cond == p_same(c, fs_true()),
        wf_names(self.defs()), m0 == self.definitions.m(), v == self.avv(), file == pv(file_path), pick == rf_pick(v, file),
        forall|j: int| 0 <= j < it.seq().len() ==> m0.contains_key((#[trigger] it.seq()[j]).k@) && *it.seq()[j].v == m0[it.seq()[j].k@],
        forall|key: Seq<char>| m0.contains_key(key) ==> exists|j: int| 0 <= j < it.seq().len() && (#[trigger] it.seq()[j]).k@ == key,
        forall|j: int| 0 <= j < it.index@ ==> done.contains((#[trigger] it.seq()[j]).k@),
        step_inv(pick, dvs(available_fixtures@), seen_names.s(), done, curf, nxtf),
        phase_rel(v, curf, cond, nxtf),
@loopend 3
    proof {
        let nm = entry.k@;
        if !seen_names.s().contains(nm) {
            let ds = bucket(v.defs, nm);
            assert forall|j: int| 0 <= j < ds.len() implies !cond(#[trigger] ds[j]) by { let y = entry.v@[j]; }
        }
        lemma_scan_done(v, pick, dvs(available_fixtures@), seen_names.s(), done, curf, nxtf, cond, nm);
        done = done.insert(nm);
    }
@loopvar 4 it2
@loop 4
    invariant
        c == pbv(&conftest_path), cond == p_same(c, fs_true()),
        wf_names(self.defs()), m0 == self.definitions.m(), v == self.avv(), file == pv(file_path), pick == rf_pick(v, file),
        m0.contains_key(entry.k@), *entry.v == m0[entry.k@], fixture_name@ == entry.k@,
        it2.seq() == entry.v@.as_ref(),
        step_inv(pick, dvs(available_fixtures@), seen_names.s(), done, curf, nxtf),
        phase_rel(v, curf, cond, nxtf),
        !seen_names.s().contains(entry.k@) ==> forall|i: int| 0 <= i < it2.index@ ==> !cond(dv(&(#[trigger] entry.v@[i]))),
@before push 2
    let ghost av0 = dvs(available_fixtures@);
    let ghost seen0 = seen_names.s();
@after insert 2
    proof {
        let nm = entry.k@; let i = it2.index@ as int;
        assert(entry.v@[i] == *def);
        assert(v.defs[nm] == dvs(entry.v@));
        assert forall|j: int| 0 <= j < i implies !cond(#[trigger] v.defs[nm][j]) by { let y = entry.v@[j]; }
        assert(is_first(v.defs[nm], cond, i));
        lemma_scan_push(v, pick, av0, seen0, done, curf, nxtf, cond, nm, i);
        assert(dvs(available_fixtures@) =~= av0.push(v.defs[nm][i]));
        assert(seen_names.s() == seen0.insert(nm));
    }
@before contains_key 1
    proof {
        lemma_scan_end(v, pick, dvs(available_fixtures@), seen_names.s(), done, curf, nxtf, cond);
        if !av_gate(v, c) { lemma_imp_closed(v, pick, dvs(available_fixtures@), seen_names.s(), dir); }
    }
@before for 4
    let ghost imps = (v.imp)(c);
    proof {
        assert(av_gate(v, c));
        assert(imps == imported_fixtures.s());
        done = Set::empty();
        lemma_step_start(pick, dvs(available_fixtures@), seen_names.s(), rf_dir_imp(v, dir), rf_dir_par(v, dir));
    }
@loopvar 5 it6
@loop 5
    invariant
        wf_names(self.defs()), m0 == self.definitions.m(), v == self.avv(), file == pv(file_path), pick == rf_pick(v, file),
        dir == pv(current_dir), c == conftest_of(dir), av_gate(v, c), imps == (v.imp)(c),
        forall|j: int| 0 <= j < it6.seq().len() ==> imps.contains((#[trigger] it6.seq()[j])@),
        forall|n: Seq<char>| imps.contains(n) ==> exists|j: int| 0 <= j < it6.seq().len() && (#[trigger] it6.seq()[j])@ == n,
        forall|j: int| 0 <= j < it6.index@ ==> done.contains((#[trigger] it6.seq()[j])@),
        step_inv(pick, dvs(available_fixtures@), seen_names.s(), done, rf_dir_imp(v, dir), rf_dir_par(v, dir)),
@loopstart 5
    let ghost nm = fixture_name@;
    let ghost av0 = dvs(available_fixtures@);
    let ghost seen0 = seen_names.s();
    let ghost done0 = done;
    let ghost mut pushed = false;
    proof { assert(imps.contains(nm)); }
@after insert 3
    proof {
        assert(definitions.r@[0] == *def);
        assert(v.defs[nm] == dvs(definitions.r@));
        lemma_imp_push(v, pick, av0, seen0, done0, dir, nm);
        assert(dvs(available_fixtures@) =~= av0.push(v.defs[nm][0]));
        assert(seen_names.s() == seen0.insert(nm));
        pushed = true;
    }
@loopend 5
    proof {
        if !pushed {
            assert(dvs(available_fixtures@) == av0 && seen_names.s() == seen0);
            assert(seen0.contains(nm) || bucket(v.defs, nm).len() == 0);
            lemma_imp_skip(v, pick, av0, seen0, done0, dir, nm);
        }
        done = done0.insert(nm);
    }
@after for 4
    proof { lemma_imp_end(v, pick, dvs(available_fixtures@), seen_names.s(), done, dir); }
@before parent 2
    proof { lemma_walk_next(v, pick, dvs(available_fixtures@), seen_names.s(), dir); }
@before for 5
    let ghost cond = p_plugin(fs_true());
    let ghost curf = rf_plugin(v);
    let ghost nxtf = rf_third(v);
    proof {
        done = Set::empty();
        lemma_step_start(pick, dvs(available_fixtures@), seen_names.s(), curf, nxtf);
    }
@loopvar 6 it
@loop 6
    invariant
        cond == p_plugin(fs_true()),
        wf_names(self.defs()), m0 == self.definitions.m(), v == self.avv(), file == pv(file_path), pick == rf_pick(v, file),
        forall|j: int| 0 <= j < it.seq().len() ==> m0.contains_key((#[trigger] it.seq()[j]).k@) && *it.seq()[j].v == m0[it.seq()[j].k@],
        forall|key: Seq<char>| m0.contains_key(key) ==> exists|j: int| 0 <= j < it.seq().len() && (#[trigger] it.seq()[j]).k@ == key,
        forall|j: int| 0 <= j < it.index@ ==> done.contains((#[trigger] it.seq()[j]).k@),
        step_inv(pick, dvs(available_fixtures@), seen_names.s(), done, curf, nxtf),
        phase_rel(v, curf, cond, nxtf),
@loopend 6
    proof {
        let nm = entry.k@;
        if !seen_names.s().contains(nm) {
            let ds = bucket(v.defs, nm);
            assert forall|j: int| 0 <= j < ds.len() implies !cond(#[trigger] ds[j]) by { let y = entry.v@[j]; }
        }
        lemma_scan_done(v, pick, dvs(available_fixtures@), seen_names.s(), done, curf, nxtf, cond, nm);
        done = done.insert(nm);
    }
@loopvar 7 it2
@loop 7
    invariant
        cond == p_plugin(fs_true()),
        wf_names(self.defs()), m0 == self.definitions.m(), v == self.avv(), file == pv(file_path), pick == rf_pick(v, file),
        m0.contains_key(entry.k@), *entry.v == m0[entry.k@], fixture_name@ == entry.k@,
        it2.seq() == entry.v@.as_ref(),
        step_inv(pick, dvs(available_fixtures@), seen_names.s(), done, curf, nxtf),
        phase_rel(v, curf, cond, nxtf),
        !seen_names.s().contains(entry.k@) ==> forall|i: int| 0 <= i < it2.index@ ==> !cond(dv(&(#[trigger] entry.v@[i]))),
@before push 4
    let ghost av0 = dvs(available_fixtures@);
    let ghost seen0 = seen_names.s();
@after insert 4
    proof {
        let nm = entry.k@; let i = it2.index@ as int;
        assert(entry.v@[i] == *def);
        assert(v.defs[nm] == dvs(entry.v@));
        assert forall|j: int| 0 <= j < i implies !cond(#[trigger] v.defs[nm][j]) by { let y = entry.v@[j]; }
        assert(is_first(v.defs[nm], cond, i));
        lemma_scan_push(v, pick, av0, seen0, done, curf, nxtf, cond, nm, i);
        assert(dvs(available_fixtures@) =~= av0.push(v.defs[nm][i]));
        assert(seen_names.s() == seen0.insert(nm));
    }
@before for 7
    let ghost cond0 = cond;
    let ghost curf0 = curf;
    let ghost nxtf0 = nxtf;
    let ghost cond = p_third(fs_true());
    let ghost curf = rf_third(v);
    let ghost nxtf = rf_none();
    proof {
        lemma_scan_end(v, pick, dvs(available_fixtures@), seen_names.s(), done, curf0, nxtf0, cond0);
        done = Set::empty();
        lemma_step_start(pick, dvs(available_fixtures@), seen_names.s(), curf, nxtf);
    }
@loopvar 8 it
@loop 8
    invariant
        cond == p_third(fs_true()),
        wf_names(self.defs()), m0 == self.definitions.m(), v == self.avv(), file == pv(file_path), pick == rf_pick(v, file),
        forall|j: int| 0 <= j < it.seq().len() ==> m0.contains_key((#[trigger] it.seq()[j]).k@) && *it.seq()[j].v == m0[it.seq()[j].k@],
        forall|key: Seq<char>| m0.contains_key(key) ==> exists|j: int| 0 <= j < it.seq().len() && (#[trigger] it.seq()[j]).k@ == key,
        forall|j: int| 0 <= j < it.index@ ==> done.contains((#[trigger] it.seq()[j]).k@),
        step_inv(pick, dvs(available_fixtures@), seen_names.s(), done, curf, nxtf),
        phase_rel(v, curf, cond, nxtf),
@loopend 8
    proof {
        let nm = entry.k@;
        if !seen_names.s().contains(nm) {
            let ds = bucket(v.defs, nm);
            assert forall|j: int| 0 <= j < ds.len() implies !cond(#[trigger] ds[j]) by { let y = entry.v@[j]; }
        }
        lemma_scan_done(v, pick, dvs(available_fixtures@), seen_names.s(), done, curf, nxtf, cond, nm);
        done = done.insert(nm);
    }
@loopvar 9 it2
@loop 9
    invariant
        cond == p_third(fs_true()),
        wf_names(self.defs()), m0 == self.definitions.m(), v == self.avv(), file == pv(file_path), pick == rf_pick(v, file),
        m0.contains_key(entry.k@), *entry.v == m0[entry.k@], fixture_name@ == entry.k@,
        it2.seq() == entry.v@.as_ref(),
        step_inv(pick, dvs(available_fixtures@), seen_names.s(), done, curf, nxtf),
        phase_rel(v, curf, cond, nxtf),
        !seen_names.s().contains(entry.k@) ==> forall|i: int| 0 <= i < it2.index@ ==> !cond(dv(&(#[trigger] entry.v@[i]))),
@before push 5
    let ghost av0 = dvs(available_fixtures@);
    let ghost seen0 = seen_names.s();
@after insert 5
    proof {
        let nm = entry.k@; let i = it2.index@ as int;
        assert(entry.v@[i] == *def);
        assert(v.defs[nm] == dvs(entry.v@));
        assert forall|j: int| 0 <= j < i implies !cond(#[trigger] v.defs[nm][j]) by { let y = entry.v@[j]; }
        assert(is_first(v.defs[nm], cond, i));
        lemma_scan_push(v, pick, av0, seen0, done, curf, nxtf, cond, nm, i);
        assert(dvs(available_fixtures@) =~= av0.push(v.defs[nm][i]));
        assert(seen_names.s() == seen0.insert(nm));
    }
@after for 7
    let ghost av_pre = available_fixtures@;
    proof { lemma_scan_end(v, pick, dvs(available_fixtures@), seen_names.s(), done, curf, nxtf, cond); }
@before sort_by 1
    proof { lemma_name_cmp_total(); }
@return tail
    lemma_avail_final(v, file, av_pre, seen_names.s(), available_fixtures@, sort_perm(av_pre, available_fixtures@));
@*/

/*@ extract src/fixtures/resolver.rs resolve_fixture_for_file
@tags C05 C18 C08
@ret r
@rename count vp_count
@nocontinue 1
@closure find:1 |d: &&FixtureDefinition| -> (b: bool) ensures b == (pbv(&d.file_path) == pv(file_path))
@closure find:2 |d: &&FixtureDefinition| -> (b: bool) ensures b == x_ws_plugin(*d)
@closure find:3 |d: &&FixtureDefinition| -> (b: bool) ensures b == x_third(*d)
@sig
    ensures opt_dv(r) == op_resolve_ff(bucket(self.defs(), fixture_name@), pv(file_path), canon_pv(pv(file_path))),
@after definitions 1
    let ghost file = pv(file_path);
    let ghost cfile = canon_pv(file);
    let ghost dsx = definitions.r@;
    let ghost ds = dvs(dsx);
    let ghost cand = ff_cand(cfile);
    proof { assert(ds == bucket(self.defs(), fixture_name@)); }
@return 1
    let s = dsx.as_ref();
    let i = choose|i: int| 0 <= i < s.len() && s[i] == def && (forall|j: int| 0 <= j < i ==> pbv(&(#[trigger] s[j]).file_path) != file);
    assert forall|j: int| 0 <= j < i implies !p_same(file, fs_true())(#[trigger] ds[j]) by { let y = s[j]; }
    assert(ds[i] == dv(def));
    lemma_first_idx(ds, p_same(file, fs_true()), i);
@before get_canonical_path 1
    proof {
        let s = dsx.as_ref();
        assert forall|j: int| 0 <= j < ds.len() implies !p_same(file, fs_true())(#[trigger] ds[j]) by { let y = s[j]; }
        lemma_first_none(ds, p_same(file, fs_true()));
    }
@before for 1
    proof { assert(pbv(&file_path) == cfile); assert(ds.take(0) =~= Seq::<DefV>::empty()); }
@loopvar 1 it
@loop 1
    invariant
        dsx == definitions.r@, ds == dvs(dsx), it.seq() == dsx.as_ref(), pbv(&file_path) == cfile, cand == ff_cand(cfile),
        opt_ref_dv(best_conftest) == ff_best(ds.take(it.index@ as int), cand),
        best_conftest is Some ==> best_depth as int == ff_depth(dv(best_conftest->0)),
@loopstart 1
    let ghost i0 = it.index@ as int;
    proof {
        assert(dsx[i0] == *def);
        assert(ds[i0] == dv(def));
        lemma_ff_best_step(ds, cand, i0);
    }
@after for 1
    proof { assert(ds.take(ds.len() as int) =~= ds); }
@return 2
    assert(first_match(ds, p_same(file, fs_true())) is None);
@return 3
    let s = dsx.as_ref();
    let i = choose|i: int| 0 <= i < s.len() && s[i] == def && (forall|j: int| 0 <= j < i ==> !x_ws_plugin(#[trigger] s[j]));
    assert forall|j: int| 0 <= j < i implies !p_plugin(fs_true())(#[trigger] ds[j]) by { let y = s[j]; }
    assert(ds[i] == dv(def));
    lemma_first_idx(ds, p_plugin(fs_true()), i);
@before find 3
    proof {
        let s = dsx.as_ref();
        assert forall|j: int| 0 <= j < ds.len() implies !p_plugin(fs_true())(#[trigger] ds[j]) by { let y = s[j]; }
        lemma_first_none(ds, p_plugin(fs_true()));
    }
@return 4
    let s = dsx.as_ref();
    let i = choose|i: int| 0 <= i < s.len() && s[i] == def && (forall|j: int| 0 <= j < i ==> !x_third(#[trigger] s[j]));
    assert forall|j: int| 0 <= j < i implies !p_third(fs_true())(#[trigger] ds[j]) by { let y = s[j]; }
    assert(ds[i] == dv(def));
    lemma_first_idx(ds, p_third(fs_true()), i);
@return tail
    let s = dsx.as_ref();
    assert forall|j: int| 0 <= j < ds.len() implies !p_third(fs_true())(#[trigger] ds[j]) by { let y = s[j]; }
    lemma_first_none(ds, p_third(fs_true()));
    if ds.len() > 0 { assert(ds[0] == dv(&dsx[0])); }
@*/
}

/// H3 at the database level: is_fixture_imported_in_file (abstraction imported_in, used by the resolver) agrees with
/// membership in get_imported_fixtures (abstraction imported_set, used by the view).  A HYPOTHESIS of the
/// agreement lemma — both are abstract callee contracts here; relating them is the imports unit's business.
pub open spec fn imports_consistent(db: &FixtureDatabase, n: Seq<char>) -> bool {
    forall|c: PV| #[trigger] imported_in(db.file_cache.m(), db.defs(), n, c) == imported_set(db.file_cache.m(), db.defs(), c).contains(n)
}
//@tags C05
/// (b) stated on the database: what compute_available_fixtures lists for name n from `file` is what
/// find_closest_definition(file, n) returns — under H3, H4 (no hypothesis on how often the file defines n)
pub proof fn lemma_C05_b_db(db: &FixtureDatabase, file: PV, n: Seq<char>)
    requires imports_consistent(db, n), pv_has_parent(file) && file.len() > 0,
    ensures avail_pick(db.avv(), file, n) == op_resolve(bucket(db.defs(), n), file, db.prov(n), fs_true())
{
    let v = db.avv(); let prov = db.prov(n);
    assert forall|c: PV| #[trigger] prov(c) == (av_gate(v, c) && (v.imp)(c).contains(n)) by {
        assert(imported_in(db.file_cache.m(), db.defs(), n, c) == imported_set(db.file_cache.m(), db.defs(), c).contains(n));
    }
    lemma_C05_b_view_agrees_with_goto(v, file, prov, n);
}

} // verus!
fn main() {}
