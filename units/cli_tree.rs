//@include prelude/header.rs
//@include prelude/clitree_fmt_macro.rs
verus! {
// Unit cli_tree — C20 / C04 (`fixtures list`): src/fixtures/cli.rs print_fixtures_tree, print_tree_node,
// has_visible_fixtures.  (compute_definition_usage_counts / get_unused_fixtures: unit cli_unused; the call of
// compute_definition_usage_counts is a //@stub carrying the contract PROVED there.)
//   L1: has_visible_fixtures == op_visible;  print_tree_node: out' == out + op_node(ctx, dirs, path, prefix, is_last, is_root);
//       print_fixtures_tree: for every input li read off the index (list_inputs) list_post(out, out', li): out' == out +
//       op_list_out(li, counts / autouse keys re-keyed along SOME enumeration orders of the two hash tables)
//       (prelude/clitree_spec.rs, clitree_list_spec.rs; loop lemmas prelude/clitree_list_l1.rs, all PROVED)
//   L2: prelude/clitree_l2.rs (lines per file, filters partition, counts == compute_definition_usage_counts == op_refs,
//       --only-unused vs `fixtures unused`, cli.rs re-label test vs mod.rs is_editable_install_third_party, only below root)
//       prelude/clitree_l2_order.rs (the output is a function of the index: hash enumeration order is irrelevant)
//   stdout model: `out()` = uninterpreted function of the database value; every println! is replaced (@replace, token for
//       token) by a stand-in of prelude/clitree_out.rs that appends ONE event holding the views of the values handed to
//       println!; receivers become `&mut self` (T3).  A println! that is not replaced is rejected by Verus (UNDECIDED).
//   assumed: prelude/clitree_btree.rs (BT1, BT2), prelude/clitree_shims.rs (CT1..CT12), prelude/clitree_out.rs (CT11), the
//       @wrapexpr helpers below (CT10), and the shared preludes path / path_ext / path_strip / dashmap / hashset /
//       hashmap / hashmap_ext / option_ext / iter_ext.
//   anchors: `@after for N` counts `for` tokens (the `while let` of the ancestor walk is not one): loop 17 = 16th for,
//       loop 19 = 18th for.  Removing a loop shifts them: UNDECIDED, never green.
global size_of usize == 8;  // A6: 64-bit target
pub mod pre {
use super::*;
//@include prelude/path.rs
//@include prelude/path_ext.rs
//@include prelude/path_strip.rs
//@include prelude/types.rs
//@include prelude/dashmap.rs
//@include prelude/hashset.rs
//@include prelude/hashmap.rs
//@include prelude/hashmap_ext.rs
//@include prelude/option_ext.rs
//@include prelude/dbview.rs
//@include prelude/hof.rs
//@include prelude/iter_ext.rs
//@include prelude/resolve_spec.rs
//@include prelude/text.rs
//@include prelude/refs_spec.rs
//@include prelude/resolve_l2.rs
//@include prelude/cli_spec.rs
//@include prelude/cli_l2.rs
//@include prelude/clitree_btree.rs
//@include prelude/clitree_shims.rs
//@include prelude/clitree_spec.rs
//@include prelude/clitree_list_spec.rs
//@include prelude/clitree_list_l1.rs
//@include prelude/clitree_l2.rs
//@include prelude/clitree_l2_order.rs
} // mod pre
use pre::*;

// src/fixtures/mod.rs, taken from the source at generation time
//@item src/fixtures/mod.rs struct EditableInstall

//@dbstruct definitions file_cache usages usage_by_fixture editable_install_roots workspace_root

//@include prelude/db_specs.rs
//@include prelude/clitree_out.rs

broadcast use {axiom_has_parent_nonempty, axiom_path_as_path, axiom_pathbuf_ref_as_path_ct, axiom_default_vec, axiom_default_btreeset,
    axiom_disp_str_ref, axiom_disp_string_ct, axiom_disp_usize, axiom_disp_colored, axiom_refstring_to_string, axiom_colored_to_string,
    axiom_ord_v_pathbuf, axiom_string_as_path,
    vstd::std_specs::iter::filter_postcondition, vstd::std_specs::iter::map_postcondition, lemma_take_filter_index_is_filter};

/// the context print_tree_node / has_visible_fixtures are handed, as a view
pub open spec fn ctx_of(file_fixtures: &BTreeMap<PathBuf, BTreeSet<String>>, tree: &BTreeMap<PathBuf, Vec<PathBuf>>,
        counts: &HashMap<(PathBuf, String), usize>, autouse: &HashSet<(PathBuf, String)>, skip: bool, only: bool) -> Ctx {
    Ctx { ff: ffv(file_fixtures.m()), tree: treev(tree.m()), cm: counts.m(), au: autouse.s(), skip: skip, only: only }
}

impl FixtureDatabase {
    pub open spec fn byfix(&self) -> Map<Seq<char>, Seq<(PV, UseV)>> { byfix_view(self.usage_by_fixture.m()) }
    pub open spec fn uses(&self) -> Map<PV, Seq<UseV>> { usages_view(self.usages.m()) }
    pub open spec fn provf(&self) -> spec_fn(Seq<char>) -> spec_fn(PV) -> bool { |n: Seq<char>| self.prov(n) }

/*@ extract src/fixtures/cli.rs has_visible_fixtures
@tags C20
@ret r
@rename any vp_any
@closure any:1 |fixture_name: &String| -> (b: bool) ensures b == keep(ctx, pv(path), fixture_name@)
@closure any:2 |child: &PathBuf| -> (b: bool) requires tmeasure(ctx.tree, pbv(child)) < tmeasure(ctx.tree, pv(path)), tree_wf(ctx.tree) ensures b == op_visible(ctx, pbv(child))
@replace 1 `return fixtures.iter()` => `let it0 = fixtures.iter(); let ghost rem = it0.remaining(); let any_r = it0`
@sig
    requires tree_wf(treev(tree.m())),
    ensures r == op_visible(ctx_of(file_fixtures, tree, definition_usage_counts, autouse_fixtures, skip_unused, only_unused), pv(path)),
    decreases tmeasure(treev(tree.m()), pv(path)),
@start
    let ghost ctx = ctx_of(file_fixtures, tree, definition_usage_counts, autouse_fixtures, skip_unused, only_unused);
    let ghost p = pv(path);
@before fixtures 2
    let ghost names = sorted_strs(fixtures.s());
    proof { axiom_sorted_strs(fixtures.s()); assert(ctx.ff[p] == fixtures.s()); }
@after fixtures 2
    proof {
        assert(kviews(rem) == names);
        if any_r {
            let i = choose|i: int| 0 <= i < rem.len() && keep(ctx, p, (#[trigger] rem[i])@);
            assert(names[i] == rem[i]@);
            assert(ctx.ff[p].contains(names[i]));
        } else {
            assert forall|n: Seq<char>| ctx.ff[p].contains(n) implies !#[trigger] keep(ctx, p, n) by {
                let i = choose|i: int| 0 <= i < names.len() && #[trigger] names[i] == n;
                assert(names[i] == rem[i]@);
            }
        }
    }
    return any_r;
@replace 1 `children.iter()` => `let it1 = children.iter(); let any_k = it1`
@after children 2
    ;
    proof {
        let cs = children@.as_ref();
        if any_k {
            assert(exists|i: int| 0 <= i < cs.len() && op_visible(ctx, pbv(#[trigger] cs[i])));
            let i = choose|i: int| 0 <= i < cs.len() && op_visible(ctx, pbv(#[trigger] cs[i]));
            assert(ctx.tree[p][i] == pbv(cs[i]));
            assert(kids_visible(ctx, p));
        } else {
            assert forall|j: int| 0 <= j < ctx.tree[p].len() implies !#[trigger] op_visible(ctx, ctx.tree[p][j]) by {
                assert(ctx.tree[p][j] == pbv(cs[j]));
            }
            assert(!kids_visible(ctx, p));
        }
        assert(!ctx.ff.contains_key(p));
        assert(ctx.tree.contains_key(p));
        assert(tree_wf(ctx.tree));
        assert(op_visible(ctx, p) == (exists|j: int| 0 <= j < ctx.tree[p].len() && op_visible(ctx, #[trigger] ctx.tree[p][j])));
        assert(op_visible(ctx, p) == kids_visible(ctx, p));
    }
    any_k
@before children 2
    proof {
        assert(ctx.tree[p] == pbvs(children@));
        assert forall|j: int| 0 <= j < children@.len() implies tmeasure(ctx.tree, pbv(#[trigger] children@.as_ref()[j])) < tmeasure(ctx.tree, p) by {
            assert(pbv(children@.as_ref()[j]) == ctx.tree[p][j]);
            lemma_tmeasure_child(ctx.tree, p, j);
        }
    }
@*/

/*@ extract src/fixtures/cli.rs print_tree_node
@tags C20 C04
@recv mut
@replace 1 `use colored::Colorize;` => ``
@wrapexpr 1 `path.file_name().and_then(|n| n.to_str()).unwrap_or("?")` => `Self::vp_name_or_q(path)` with fn vp_name_or_q<'a>(path: &'a Path) -> (r: &'a str) ensures r@ == name_or_q(pv(path))
@rename enumerate vp_enumerate
@rename any vp_any
@replace 1 `let fixture_vec: Vec<_> = fixtures .iter()` => `let it0 = fixtures.iter(); let ghost rem = it0.remaining(); let fixture_vec: Vec<_> = it0`
@closure filter:1 |fixture_name: &&String| -> (b: bool) ensures b == keep(ctx, pv(path), fixture_name@)
@closure any:1 |child: &PathBuf| -> (b: bool) requires tree_wf(ctx.tree) ensures b == op_visible(ctx, pbv(child))
@replace 1 `println!( "{}{}{} ({} fixtures)", prefix, connector, file_display, fixture_vec.len() )` => `self.vp_out_file(prefix, connector, &file_display, fixture_vec.len())`
@replace 1 `println!( "{}{}{} ({})", new_prefix, fixture_connector, fixture_display, usage_info )` => `self.vp_out_fixture(&new_prefix, fixture_connector, &fixture_display, &usage_info)`
@replace 1 `println!("{}{}{}", prefix, connector, name)` => `self.vp_out_bare(prefix, connector, name)`
@replace 1 `println!("{}{}{}", prefix, connector, dir_display)` => `self.vp_out_dir(prefix, connector, &dir_display)`
@sig
    requires tree_wf(treev(tree.m())),
    ensures
        final(self).out() == old(self).out() + op_node(ctx_of(file_fixtures, tree, definition_usage_counts, autouse_fixtures, skip_unused, only_unused), editable_dirs.s(), pv(path), prefix@, is_last, is_root_level),
        same_index(*final(self), *old(self)),
    decreases tmeasure(treev(tree.m()), pv(path)),
@start
    let ghost ctx = ctx_of(file_fixtures, tree, definition_usage_counts, autouse_fixtures, skip_unused, only_unused);
    let ghost dirs = editable_dirs.s();
    let ghost p = pv(path);
    let ghost o0 = self.out();
    let ghost db0 = *self;
    proof { assert(o0 + Seq::<Ev>::empty() =~= o0); }
@after fixture_vec 1
    let ghost names = kept(ctx, p);
    proof {
        axiom_sorted_strs(fixtures.s());
        assert(ctx.ff[p] == fixtures.s());
        let pr = |x: &String| keep(ctx, p, x@);
        assert(fixture_vec@ =~= rem.filter(pr));
        lemma_filter_map_commute(rem, |x: &String| x@, pr, keep_fn(ctx, p));
        assert(rem.map_values(|x: &String| x@) =~= kviews(rem));
        assert(kviews(fixture_vec@) =~= names);
    }
@loopvar 1 itf
@loop 1
    invariant
        ctx == ctx_of(file_fixtures, tree, definition_usage_counts, autouse_fixtures, skip_unused, only_unused), p == pv(path),
        ctx.ff.contains_key(p), tree_wf(ctx.tree),
        names == kept(ctx, p), kviews(fixture_vec@) == names, names.len() > 0,
        itf.seq().len() == fixture_vec@.len(),
        forall|k: int| 0 <= k < itf.seq().len() ==> (#[trigger] itf.seq()[k]).0 == k && *itf.seq()[k].1 == fixture_vec@[k],
        new_prefix@ == child_prefix(prefix@, is_last, is_root_level),
        same_index(*self, db0),
        self.out() == o0 + seq![Ev::File { prefix: prefix@, connector: connector_of(is_last, is_root_level), display: file_disp_v(name_or_q(p)), n: names.len() as usize }]
            + fixture_evs(ctx, p, new_prefix@, names, itf.index@ as int),
@loopstart 1
    let ghost jj = itf.index@ as int;
    proof { assert(**fixture_name == fixture_vec@[jj]); assert(fixture_name@ == names[jj]); assert(j == jj); }
@loopend 1
    proof {
        assert(fixture_evs(ctx, p, new_prefix@, names, jj + 1) =~= fixture_evs(ctx, p, new_prefix@, names, jj).push(fixture_ev(ctx, p, new_prefix@, names, jj)));
    }
@after for 1
    proof {
        assert(op_node(ctx, dirs, p, prefix@, is_last, is_root_level) == seq![Ev::File { prefix: prefix@, connector: connector_of(is_last, is_root_level), display: file_disp_v(name_or_q(p)), n: names.len() as usize }]
            + fixture_evs(ctx, p, child_prefix(prefix@, is_last, is_root_level), names, names.len() as int));
    }
@after has_visible_children 1
    proof {
        let cs = children@.as_ref();
        assert(ctx.tree[p] == pbvs(children@));
        if has_visible_children {
            assert(exists|i: int| 0 <= i < cs.len() && op_visible(ctx, pbv(#[trigger] cs[i])));
            let i = choose|i: int| 0 <= i < cs.len() && op_visible(ctx, pbv(#[trigger] cs[i]));
            assert(ctx.tree[p][i] == pbv(cs[i]));
            assert(kids_visible(ctx, p));
        } else {
            assert forall|j: int| 0 <= j < ctx.tree[p].len() implies !op_visible(ctx, #[trigger] ctx.tree[p][j]) by {
                assert(ctx.tree[p][j] == pbv(cs[j]));
            }
            assert(!kids_visible(ctx, p));
        }
    }
@after for 2
    proof {
        assert(op_node(ctx, dirs, p, prefix@, is_last, is_root_level) == seq![Ev::Dir { prefix: prefix@, connector: connector_of(is_last, is_root_level), display: dir_disp_v(name_or_q(p), dirs.contains(p)) }]
            + op_kids(ctx, dirs, p, child_prefix(prefix@, is_last, is_root_level), ctx.tree[p].len()));
    }
@loopvar 2 itc
@loop 2
    invariant
        ctx == ctx_of(file_fixtures, tree, definition_usage_counts, autouse_fixtures, skip_unused, only_unused), p == pv(path), dirs == editable_dirs.s(),
        !ctx.ff.contains_key(p), ctx.tree.contains_key(p), tree_wf(ctx.tree), tree_wf(treev(tree.m())), ctx.tree[p] == pbvs(children@),
        itc.seq().len() == children@.len(),
        forall|k: int| 0 <= k < itc.seq().len() ==> (#[trigger] itc.seq()[k]).0 == k && *itc.seq()[k].1 == children@[k],
        new_prefix@ == child_prefix(prefix@, is_last, is_root_level),
        same_index(*self, db0),
        self.out() == o0 + seq![Ev::Dir { prefix: prefix@, connector: connector_of(is_last, is_root_level), display: dir_disp_v(name_or_q(p), dirs.contains(p)) }]
            + op_kids(ctx, dirs, p, new_prefix@, itc.index@ as nat),
@loopstart 2
    let ghost jj = itc.index@ as int;
    let ghost o1 = self.out();
    proof {
        assert(*child == children@[jj]); assert(j == jj);
        assert(ctx.tree[p][jj] == pbv(child));
        lemma_tmeasure_child(ctx.tree, p, jj);
    }
@loopend 2
    proof {
        assert(self.out() == o1 + op_node(ctx, dirs, pbv(child), new_prefix@, jj == children@.len() - 1, false));
        assert(op_kids(ctx, dirs, p, new_prefix@, (jj + 1) as nat) == op_kids(ctx, dirs, p, new_prefix@, jj as nat) + op_node(ctx, dirs, ctx.tree[p][jj], new_prefix@, jj == ctx.tree[p].len() - 1, false));
    }
@*/

//@stub cli_unused compute_definition_usage_counts

/*@ extract src/fixtures/cli.rs print_fixtures_tree
@tags C20 C04
@recv mut
@rename enumerate vp_enumerate
@rename cloned vp_cloned
@derefcmp parent root_path 1
@derefcmp parent root_path 2
@derefcmp parent root_path 3
@wrapexpr 1 `parent.as_os_str().is_empty()` => `Self::vp_empty_path1(parent)` with fn vp_empty_path1(parent: &Path) -> (r: bool) ensures r == (pv(parent).len() == 0)
@wrapexpr 2 `parent.as_os_str().is_empty()` => `Self::vp_empty_path2(parent)` with fn vp_empty_path2(parent: &Path) -> (r: bool) ensures r == (pv(parent).len() == 0)
@wrapexpr 1 `install.raw_package_name.split('.').collect()` => `Self::vp_split_dots(install)` with fn vp_split_dots<'a>(install: &'a EditableInstall) -> (r: Vec<&'a str>) ensures strvs(r@) == split_dot(install.raw_package_name@)
@wrapexpr 1 `part.replace('-', "_")` => `Self::vp_dash_us(part)` with fn vp_dash_us(part: &&str) -> (r: String) ensures r@ == dash_us(part@)
@wrapexpr 1 `key.clone()` => `Self::vp_clone_key1(key)` with fn vp_clone_key1(key: &(PathBuf, String)) -> (r: (PathBuf, String)) ensures r.kview() == key.kview()
@wrapexpr 2 `key.clone()` => `Self::vp_clone_key2(key)` with fn vp_clone_key2(key: &(PathBuf, String)) -> (r: (PathBuf, String)) ensures r.kview() == key.kview()
@wrapexpr_opt 1 `for children in tree.values_mut() { children.sort(); }` => `Self::vp_sort_children(&mut tree);` with fn vp_sort_children(tree: &mut BTreeMap<PathBuf, Vec<PathBuf>>) ensures final(tree).m().dom() == old(tree).m().dom(), forall|q: PV| old(tree).m().contains_key(q) ==> pbvs((#[trigger] final(tree).m()[q])@).to_multiset() == pbvs(old(tree).m()[q]@).to_multiset() && asc_le(pbvs(final(tree).m()[q]@))
@replace 1 `println!("Fixtures tree for: {}", root_path.display())` => `self.vp_out_header(root_path)`
@replace 1 `println!()` => `self.vp_out_blank()`
@replace 1 `println!("No fixtures found in this directory.")` => `self.vp_out_none()`
@closure filter:1 |p: &&PathBuf| -> (b: bool) ensures b == pv_is_prefix(pbv(&install.source_root), pbv(*p))
@closure filter:2 |p: &&PathBuf| -> (b: bool) ensures b == top_fn(pv(root_path))(pbv(*p))
@sig
    requires unique_at_line(self.defs()), total_usages(self.uses()) <= usize::MAX,
    ensures
        same_index(*final(self), *old(self)),
        forall|li: ListIn| list_inputs(li, old(self).defs(), old(self).uses(), old(self).provf(), instvs(old(self).editable_install_roots@),
                opt_pbv(old(self).workspace_root), pv(root_path), skip_unused, only_unused) ==> #[trigger] list_post(old(self).out(), final(self).out(), li),
@start
    let ghost db0 = *self;
    let ghost o0 = self.out();
    let ghost m0 = self.definitions.m();
    let ghost defs = self.defs();
    let ghost uses = self.uses();
    let ghost provf = self.provf();
    let ghost mut done1: Set<Seq<char>> = Set::empty();
    let ghost mut done3: Set<Seq<char>> = Set::empty();
    let ghost x0: Seq<char> = Seq::empty();
    let ghost mut insts: Seq<InstV> = Seq::empty();
    let ghost mut wsv: Option<PV> = None;
    let ghost mut keys0: Seq<PV> = Seq::empty();
    let ghost mut rv: Seq<(PV, PV)> = Seq::empty();
    let ghost mut dirs: Set<PV> = Set::empty();
    let ghost mut kss: Seq<Seq<CKey>> = Seq::empty();
    let ghost mut akss: Seq<Seq<CKey>> = Seq::empty();
    let ghost mut mvs: Seq<(CKey, CKey)> = Seq::empty();
    let ghost mut amvs: Seq<(CKey, CKey)> = Seq::empty();
@after file_fixtures 1
    proof {
        assert(ffv(file_fixtures.m()) =~= Map::<PV, Set<Seq<char>>>::empty());
        assert(ff_inv(ffv(file_fixtures.m()), defs, done1, x0, 0));
    }
@loopvar 1 it1
@loop 1
    invariant
        *self == db0, m0 == self.definitions.m(), defs == self.defs(),
        forall|j: int| 0 <= j < it1.seq().len() ==> m0.contains_key((#[trigger] it1.seq()[j]).k@) && *it1.seq()[j].v == m0[it1.seq()[j].k@],
        forall|j1: int, j2: int| 0 <= j1 < j2 < it1.seq().len() ==> (#[trigger] it1.seq()[j1]).k@ != (#[trigger] it1.seq()[j2]).k@,
        forall|key: Seq<char>| m0.contains_key(key) ==> exists|j: int| 0 <= j < it1.seq().len() && (#[trigger] it1.seq()[j]).k@ == key,
        forall|j: int| 0 <= j < it1.index@ ==> done1.contains((#[trigger] it1.seq()[j]).k@),
        forall|n: Seq<char>| done1.contains(n) ==> exists|j: int| 0 <= j < it1.index@ && (#[trigger] it1.seq()[j]).k@ == n,
        ff_inv(ffv(file_fixtures.m()), defs, done1, x0, 0),
@loopstart 1
    let ghost nm = entry.k@;
    proof {
        assert(!done1.contains(nm)) by {
            if done1.contains(nm) {
                let j = choose|j: int| 0 <= j < it1.index@ && (#[trigger] it1.seq()[j]).k@ == nm;
                assert(it1.seq()[j].k@ != it1.seq()[it1.index@ as int].k@);
            }
        }
        lemma_ff_change(ffv(file_fixtures.m()), defs, done1, x0, nm);
        assert(bucket(defs, nm) == dvs(entry.v@));
    }
@loopvar 2 it2
@loop 2
    invariant
        *self == db0, m0 == self.definitions.m(), defs == self.defs(),
        m0.contains_key(entry.k@), *entry.v == m0[entry.k@], nm == entry.k@, *fixture_name == *entry.k, !done1.contains(nm),
        it2.seq() == entry.v@.as_ref(), bucket(defs, nm) == dvs(entry.v@),
        ff_inv(ffv(file_fixtures.m()), defs, done1, nm, it2.index@ as int),
@loopstart 2
    let ghost j0 = it2.index@ as int;
    let ghost fm0 = file_fixtures.m();
    proof {
        assert(entry.v@[j0] == *def);
        assert(bucket(defs, nm)[j0] == dv(def));
    }
@loopend 2
    proof {
        let f = pbv(&def.file_path);
        assert(ffv(file_fixtures.m()) =~= ffv(fm0).insert(f, sbucket(ffv(fm0), f).insert(nm)));
        lemma_ff_step(ffv(fm0), ffv(file_fixtures.m()), defs, done1, nm, j0);
    }
@loopend 1
    proof {
        lemma_ff_end(ffv(file_fixtures.m()), defs, done1, nm, x0);
        done1 = done1.insert(nm);
    }
@after for 1
    let ghost ffv0 = ffv(file_fixtures.m());
    proof {
        assert forall|n: Seq<char>| defs.contains_key(n) implies done1.contains(n) by { assert(m0.contains_key(n)); }
        lemma_ff_final(ffv0, defs, done1, x0);
    }
@after autouse_fixtures 1
    let ghost cm0 = definition_usage_counts.m();
    proof {
        assert(autouse_fixtures.s() =~= Set::<CKey>::empty());
        assert(au_inv(autouse_fixtures.s(), defs, done3, x0, 0));
    }
@loopvar 3 it3
@loop 3
    invariant
        *self == db0, m0 == self.definitions.m(), defs == self.defs(),
        forall|j: int| 0 <= j < it3.seq().len() ==> m0.contains_key((#[trigger] it3.seq()[j]).k@) && *it3.seq()[j].v == m0[it3.seq()[j].k@],
        forall|j1: int, j2: int| 0 <= j1 < j2 < it3.seq().len() ==> (#[trigger] it3.seq()[j1]).k@ != (#[trigger] it3.seq()[j2]).k@,
        forall|key: Seq<char>| m0.contains_key(key) ==> exists|j: int| 0 <= j < it3.seq().len() && (#[trigger] it3.seq()[j]).k@ == key,
        forall|j: int| 0 <= j < it3.index@ ==> done3.contains((#[trigger] it3.seq()[j]).k@),
        forall|n: Seq<char>| done3.contains(n) ==> exists|j: int| 0 <= j < it3.index@ && (#[trigger] it3.seq()[j]).k@ == n,
        au_inv(autouse_fixtures.s(), defs, done3, x0, 0),
@loopstart 3
    let ghost nm = entry.k@;
    proof {
        assert(!done3.contains(nm)) by {
            if done3.contains(nm) {
                let j = choose|j: int| 0 <= j < it3.index@ && (#[trigger] it3.seq()[j]).k@ == nm;
                assert(it3.seq()[j].k@ != it3.seq()[it3.index@ as int].k@);
            }
        }
        lemma_au_change(autouse_fixtures.s(), defs, done3, x0, nm);
        assert(bucket(defs, nm) == dvs(entry.v@));
    }
@loopvar 4 it4
@loop 4
    invariant
        *self == db0, m0 == self.definitions.m(), defs == self.defs(),
        m0.contains_key(entry.k@), *entry.v == m0[entry.k@], nm == entry.k@, *fixture_name == *entry.k, !done3.contains(nm),
        it4.seq() == entry.v@.as_ref(), bucket(defs, nm) == dvs(entry.v@),
        au_inv(autouse_fixtures.s(), defs, done3, nm, it4.index@ as int),
@loopstart 4
    let ghost j0 = it4.index@ as int;
    let ghost au_old = autouse_fixtures.s();
    proof {
        assert(entry.v@[j0] == *def);
        assert(bucket(defs, nm)[j0] == dv(def));
    }
@loopend 4
    proof { lemma_au_step(au_old, autouse_fixtures.s(), defs, done3, nm, j0); }
@loopend 3
    proof {
        lemma_au_end(autouse_fixtures.s(), defs, done3, nm, x0);
        done3 = done3.insert(nm);
    }
@after for 3
    let ghost au0 = autouse_fixtures.s();
    proof {
        assert forall|n: Seq<char>| defs.contains_key(n) implies done3.contains(n) by { assert(m0.contains_key(n)); }
        lemma_au_final(au0, defs, done3, x0);
    }
@after remapped 1
    let ghost mut i5: int = 0;
    proof {
        insts = instvs(installs@);
        wsv = opt_pbv(*workspace);
        keys0 = sorted_paths(ffv0.dom());
        axiom_sorted_paths(ffv0.dom());
        assert(ppairs_v(remapped@) =~= op_remapped(insts, wsv, keys0, 0));
        assert(editable_dirs.s() =~= op_dirs(insts, wsv, keys0, 0));
    }
@before for 5
    proof { assert(installs@.as_ref().skip(0) =~= installs@.as_ref()); }
@forloop 5 it5
    proof { assert(i5 == installs@.len()); }
@loop 5
    invariant
        *self == db0, insts == instvs(installs@), wsv == opt_pbv(*workspace),
        0 <= i5 <= installs@.len(), it5.remaining() == installs@.as_ref().skip(i5),
        ffv(file_fixtures.m()) == ffv0, keys0 == sorted_paths(ffv0.dom()), is_asc_enum(keys0, ffv0.dom(), path_ord_fn()),
        definition_usage_counts.m() == cm0, autouse_fixtures.s() == au0,
        ppairs_v(remapped@) == op_remapped(insts, wsv, keys0, i5),
        editable_dirs.s() == op_dirs(insts, wsv, keys0, i5),
    ensures
        i5 == installs@.len(), ffv(file_fixtures.m()) == ffv0, definition_usage_counts.m() == cm0, autouse_fixtures.s() == au0, *self == db0,
        ppairs_v(remapped@) == op_remapped(insts, wsv, keys0, i5),
        editable_dirs.s() == op_dirs(insts, wsv, keys0, i5),
    decreases installs@.len() - i5
@loopstart 5
    let ghost iv = instv(*install);
    proof {
        assert(*install == installs@[i5]);
        i5 = i5 + 1;
        assert(insts[i5 - 1] == iv);
        if overlaps(iv, wsv) {
            assert(op_remapped(insts, wsv, keys0, i5) =~= op_remapped(insts, wsv, keys0, i5 - 1));
            assert(op_dirs(insts, wsv, keys0, i5) == op_dirs(insts, wsv, keys0, i5 - 1));
        }
    }
@replace 1 `let keys_to_remap: Vec<PathBuf> = file_fixtures .keys()` => `let itk = file_fixtures.keys(); let ghost remk = itk.remaining(); let keys_to_remap: Vec<PathBuf> = itk`
@after keys_to_remap 1
    let ghost ktr_exec = keys_to_remap@;
    let ghost ktr = pbvs(keys_to_remap@);
    let ghost base = ppairs_v(remapped@);
    let ghost d0 = editable_dirs.s();
    proof {
        assert(!overlaps(iv, wsv));
        let pr = |x: &PathBuf| pv_is_prefix(iv.src, pbv(x));
        assert(kviews(remk) == keys0);
        lemma_filter_map_commute(remk, |x: &PathBuf| pbv(x), pr, under_fn(iv.src));
        assert(remk.map_values(|x: &PathBuf| pbv(x)) =~= kviews(remk));
        assert(ktr =~= ref_pbvs(remk.filter(pr)));
        assert(ref_pbvs(remk.filter(pr)) =~= remk.filter(pr).map_values(|x: &PathBuf| pbv(x)));
        assert(ktr =~= keys0.filter(under_fn(iv.src)));
        assert(ktr.take(0).map_values(pair_fn(iv)) =~= Seq::<(PV, PV)>::empty());
        assert(base + Seq::<(PV, PV)>::empty() =~= base);
    }
@loopvar 6 it6
@loop 6
    invariant
        iv == instv(*install), it6.seq() == ktr_exec, ktr == pbvs(ktr_exec), ktr == keys0.filter(under_fn(iv.src)),
        ppairs_v(remapped@) == base + ktr.take(it6.index@ as int).map_values(pair_fn(iv)),
        editable_dirs.s() == (if it6.index@ > 0 && split_dot(iv.raw).len() > 0 { d0.insert(label(iv)) } else { d0 }),
@loopstart 6
    let ghost j6 = it6.index@ as int;
    let ghost rm0 = remapped@;
    proof {
        assert(original_path == ktr_exec[j6]);
        assert(pbv(&original_path) == ktr[j6]);
        lemma_filter_sat(keys0, under_fn(iv.src), j6);
    }
@loopvar 7 it7
@loop 7
    invariant
        iv == instv(*install), it7.seq() == parts@.as_ref(), strvs(parts@) == split_dot(iv.raw),
        pbv(&label_path) == label_upto(iv, it7.index@ as int),
@loopstart 7
    proof {
        let k = it7.index@ as int;
        assert(*part == parts@[k]);
        assert(part@ == strvs(parts@)[k]);
    }
@loopend 6
    proof {
        assert(ktr.take(j6 + 1).map_values(pair_fn(iv)) =~= ktr.take(j6).map_values(pair_fn(iv)).push(pair_fn(iv)(ktr[j6])));
        assert(ppairs_v(remapped@) =~= ppairs_v(rm0).push((ktr[j6], virt(iv, ktr[j6]))));
        assert(ppairs_v(remapped@) =~= base + ktr.take(j6 + 1).map_values(pair_fn(iv)));
    }
@after for 6
    proof {
        assert(ktr.take(ktr.len() as int) =~= ktr);
        assert(ppairs_v(remapped@) == op_remapped(insts, wsv, keys0, i5));
        assert(editable_dirs.s() == op_dirs(insts, wsv, keys0, i5));
    }
@before for 8
    proof { rv = ppairs_v(remapped@); dirs = editable_dirs.s(); }
@loopvar 8 it8
@loop 8
    invariant it8.seq() == remapped@.as_ref(), rv == ppairs_v(remapped@),
        ffv(file_fixtures.m()) == fold_ff(ffv0, rv, it8.index@ as int),
@loopstart 8
    let ghost j8 = it8.index@ as int;
    let ghost fm8 = file_fixtures.m();
    proof { assert(*original == remapped@[j8].0 && *virtual_path == remapped@[j8].1); assert(rv[j8] == (pbv(original), pbv(virtual_path))); }
@loopend 8
    proof { assert(ffv(file_fixtures.m()) =~= ff_step(ffv(fm8), rv[j8])); }
@after remapped_counts 1
    proof { kss = Seq::empty(); }
    proof { assert(mvs_v(remapped_counts@) =~= moves_of(rv, kss, 0)); }
@loopvar 9 it9
@loop 9
    invariant it9.seq() == remapped@.as_ref(), rv == ppairs_v(remapped@), definition_usage_counts.m() == cm0,
        kss.len() == it9.index@, forall|b: int| 0 <= b < kss.len() ==> is_enum_of(#[trigger] kss[b], cm0.dom()),
        mvs_v(remapped_counts@) == moves_of(rv, kss, it9.index@ as int),
@loopstart 9
    let ghost j9 = it9.index@ as int;
    let ghost mut done10: Seq<CKey> = Seq::empty();
    let ghost base9 = mvs_v(remapped_counts@);
    proof { assert(*original == remapped@[j9].0 && *virtual_path == remapped@[j9].1); assert(rv[j9] == (pbv(original), pbv(virtual_path))); }
@replace 1 `for key in definition_usage_counts.keys()` => `let k10 = definition_usage_counts.keys(); let ghost ks10 = kviews(k10.remaining()); proof { lemma_keys_enum(k10.remaining(), cm0.dom()); assert(ks10.take(0) =~= Seq::<CKey>::empty()); assert(done10 == ks10.take(0)); assert(base9 + block_moves(ks10.take(0), rv[j9]) =~= base9); } for key in it10: k10`
@loop 10
    invariant definition_usage_counts.m() == cm0, rv[j9] == (pbv(original), pbv(virtual_path)), 0 <= j9 < rv.len(),
        kviews(it10.seq()) == ks10, done10 == ks10.take(it10.index@ as int),
        mvs_v(remapped_counts@) == base9 + block_moves(ks10.take(it10.index@ as int), rv[j9]),
@loopstart 10
    let ghost j10 = it10.index@ as int;
    let ghost rc0 = remapped_counts@;
    proof { assert(key.kview() == ks10[j10]); lemma_filter_take_step(ks10, j10, of_file(rv[j9].0)); }
@loopend 10
    proof {
        let blk0 = block_moves(ks10.take(j10), rv[j9]);
        if ks10[j10].0 == rv[j9].0 {
            assert(mvs_v(remapped_counts@) =~= mvs_v(rc0).push(move_fn(rv[j9].1)(ks10[j10])));
            assert(block_moves(ks10.take(j10 + 1), rv[j9]) =~= blk0.push(move_fn(rv[j9].1)(ks10[j10])));
        } else {
            assert(block_moves(ks10.take(j10 + 1), rv[j9]) =~= blk0);
        }
        assert(mvs_v(remapped_counts@) =~= base9 + block_moves(ks10.take(j10 + 1), rv[j9]));
        done10 = done10.push(key.kview());
        assert(ks10.take(j10 + 1) =~= ks10.take(j10).push(ks10[j10]));
    }
@loopend 9
    proof {
        assert(ks10.take(ks10.len() as int) =~= ks10);
        assert(done10 == ks10);
        lemma_moves_of_push(rv, kss, done10, j9);
        kss = kss.push(done10);
        assert(moves_of(rv, kss, j9 + 1) == moves_of(rv, kss, j9) + block_moves(kss[j9], rv[j9]));
    }
@before for 11
    proof { mvs = mvs_v(remapped_counts@); }
    let ghost rc_exec = remapped_counts@;
@loopvar 11 it11
@loop 11
    invariant it11.seq() == rc_exec, mvs == mvs_v(rc_exec), definition_usage_counts.m() == apply_moves(cm0, mvs, it11.index@ as int),
@loopstart 11
    let ghost j11 = it11.index@ as int;
    let ghost cmb = definition_usage_counts.m();
    proof { assert(mvs[j11] == (old_key.kview(), new_key.kview())); }
@loopend 11
    proof { assert(definition_usage_counts.m() =~= cm_step(cmb, mvs[j11])); }
@after autouse_remapped 1
    proof { akss = Seq::empty(); }
    proof { assert(mvs_v(autouse_remapped@) =~= moves_of(rv, akss, 0)); }
@loopvar 12 it12
@loop 12
    invariant it12.seq() == remapped@.as_ref(), rv == ppairs_v(remapped@), autouse_fixtures.s() == au0,
        akss.len() == it12.index@, forall|b: int| 0 <= b < akss.len() ==> is_enum_of(#[trigger] akss[b], au0),
        mvs_v(autouse_remapped@) == moves_of(rv, akss, it12.index@ as int),
@loopstart 12
    let ghost j12 = it12.index@ as int;
    let ghost mut done13: Seq<CKey> = Seq::empty();
    let ghost base12 = mvs_v(autouse_remapped@);
    proof { assert(*original == remapped@[j12].0 && *virtual_path == remapped@[j12].1); assert(rv[j12] == (pbv(original), pbv(virtual_path))); }
@replace 1 `for key in autouse_fixtures.iter()` => `let k13 = autouse_fixtures.iter(); let ghost ks13 = kviews(k13.remaining()); proof { lemma_keys_enum(k13.remaining(), au0); assert(ks13.take(0) =~= Seq::<CKey>::empty()); assert(done13 == ks13.take(0)); assert(base12 + block_moves(ks13.take(0), rv[j12]) =~= base12); } for key in it13: k13`
@loop 13
    invariant autouse_fixtures.s() == au0, rv[j12] == (pbv(original), pbv(virtual_path)), 0 <= j12 < rv.len(),
        kviews(it13.seq()) == ks13, done13 == ks13.take(it13.index@ as int),
        mvs_v(autouse_remapped@) == base12 + block_moves(ks13.take(it13.index@ as int), rv[j12]),
@loopstart 13
    let ghost j13 = it13.index@ as int;
    let ghost ar0 = autouse_remapped@;
    proof { assert(key.kview() == ks13[j13]); lemma_filter_take_step(ks13, j13, of_file(rv[j12].0)); }
@loopend 13
    proof {
        let blk0 = block_moves(ks13.take(j13), rv[j12]);
        if ks13[j13].0 == rv[j12].0 {
            assert(mvs_v(autouse_remapped@) =~= mvs_v(ar0).push(move_fn(rv[j12].1)(ks13[j13])));
            assert(block_moves(ks13.take(j13 + 1), rv[j12]) =~= blk0.push(move_fn(rv[j12].1)(ks13[j13])));
        } else {
            assert(block_moves(ks13.take(j13 + 1), rv[j12]) =~= blk0);
        }
        assert(mvs_v(autouse_remapped@) =~= base12 + block_moves(ks13.take(j13 + 1), rv[j12]));
        done13 = done13.push(key.kview());
        assert(ks13.take(j13 + 1) =~= ks13.take(j13).push(ks13[j13]));
    }
@loopend 12
    proof {
        assert(ks13.take(ks13.len() as int) =~= ks13);
        assert(done13 == ks13);
        lemma_moves_of_push(rv, akss, done13, j12);
        akss = akss.push(done13);
        assert(moves_of(rv, akss, j12 + 1) == moves_of(rv, akss, j12) + block_moves(akss[j12], rv[j12]));
    }
@before for 14
    proof { amvs = mvs_v(autouse_remapped@); }
    let ghost ar_exec = autouse_remapped@;
@loopvar 14 it14
@loop 14
    invariant it14.seq() == ar_exec, amvs == mvs_v(ar_exec), autouse_fixtures.s() == apply_au(au0, amvs, it14.index@ as int),
@loopstart 14
    let ghost j14 = it14.index@ as int;
    let ghost aub = autouse_fixtures.s();
    proof { assert(amvs[j14] == (old_key.kview(), new_key.kview())); }
@loopend 14
    proof { assert(autouse_fixtures.s() =~= au_step(aub, amvs[j14])); }
@after all_paths 1
    let ghost ffv1 = ffv(file_fixtures.m());
    let ghost root = pv(root_path);
    let ghost cm1 = definition_usage_counts.m();
    let ghost au1 = autouse_fixtures.s();
@replace 1 `for file_path in file_fixtures.keys()` => `let k15 = file_fixtures.keys(); let ghost keys1 = kviews(k15.remaining()); for file_path in it15: k15`
@loop 15
    invariant kviews(it15.seq()) == keys1, root == pv(root_path), all_paths.s() == paths_upto(keys1, root, it15.index@ as int),
@loopstart 15
    let ghost j15 = it15.index@ as int;
    let ghost f15 = pbv(file_path);
    proof { assert(f15 == keys1[j15]); }
@before while 1
    let ghost p1 = all_paths.s();
@replace 1 `let mut top_level: Vec<PathBuf> = all_paths .iter()` => `let itt = all_paths.iter(); let ghost remt = itt.remaining(); let mut top_level: Vec<PathBuf> = itt`
@after top_level 1
    let ghost top0 = pbvs(top_level@);
    let ghost top_exec0 = top_level@;
    proof {
        let pr = |x: &PathBuf| top_fn(root)(pbv(x));
        assert(kviews(remt) == ps);
        lemma_filter_map_commute(remt, |x: &PathBuf| pbv(x), pr, top_fn(root));
        assert(remt.map_values(|x: &PathBuf| pbv(x)) =~= kviews(remt));
        assert(top0 =~= ref_pbvs(remt.filter(pr)));
        assert(ref_pbvs(remt.filter(pr)) =~= remt.filter(pr).map_values(|x: &PathBuf| pbv(x)));
        assert(top0 =~= ps.filter(top_fn(root)));
    }
@before for 18
    let ghost top = pbvs(top_level@);
    let ghost ctx = ctx_of(&file_fixtures, &tree, &definition_usage_counts, &autouse_fixtures, skip_unused, only_unused);
    let ghost o2 = self.out();
    proof {
        lemma_filter_ascending(ps, top_fn(root));
        lemma_perm_map(top_level@, top_exec0, |p: PathBuf| pbv(&p));
        assert(pbvs(top_level@) =~= top_level@.map_values(|p: PathBuf| pbv(&p)));
        assert(top0 =~= top_exec0.map_values(|p: PathBuf| pbv(&p)));
        assert(asc_le(top)) by {
            if top_level@ == top_exec0 {
                assert forall|i: int, j: int| 0 <= i < j < top.len() implies !(path_ord(#[trigger] top[i], #[trigger] top[j]) is Greater) by { assert(path_ord(top0[i], top0[j]) is Less); }
            } else {
                assert forall|i: int, j: int| 0 <= i < j < top.len() implies !(path_ord(#[trigger] top[i], #[trigger] top[j]) is Greater) by {
                    assert(!(ord_v_fn::<PathBuf>()(top_level@[i], top_level@[j]) is Greater));
                }
            }
        }
        assert(asc_le(top0)) by {
            assert forall|i: int, j: int| 0 <= i < j < top0.len() implies !(path_ord(#[trigger] top0[i], #[trigger] top0[j]) is Greater) by { assert(path_ord(top0[i], top0[j]) is Less); }
        }
        lemma_sorted_perm_same(top, top0);
        assert(o2 + Seq::<Ev>::empty() =~= o2);
    }
@loopvar 19 it19
@loop 19
    invariant
        ctx == ctx_of(&file_fixtures, &tree, &definition_usage_counts, &autouse_fixtures, skip_unused, only_unused), dirs == editable_dirs.s(),
        top == pbvs(top_level@), tree_wf(treev(tree.m())),
        it19.seq().len() == top_level@.len(),
        forall|k: int| 0 <= k < it19.seq().len() ==> (#[trigger] it19.seq()[k]).0 == k && *it19.seq()[k].1 == top_level@[k],
        same_index(*self, db0),
        self.out() == o2 + op_tops(ctx, dirs, top, it19.index@ as int),
@loopstart 19
    let ghost j19 = it19.index@ as int;
    let ghost o19 = self.out();
    proof { assert(*path == top_level@[j19]); assert(i == j19); assert(pbv(path) == top[j19]); }
@loopend 19
    proof {
        assert(self.out() == o19 + op_node(ctx, dirs, top[j19], ""@, j19 == top.len() - 1, true));
        assert(op_tops(ctx, dirs, top, j19 + 1) == op_tops(ctx, dirs, top, j19) + op_node(ctx, dirs, top[j19], ""@, j19 == top.len() - 1, true));
    }
@loop 16
    invariant root == pv(root_path), all_paths.s().union(anc(pv(current), root)) =~= p1.union(anc(f15, root)),
    ensures all_paths.s() =~= p1.union(anc(f15, root)),
    decreases pv(current).len()
@loopstart 16
    let ghost ap0 = all_paths.s();
    let ghost cur0 = pv(current);
@loopend 16
    proof { assert(all_paths.s().union(anc(pv(current), root)) =~= ap0.union(anc(cur0, root))); }
@loopend 15
    proof { assert(all_paths.s() =~= paths_upto(keys1, root, j15 + 1)); }
@after for 15
    let ghost paths = all_paths.s();
    proof { assert(paths == paths_upto(keys1, root, keys1.len() as int)); }
@replace 1 `for path in &all_paths` => `let k17 = (&all_paths).into_iter(); let ghost ps = kviews(k17.remaining()); for path in it17: k17`
@loop 17
    invariant kviews(it17.seq()) == ps, root == pv(root_path), treev(tree.m()) == tree_upto(ps, root, it17.index@ as int),
@loopstart 17
    let ghost j17 = it17.index@ as int;
    let ghost tm0 = tree.m();
    proof { assert(pbv(path) == ps[j17]); }
@loopend 17
    proof {
        let c = ps[j17];
        let tv0 = treev(tm0);
        if goes(c, root) {
            let q = c.drop_last();
            assert(tree.m().contains_key(q));
            assert(pbvs(tree.m()[q]@) =~= bucket(tv0, q).push(c));
            assert(treev(tree.m()) =~= tv0.insert(q, bucket(tv0, q).push(c)));
        } else {
            assert(tree.m() == tm0);
        }
        assert(treev(tree.m()) =~= tree_upto(ps, root, j17 + 1));
    }
@after for 16
    let ghost tm17 = tree.m();
    let ghost tv17 = treev(tree.m());
    proof { assert(tv17 == tree_upto(ps, root, ps.len() as int)); }
@before println 1
    proof {
        axiom_sorted_paths(paths);
        assert(ps == sorted_paths(paths));
        lemma_tree_upto_ok(ps, root, ps.len() as int);
        assert forall|q: PV| tm17.contains_key(q) implies pbvs(#[trigger] tree.m()[q]@) == pbvs(tm17[q]@) by {
            assert(tv17[q] == pbvs(tm17[q]@));
            assert forall|a: int, b: int| 0 <= a < b < tv17[q].len() implies !(path_ord(#[trigger] tv17[q][a], #[trigger] tv17[q][b]) is Greater) by {
                assert(path_ord(tv17[q][a], tv17[q][b]) is Less);
            }
            lemma_sorted_perm_same(pbvs(tree.m()[q]@), pbvs(tm17[q]@));
        }
        assert(treev(tree.m()) =~= tv17);
        lemma_tree_ok_wf(tv17, ps, ps.len() as int);
    }
    let ghost li0 = ListIn { ff0: ffv0, cm0: cm0, au0: au0, insts: insts, ws: wsv, root: root, skip: skip_unused, only: only_unused };
    proof {
        assert(op_keys0(li0) == keys0);
        assert(op_rv(li0) == rv);
        assert(op_dirs_all(li0) == dirs);
        assert(op_ff(li0) == ffv1);
        assert(ffv1.dom() =~= file_fixtures.m().dom());
        assert(op_keys1(li0) == keys1);
        assert(op_paths(li0) == paths);
        assert(op_ps(li0) == ps);
        assert(op_tree(li0) == treev(tree.m()));
        assert(op_cm(li0, kss) == cm1);
        assert(op_au(li0, akss) == au1);
        assert(valid_orders(kss, cm0.dom(), rv.len() as int));
        assert(valid_orders(akss, au0, rv.len() as int));
    }
@return 1
    assert(op_ff(li0).dom().len() == 0);
    assert(self.out() =~= o0 + op_list_out(li0, cm1, au1));
    lemma_list_assemble(o0, self.out(), li0, defs, uses, provf, kss, akss);
@end
    proof {
        assert(op_ff(li0).dom().len() != 0);
        assert(top == op_top(li0));
        assert(ctx == op_ctx(li0, cm1, au1));
        assert(self.out() =~= o0 + op_list_out(li0, cm1, au1));
        lemma_list_assemble(o0, self.out(), li0, defs, uses, provf, kss, akss);
    }
@*/

// ---- exec vacuity guards (must FAIL): the real bodies with deliberately wrong contracts
/*@ extract src/fixtures/cli.rs print_fixtures_tree
@tags C20
@as canary_exec_list_contract_vacuous
@recv mut
@rename enumerate vp_enumerate
@rename cloned vp_cloned
@derefcmp parent root_path 1
@derefcmp parent root_path 2
@derefcmp parent root_path 3
@wrapexpr 1 `parent.as_os_str().is_empty()` => `Self::vp_empty_path1_c(parent)` with fn vp_empty_path1_c(parent: &Path) -> (r: bool) ensures r == (pv(parent).len() == 0)
@wrapexpr 2 `parent.as_os_str().is_empty()` => `Self::vp_empty_path2_c(parent)` with fn vp_empty_path2_c(parent: &Path) -> (r: bool) ensures r == (pv(parent).len() == 0)
@wrapexpr 1 `install.raw_package_name.split('.').collect()` => `Self::vp_split_dots_c(install)` with fn vp_split_dots_c<'a>(install: &'a EditableInstall) -> (r: Vec<&'a str>) ensures strvs(r@) == split_dot(install.raw_package_name@)
@wrapexpr 1 `part.replace('-', "_")` => `Self::vp_dash_us_c(part)` with fn vp_dash_us_c(part: &&str) -> (r: String) ensures r@ == dash_us(part@)
@wrapexpr 1 `key.clone()` => `Self::vp_clone_key1_c(key)` with fn vp_clone_key1_c(key: &(PathBuf, String)) -> (r: (PathBuf, String)) ensures r.kview() == key.kview()
@wrapexpr 2 `key.clone()` => `Self::vp_clone_key2_c(key)` with fn vp_clone_key2_c(key: &(PathBuf, String)) -> (r: (PathBuf, String)) ensures r.kview() == key.kview()
@wrapexpr_opt 1 `for children in tree.values_mut() { children.sort(); }` => `Self::vp_sort_children_c(&mut tree);` with fn vp_sort_children_c(tree: &mut BTreeMap<PathBuf, Vec<PathBuf>>) ensures final(tree).m().dom() == old(tree).m().dom(), forall|q: PV| old(tree).m().contains_key(q) ==> pbvs((#[trigger] final(tree).m()[q])@).to_multiset() == pbvs(old(tree).m()[q]@).to_multiset() && asc_le(pbvs(final(tree).m()[q]@))
@replace 1 `println!("Fixtures tree for: {}", root_path.display())` => `self.vp_out_header(root_path)`
@replace 1 `println!()` => `self.vp_out_blank()`
@replace 1 `println!("No fixtures found in this directory.")` => `self.vp_out_none()`
@closure filter:1 |p: &&PathBuf| -> (b: bool) ensures b == pv_is_prefix(pbv(&install.source_root), pbv(*p))
@closure filter:2 |p: &&PathBuf| -> (b: bool) ensures b == top_fn(pv(root_path))(pbv(*p))
@sig
    requires unique_at_line(self.defs()), total_usages(self.uses()) <= usize::MAX,
    ensures false, // exec canary: must FAIL (otherwise the shim contracts / axioms / the precondition are contradictory)
@start
    let ghost db0 = *self;
    let ghost o0 = self.out();
    let ghost m0 = self.definitions.m();
    let ghost defs = self.defs();
    let ghost uses = self.uses();
    let ghost provf = self.provf();
    let ghost mut done1: Set<Seq<char>> = Set::empty();
    let ghost mut done3: Set<Seq<char>> = Set::empty();
    let ghost x0: Seq<char> = Seq::empty();
    let ghost mut insts: Seq<InstV> = Seq::empty();
    let ghost mut wsv: Option<PV> = None;
    let ghost mut keys0: Seq<PV> = Seq::empty();
    let ghost mut rv: Seq<(PV, PV)> = Seq::empty();
    let ghost mut dirs: Set<PV> = Set::empty();
    let ghost mut kss: Seq<Seq<CKey>> = Seq::empty();
    let ghost mut akss: Seq<Seq<CKey>> = Seq::empty();
    let ghost mut mvs: Seq<(CKey, CKey)> = Seq::empty();
    let ghost mut amvs: Seq<(CKey, CKey)> = Seq::empty();
@after file_fixtures 1
    proof {
        assert(ffv(file_fixtures.m()) =~= Map::<PV, Set<Seq<char>>>::empty());
        assert(ff_inv(ffv(file_fixtures.m()), defs, done1, x0, 0));
    }
@loopvar 1 it1
@loop 1
    invariant
        *self == db0, m0 == self.definitions.m(), defs == self.defs(),
        forall|j: int| 0 <= j < it1.seq().len() ==> m0.contains_key((#[trigger] it1.seq()[j]).k@) && *it1.seq()[j].v == m0[it1.seq()[j].k@],
        forall|j1: int, j2: int| 0 <= j1 < j2 < it1.seq().len() ==> (#[trigger] it1.seq()[j1]).k@ != (#[trigger] it1.seq()[j2]).k@,
        forall|key: Seq<char>| m0.contains_key(key) ==> exists|j: int| 0 <= j < it1.seq().len() && (#[trigger] it1.seq()[j]).k@ == key,
        forall|j: int| 0 <= j < it1.index@ ==> done1.contains((#[trigger] it1.seq()[j]).k@),
        forall|n: Seq<char>| done1.contains(n) ==> exists|j: int| 0 <= j < it1.index@ && (#[trigger] it1.seq()[j]).k@ == n,
        ff_inv(ffv(file_fixtures.m()), defs, done1, x0, 0),
@loopstart 1
    let ghost nm = entry.k@;
    proof {
        assert(!done1.contains(nm)) by {
            if done1.contains(nm) {
                let j = choose|j: int| 0 <= j < it1.index@ && (#[trigger] it1.seq()[j]).k@ == nm;
                assert(it1.seq()[j].k@ != it1.seq()[it1.index@ as int].k@);
            }
        }
        lemma_ff_change(ffv(file_fixtures.m()), defs, done1, x0, nm);
        assert(bucket(defs, nm) == dvs(entry.v@));
    }
@loopvar 2 it2
@loop 2
    invariant
        *self == db0, m0 == self.definitions.m(), defs == self.defs(),
        m0.contains_key(entry.k@), *entry.v == m0[entry.k@], nm == entry.k@, *fixture_name == *entry.k, !done1.contains(nm),
        it2.seq() == entry.v@.as_ref(), bucket(defs, nm) == dvs(entry.v@),
        ff_inv(ffv(file_fixtures.m()), defs, done1, nm, it2.index@ as int),
@loopstart 2
    let ghost j0 = it2.index@ as int;
    let ghost fm0 = file_fixtures.m();
    proof {
        assert(entry.v@[j0] == *def);
        assert(bucket(defs, nm)[j0] == dv(def));
    }
@loopend 2
    proof {
        let f = pbv(&def.file_path);
        assert(ffv(file_fixtures.m()) =~= ffv(fm0).insert(f, sbucket(ffv(fm0), f).insert(nm)));
        lemma_ff_step(ffv(fm0), ffv(file_fixtures.m()), defs, done1, nm, j0);
    }
@loopend 1
    proof {
        lemma_ff_end(ffv(file_fixtures.m()), defs, done1, nm, x0);
        done1 = done1.insert(nm);
    }
@after for 1
    let ghost ffv0 = ffv(file_fixtures.m());
    proof {
        assert forall|n: Seq<char>| defs.contains_key(n) implies done1.contains(n) by { assert(m0.contains_key(n)); }
        lemma_ff_final(ffv0, defs, done1, x0);
    }
@after autouse_fixtures 1
    let ghost cm0 = definition_usage_counts.m();
    proof {
        assert(autouse_fixtures.s() =~= Set::<CKey>::empty());
        assert(au_inv(autouse_fixtures.s(), defs, done3, x0, 0));
    }
@loopvar 3 it3
@loop 3
    invariant
        *self == db0, m0 == self.definitions.m(), defs == self.defs(),
        forall|j: int| 0 <= j < it3.seq().len() ==> m0.contains_key((#[trigger] it3.seq()[j]).k@) && *it3.seq()[j].v == m0[it3.seq()[j].k@],
        forall|j1: int, j2: int| 0 <= j1 < j2 < it3.seq().len() ==> (#[trigger] it3.seq()[j1]).k@ != (#[trigger] it3.seq()[j2]).k@,
        forall|key: Seq<char>| m0.contains_key(key) ==> exists|j: int| 0 <= j < it3.seq().len() && (#[trigger] it3.seq()[j]).k@ == key,
        forall|j: int| 0 <= j < it3.index@ ==> done3.contains((#[trigger] it3.seq()[j]).k@),
        forall|n: Seq<char>| done3.contains(n) ==> exists|j: int| 0 <= j < it3.index@ && (#[trigger] it3.seq()[j]).k@ == n,
        au_inv(autouse_fixtures.s(), defs, done3, x0, 0),
@loopstart 3
    let ghost nm = entry.k@;
    proof {
        assert(!done3.contains(nm)) by {
            if done3.contains(nm) {
                let j = choose|j: int| 0 <= j < it3.index@ && (#[trigger] it3.seq()[j]).k@ == nm;
                assert(it3.seq()[j].k@ != it3.seq()[it3.index@ as int].k@);
            }
        }
        lemma_au_change(autouse_fixtures.s(), defs, done3, x0, nm);
        assert(bucket(defs, nm) == dvs(entry.v@));
    }
@loopvar 4 it4
@loop 4
    invariant
        *self == db0, m0 == self.definitions.m(), defs == self.defs(),
        m0.contains_key(entry.k@), *entry.v == m0[entry.k@], nm == entry.k@, *fixture_name == *entry.k, !done3.contains(nm),
        it4.seq() == entry.v@.as_ref(), bucket(defs, nm) == dvs(entry.v@),
        au_inv(autouse_fixtures.s(), defs, done3, nm, it4.index@ as int),
@loopstart 4
    let ghost j0 = it4.index@ as int;
    let ghost au_old = autouse_fixtures.s();
    proof {
        assert(entry.v@[j0] == *def);
        assert(bucket(defs, nm)[j0] == dv(def));
    }
@loopend 4
    proof { lemma_au_step(au_old, autouse_fixtures.s(), defs, done3, nm, j0); }
@loopend 3
    proof {
        lemma_au_end(autouse_fixtures.s(), defs, done3, nm, x0);
        done3 = done3.insert(nm);
    }
@after for 3
    let ghost au0 = autouse_fixtures.s();
    proof {
        assert forall|n: Seq<char>| defs.contains_key(n) implies done3.contains(n) by { assert(m0.contains_key(n)); }
        lemma_au_final(au0, defs, done3, x0);
    }
@after remapped 1
    let ghost mut i5: int = 0;
    proof {
        insts = instvs(installs@);
        wsv = opt_pbv(*workspace);
        keys0 = sorted_paths(ffv0.dom());
        axiom_sorted_paths(ffv0.dom());
        assert(ppairs_v(remapped@) =~= op_remapped(insts, wsv, keys0, 0));
        assert(editable_dirs.s() =~= op_dirs(insts, wsv, keys0, 0));
    }
@before for 5
    proof { assert(installs@.as_ref().skip(0) =~= installs@.as_ref()); }
@forloop 5 it5
    proof { assert(i5 == installs@.len()); }
@loop 5
    invariant
        *self == db0, insts == instvs(installs@), wsv == opt_pbv(*workspace),
        0 <= i5 <= installs@.len(), it5.remaining() == installs@.as_ref().skip(i5),
        ffv(file_fixtures.m()) == ffv0, keys0 == sorted_paths(ffv0.dom()), is_asc_enum(keys0, ffv0.dom(), path_ord_fn()),
        definition_usage_counts.m() == cm0, autouse_fixtures.s() == au0,
        ppairs_v(remapped@) == op_remapped(insts, wsv, keys0, i5),
        editable_dirs.s() == op_dirs(insts, wsv, keys0, i5),
    ensures
        i5 == installs@.len(), ffv(file_fixtures.m()) == ffv0, definition_usage_counts.m() == cm0, autouse_fixtures.s() == au0, *self == db0,
        ppairs_v(remapped@) == op_remapped(insts, wsv, keys0, i5),
        editable_dirs.s() == op_dirs(insts, wsv, keys0, i5),
    decreases installs@.len() - i5
@loopstart 5
    let ghost iv = instv(*install);
    proof {
        assert(*install == installs@[i5]);
        i5 = i5 + 1;
        assert(insts[i5 - 1] == iv);
        if overlaps(iv, wsv) {
            assert(op_remapped(insts, wsv, keys0, i5) =~= op_remapped(insts, wsv, keys0, i5 - 1));
            assert(op_dirs(insts, wsv, keys0, i5) == op_dirs(insts, wsv, keys0, i5 - 1));
        }
    }
@replace 1 `let keys_to_remap: Vec<PathBuf> = file_fixtures .keys()` => `let itk = file_fixtures.keys(); let ghost remk = itk.remaining(); let keys_to_remap: Vec<PathBuf> = itk`
@after keys_to_remap 1
    let ghost ktr_exec = keys_to_remap@;
    let ghost ktr = pbvs(keys_to_remap@);
    let ghost base = ppairs_v(remapped@);
    let ghost d0 = editable_dirs.s();
    proof {
        assert(!overlaps(iv, wsv));
        let pr = |x: &PathBuf| pv_is_prefix(iv.src, pbv(x));
        assert(kviews(remk) == keys0);
        lemma_filter_map_commute(remk, |x: &PathBuf| pbv(x), pr, under_fn(iv.src));
        assert(remk.map_values(|x: &PathBuf| pbv(x)) =~= kviews(remk));
        assert(ktr =~= ref_pbvs(remk.filter(pr)));
        assert(ref_pbvs(remk.filter(pr)) =~= remk.filter(pr).map_values(|x: &PathBuf| pbv(x)));
        assert(ktr =~= keys0.filter(under_fn(iv.src)));
        assert(ktr.take(0).map_values(pair_fn(iv)) =~= Seq::<(PV, PV)>::empty());
        assert(base + Seq::<(PV, PV)>::empty() =~= base);
    }
@loopvar 6 it6
@loop 6
    invariant
        iv == instv(*install), it6.seq() == ktr_exec, ktr == pbvs(ktr_exec), ktr == keys0.filter(under_fn(iv.src)),
        ppairs_v(remapped@) == base + ktr.take(it6.index@ as int).map_values(pair_fn(iv)),
        editable_dirs.s() == (if it6.index@ > 0 && split_dot(iv.raw).len() > 0 { d0.insert(label(iv)) } else { d0 }),
@loopstart 6
    let ghost j6 = it6.index@ as int;
    let ghost rm0 = remapped@;
    proof {
        assert(original_path == ktr_exec[j6]);
        assert(pbv(&original_path) == ktr[j6]);
        lemma_filter_sat(keys0, under_fn(iv.src), j6);
    }
@loopvar 7 it7
@loop 7
    invariant
        iv == instv(*install), it7.seq() == parts@.as_ref(), strvs(parts@) == split_dot(iv.raw),
        pbv(&label_path) == label_upto(iv, it7.index@ as int),
@loopstart 7
    proof {
        let k = it7.index@ as int;
        assert(*part == parts@[k]);
        assert(part@ == strvs(parts@)[k]);
    }
@loopend 6
    proof {
        assert(ktr.take(j6 + 1).map_values(pair_fn(iv)) =~= ktr.take(j6).map_values(pair_fn(iv)).push(pair_fn(iv)(ktr[j6])));
        assert(ppairs_v(remapped@) =~= ppairs_v(rm0).push((ktr[j6], virt(iv, ktr[j6]))));
        assert(ppairs_v(remapped@) =~= base + ktr.take(j6 + 1).map_values(pair_fn(iv)));
    }
@after for 6
    proof {
        assert(ktr.take(ktr.len() as int) =~= ktr);
        assert(ppairs_v(remapped@) == op_remapped(insts, wsv, keys0, i5));
        assert(editable_dirs.s() == op_dirs(insts, wsv, keys0, i5));
    }
@before for 8
    proof { rv = ppairs_v(remapped@); dirs = editable_dirs.s(); }
@loopvar 8 it8
@loop 8
    invariant it8.seq() == remapped@.as_ref(), rv == ppairs_v(remapped@),
        ffv(file_fixtures.m()) == fold_ff(ffv0, rv, it8.index@ as int),
@loopstart 8
    let ghost j8 = it8.index@ as int;
    let ghost fm8 = file_fixtures.m();
    proof { assert(*original == remapped@[j8].0 && *virtual_path == remapped@[j8].1); assert(rv[j8] == (pbv(original), pbv(virtual_path))); }
@loopend 8
    proof { assert(ffv(file_fixtures.m()) =~= ff_step(ffv(fm8), rv[j8])); }
@after remapped_counts 1
    proof { kss = Seq::empty(); }
    proof { assert(mvs_v(remapped_counts@) =~= moves_of(rv, kss, 0)); }
@loopvar 9 it9
@loop 9
    invariant it9.seq() == remapped@.as_ref(), rv == ppairs_v(remapped@), definition_usage_counts.m() == cm0,
        kss.len() == it9.index@, forall|b: int| 0 <= b < kss.len() ==> is_enum_of(#[trigger] kss[b], cm0.dom()),
        mvs_v(remapped_counts@) == moves_of(rv, kss, it9.index@ as int),
@loopstart 9
    let ghost j9 = it9.index@ as int;
    let ghost mut done10: Seq<CKey> = Seq::empty();
    let ghost base9 = mvs_v(remapped_counts@);
    proof { assert(*original == remapped@[j9].0 && *virtual_path == remapped@[j9].1); assert(rv[j9] == (pbv(original), pbv(virtual_path))); }
@replace 1 `for key in definition_usage_counts.keys()` => `let k10 = definition_usage_counts.keys(); let ghost ks10 = kviews(k10.remaining()); proof { lemma_keys_enum(k10.remaining(), cm0.dom()); assert(ks10.take(0) =~= Seq::<CKey>::empty()); assert(done10 == ks10.take(0)); assert(base9 + block_moves(ks10.take(0), rv[j9]) =~= base9); } for key in it10: k10`
@loop 10
    invariant definition_usage_counts.m() == cm0, rv[j9] == (pbv(original), pbv(virtual_path)), 0 <= j9 < rv.len(),
        kviews(it10.seq()) == ks10, done10 == ks10.take(it10.index@ as int),
        mvs_v(remapped_counts@) == base9 + block_moves(ks10.take(it10.index@ as int), rv[j9]),
@loopstart 10
    let ghost j10 = it10.index@ as int;
    let ghost rc0 = remapped_counts@;
    proof { assert(key.kview() == ks10[j10]); lemma_filter_take_step(ks10, j10, of_file(rv[j9].0)); }
@loopend 10
    proof {
        let blk0 = block_moves(ks10.take(j10), rv[j9]);
        if ks10[j10].0 == rv[j9].0 {
            assert(mvs_v(remapped_counts@) =~= mvs_v(rc0).push(move_fn(rv[j9].1)(ks10[j10])));
            assert(block_moves(ks10.take(j10 + 1), rv[j9]) =~= blk0.push(move_fn(rv[j9].1)(ks10[j10])));
        } else {
            assert(block_moves(ks10.take(j10 + 1), rv[j9]) =~= blk0);
        }
        assert(mvs_v(remapped_counts@) =~= base9 + block_moves(ks10.take(j10 + 1), rv[j9]));
        done10 = done10.push(key.kview());
        assert(ks10.take(j10 + 1) =~= ks10.take(j10).push(ks10[j10]));
    }
@loopend 9
    proof {
        assert(ks10.take(ks10.len() as int) =~= ks10);
        assert(done10 == ks10);
        lemma_moves_of_push(rv, kss, done10, j9);
        kss = kss.push(done10);
        assert(moves_of(rv, kss, j9 + 1) == moves_of(rv, kss, j9) + block_moves(kss[j9], rv[j9]));
    }
@before for 11
    proof { mvs = mvs_v(remapped_counts@); }
    let ghost rc_exec = remapped_counts@;
@loopvar 11 it11
@loop 11
    invariant it11.seq() == rc_exec, mvs == mvs_v(rc_exec), definition_usage_counts.m() == apply_moves(cm0, mvs, it11.index@ as int),
@loopstart 11
    let ghost j11 = it11.index@ as int;
    let ghost cmb = definition_usage_counts.m();
    proof { assert(mvs[j11] == (old_key.kview(), new_key.kview())); }
@loopend 11
    proof { assert(definition_usage_counts.m() =~= cm_step(cmb, mvs[j11])); }
@after autouse_remapped 1
    proof { akss = Seq::empty(); }
    proof { assert(mvs_v(autouse_remapped@) =~= moves_of(rv, akss, 0)); }
@loopvar 12 it12
@loop 12
    invariant it12.seq() == remapped@.as_ref(), rv == ppairs_v(remapped@), autouse_fixtures.s() == au0,
        akss.len() == it12.index@, forall|b: int| 0 <= b < akss.len() ==> is_enum_of(#[trigger] akss[b], au0),
        mvs_v(autouse_remapped@) == moves_of(rv, akss, it12.index@ as int),
@loopstart 12
    let ghost j12 = it12.index@ as int;
    let ghost mut done13: Seq<CKey> = Seq::empty();
    let ghost base12 = mvs_v(autouse_remapped@);
    proof { assert(*original == remapped@[j12].0 && *virtual_path == remapped@[j12].1); assert(rv[j12] == (pbv(original), pbv(virtual_path))); }
@replace 1 `for key in autouse_fixtures.iter()` => `let k13 = autouse_fixtures.iter(); let ghost ks13 = kviews(k13.remaining()); proof { lemma_keys_enum(k13.remaining(), au0); assert(ks13.take(0) =~= Seq::<CKey>::empty()); assert(done13 == ks13.take(0)); assert(base12 + block_moves(ks13.take(0), rv[j12]) =~= base12); } for key in it13: k13`
@loop 13
    invariant autouse_fixtures.s() == au0, rv[j12] == (pbv(original), pbv(virtual_path)), 0 <= j12 < rv.len(),
        kviews(it13.seq()) == ks13, done13 == ks13.take(it13.index@ as int),
        mvs_v(autouse_remapped@) == base12 + block_moves(ks13.take(it13.index@ as int), rv[j12]),
@loopstart 13
    let ghost j13 = it13.index@ as int;
    let ghost ar0 = autouse_remapped@;
    proof { assert(key.kview() == ks13[j13]); lemma_filter_take_step(ks13, j13, of_file(rv[j12].0)); }
@loopend 13
    proof {
        let blk0 = block_moves(ks13.take(j13), rv[j12]);
        if ks13[j13].0 == rv[j12].0 {
            assert(mvs_v(autouse_remapped@) =~= mvs_v(ar0).push(move_fn(rv[j12].1)(ks13[j13])));
            assert(block_moves(ks13.take(j13 + 1), rv[j12]) =~= blk0.push(move_fn(rv[j12].1)(ks13[j13])));
        } else {
            assert(block_moves(ks13.take(j13 + 1), rv[j12]) =~= blk0);
        }
        assert(mvs_v(autouse_remapped@) =~= base12 + block_moves(ks13.take(j13 + 1), rv[j12]));
        done13 = done13.push(key.kview());
        assert(ks13.take(j13 + 1) =~= ks13.take(j13).push(ks13[j13]));
    }
@loopend 12
    proof {
        assert(ks13.take(ks13.len() as int) =~= ks13);
        assert(done13 == ks13);
        lemma_moves_of_push(rv, akss, done13, j12);
        akss = akss.push(done13);
        assert(moves_of(rv, akss, j12 + 1) == moves_of(rv, akss, j12) + block_moves(akss[j12], rv[j12]));
    }
@before for 14
    proof { amvs = mvs_v(autouse_remapped@); }
    let ghost ar_exec = autouse_remapped@;
@loopvar 14 it14
@loop 14
    invariant it14.seq() == ar_exec, amvs == mvs_v(ar_exec), autouse_fixtures.s() == apply_au(au0, amvs, it14.index@ as int),
@loopstart 14
    let ghost j14 = it14.index@ as int;
    let ghost aub = autouse_fixtures.s();
    proof { assert(amvs[j14] == (old_key.kview(), new_key.kview())); }
@loopend 14
    proof { assert(autouse_fixtures.s() =~= au_step(aub, amvs[j14])); }
@after all_paths 1
    let ghost ffv1 = ffv(file_fixtures.m());
    let ghost root = pv(root_path);
    let ghost cm1 = definition_usage_counts.m();
    let ghost au1 = autouse_fixtures.s();
@replace 1 `for file_path in file_fixtures.keys()` => `let k15 = file_fixtures.keys(); let ghost keys1 = kviews(k15.remaining()); for file_path in it15: k15`
@loop 15
    invariant kviews(it15.seq()) == keys1, root == pv(root_path), all_paths.s() == paths_upto(keys1, root, it15.index@ as int),
@loopstart 15
    let ghost j15 = it15.index@ as int;
    let ghost f15 = pbv(file_path);
    proof { assert(f15 == keys1[j15]); }
@before while 1
    let ghost p1 = all_paths.s();
@replace 1 `let mut top_level: Vec<PathBuf> = all_paths .iter()` => `let itt = all_paths.iter(); let ghost remt = itt.remaining(); let mut top_level: Vec<PathBuf> = itt`
@after top_level 1
    let ghost top0 = pbvs(top_level@);
    let ghost top_exec0 = top_level@;
    proof {
        let pr = |x: &PathBuf| top_fn(root)(pbv(x));
        assert(kviews(remt) == ps);
        lemma_filter_map_commute(remt, |x: &PathBuf| pbv(x), pr, top_fn(root));
        assert(remt.map_values(|x: &PathBuf| pbv(x)) =~= kviews(remt));
        assert(top0 =~= ref_pbvs(remt.filter(pr)));
        assert(ref_pbvs(remt.filter(pr)) =~= remt.filter(pr).map_values(|x: &PathBuf| pbv(x)));
        assert(top0 =~= ps.filter(top_fn(root)));
    }
@before for 18
    let ghost top = pbvs(top_level@);
    let ghost ctx = ctx_of(&file_fixtures, &tree, &definition_usage_counts, &autouse_fixtures, skip_unused, only_unused);
    let ghost o2 = self.out();
    proof {
        lemma_filter_ascending(ps, top_fn(root));
        lemma_perm_map(top_level@, top_exec0, |p: PathBuf| pbv(&p));
        assert(pbvs(top_level@) =~= top_level@.map_values(|p: PathBuf| pbv(&p)));
        assert(top0 =~= top_exec0.map_values(|p: PathBuf| pbv(&p)));
        assert(asc_le(top)) by {
            if top_level@ == top_exec0 {
                assert forall|i: int, j: int| 0 <= i < j < top.len() implies !(path_ord(#[trigger] top[i], #[trigger] top[j]) is Greater) by { assert(path_ord(top0[i], top0[j]) is Less); }
            } else {
                assert forall|i: int, j: int| 0 <= i < j < top.len() implies !(path_ord(#[trigger] top[i], #[trigger] top[j]) is Greater) by {
                    assert(!(ord_v_fn::<PathBuf>()(top_level@[i], top_level@[j]) is Greater));
                }
            }
        }
        assert(asc_le(top0)) by {
            assert forall|i: int, j: int| 0 <= i < j < top0.len() implies !(path_ord(#[trigger] top0[i], #[trigger] top0[j]) is Greater) by { assert(path_ord(top0[i], top0[j]) is Less); }
        }
        lemma_sorted_perm_same(top, top0);
        assert(o2 + Seq::<Ev>::empty() =~= o2);
    }
@loopvar 19 it19
@loop 19
    invariant
        ctx == ctx_of(&file_fixtures, &tree, &definition_usage_counts, &autouse_fixtures, skip_unused, only_unused), dirs == editable_dirs.s(),
        top == pbvs(top_level@), tree_wf(treev(tree.m())),
        it19.seq().len() == top_level@.len(),
        forall|k: int| 0 <= k < it19.seq().len() ==> (#[trigger] it19.seq()[k]).0 == k && *it19.seq()[k].1 == top_level@[k],
        same_index(*self, db0),
        self.out() == o2 + op_tops(ctx, dirs, top, it19.index@ as int),
@loopstart 19
    let ghost j19 = it19.index@ as int;
    let ghost o19 = self.out();
    proof { assert(*path == top_level@[j19]); assert(i == j19); assert(pbv(path) == top[j19]); }
@loopend 19
    proof {
        assert(self.out() == o19 + op_node(ctx, dirs, top[j19], ""@, j19 == top.len() - 1, true));
        assert(op_tops(ctx, dirs, top, j19 + 1) == op_tops(ctx, dirs, top, j19) + op_node(ctx, dirs, top[j19], ""@, j19 == top.len() - 1, true));
    }
@loop 16
    invariant root == pv(root_path), all_paths.s().union(anc(pv(current), root)) =~= p1.union(anc(f15, root)),
    ensures all_paths.s() =~= p1.union(anc(f15, root)),
    decreases pv(current).len()
@loopstart 16
    let ghost ap0 = all_paths.s();
    let ghost cur0 = pv(current);
@loopend 16
    proof { assert(all_paths.s().union(anc(pv(current), root)) =~= ap0.union(anc(cur0, root))); }
@loopend 15
    proof { assert(all_paths.s() =~= paths_upto(keys1, root, j15 + 1)); }
@after for 15
    let ghost paths = all_paths.s();
    proof { assert(paths == paths_upto(keys1, root, keys1.len() as int)); }
@replace 1 `for path in &all_paths` => `let k17 = (&all_paths).into_iter(); let ghost ps = kviews(k17.remaining()); for path in it17: k17`
@loop 17
    invariant kviews(it17.seq()) == ps, root == pv(root_path), treev(tree.m()) == tree_upto(ps, root, it17.index@ as int),
@loopstart 17
    let ghost j17 = it17.index@ as int;
    let ghost tm0 = tree.m();
    proof { assert(pbv(path) == ps[j17]); }
@loopend 17
    proof {
        let c = ps[j17];
        let tv0 = treev(tm0);
        if goes(c, root) {
            let q = c.drop_last();
            assert(tree.m().contains_key(q));
            assert(pbvs(tree.m()[q]@) =~= bucket(tv0, q).push(c));
            assert(treev(tree.m()) =~= tv0.insert(q, bucket(tv0, q).push(c)));
        } else {
            assert(tree.m() == tm0);
        }
        assert(treev(tree.m()) =~= tree_upto(ps, root, j17 + 1));
    }
@after for 16
    let ghost tm17 = tree.m();
    let ghost tv17 = treev(tree.m());
    proof { assert(tv17 == tree_upto(ps, root, ps.len() as int)); }
@before println 1
    proof {
        axiom_sorted_paths(paths);
        assert(ps == sorted_paths(paths));
        lemma_tree_upto_ok(ps, root, ps.len() as int);
        assert forall|q: PV| tm17.contains_key(q) implies pbvs(#[trigger] tree.m()[q]@) == pbvs(tm17[q]@) by {
            assert(tv17[q] == pbvs(tm17[q]@));
            assert forall|a: int, b: int| 0 <= a < b < tv17[q].len() implies !(path_ord(#[trigger] tv17[q][a], #[trigger] tv17[q][b]) is Greater) by {
                assert(path_ord(tv17[q][a], tv17[q][b]) is Less);
            }
            lemma_sorted_perm_same(pbvs(tree.m()[q]@), pbvs(tm17[q]@));
        }
        assert(treev(tree.m()) =~= tv17);
        lemma_tree_ok_wf(tv17, ps, ps.len() as int);
    }
    let ghost li0 = ListIn { ff0: ffv0, cm0: cm0, au0: au0, insts: insts, ws: wsv, root: root, skip: skip_unused, only: only_unused };
    proof {
        assert(op_keys0(li0) == keys0);
        assert(op_rv(li0) == rv);
        assert(op_dirs_all(li0) == dirs);
        assert(op_ff(li0) == ffv1);
        assert(ffv1.dom() =~= file_fixtures.m().dom());
        assert(op_keys1(li0) == keys1);
        assert(op_paths(li0) == paths);
        assert(op_ps(li0) == ps);
        assert(op_tree(li0) == treev(tree.m()));
        assert(op_cm(li0, kss) == cm1);
        assert(op_au(li0, akss) == au1);
        assert(valid_orders(kss, cm0.dom(), rv.len() as int));
        assert(valid_orders(akss, au0, rv.len() as int));
    }
@return 1
    assert(op_ff(li0).dom().len() == 0);
    assert(self.out() =~= o0 + op_list_out(li0, cm1, au1));
    lemma_list_assemble(o0, self.out(), li0, defs, uses, provf, kss, akss);
@end
    proof {
        assert(op_ff(li0).dom().len() != 0);
        assert(top == op_top(li0));
        assert(ctx == op_ctx(li0, cm1, au1));
        assert(self.out() =~= o0 + op_list_out(li0, cm1, au1));
        lemma_list_assemble(o0, self.out(), li0, defs, uses, provf, kss, akss);
    }
@*/

/*@ extract src/fixtures/cli.rs print_tree_node
@tags C20
@as canary_exec_node_prints_nothing
@recv mut
@replace 1 `use colored::Colorize;` => ``
@wrapexpr 1 `path.file_name().and_then(|n| n.to_str()).unwrap_or("?")` => `Self::vp_name_or_q_c(path)` with fn vp_name_or_q_c<'a>(path: &'a Path) -> (r: &'a str) ensures r@ == name_or_q(pv(path))
@rename enumerate vp_enumerate
@rename any vp_any
@replace 1 `let fixture_vec: Vec<_> = fixtures .iter()` => `let it0 = fixtures.iter(); let ghost rem = it0.remaining(); let fixture_vec: Vec<_> = it0`
@closure filter:1 |fixture_name: &&String| -> (b: bool) ensures b == keep(ctx, pv(path), fixture_name@)
@closure any:1 |child: &PathBuf| -> (b: bool) requires tree_wf(ctx.tree) ensures b == op_visible(ctx, pbv(child))
@replace 1 `println!( "{}{}{} ({} fixtures)", prefix, connector, file_display, fixture_vec.len() )` => `self.vp_out_file(prefix, connector, &file_display, fixture_vec.len())`
@replace 1 `println!( "{}{}{} ({})", new_prefix, fixture_connector, fixture_display, usage_info )` => `self.vp_out_fixture(&new_prefix, fixture_connector, &fixture_display, &usage_info)`
@replace 1 `println!("{}{}{}", prefix, connector, name)` => `self.vp_out_bare(prefix, connector, name)`
@replace 1 `println!("{}{}{}", prefix, connector, dir_display)` => `self.vp_out_dir(prefix, connector, &dir_display)`
@sig
    requires tree_wf(treev(tree.m())),
    ensures final(self).out() == old(self).out(), // exec canary: must FAIL
    decreases tmeasure(treev(tree.m()), pv(path)),
@start
    let ghost ctx = ctx_of(file_fixtures, tree, definition_usage_counts, autouse_fixtures, skip_unused, only_unused);
    let ghost dirs = editable_dirs.s();
    let ghost p = pv(path);
    let ghost o0 = self.out();
    let ghost db0 = *self;
    proof { assert(o0 + Seq::<Ev>::empty() =~= o0); }
@after fixture_vec 1
    let ghost names = kept(ctx, p);
    proof {
        axiom_sorted_strs(fixtures.s());
        assert(ctx.ff[p] == fixtures.s());
        let pr = |x: &String| keep(ctx, p, x@);
        assert(fixture_vec@ =~= rem.filter(pr));
        lemma_filter_map_commute(rem, |x: &String| x@, pr, keep_fn(ctx, p));
        assert(rem.map_values(|x: &String| x@) =~= kviews(rem));
        assert(kviews(fixture_vec@) =~= names);
    }
@loopvar 1 itf
@loop 1
    invariant
        ctx == ctx_of(file_fixtures, tree, definition_usage_counts, autouse_fixtures, skip_unused, only_unused), p == pv(path),
        ctx.ff.contains_key(p), tree_wf(ctx.tree),
        names == kept(ctx, p), kviews(fixture_vec@) == names, names.len() > 0,
        itf.seq().len() == fixture_vec@.len(),
        forall|k: int| 0 <= k < itf.seq().len() ==> (#[trigger] itf.seq()[k]).0 == k && *itf.seq()[k].1 == fixture_vec@[k],
        new_prefix@ == child_prefix(prefix@, is_last, is_root_level),
        same_index(*self, db0),
        self.out() == o0 + seq![Ev::File { prefix: prefix@, connector: connector_of(is_last, is_root_level), display: file_disp_v(name_or_q(p)), n: names.len() as usize }]
            + fixture_evs(ctx, p, new_prefix@, names, itf.index@ as int),
@loopstart 1
    let ghost jj = itf.index@ as int;
    proof { assert(**fixture_name == fixture_vec@[jj]); assert(fixture_name@ == names[jj]); assert(j == jj); }
@loopend 1
    proof {
        assert(fixture_evs(ctx, p, new_prefix@, names, jj + 1) =~= fixture_evs(ctx, p, new_prefix@, names, jj).push(fixture_ev(ctx, p, new_prefix@, names, jj)));
    }
@after for 1
    proof {
        assert(op_node(ctx, dirs, p, prefix@, is_last, is_root_level) == seq![Ev::File { prefix: prefix@, connector: connector_of(is_last, is_root_level), display: file_disp_v(name_or_q(p)), n: names.len() as usize }]
            + fixture_evs(ctx, p, child_prefix(prefix@, is_last, is_root_level), names, names.len() as int));
    }
@after has_visible_children 1
    proof {
        let cs = children@.as_ref();
        assert(ctx.tree[p] == pbvs(children@));
        if has_visible_children {
            assert(exists|i: int| 0 <= i < cs.len() && op_visible(ctx, pbv(#[trigger] cs[i])));
            let i = choose|i: int| 0 <= i < cs.len() && op_visible(ctx, pbv(#[trigger] cs[i]));
            assert(ctx.tree[p][i] == pbv(cs[i]));
            assert(kids_visible(ctx, p));
        } else {
            assert forall|j: int| 0 <= j < ctx.tree[p].len() implies !op_visible(ctx, #[trigger] ctx.tree[p][j]) by {
                assert(ctx.tree[p][j] == pbv(cs[j]));
            }
            assert(!kids_visible(ctx, p));
        }
    }
@after for 2
    proof {
        assert(op_node(ctx, dirs, p, prefix@, is_last, is_root_level) == seq![Ev::Dir { prefix: prefix@, connector: connector_of(is_last, is_root_level), display: dir_disp_v(name_or_q(p), dirs.contains(p)) }]
            + op_kids(ctx, dirs, p, child_prefix(prefix@, is_last, is_root_level), ctx.tree[p].len()));
    }
@loopvar 2 itc
@loop 2
    invariant
        ctx == ctx_of(file_fixtures, tree, definition_usage_counts, autouse_fixtures, skip_unused, only_unused), p == pv(path), dirs == editable_dirs.s(),
        !ctx.ff.contains_key(p), ctx.tree.contains_key(p), tree_wf(ctx.tree), tree_wf(treev(tree.m())), ctx.tree[p] == pbvs(children@),
        itc.seq().len() == children@.len(),
        forall|k: int| 0 <= k < itc.seq().len() ==> (#[trigger] itc.seq()[k]).0 == k && *itc.seq()[k].1 == children@[k],
        new_prefix@ == child_prefix(prefix@, is_last, is_root_level),
        same_index(*self, db0),
        self.out() == o0 + seq![Ev::Dir { prefix: prefix@, connector: connector_of(is_last, is_root_level), display: dir_disp_v(name_or_q(p), dirs.contains(p)) }]
            + op_kids(ctx, dirs, p, new_prefix@, itc.index@ as nat),
@loopstart 2
    let ghost jj = itc.index@ as int;
    let ghost o1 = self.out();
    proof {
        assert(*child == children@[jj]); assert(j == jj);
        assert(ctx.tree[p][jj] == pbv(child));
        lemma_tmeasure_child(ctx.tree, p, jj);
    }
@loopend 2
    proof {
        assert(self.out() == o1 + op_node(ctx, dirs, pbv(child), new_prefix@, jj == children@.len() - 1, false));
        assert(op_kids(ctx, dirs, p, new_prefix@, (jj + 1) as nat) == op_kids(ctx, dirs, p, new_prefix@, jj as nat) + op_node(ctx, dirs, ctx.tree[p][jj], new_prefix@, jj == ctx.tree[p].len() - 1, false));
    }
@*/
}

} // verus!
fn main() {}
