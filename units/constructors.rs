//@include prelude/header.rs
// Unit constructors: the INITIAL STATE (base case of the inductions of units history / handlers_main).
//   L1  src/fixtures/mod.rs   FixtureDatabase::new        one ensures clause per field of the real struct (all 18, //@dbstruct_arc):
//                                                         every map empty, version 0, no workspace root, .. = db_fresh(r)
//                             <FixtureDatabase as Default>::default   db_fresh(r)  (real `impl Default for` header, real body)
//       src/providers/mod.rs  Backend::new                the REAL struct (//@item, 7 fields, real std Arc; tokio locks = models
//                                                         prelude/ctor_tokio.rs): client / fixture_db stored AS GIVEN, no roots, no scan
//                                                         task, EMPTY uri_cache, default Config  = backend_new_post(r, client, fixture_db)
//                                                         NOTE: Backend::new does not create the database, it TAKES it; who creates it:
//       src/main.rs           start_lsp_server            `Arc::new(FixtureDatabase::new())` .. `LspService::new(|client| Backend::new(
//                                                         client, fixture_db.clone()))` .. `serve(service)`: the obligation is the
//                                                         PRECONDITION of the serve stand-in: server_initial(service.backend) (fresh
//                                                         Backend around a fresh database)
//       src/providers/mod.rs  Backend::format_fixture_documentation   r@ == op_fixture_doc(dv(fixture), root): from-line, signature block
//                                                         (name, return type iff present), rule + docstring iff present -- structure
//                                                         PROVED, the five string builders ASSUMED (@wrapexpr D1..D5, prelude/ctor_doc.rs)
//   L2  prelude/ctor_l2.rs, ctor_backend_l2.rs, ctor_doc.rs: lemma_new_satisfies_<inv> for w1, wf_names, mirror_strong / uses_filed /
//       byfix_wf / ne4 (= inv of unit history), li_cache_wf, canon_cache_wf, ast_cache_wf, avail_cache_ok, cycle_cache_ok;
//       lemma_C06_new_is_history_base (idx == idx_empty()), lemma_C07_new_has_no_collision, lemma_C06_new_analyze_pre,
//       lemma_C19_new_backend_cache_inv, lemma_C19_initial_srv_inv (+ _iff_env), lemma_C06_initial_server_is_history_base.
//       env_ok (hence db_inv / srv_inv) is NOT established by the constructor: it is a hypothesis tying the uninterpreted
//       env_third_party / env_is_plugin to the environment fields; lemma_new_env_ok_iff says exactly what it says of the fresh
//       database (env_is_fresh()), canary_new_satisfies_env_ok FAILS, lemma_env_ok_refuted_by_a_plugin_file.
//       Companion unit constructors_refs (unique_at_line, mirror, names_wf, scanned_ok, wf_names of mismatch_spec.rs): its
//       preludes cannot live in one crate with this unit's (duplicate assume_specification[Option::is_some_and]).
//   T3/T6 for the database constructor: prelude/ctor_strip.rs (inside `mod fixtures` ONLY, `Arc::new` / `std::sync::Mutex::new`
//       are verified identities and `std::sync::atomic::AtomicU64` is the prelude shim: the stripping //@dbstruct_arc applies to
//       the field TYPES, applied to the field INITIALISERS; the function text is unchanged).
//   ASSUMED: CS1 DashMap::new() is empty, CS1b PathBuf::new() is empty (mutants only), CS2 derive(Default) on Config = four empty
//       vectors (written out, verified against cfg_is_default), CS3/CS4 LspService::new / Server::serve (prelude/ctor_server.rs),
//       D1..D5 (prelude/ctor_doc.rs); models (verified definitions): tokio RwLock / Mutex = protected value, AtomicU64::new.
// MUTATION RECORD (2026-09-27, scratch copy of /repo/src, VERIF_REPO):
//   m1  definitions_version: AtomicU64::new(1)                   -> new FAILS `r.definitions_version.v == 0`, db_fresh(r); canary_exec_new_version_is_one stops failing
//   m2  definitions built with a pre-inserted ("", []) entry     -> new FAILS `r.definitions.m() == Map::empty()`, db_fresh(r)
//   m2b workspace_root: Mutex::new(Some(PathBuf::new()))         -> new FAILS `r.workspace_root is None`, db_fresh(r)
//   m2c plugin_fixture_files built with a pre-inserted entry     -> new FAILS `r.plugin_fixture_files.m() == Map::empty()`, db_fresh(r)
//   m3a Backend::new ignores its argument: fixture_db: Arc::new(FixtureDatabase::new())  -> Backend::new FAILS `r.fixture_db == fixture_db`, backend_new_post
//   m3b Backend::new: workspace_root initialised to Some(..)     -> Backend::new FAILS `r.workspace_root.v is None`, backend_new_post
//   m3c main.rs: the closure builds its Backend around a SECOND database  -> start_lsp_server FAILS the closure's ensures backend_new_post(b, client, fixture_db)
//   m3d main.rs: fixture_db.invalidate_cycle_cache() before serving -> UNDECIDED (the function is not part of this unit's database)
//   m4  Default::default = new() with the version replaced by 5  -> default FAILS db_fresh(r); canary_exec_default_is_not_new stops failing
//   m4b Default::default = its own struct literal with version 7 -> default FAILS db_fresh(r)
//   m6  doc: docstring block moved in front of the signature     -> format_fixture_documentation FAILS (content@ =~= op_fixture_doc(..))
//   m7  doc: the rule "\n\n---\n\n" dropped                       -> format_fixture_documentation FAILS
//   m8  Backend::new: uri_cache pre-filled with a parsed URI     -> UNDECIDED (tool limit: str::parse / fluent_uri types have no specification)
use rustpython_parser::{parse, Mode};
use rustpython_parser::ast::{Stmt, Expr, Keyword, Identifier, Constant, ExceptHandler, ExprCall, Alias, Arguments, ArgWithDefault};
use rustpython_parser::text_size::TextRange;
use ls_types::*;
verus! {
global size_of usize == 8;  // A6: 64-bit target
pub mod pre {
use super::*;
//@include prelude/path.rs
//@include prelude/path_ext.rs
//@include prelude/types.rs
//@include prelude/dashmap.rs
//@include prelude/hashset.rs
//@include prelude/atomic.rs
//@include prelude/ctor_shims.rs
//@include prelude/glob.rs
//@include prelude/dbview.rs
//@include prelude/hof.rs
//@include prelude/arc.rs
//@include prelude/index_spec.rs
//@include prelude/strings.rs
//@include prelude/iter_ext.rs
//@include prelude/iter_slice.rs
//@include prelude/bytes.rs
//@include build/astspec.rs
#[verifier::external_type_specification] #[verifier::reject_recursive_types(R)] pub struct ExMod<R>(rustpython_parser::ast::Mod<R>);
#[verifier::external_type_specification] #[verifier::reject_recursive_types(R)] pub struct ExModModule<R>(rustpython_parser::ast::ModModule<R>);
#[verifier::external_type_specification] #[verifier::reject_recursive_types(R)] pub struct ExModInteractive<R>(rustpython_parser::ast::ModInteractive<R>);
#[verifier::external_type_specification] #[verifier::reject_recursive_types(R)] pub struct ExModExpression<R>(rustpython_parser::ast::ModExpression<R>);
#[verifier::external_type_specification] #[verifier::reject_recursive_types(R)] pub struct ExModFunctionType<R>(rustpython_parser::ast::ModFunctionType<R>);
#[verifier::external_type_specification] #[verifier::reject_recursive_types(R)] pub struct ExTypeIgnore<R>(rustpython_parser::ast::TypeIgnore<R>);
#[verifier::external_type_specification] #[verifier::reject_recursive_types(R)] pub struct ExTypeIgnoreTypeIgnore<R>(rustpython_parser::ast::TypeIgnoreTypeIgnore<R>);
//@include prelude/ast_spec.rs
//@include prelude/line_spec.rs
//@include prelude/visit_spec.rs
//@include prelude/analyze_spec.rs
//@include prelude/analyze_imports.rs
//@include prelude/history_vocab.rs
//@include prelude/memokeys_spec.rs
//@include prelude/fs_canonical_decl.rs
//@include prelude/memokeys_canon_spec.rs
//@include prelude/history_seq.rs
//@include prelude/history_spec.rs
//@include build/lspspec_main.rs
} // mod pre
use pre::*;

#[verifier::external_type_specification] pub struct ExUndeclaredFixture(UndeclaredFixture);
#[verifier::external_type_specification] pub struct ExFixtureCycle(FixtureCycle);

//@item src/fixtures/mod.rs struct EditableInstall
// ALL 18 fields of src/fixtures/mod.rs (outer Arc / Mutex stripped: T3/T6)
//@dbstruct_arc definitions file_definitions usages usage_by_fixture file_cache undeclared_fixtures imports canonical_path_cache line_index_cache ast_cache definitions_version cycle_cache available_fixtures_cache imported_fixtures_cache site_packages_paths editable_install_roots workspace_root plugin_fixture_files

//@include prelude/index_dbspecs_all.rs

/// canonicalisation of a path -- as in units analyze / history / handlers_main
pub open spec fn canon(p: PV) -> PV { canon_now(p) }

//@include prelude/lsp_backend_mut.rs
//@include prelude/classify_spec.rs
//@include prelude/visit_env.rs
//@include prelude/main_spec_v2.rs
//@include prelude/ctor_spec.rs
//@include prelude/ctor_doc.rs
//@include prelude/ctor_copies.rs
//@include prelude/ctor_l2.rs

pub mod fixtures {
use super::*;
pub use crate::types::FixtureDefinition;   // src/fixtures/mod.rs: `pub use types::{.., FixtureDefinition, ..}`
//@include prelude/ctor_strip.rs
impl FixtureDatabase {
/*@ extract src/fixtures/mod.rs new
@tags C06 C07 C10 C19 C11
@ret r
@sig
    ensures
        r.definitions.m() == Map::empty(),
        r.file_definitions.m() == Map::empty(),
        r.usages.m() == Map::empty(),
        r.usage_by_fixture.m() == Map::empty(),
        r.file_cache.m() == Map::empty(),
        r.undeclared_fixtures.m() == Map::empty(),
        r.imports.m() == Map::empty(),
        r.canonical_path_cache.m() == Map::empty(),
        r.line_index_cache.m() == Map::empty(),
        r.ast_cache.m() == Map::empty(),
        r.definitions_version.v == 0,
        r.cycle_cache.m() == Map::empty(),
        r.available_fixtures_cache.m() == Map::empty(),
        r.imported_fixtures_cache.m() == Map::empty(),
        r.site_packages_paths@ == Seq::empty(),
        r.editable_install_roots@ == Seq::empty(),
        r.workspace_root is None,
        r.plugin_fixture_files.m() == Map::empty(),
        db_fresh(r),
@*/


// ---- exec vacuity guards (each must FAIL): the real body under a deliberately wrong contract
/*@ extract src/fixtures/mod.rs new
@as canary_exec_new_has_a_definition
@ret r
@sig
    ensures exists|n: Seq<char>| r.definitions.m().contains_key(n),
@*/
/*@ extract src/fixtures/mod.rs new
@as canary_exec_new_version_is_one
@ret r
@sig
    ensures r.definitions_version.v == 1,
@*/
/*@ extract src/fixtures/mod.rs new
@as canary_exec_new_knows_a_workspace_root
@ret r
@sig
    ensures r.workspace_root is Some,
@*/
/*@ extract src/fixtures/mod.rs default
@as canary_exec_default_is_not_new
@ret r
@sig
    ensures !db_fresh(r),
@*/
}
impl Default for FixtureDatabase {
/*@ extract src/fixtures/mod.rs default
@tags C06 C07 C10 C19 C11
@ret r
@sig
    ensures db_fresh(r),
@*/
}
} // mod fixtures

pub mod providers {
use super::*;
use crate::pre::Pattern;   // glob::Pattern stand-in (ls_types exports a type alias of the same name)
//@include prelude/ctor_tokio.rs
//@item src/config/mod.rs struct Config
/// CS2 (stand-in of `#[derive(Default)]` on Config, src/config/mod.rs): every field is its type's default, i.e. four
/// empty vectors.  Written out and VERIFIED against cfg_is_default; that the derive expands to this is the assumption.
impl Default for Config {
    fn default() -> (r: Self)
        ensures cfg_is_default(r)
    { Config { exclude: Vec::new(), disabled_diagnostics: Vec::new(), fixture_paths: Vec::new(), skip_plugins: Vec::new() } }
}
//@item src/providers/mod.rs struct Backend
impl Backend {
/*@ extract src/providers/mod.rs new
@tags C19 C10 C11
@ret r
@sig
    ensures
        r.client == client,
        r.fixture_db == fixture_db,
        r.workspace_root.v is None,
        r.original_workspace_root.v is None,
        r.scan_task.v is None,
        r.uri_cache.m() == Map::<PV, Uri>::empty(),
        cfg_is_default(r.config.v),
        backend_new_post(r, client, fixture_db),
@*/
/*@ extract src/providers/mod.rs format_fixture_documentation
@tags C05 C11
@ret r
@wrapexpr 1 `fixture .file_path .strip_prefix(root) .ok() .and_then(|p| p.to_str()) .map(|s| s.to_string()) .unwrap_or_else(|| { fixture .file_path .file_name() .and_then(|f| f.to_str()) .unwrap_or("unknown") .to_string() })` => `Self::vp_doc_rel_path(fixture, root)` with fn vp_doc_rel_path(fixture: &crate::fixtures::FixtureDefinition, root: &PathBuf) -> (r: String) ensures r@ == doc_path_text(pbv(&fixture.file_path), Some(pbv(root)))
@wrapexpr 2 `fixture .file_path .file_name() .and_then(|f| f.to_str()) .unwrap_or("unknown") .to_string()` => `Self::vp_doc_file_name(fixture)` with fn vp_doc_file_name(fixture: &crate::fixtures::FixtureDefinition) -> (r: String) ensures r@ == doc_path_text(pbv(&fixture.file_path), None::<PV>)
@wrapexpr 1 `format!("**from** `{}`\n", relative_path)` => `Self::vp_fmt_from(&relative_path)` with fn vp_fmt_from(relative_path: &String) -> (r: String) ensures r@ == from_line(relative_path@)
@wrapexpr 1 `format!(" -> {}", ret_type)` => `Self::vp_fmt_ret(ret_type)` with fn vp_fmt_ret(ret_type: &String) -> (r: String) ensures r@ == ret_ann(Some(ret_type@))
@wrapexpr 1 `format!( "```python\n@pytest.fixture\ndef {}(...){}:\n```", fixture.name, return_annotation )` => `Self::vp_fmt_sig(fixture, &return_annotation)` with fn vp_fmt_sig(fixture: &crate::fixtures::FixtureDefinition, return_annotation: &String) -> (r: String) ensures r@ == sig_block(fixture.name@, return_annotation@)
@sig
    ensures r@ == op_fixture_doc(dv(fixture), opt_ref_pbv(workspace_root)),
@return tail
    assert(content@ =~= op_fixture_doc(dv(fixture), opt_ref_pbv(workspace_root)));
@*/
// exec canary (must FAIL): the docstring is never part of the text
/*@ extract src/providers/mod.rs format_fixture_documentation
@as canary_exec_doc_never_shows_docstring
@ret r
@wrapexpr 1 `fixture .file_path .strip_prefix(root) .ok() .and_then(|p| p.to_str()) .map(|s| s.to_string()) .unwrap_or_else(|| { fixture .file_path .file_name() .and_then(|f| f.to_str()) .unwrap_or("unknown") .to_string() })` => `Self::vp_doc_rel_path_c1(fixture, root)` with fn vp_doc_rel_path_c1(fixture: &crate::fixtures::FixtureDefinition, root: &PathBuf) -> (r: String) ensures r@ == doc_path_text(pbv(&fixture.file_path), Some(pbv(root)))
@wrapexpr 2 `fixture .file_path .file_name() .and_then(|f| f.to_str()) .unwrap_or("unknown") .to_string()` => `Self::vp_doc_file_name_c1(fixture)` with fn vp_doc_file_name_c1(fixture: &crate::fixtures::FixtureDefinition) -> (r: String) ensures r@ == doc_path_text(pbv(&fixture.file_path), None::<PV>)
@wrapexpr 1 `format!("**from** `{}`\n", relative_path)` => `Self::vp_fmt_from_c1(&relative_path)` with fn vp_fmt_from_c1(relative_path: &String) -> (r: String) ensures r@ == from_line(relative_path@)
@wrapexpr 1 `format!(" -> {}", ret_type)` => `Self::vp_fmt_ret_c1(ret_type)` with fn vp_fmt_ret_c1(ret_type: &String) -> (r: String) ensures r@ == ret_ann(Some(ret_type@))
@wrapexpr 1 `format!( "```python\n@pytest.fixture\ndef {}(...){}:\n```", fixture.name, return_annotation )` => `Self::vp_fmt_sig_c1(fixture, &return_annotation)` with fn vp_fmt_sig_c1(fixture: &crate::fixtures::FixtureDefinition, return_annotation: &String) -> (r: String) ensures r@ == sig_block(fixture.name@, return_annotation@)
@sig
    ensures r@ == from_line(doc_path_text(pbv(&fixture.file_path), opt_ref_pbv(workspace_root))) + sig_block(fixture.name@, ret_ann(opt_sv(fixture.return_type))),
@*/
// ---- exec vacuity guards (each must FAIL)
/*@ extract src/providers/mod.rs new
@as canary_exec_backend_new_shares_prefilled_cache
@ret r
@sig
    ensures exists|p: PV| r.uri_cache.m().contains_key(p),
@*/
/*@ extract src/providers/mod.rs new
@as canary_exec_backend_new_builds_own_database
@ret r
@sig
    ensures db_fresh(*r.fixture_db),
@*/
/*@ extract src/providers/mod.rs new
@as canary_exec_backend_new_has_scan_task
@ret r
@sig
    ensures r.scan_task.v is Some || r.workspace_root.v is Some,
@*/
}
} // mod providers

//@include prelude/ctor_backend_spec.rs
//@include prelude/ctor_backend_l2.rs
//@include prelude/ctor_canaries.rs

pub mod main_rs {
use super::*;
use super::providers::Backend;   // in src/main.rs `Backend` is providers::Backend (the real struct)
//@include prelude/ctor_server.rs

/*@ extract src/main.rs start_lsp_server
@tags C06 C10 C19 C11
@stripasync
@replace 1 `tracing_subscriber::fmt() .with_writer(std::io::stderr) .with_ansi(false) .with_env_filter( tracing_subscriber::EnvFilter::try_from_default_env() .unwrap_or_else(|_| tracing_subscriber::EnvFilter::new("warn")), ) .init()` => `vp_init_logging()`
@closure new:1 |client: Client| -> (b: Backend) ensures backend_new_post(b, client, fixture_db)
@*/

// exec canary (must FAIL): "the state served already holds an analysed file" (version bumped)
/*@ extract src/main.rs start_lsp_server
@as canary_exec_server_starts_with_bumped_version
@stripasync
@replace 1 `tracing_subscriber::fmt() .with_writer(std::io::stderr) .with_ansi(false) .with_env_filter( tracing_subscriber::EnvFilter::try_from_default_env() .unwrap_or_else(|_| tracing_subscriber::EnvFilter::new("warn")), ) .init()` => `vp_init_logging()`
@replace 1 `.serve(service)` => `.serve_c1(service)`
@closure new:1 |client: Client| -> (b: Backend) ensures backend_new_post(b, client, fixture_db)
@*/
// exec canary (must FAIL): the closure handed to LspService::new builds its Backend around ANOTHER database
/*@ extract src/main.rs start_lsp_server
@as canary_exec_server_closure_uses_other_db
@stripasync
@replace 1 `tracing_subscriber::fmt() .with_writer(std::io::stderr) .with_ansi(false) .with_env_filter( tracing_subscriber::EnvFilter::try_from_default_env() .unwrap_or_else(|_| tracing_subscriber::EnvFilter::new("warn")), ) .init()` => `vp_init_logging()`
@closure new:1 |client: Client| -> (b: Backend) ensures b.fixture_db.definitions_version.v == 1
@*/
} // mod main_rs

} // verus!
fn main() {}
