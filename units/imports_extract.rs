//@include prelude/header.rs
// Unit imports_extract (C14 / C01, extraction part): the functions of src/fixtures/imports.rs that turn a module's
// AST into the import facts the resolver uses -- extract_fixture_imports, extract_pytest_plugins,
// is_standard_library_module -- on the REAL rustpython AST types (build/astspec.rs), for ALL ASTs.  Unit
// imports_closure treats the first two as abstract functions `imports_of` / `plugins_of`; here they are DEFINED
// (prelude/imports_extract_spec.rs: spec_fixture_imports / imports_core, spec_pytest_plugins).
//   L1  extract_fixture_imports: imps_v(r@) == spec_fixture_imports(stmts@, pv(file_path), line_index@)  (all five
//         fields of every record, statement order; top-level statements only, as the code does)
//       extract_pytest_plugins:  strs_v(r@) == spec_pytest_plugins(stmts@)   (last assignment wins)
//       is_standard_library_module: r == is_stdlib_name(first_component(module@))
//   L2  prelude/imports_extract_l2.rs (lemma_C14_*): the stdlib filter sees the path AFTER the dots were prepended
//       (relative imports are never filtered), only `from .. import` contributes, statement order, last
//       pytest_plugins assignment wins; 4 proof canaries + 1 exec canary (@as).
// The point of the contract is the ORDER and the CONDITIONS of the string operations; the operations themselves
// are assumed specifications over Seq<char> views (prelude/str_dotted.rs S1-S6, prelude/box_asref.rs):
//   str::repeat, `String + &str` (external_body helper vp_concat: this Verus crashes on the operator),
//   first piece of str::split(char) (axiom_split_first on iter_slice.rs' vp_split), Int::to_usize, Box::as_ref.
// ASSUMED in this file: `STDLIB_MODULES.contains(x)` is a function `is_stdlib_name(x@)` of the text (the static
// Lazy<HashSet> is replaced by the stand-in below; the list's CONTENT is not modelled); get_line_from_offset is a
// function `line_of_offset` of (offset, line index) (callee stub as in unit ast_helpers; the function itself is
// under contract in unit line_index).
// Both loops over `stmts` contain `continue` in nested positions: @forloop (T12) writes them as the `loop` +
// `Iterator::next` form rustc desugars `for` to.
use rustpython_parser::ast::{Expr, Stmt, Identifier, Constant, Alias};
verus! {
pub mod pre {
use super::*;
//@include build/astspec.rs
//@include prelude/path.rs
//@include prelude/hof.rs
//@include prelude/strings.rs
//@include prelude/iter_ext.rs
//@include prelude/iter_slice.rs
//@include prelude/str_dotted.rs
//@include prelude/box_asref.rs
//@include prelude/imports_extract_spec.rs
//@include prelude/imports_extract_l2.rs
} // mod pre
use pre::*;

broadcast use {axiom_string_to_string, axiom_identifier_to_string, axiom_split_first,
    vstd::std_specs::iter::map_postcondition};

//@item src/fixtures/imports.rs struct FixtureImport
spec fn imp_rec_v(i: FixtureImport) -> ImpRecV {
    ImpRecV { imp: ImpV { module: i.module_path@, star: i.is_star_import, names: str_views(i.imported_names@) },
              file: pbv(&i.importing_file), line: i.line }
}
spec fn imp_rec_fn() -> spec_fn(FixtureImport) -> ImpRecV { |i: FixtureImport| imp_rec_v(i) }
spec fn imps_v(s: Seq<FixtureImport>) -> Seq<ImpRecV> { s.map_values(imp_rec_fn()) }
pub open spec fn strs_v(s: Seq<String>) -> Seq<Seq<char>> { str_views(s) }

/// stand-in for `static STDLIB_MODULES: Lazy<HashSet<&'static str>>`: membership is left uninterpreted
pub struct StdlibSet {}
impl StdlibSet {
    #[verifier::external_body]
    pub fn contains(&self, name: &str) -> (r: bool)
        ensures r == is_stdlib_name(name@)
    { unimplemented!() }
}
exec static STDLIB_MODULES: StdlibSet ensures true { StdlibSet {} }

// no field of the database is read by these methods (a field access would not compile: UNDECIDED)
pub struct FixtureDatabase {}

impl FixtureDatabase {
    /// callee stub: binary search over the line index, result left abstract
    #[verifier::external_body]
    pub(crate) fn get_line_from_offset(&self, offset: usize, line_index: &[usize]) -> (r: usize)
        ensures r == line_of_offset(offset, line_index@)
    { unimplemented!() }

/*@ extract src/fixtures/imports.rs is_standard_library_module
@tags C14 C01
@ret r
@rename split vp_split
@sig
    ensures r == is_stdlib_name(first_component(module@)),
@*/

/*@ extract src/fixtures/imports.rs extract_fixture_imports
@tags C14 C01
@ret r
@closure map:1 |m: &Identifier| -> (s: String) ensures s@ == idv(m)
@closure any:1 |alias: &Alias| -> (b: bool) ensures b == (idv(&alias.name) == "*"@)
@closure map:2 |alias: &Alias| -> (s: String) ensures s@ == imported_as(*alias)
@wrapexpr 1 `dots + &module` => `Self::vp_concat(dots, &module)` with fn vp_concat(dots: String, module: &String) -> (r: String) ensures r@ == dots@ + module@
@sig
    ensures imps_v(r@) == spec_fixture_imports(stmts@, pv(file_path), line_index@),
@before for 1
    let ghost mut i: int = 0;
@forloop 1 it
    proof { assert(stmts@.take(i) =~= stmts@); }
@loop 1
    invariant 0 <= i <= stmts@.len(), it.remaining() == stmts@.as_ref().skip(i),
        imps_v(imports@) == spec_fixture_imports(stmts@.take(i), pv(file_path), line_index@),
    ensures imps_v(imports@) == spec_fixture_imports(stmts@, pv(file_path), line_index@),
    decreases stmts@.len() - i
@loopstart 1
    let ghost i0 = i;
    let ghost imps0 = imports@;
    proof {
        assert(*stmt == stmts@[i]);
        assert(stmts@.take(i + 1).drop_last() =~= stmts@.take(i));
        assert(stmts@.take(i + 1).last() == *stmt);
        i = i + 1;
    }
@after is_star 1
    proof {
        let ns = import_from.names@;
        if !is_star {
            assert forall|k: int| 0 <= k < ns.len() implies !(idv(&(#[trigger] ns[k]).name) == "*"@) by { let y = ns.as_ref()[k]; }
        }
        assert(is_star == has_star(ns));
    }
@after names 2
    proof { assert(str_views(names@) =~= import_from.names@.map_values(imported_as_fn())); }
@after push 1
    proof {
        assert(imp_rec_v(imports@.last()).imp.names =~= Seq::<Seq<char>>::empty());
        assert(imps_v(imports@) =~= imps_v(imps0).push(imp_rec_v(imports@.last())));
    }
@after push 2
    proof {
        assert(imps_v(imports@) =~= imps_v(imps0).push(imp_rec_v(imports@.last())));
    }
@*/

/*@ extract src/fixtures/imports.rs extract_pytest_plugins
@tags C14 C01
@ret r
@closure any:1 |target: &Expr| -> (b: bool) ensures b == is_plugins_name(*target)
@sig
    ensures strs_v(r@) == spec_pytest_plugins(stmts@),
@before for 1
    let ghost mut i: int = 0;
@forloop 1 it
    proof { assert(stmts@.take(i) =~= stmts@); }
@loop 1
    invariant 0 <= i <= stmts@.len(), it.remaining() == stmts@.as_ref().skip(i),
        strs_v(modules@) == spec_pytest_plugins(stmts@.take(i)),
    ensures strs_v(modules@) == spec_pytest_plugins(stmts@),
    decreases stmts@.len() - i
@loopstart 1
    let ghost i0 = i;
    proof {
        assert(*stmt == stmts@[i]);
        assert(stmts@.take(i + 1).drop_last() =~= stmts@.take(i));
        assert(stmts@.take(i + 1).last() == *stmt);
        i = i + 1;
    }
@after is_pytest_plugins 1
    proof {
        let ts = assign.targets@;
        if !is_pytest_plugins {
            assert forall|k: int| 0 <= k < ts.len() implies !is_plugins_name(#[trigger] ts[k]) by { let y = ts.as_ref()[k]; }
        }
        assert(is_pytest_plugins == has_plugins_target(ts));
    }
@before modules 2
    proof { assert(plugins_value(*stmt) == Some(*value)); }
@loopvar 2 it2
@loop 2
    invariant it2.seq() == list.elts@.as_ref(),
        strs_v(modules@) == str_lits(list.elts@.take(it2.index@ as int)),
@loopstart 2
    let ghost j0 = it2.index@ as int;
    let ghost m0 = modules@;
    proof { assert(*elt == list.elts@[j0]); assert(list.elts@.take(j0 + 1).drop_last() =~= list.elts@.take(j0)); }
@loopend 2
    proof { assert(strs_v(modules@) =~= str_lits(list.elts@.take(j0 + 1))); }
@after for 2
    proof { assert(list.elts@.take(list.elts@.len() as int) =~= list.elts@); }
@loopvar 3 it3
@loop 3
    invariant it3.seq() == tuple.elts@.as_ref(),
        strs_v(modules@) == str_lits(tuple.elts@.take(it3.index@ as int)),
@loopstart 3
    let ghost j0 = it3.index@ as int;
    let ghost m0 = modules@;
    proof { assert(*elt == tuple.elts@[j0]); assert(tuple.elts@.take(j0 + 1).drop_last() =~= tuple.elts@.take(j0)); }
@loopend 3
    proof { assert(strs_v(modules@) =~= str_lits(tuple.elts@.take(j0 + 1))); }
@after for 3
    proof { assert(tuple.elts@.take(tuple.elts@.len() as int) =~= tuple.elts@); }
@loopend 1
    proof { assert(strs_v(modules@) =~= plugins_of_value(*value)); }
@*/

// exec canary: the same real body under the claim "the FIRST assignment wins" (must FAIL at the postcondition)
/*@ extract src/fixtures/imports.rs extract_pytest_plugins
@tags C14
@as canary_plugins_first_assignment_wins
@ret r
@closure any:1 |target: &Expr| -> (b: bool) ensures b == is_plugins_name(*target)
@sig
    ensures stmts@.len() == 2 && plugins_value(stmts@[0]) is Some && plugins_value(stmts@[1]) is Some
        ==> strs_v(r@) == plugins_of_value(plugins_value(stmts@[0])->0),
@before for 1
    let ghost mut i: int = 0;
@forloop 1 it
    proof { assert(stmts@.take(i) =~= stmts@); }
@loop 1
    invariant 0 <= i <= stmts@.len(), it.remaining() == stmts@.as_ref().skip(i),
        strs_v(modules@) == spec_pytest_plugins(stmts@.take(i)),
    ensures strs_v(modules@) == spec_pytest_plugins(stmts@),
    decreases stmts@.len() - i
@loopstart 1
    let ghost i0 = i;
    proof {
        assert(*stmt == stmts@[i]);
        assert(stmts@.take(i + 1).drop_last() =~= stmts@.take(i));
        assert(stmts@.take(i + 1).last() == *stmt);
        i = i + 1;
    }
@after is_pytest_plugins 1
    proof {
        let ts = assign.targets@;
        if !is_pytest_plugins {
            assert forall|k: int| 0 <= k < ts.len() implies !is_plugins_name(#[trigger] ts[k]) by { let y = ts.as_ref()[k]; }
        }
        assert(is_pytest_plugins == has_plugins_target(ts));
    }
@before modules 2
    proof { assert(plugins_value(*stmt) == Some(*value)); }
@loopvar 2 it2
@loop 2
    invariant it2.seq() == list.elts@.as_ref(),
        strs_v(modules@) == str_lits(list.elts@.take(it2.index@ as int)),
@loopstart 2
    let ghost j0 = it2.index@ as int;
    let ghost m0 = modules@;
    proof { assert(*elt == list.elts@[j0]); assert(list.elts@.take(j0 + 1).drop_last() =~= list.elts@.take(j0)); }
@loopend 2
    proof { assert(strs_v(modules@) =~= str_lits(list.elts@.take(j0 + 1))); }
@after for 2
    proof { assert(list.elts@.take(list.elts@.len() as int) =~= list.elts@); }
@loopvar 3 it3
@loop 3
    invariant it3.seq() == tuple.elts@.as_ref(),
        strs_v(modules@) == str_lits(tuple.elts@.take(it3.index@ as int)),
@loopstart 3
    let ghost j0 = it3.index@ as int;
    let ghost m0 = modules@;
    proof { assert(*elt == tuple.elts@[j0]); assert(tuple.elts@.take(j0 + 1).drop_last() =~= tuple.elts@.take(j0)); }
@loopend 3
    proof { assert(strs_v(modules@) =~= str_lits(tuple.elts@.take(j0 + 1))); }
@after for 3
    proof { assert(tuple.elts@.take(tuple.elts@.len() as int) =~= tuple.elts@); }
@loopend 1
    proof { assert(strs_v(modules@) =~= plugins_of_value(*value)); }
@*/
}

} // verus!
fn main() {}
