//@include prelude/header.rs
// Unit imports_extract (C14 / C01, extraction part): the functions of src/fixtures/imports.rs that turn a module's
// AST into the import facts the resolver uses, on the REAL rustpython AST types, for ALL ASTs.
use rustpython_parser::ast::{Expr, Stmt, Identifier, Constant, Alias};
verus! {
pub mod pre {
use super::*;
//@include build/astspec.rs
//@include prelude/path.rs
//@include prelude/types.rs
//@include prelude/dashmap.rs
//@include prelude/hashset.rs
//@include prelude/hof.rs
//@include prelude/strings.rs
//@include prelude/iter_ext.rs
//@include prelude/iter_slice.rs
//@include prelude/str_dotted.rs
//@include prelude/imports_extract_spec.rs
} // mod pre
use pre::*;

broadcast use {axiom_string_to_string, axiom_identifier_to_string, axiom_split_first, axiom_default_string,
    vstd::std_specs::iter::map_postcondition};

//@item src/fixtures/imports.rs struct FixtureImport
pub open spec fn imp_rec_v(i: FixtureImport) -> ImpRecV {
    ImpRecV { imp: ImpV { module: i.module_path@, star: i.is_star_import, names: str_views(i.imported_names@) },
              file: pbv(&i.importing_file), line: i.line }
}
pub open spec fn imp_rec_fn() -> spec_fn(FixtureImport) -> ImpRecV { |i: FixtureImport| imp_rec_v(i) }
pub open spec fn imps_v(s: Seq<FixtureImport>) -> Seq<ImpRecV> { s.map_values(imp_rec_fn()) }
pub open spec fn strs_v(s: Seq<String>) -> Seq<Seq<char>> { str_views(s) }

/// stand-in for `static STDLIB_MODULES: Lazy<HashSet<&'static str>>`: membership is left uninterpreted
pub struct StdlibSet {}
impl StdlibSet {
    #[verifier::external_body]
    pub fn contains(&self, name: &str) -> (r: bool)
        ensures r == is_stdlib_name(name@)
    { unimplemented!() }
}
exec static STDLIB_MODULES: StdlibSet ensures true { StdlibSet {} }

// no field of the database is read by these methods (a field access would not compile: UNDECIDED)
pub struct FixtureDatabase {}

impl FixtureDatabase {
    /// callee stub: binary search over the line index, result left abstract
    #[verifier::external_body]
    pub(crate) fn get_line_from_offset(&self, offset: usize, line_index: &[usize]) -> (r: usize)
        ensures r == line_of_offset(offset, line_index@)
    { unimplemented!() }

/*@ extract src/fixtures/imports.rs is_standard_library_module
@tags C14 C01
@ret r
@rename split vp_split
@sig
    ensures r == is_stdlib_name(first_component(module@)),
@*/

/*@ extract src/fixtures/imports.rs extract_fixture_imports
@tags C14 C01
@ret r
@closure 1 |m: &Identifier| -> (s: String) ensures s@ == idv(m)
@closure 2 |alias: &Alias| -> (b: bool) ensures b == (idv(&alias.name) == "*"@)
@closure 3 |alias: &Alias| -> (s: String) ensures s@ == imported_as(*alias)
@sig
    ensures imps_v(r@) == spec_fixture_imports(stmts@, pv(file_path), line_index@),
@loopvar 1 it
@loop 1
    invariant it.seq() == stmts@.as_ref(),
        imps_v(imports@) == spec_fixture_imports(stmts@.take(it.index@ as int), pv(file_path), line_index@),
@*/

/*@ extract src/fixtures/imports.rs extract_pytest_plugins
@tags C14 C01
@ret r
@sig
    ensures strs_v(r@) == spec_pytest_plugins(stmts@),
@*/
}

} // verus!
fn main() {}
