//@include prelude/header.rs
verus! {
// Unit cli_unused — C20 (`fixtures unused` / `fixtures list` counts) and the CLI clause of C04.
//   L1: cli.rs compute_definition_usage_counts == counts_post (exact: domain + every count, memoisation included)
//       cli.rs get_unused_fixtures           == unused_post (sorted by (path, name); multiset of listed keys)
//   L2: prelude/cli_l2.rs (C20.a listed-iff, C20.b counts == op_refs under the mirror invariant, C20.c reproducible)
//   assumed: prelude/hashmap.rs (std HashMap shim), prelude/option_ext.rs (Option::copied/is_some_and,
//            Ordering::then_with, PathBuf/String Ord::cmp = uninterpreted total orders, <[T]>::sort_by)
//   source rewrite (T9): `&d.file_path == def_path` -> `d.file_path == *def_path` (vstd: no spec for &A == &B)
global size_of usize == 8;  // A6: 64-bit target
pub mod pre {
use super::*;
//@include prelude/path.rs
//@include prelude/types.rs
//@include prelude/dashmap.rs
//@include prelude/hashset.rs
//@include prelude/hashmap.rs
//@include prelude/option_ext.rs
//@include prelude/atomic.rs
//@include prelude/dbview.rs
//@include prelude/hof.rs
//@include prelude/resolve_spec.rs
//@include prelude/text.rs
//@include prelude/refs_spec.rs
//@include prelude/resolve_l2.rs
//@include prelude/cli_spec.rs
//@include prelude/cli_l2.rs
} // mod pre
use pre::*;

//@dbstruct definitions file_cache usages usage_by_fixture

//@include prelude/db_specs.rs

broadcast use {axiom_has_parent_nonempty, axiom_str_as_path, axiom_default_hashmap};

impl FixtureDatabase {
    pub open spec fn byfix(&self) -> Map<Seq<char>, Seq<(PV, UseV)>> { byfix_view(self.usage_by_fixture.m()) }
    pub open spec fn uses(&self) -> Map<PV, Seq<UseV>> { usages_view(self.usages.m()) }
    pub open spec fn provf(&self) -> spec_fn(Seq<char>) -> spec_fn(PV) -> bool { |n: Seq<char>| self.prov(n) }

//@stub resolver_core find_closest_definition
//@stub resolver_core find_closest_definition_excluding

/*@ extract src/fixtures/cli.rs compute_definition_usage_counts
@tags C20 C04
@ret r
@replace 1 `&d.file_path == def_path` => `d.file_path == *def_path`
@closure and_then:1 |lines: &HashMap<usize, FixtureDefinition>| -> (o: Option<&FixtureDefinition>)
    ensures match o { Some(v) => lines.m().contains_key(usage.line) && *v == lines.m()[usage.line], None => !lines.m().contains_key(usage.line) }
@closure is_some_and:1 |def: &FixtureDefinition| -> (b: bool) ensures b == (def.name@ == usage.name@)
@closure and_then:2 |def_path: &PathBuf| -> (o: Option<FixtureDefinition>) ensures find_post_m(self.definitions.m(), usage.name@, pbv(def_path), o)
@closure and_then:3 |defs: Ref<'_, String, Vec<FixtureDefinition>>| -> (o: Option<FixtureDefinition>) ensures find_post(defs.r@.as_ref(), pbv(def_path), o)
@closure find:1 |d: &&FixtureDefinition| -> (b: bool) ensures b == (pbv(&d.file_path) == pbv(def_path))
@closure map:1 |d: &FixtureDefinition| -> (p: PathBuf) ensures pbv(&p) == pbv(&d.file_path)
@sig
    requires unique_at_line(self.defs()), total_usages(self.uses()) <= usize::MAX,
    ensures counts_post(r.m(), self.defs(), self.uses(), self.provf()),
@start
    let ghost m0 = self.definitions.m();
    let ghost um = self.usages.m();
    let ghost defs = self.defs();
    let ghost uses = self.uses();
    let ghost provf = self.provf();
    let ghost mut done1: Set<Seq<char>> = Set::empty();
    let ghost mut done2: Set<Seq<char>> = Set::empty();
    let ghost mut done_ks: Seq<PV> = Seq::empty();
@loopvar 1 it1
@loop 1
    invariant
        m0 == self.definitions.m(), defs == self.defs(),
        forall|j: int| 0 <= j < it1.seq().len() ==> m0.contains_key((#[trigger] it1.seq()[j]).k@) && *it1.seq()[j].v == m0[it1.seq()[j].k@],
        forall|key: Seq<char>| m0.contains_key(key) ==> exists|j: int| 0 <= j < it1.seq().len() && (#[trigger] it1.seq()[j]).k@ == key,
        forall|j: int| 0 <= j < it1.index@ ==> done1.contains((#[trigger] it1.seq()[j]).k@),
        forall|key: CKey| #[trigger] counts.m().contains_key(key) ==> has_def_in(defs, key) && counts.m()[key] == 0,
        forall|n: Seq<char>| done1.contains(n) && m0.contains_key(n) ==> #[trigger] init_cover(counts.m(), defs, n, m0[n]@.len() as int),
@loopvar 2 it2
@loop 2
    invariant
        m0 == self.definitions.m(), defs == self.defs(),
        m0.contains_key(entry.k@), *entry.v == m0[entry.k@], *fixture_name == *entry.k,
        it2.seq() == entry.v@.as_ref(),
        forall|key: CKey| #[trigger] counts.m().contains_key(key) ==> has_def_in(defs, key) && counts.m()[key] == 0,
        forall|n: Seq<char>| done1.contains(n) && m0.contains_key(n) ==> #[trigger] init_cover(counts.m(), defs, n, m0[n]@.len() as int),
        init_cover(counts.m(), defs, entry.k@, it2.index@ as int),
@loopstart 2
    let ghost j0 = it2.index@ as int;
    let ghost cm_old = counts.m();
    proof {
        assert(entry.v@[j0] == *def);
        assert(defs[entry.k@][j0] == dv(def));
        assert(bucket(defs, entry.k@)[j0].file == pbv(&def.file_path));
        assert(has_def_in(defs, (pbv(&def.file_path), entry.k@)));
    }
@loopend 2
    proof {
        assert forall|n: Seq<char>| done1.contains(n) && m0.contains_key(n) implies #[trigger] init_cover(counts.m(), defs, n, m0[n]@.len() as int) by {
            assert(init_cover(cm_old, defs, n, m0[n]@.len() as int));
        }
        assert(init_cover(cm_old, defs, entry.k@, j0));
    }
@loopend 1
    proof { done1 = done1.insert(entry.k@); }
@after for 1
    proof {
        assert forall|key: CKey| has_def_in(defs, key) implies #[trigger] counts.m().contains_key(key) by {
            let i = choose|i: int| 0 <= i < bucket(defs, key.1).len() && (#[trigger] bucket(defs, key.1)[i]).file == key.0;
            assert(m0.contains_key(key.1));
            assert(done1.contains(key.1));
            assert(init_cover(counts.m(), defs, key.1, m0[key.1]@.len() as int));
        }
    }
@loopvar 3 it3
@loop 3
    invariant
        m0 == self.definitions.m(), defs == self.defs(),
        forall|j: int| 0 <= j < it3.seq().len() ==> m0.contains_key((#[trigger] it3.seq()[j]).k@) && *it3.seq()[j].v == m0[it3.seq()[j].k@],
        forall|key: Seq<char>| m0.contains_key(key) ==> exists|j: int| 0 <= j < it3.seq().len() && (#[trigger] it3.seq()[j]).k@ == key,
        forall|j: int| 0 <= j < it3.index@ ==> done2.contains((#[trigger] it3.seq()[j]).k@),
        fdl_sound(fixture_def_lines.m(), defs),
        forall|n: Seq<char>| done2.contains(n) && m0.contains_key(n) ==> #[trigger] fdl_cover(fixture_def_lines.m(), defs, n, m0[n]@.len() as int),
@loopvar 4 it4
@loop 4
    invariant
        m0 == self.definitions.m(), defs == self.defs(),
        m0.contains_key(entry.k@), *entry.v == m0[entry.k@],
        it4.seq() == entry.v@.as_ref(),
        fdl_sound(fixture_def_lines.m(), defs),
        forall|n: Seq<char>| done2.contains(n) && m0.contains_key(n) ==> #[trigger] fdl_cover(fixture_def_lines.m(), defs, n, m0[n]@.len() as int),
        fdl_cover(fixture_def_lines.m(), defs, entry.k@, it4.index@ as int),
@loopstart 4
    let ghost j0 = it4.index@ as int;
    let ghost fm0 = fixture_def_lines.m();
    proof {
        assert(entry.v@[j0] == *def);
        assert(defs[entry.k@][j0] == dv(def));
        assert(at_line(defs, pbv(&def.file_path), def.line, dv(def)));
    }
@loopend 4
    proof {
        let f = pbv(&def.file_path);
        let fm = fixture_def_lines.m();
        assert(fm.contains_key(f) && fm[f].m().contains_key(def.line) && dv(&fm[f].m()[def.line]) == dv(def));
        assert(forall|f2: PV| f2 != f ==> (fm.contains_key(f2) <==> fm0.contains_key(f2)));
        assert(forall|f2: PV| f2 != f && fm.contains_key(f2) ==> fm[f2] == fm0[f2]);
        assert(forall|l: usize| l != def.line && fm[f].m().contains_key(l) ==> fm0.contains_key(f) && fm0[f].m().contains_key(l) && fm[f].m()[l] == fm0[f].m()[l]);
        assert(forall|l: usize| fm0.contains_key(f) && fm0[f].m().contains_key(l) ==> fm[f].m().contains_key(l));
        assert forall|n: Seq<char>| done2.contains(n) && m0.contains_key(n) implies #[trigger] fdl_cover(fixture_def_lines.m(), defs, n, m0[n]@.len() as int) by {
            assert(fdl_cover(fm0, defs, n, m0[n]@.len() as int));
        }
        assert(fdl_cover(fm0, defs, entry.k@, j0));
    }
@loopend 3
    proof { done2 = done2.insert(entry.k@); }
@before for 5
    proof {
        assert forall|n: Seq<char>| defs.contains_key(n) implies #[trigger] fdl_cover(fixture_def_lines.m(), defs, n, defs[n].len() as int) by {
            assert(m0.contains_key(n));
            assert(done2.contains(n));
            assert(fdl_cover(fixture_def_lines.m(), defs, n, m0[n]@.len() as int));
        }
        lemma_cnt_init(counts.m(), defs, uses, provf, Seq::empty());
        assert(cache_ok(resolution_cache.m(), defs, provf));
    }
@loopvar 5 it5
@loop 5
    invariant
        m0 == self.definitions.m(), um == self.usages.m(), defs == self.defs(), uses == self.uses(), provf == self.provf(),
        unique_at_line(defs), total_usages(uses) <= usize::MAX,
        forall|j: int| 0 <= j < it5.seq().len() ==> um.contains_key(pbv((#[trigger] it5.seq()[j]).k)) && *it5.seq()[j].v == um[pbv(it5.seq()[j].k)],
        forall|j1: int, j2: int| 0 <= j1 < j2 < it5.seq().len() ==> pbv((#[trigger] it5.seq()[j1]).k) != pbv((#[trigger] it5.seq()[j2]).k),
        forall|key: PV| um.contains_key(key) ==> exists|j: int| 0 <= j < it5.seq().len() && pbv((#[trigger] it5.seq()[j]).k) == key,
        fdl_sound(fixture_def_lines.m(), defs),
        forall|n: Seq<char>| defs.contains_key(n) ==> #[trigger] fdl_cover(fixture_def_lines.m(), defs, n, defs[n].len() as int),
        cache_ok(resolution_cache.m(), defs, provf),
        done_ks.len() == it5.index@,
        forall|j: int| #![trigger done_ks[j]] #![trigger it5.seq()[j]] 0 <= j < it5.index@ ==> done_ks[j] == pbv(it5.seq()[j].k),
        cnt_inv(counts.m(), defs, uses, provf, done_ks, Seq::empty(), Seq::empty()),
@loopstart 5
    let ghost ks = ref_keys(it5.seq());
    let ghost i5 = it5.index@ as int;
    let ghost g = pbv(entry.k);
    proof {
        assert(ks[i5] == g);
        assert(done_ks =~= ks.take(i5));
        lemma_ref_keys_enum(it5.seq(), um, uses);
        lemma_sum_seq_set(ks, uses.dom(), file_len(uses));
        lemma_cnt_change_file(counts.m(), defs, uses, provf, ks.take(i5), Seq::empty(), g);
    }
@after usages 2
    let ghost usv = uvs(usages@);
    proof {
        assert(um.contains_key(g) && *usages == um[g]);
        assert(usv == bucket(uses, g));
        assert(usv.take(0) =~= Seq::<UseV>::empty());
    }
@loopvar 6 it6
@loop 6
    invariant
        m0 == self.definitions.m(), um == self.usages.m(), defs == self.defs(), uses == self.uses(), provf == self.provf(),
        unique_at_line(defs),
        g == pbv(file_path), 0 <= i5 < ks.len(), ks[i5] == g, sum_seq(ks, file_len(uses)) <= usize::MAX,
        it6.seq() == usages@.as_ref(), usv == uvs(usages@), usv == bucket(uses, g),
        match file_def_lines { Some(h) => fixture_def_lines.m().contains_key(g) && *h == fixture_def_lines.m()[g], None => !fixture_def_lines.m().contains_key(g) },
        fdl_sound(fixture_def_lines.m(), defs),
        forall|n: Seq<char>| defs.contains_key(n) ==> #[trigger] fdl_cover(fixture_def_lines.m(), defs, n, defs[n].len() as int),
        cache_ok(resolution_cache.m(), defs, provf),
        cnt_inv(counts.m(), defs, uses, provf, ks.take(i5), g, usv.take(it6.index@ as int)),
@loopstart 6
    let ghost j0 = it6.index@ as int;
    let ghost u = uv(usage);
    let ghost cache0 = resolution_cache.m();
    let ghost ck: CKey = (g, u.name);
    proof {
        assert(usages@[j0] == *usage);
        assert(usv[j0] == u);
        assert(usv.take(j0).push(u) =~= usv.take(j0 + 1));
    }
@after fixture_def_at_line 1
    proof {
        assert(opt_dv(fixture_def_at_line) == fdl_lookup(fixture_def_lines.m(), g, usage.line));
        lemma_fdl_pick(fixture_def_lines.m(), defs, g, usage.line);
    }
@after resolved_def 1
    proof {
        assert(provf(u.name) == self.prov(u.name));
        if is_self_referencing {
            assert(opt_dv(resolved_def) == resolve_usage(defs, provf, g, u));
        } else {
            assert(resolve_usage(defs, provf, g, u) == op_resolve(bucket(defs, u.name), g, provf(u.name), fs_true()));
            if cache0.contains_key(ck) {
                assert(resolution_cache.m() == cache0);
                lemma_cache_hit(m0, provf, g, u.name, cache0[ck], resolved_def);
            } else {
                assert(opt_dv(resolved_def) == resolve_usage(defs, provf, g, u));
                assert(resolution_cache.m() == cache0.insert(ck, resolution_cache.m()[ck]));
                assert(opt_pbv(resolution_cache.m()[ck]) == opt_file(opt_dv(resolved_def)));
            }
        }
        assert(opt_file(opt_dv(resolved_def)) == opt_file(resolve_usage(defs, provf, g, u)));
        assert(cache_ok(resolution_cache.m(), defs, provf));
    }
@before resolved_def 2
    let ghost cm0 = counts.m();
    proof {
        if resolved_def is None {
            lemma_cnt_step_none(cm0, defs, uses, provf, ks.take(i5), g, usv.take(j0), u);
        } else {
            lemma_cnt_bound(cm0, defs, uses, provf, ks, i5, j0, (pbv(&resolved_def->0.file_path), u.name));
        }
    }
@after or_insert 1
    proof {
        lemma_cnt_step_some(cm0, counts.m(), defs, uses, provf, ks.take(i5), g, usv.take(j0), u, pbv(&def.file_path));
    }
@loopend 5
    proof {
        assert(usv.take(usv.len() as int) =~= usv);
        lemma_cnt_file_done(counts.m(), defs, uses, provf, ks.take(i5), g, Seq::empty());
        done_ks = done_ks.push(g);
    }
@return tail
    assert(done_ks.no_duplicates());
    assert forall|i: int| 0 <= i < done_ks.len() implies uses.dom().contains(#[trigger] done_ks[i]) by { }
    assert forall|x: PV| uses.dom().contains(x) implies exists|i: int| 0 <= i < done_ks.len() && #[trigger] done_ks[i] == x by { assert(um.contains_key(x)); }
    lemma_cnt_final(counts.m(), defs, uses, provf, done_ks, Seq::empty());
@*/

/*@ extract src/fixtures/cli.rs get_unused_fixtures
@tags C20 C04
@ret r
@nocontinue 2
@closure sort_by:1 |a: &(PathBuf, String), b: &(PathBuf, String)| -> (o: core::cmp::Ordering) ensures o == key_cmp((pbv(&a.0), a.1@), (pbv(&b.0), b.1@))
@closure then_with:1 || -> (o2: core::cmp::Ordering) ensures o2 == str_ord(a.1@, b.1@)
@sig
    requires unique_at_line(self.defs()), total_usages(self.uses()) <= usize::MAX,
    ensures unused_post(r@, self.defs(), self.uses(), self.provf()),
@start
    let ghost m0 = self.definitions.m();
    let ghost defs = self.defs();
    let ghost uses = self.uses();
    let ghost provf = self.provf();
    let ghost mut done: Set<Seq<char>> = Set::empty();
@before for 1
    proof {
        assert(keys_of(unused@) =~= Seq::<CKey>::empty());
        assert(un_outer(keys_of(unused@), defs, uses, provf, done)) by {
            reveal(un_outer);
            assert forall|key: CKey| #[trigger] occ(keys_of(unused@), key) == 0 by { lemma_occ_empty(key); }
        }
    }
@loopvar 1 it
@loop 1
    invariant
        m0 == self.definitions.m(), defs == self.defs(), uses == self.uses(), provf == self.provf(),
        counts_post(definition_usage_counts.m(), defs, uses, provf),
        forall|j: int| 0 <= j < it.seq().len() ==> m0.contains_key((#[trigger] it.seq()[j]).k@) && *it.seq()[j].v == m0[it.seq()[j].k@],
        forall|j1: int, j2: int| 0 <= j1 < j2 < it.seq().len() ==> (#[trigger] it.seq()[j1]).k@ != (#[trigger] it.seq()[j2]).k@,
        forall|key: Seq<char>| m0.contains_key(key) ==> exists|j: int| 0 <= j < it.seq().len() && (#[trigger] it.seq()[j]).k@ == key,
        forall|j: int| 0 <= j < it.index@ ==> done.contains((#[trigger] it.seq()[j]).k@),
        forall|n: Seq<char>| done.contains(n) ==> exists|j: int| 0 <= j < it.index@ && (#[trigger] it.seq()[j]).k@ == n,
        un_outer(keys_of(unused@), defs, uses, provf, done),
@loopstart 1
    let ghost nm = entry.k@;
    proof {
        assert(!done.contains(nm)) by {
            if done.contains(nm) {
                let j = choose|j: int| 0 <= j < it.index@ && (#[trigger] it.seq()[j]).k@ == nm;
                assert(it.seq()[j].k@ != it.seq()[it.index@ as int].k@);
            }
        }
        lemma_un_start(keys_of(unused@), defs, uses, provf, done, nm);
        assert(bucket(defs, nm) == dvs(entry.v@));
    }
@loopvar 2 it2
@loop 2
    invariant
        m0 == self.definitions.m(), defs == self.defs(), uses == self.uses(), provf == self.provf(),
        counts_post(definition_usage_counts.m(), defs, uses, provf),
        m0.contains_key(entry.k@), *entry.v == m0[entry.k@], nm == entry.k@, *fixture_name == *entry.k,
        it2.seq() == entry.v@.as_ref(), bucket(defs, nm) == dvs(entry.v@),
        un_inner(keys_of(unused@), defs, uses, provf, done, nm, it2.index@ as int),
@loopstart 2
    let ghost j0 = it2.index@ as int;
    let ghost before = unused@;
    let ghost d = dv(def);
    proof {
        assert(entry.v@[j0] == *def);
        assert(bucket(defs, nm)[j0] == d);
    }
@continueproof 2 1
    lemma_un_skip(keys_of(before), defs, uses, provf, done, nm, j0);
@continueproof 2 2
    lemma_un_skip(keys_of(before), defs, uses, provf, done, nm, j0);
@after usage_count 1
    proof {
        assert(usage_count as nat == cval(definition_usage_counts.m(), (d.file, nm)));
        assert(usage_count as nat == total_hits(defs, uses, provf, (d.file, nm)));
        if usage_count != 0 { lemma_un_skip(keys_of(before), defs, uses, provf, done, nm, j0); }
    }
@after unused 2
    proof {
        lemma_un_push(keys_of(before), defs, uses, provf, done, nm, j0);
        assert(keys_of(unused@) =~= keys_of(before).push((d.file, nm)));
    }
@loopend 1
    proof {
        lemma_un_end(keys_of(unused@), defs, uses, provf, done, nm);
        done = done.insert(nm);
    }
@before sort_by 1
    let ghost pre = unused@;
    proof {
        lemma_un_final(keys_of(pre), defs, uses, provf, done);
        lemma_pair_cmp_total();
    }
@after sort_by 1
    proof {
        assert(sorted_by_cmp(unused@, pair_cmp_fn()));
        lemma_sorted_keys(unused@);
        lemma_perm_map(unused@, pre, kv_fn());
        assert forall|key: CKey| #[trigger] occ(keys_of(unused@), key) == unused_target(defs, uses, provf, key) by {
            assert(occ(keys_of(pre), key) == unused_target(defs, uses, provf, key));
        }
    }
@*/
}

pub open spec fn init_cover(cm: Map<CKey, usize>, defs: Map<Seq<char>, Seq<DefV>>, n: Seq<char>, upto: int) -> bool {
    forall|i: int| 0 <= i < upto && i < bucket(defs, n).len() ==> cm.contains_key(((#[trigger] bucket(defs, n)[i]).file, n))
}
pub open spec fn ref_keys<'a, V>(s: Seq<RefMulti<'a, PathBuf, V>>) -> Seq<PV> { s.map_values(|e: RefMulti<'a, PathBuf, V>| pbv(e.k)) }
/// the keys delivered by DashMap::iter enumerate the domain without repetition
pub proof fn lemma_ref_keys_enum<'a>(s: Seq<RefMulti<'a, PathBuf, Vec<FixtureUsage>>>, um: Map<PV, Vec<FixtureUsage>>, uses: Map<PV, Seq<UseV>>)
    requires uses == usages_view(um),
        forall|j: int| 0 <= j < s.len() ==> um.contains_key(pbv((#[trigger] s[j]).k)),
        forall|j1: int, j2: int| 0 <= j1 < j2 < s.len() ==> pbv((#[trigger] s[j1]).k) != pbv((#[trigger] s[j2]).k),
        forall|key: PV| um.contains_key(key) ==> exists|j: int| 0 <= j < s.len() && pbv((#[trigger] s[j]).k) == key,
    ensures ref_keys(s).no_duplicates(),
        forall|i: int| 0 <= i < ref_keys(s).len() ==> uses.dom().contains(#[trigger] ref_keys(s)[i]),
        forall|x: PV| uses.dom().contains(x) ==> exists|i: int| 0 <= i < ref_keys(s).len() && #[trigger] ref_keys(s)[i] == x,
{
    let ks = ref_keys(s);
    assert forall|a: int, b: int| 0 <= a < ks.len() && 0 <= b < ks.len() && a != b implies ks[a] != ks[b] by {
        if a < b { assert(pbv(s[a].k) != pbv(s[b].k)); } else { assert(pbv(s[b].k) != pbv(s[a].k)); }
    }
    assert forall|i: int| 0 <= i < ks.len() implies uses.dom().contains(#[trigger] ks[i]) by { assert(um.contains_key(pbv(s[i].k))); }
    assert forall|x: PV| uses.dom().contains(x) implies exists|i: int| 0 <= i < ks.len() && #[trigger] ks[i] == x by {
        assert(um.contains_key(x));
        let j = choose|j: int| 0 <= j < s.len() && pbv((#[trigger] s[j]).k) == x;
        assert(ks[j] == x);
    }
}
} // verus!
fn main() {}
