//@include prelude/header.rs
verus! {
global size_of usize == 8;  // A6: 64-bit target
pub mod pre {
use super::*;
//@include prelude/path.rs
//@include prelude/types.rs
//@include prelude/dashmap.rs
//@include prelude/hashset.rs
//@include prelude/hashmap.rs
//@include prelude/option_ext.rs
//@include prelude/atomic.rs
//@include prelude/dbview.rs
//@include prelude/hof.rs
//@include prelude/resolve_spec.rs
//@include prelude/refs_spec.rs
//@include prelude/resolve_l2.rs
} // mod pre
use pre::*;

//@dbstruct definitions file_cache usages usage_by_fixture

//@include prelude/db_specs.rs

broadcast use {axiom_has_parent_nonempty, axiom_str_as_path, axiom_default_hashmap};

impl FixtureDatabase {
    pub open spec fn byfix(&self) -> Map<Seq<char>, Seq<(PV, UseV)>> { byfix_view(self.usage_by_fixture.m()) }
    pub open spec fn uses(&self) -> Map<PV, Seq<UseV>> { usages_view(self.usages.m()) }
    pub open spec fn provf(&self) -> spec_fn(Seq<char>) -> spec_fn(PV) -> bool { |n: Seq<char>| self.prov(n) }

//@stub resolver_core find_closest_definition
//@stub resolver_core find_closest_definition_excluding

/*@ extract src/fixtures/cli.rs compute_definition_usage_counts
@tags C20 C04
@ret r
@replace 1 `&d.file_path == def_path` => `d.file_path == *def_path`
@closure 1 |lines: &HashMap<usize, FixtureDefinition>| -> (o: Option<&FixtureDefinition>)
@closure 2 |def: &FixtureDefinition| -> (b: bool)
@closure 3 |def_path: &PathBuf| -> (o: Option<FixtureDefinition>)
@closure 4 |defs: Ref<'_, String, Vec<FixtureDefinition>>| -> (o: Option<FixtureDefinition>)
@closure 5 |d: &&FixtureDefinition| -> (b: bool)
@closure 6 |d: &FixtureDefinition| -> (p: PathBuf)
@sig
    ensures true,
@*/
}
} // verus!
fn main() {}
