//@include prelude/strstruct_header.rs
verus! {
pub mod pre {
use super::*;
//@include prelude/path.rs
//@include prelude/hof.rs
//@include prelude/strings.rs
//@include prelude/glob.rs
//@include prelude/iter_ext.rs
//@include prelude/scansel_str.rs
} // mod pre
use pre::*;

broadcast use {vstd::std_specs::iter::filter_postcondition, lemma_take_filter_index_is_filter, lemma_lits_contains, axiom_pathbuf_ref_as_path, axiom_spat_str};

// The two structs of src/config/mod.rs, taken from the source at generation time (the file itself cannot be
// #[path]-included: serde derives).
//@item src/config/mod.rs struct RawConfig
//@item src/config/mod.rs struct Config
//@item src/config/mod.rs struct Tool
//@item src/config/mod.rs struct PyProjectToml

// ---- abstract views and the operational specification (L1 target) --------------------------------
pub struct RawV { pub exclude: Seq<Seq<char>>, pub disabled: Seq<Seq<char>>, pub fixture_paths: Seq<Seq<char>>, pub skip_plugins: Seq<Seq<char>> }
/// exclude = the source texts of the compiled patterns
pub struct CfgV { pub exclude: Seq<Seq<char>>, pub disabled: Seq<Seq<char>>, pub fixture_paths: Seq<Seq<char>>, pub skip_plugins: Seq<Seq<char>> }

pub closed spec fn raw_view(r: &RawConfig) -> RawV {
    RawV { exclude: str_views(r.exclude@), disabled: str_views(r.disabled_diagnostics@),
           fixture_paths: str_views(r.fixture_paths@), skip_plugins: str_views(r.skip_plugins@) }
}
pub closed spec fn cfg_view(c: &Config) -> CfgV {
    CfgV { exclude: pat_views(c.exclude@), disabled: str_views(c.disabled_diagnostics@),
           fixture_paths: str_views(c.fixture_paths@), skip_plugins: str_views(c.skip_plugins@) }
}

/// the three diagnostic codes the server publishes (property C19 names them)
pub open spec fn valid_code(c: Seq<char>) -> bool {
    c == "undeclared-fixture"@ || c == "scope-mismatch"@ || c == "circular-dependency"@
}
pub open spec fn valid_code_fn() -> spec_fn(Seq<char>) -> bool { |c: Seq<char>| valid_code(c) }
pub open spec fn valid_code_string_fn() -> spec_fn(String) -> bool { |s: String| valid_code(s@) }
pub open spec fn string_view_fn() -> spec_fn(String) -> Seq<char> { |s: String| s@ }
pub open spec fn pattern_view_fn() -> spec_fn(Pattern) -> Seq<char> { |p: Pattern| p@ }

pub open spec fn op_from_raw(r: RawV) -> CfgV {
    CfgV { exclude: r.exclude.filter(glob_valid_fn()), disabled: r.disabled.filter(valid_code_fn()),
           fixture_paths: r.fixture_paths, skip_plugins: r.skip_plugins }
}
pub open spec fn pyproject_pv(root: PV) -> PV { root + seq!["pyproject.toml"@] }
pub open spec fn op_is_disabled(c: CfgV, code: Seq<char>) -> bool { c.disabled.contains(code) }

/// a list holds exactly the codes of `valid_code` (whatever the order)
pub proof fn lemma_valid_codes(l: Seq<Seq<char>>, x: Seq<char>)
    requires forall|i: int| 0 <= i < l.len() ==> valid_code(#[trigger] l[i]),
        l.contains("undeclared-fixture"@), l.contains("scope-mismatch"@), l.contains("circular-dependency"@),
    ensures l.contains(x) == valid_code(x),
{}

/// TOML + serde deserialisation of the whole text into PyProjectToml: abstract (None = the text is not valid TOML /
/// does not fit the schema)
pub uninterp spec fn toml_parse(content: Seq<char>) -> Option<PyProjectToml>;
pub open spec fn empty_raw() -> RawV { RawV { exclude: Seq::empty(), disabled: Seq::empty(), fixture_paths: Seq::empty(), skip_plugins: Seq::empty() } }
/// the [tool.pytest-language-server] table of a parsed file, all-empty when the table (or [tool]) is absent
pub closed spec fn raw_of_toml(p: PyProjectToml) -> RawV {
    match p.tool { Some(t) => match t.pytest_language_server { Some(r) => raw_view(&r), None => empty_raw() }, None => empty_raw() }
}
/// the configuration Config::parse builds from a pyproject.toml text: defaults when the text does not parse,
/// otherwise from_raw of the table
pub open spec fn parse_cfg(content: Seq<char>) -> CfgV {
    match toml_parse(content) { None => empty_cfg(), Some(p) => op_from_raw(raw_of_toml(p)) }
}
pub mod toml {
    use super::*;
    pub mod de { #[allow(dead_code)] pub struct Error { _p: () } }
    // ASSUMED: toml::from_str::<PyProjectToml> is a total function of the text (never panics)
    #[verifier::external_body]
    pub fn from_str(content: &str) -> (r: Result<PyProjectToml, de::Error>)
        ensures match r { Ok(p) => toml_parse(content@) == Some(p), Err(_) => toml_parse(content@) is None }
    { unimplemented!() }
}
pub trait VpUnwrapOrDefault { fn vp_unwrap_or_default(self) -> RawConfig; }
impl VpUnwrapOrDefault for Option<RawConfig> {
    // ASSUMED: derive(Default) on RawConfig is the all-empty value
    #[verifier::external_body]
    fn vp_unwrap_or_default(self) -> (r: RawConfig)
        ensures match self { Some(x) => r == x, None => raw_view(&r) == empty_raw() }
    { unimplemented!() }
}
pub open spec fn empty_cfg() -> CfgV { CfgV { exclude: Seq::empty(), disabled: Seq::empty(), fixture_paths: Seq::empty(), skip_plugins: Seq::empty() } }
/// content of a file on disk (None if unreadable) and existence: file-system facts
pub uninterp spec fn fs_read(p: PV) -> Option<Seq<char>>;
#[verifier::external_type_specification] #[verifier::external_body] pub struct ExIoError(std::io::Error);
#[verifier::allow(undeclared_external_trait)]
pub assume_specification<P: AsRef<Path>>[ std::fs::read_to_string::<P> ](p: P) -> (r: Result<String, std::io::Error>)
    ensures (match r { Ok(s) => Some(s@), Err(_) => None::<Seq<char>> }) == fs_read(as_path_view(p));
pub mod cfg_ax {
    use super::*;
    pub broadcast axiom fn axiom_pathbuf_ref_as_path<'a>(p: &'a PathBuf)
        ensures #[trigger] as_path_view::<&'a PathBuf>(p) == pbv(p);
}
pub use cfg_ax::*;

impl Config {
    // callee contract assumed here: Default is the derived all-empty value
    #[verifier::external_body]
    pub fn default() -> (c: Self) ensures cfg_view(&c) == empty_cfg()
    { unimplemented!() }

/*@ extract src/config/mod.rs load
@tags C19
@ret c
@replace 1 `workspace_root.join("pyproject.toml")` => `Self::vp_join_pyproject(workspace_root)`
@sig
    // the configuration is a function of the file's text alone: defaults when the file is missing or unreadable,
    // otherwise exactly what parse makes of the WHOLE text (no pre-filtering of the text)
    ensures cfg_view(&c) == (if !fs_exists(pyproject_pv(pv(workspace_root))) { empty_cfg() } else {
        match fs_read(pyproject_pv(pv(workspace_root))) { Some(t) => parse_cfg(t), None => empty_cfg() } }),
@*/
    #[verifier::external_body]
    fn vp_join_pyproject(workspace_root: &Path) -> (r: PathBuf) ensures pbv(&r) == pyproject_pv(pv(workspace_root))
    { workspace_root.join("pyproject.toml") }

/*@ extract src/config/mod.rs parse
@tags C19 C11
@ret c
@rename unwrap_or_default vp_unwrap_or_default
@closure and_then:1 |t: Tool| -> (r: Option<RawConfig>) ensures r == t.pytest_language_server
@sig
    // an unparsable text gives the defaults (and nothing else happens: no panic); otherwise exactly from_raw of the table
    ensures cfg_view(&c) == parse_cfg(content@),
@*/

/*@ extract src/config/mod.rs from_raw
@tags C19
@ret c
@rename filter_map vp_filter_map
@closure filter_map:1 |pattern: String| -> (r: Option<Pattern>) ensures match r { Some(p) => glob_valid(pattern@) && p@ == pattern@, None => !glob_valid(pattern@) }
@closure filter:1 |code: &String| -> (b: bool) ensures b == valid_code(code@)
@before valid_diagnostics 2
    proof {
        let l = lit_views(valid_diagnostics@);
        assert(l.len() == 3 && l[0] == valid_diagnostics@[0]@ && l[1] == valid_diagnostics@[1]@ && l[2] == valid_diagnostics@[2]@);
        lemma_valid_codes(l, code@);
    }
@sig
    ensures cfg_view(&c) == op_from_raw(raw_view(&raw)),
        c.disabled_diagnostics@ == raw.disabled_diagnostics@.filter(valid_code_string_fn()),
        c.fixture_paths == raw.fixture_paths, c.skip_plugins == raw.skip_plugins,
@start
    let ghost raw0 = raw;
@after exclude 2
    proof {
        let s = raw0.exclude@;
        assert(exists|o: Seq<Option<Pattern>>| #![trigger somes(o)] o.len() == s.len() && exclude@ == somes(o)
            && (forall|j: int| 0 <= j < s.len() ==> match #[trigger] o[j] { Some(p) => glob_valid(s[j]@) && p@ == s[j]@, None => !glob_valid(s[j]@) }));
        let o = choose|o: Seq<Option<Pattern>>| #![trigger somes(o)] o.len() == s.len() && exclude@ == somes(o)
            && (forall|j: int| 0 <= j < s.len() ==> match #[trigger] o[j] { Some(p) => glob_valid(s[j]@) && p@ == s[j]@, None => !glob_valid(s[j]@) });
        lemma_somes_is_filter(s, o, string_view_fn(), pattern_view_fn(), glob_valid_fn());
        assert(pat_views(exclude@) == str_views(s).filter(glob_valid_fn()));
    }
@return tail
    let d = raw0.disabled_diagnostics@;
    assert(disabled_diagnostics@ == d.filter(valid_code_string_fn()));
    lemma_filter_map_commute(d, string_view_fn(), valid_code_string_fn(), valid_code_fn());
    assert(str_views(disabled_diagnostics@) == str_views(d).filter(valid_code_fn()));
@*/

/*@ extract src/config/mod.rs is_diagnostic_disabled
@tags C19
@ret b
@closure any:1 |d: &String| -> (b: bool) ensures b == (d@ == code@)
@derefcmp d code
@sig
    ensures b == op_is_disabled(cfg_view(self), code@),
@return tail
    let v = self.disabled_diagnostics@;
    assert forall|i: int| 0 <= i < v.len() implies #[trigger] str_views(v)[i] == v.as_ref()[i]@ by {}
    assert forall|i: int| 0 <= i < v.len() implies (#[trigger] v.as_ref()[i])@ == str_views(v)[i] by {}
@*/
}

// ---- L2: property C19 (configuration part) from the operational specification -------------------
/// a valid code listed in the raw configuration is disabled in the result, whatever else is listed
//@tags C19
/// C19 "an unparsable pyproject.toml is ignored ... and never disables the remaining settings or the server":
/// Config::parse (proved == parse_cfg, no panic) yields the defaults, under which no diagnostic code is disabled
pub proof fn lemma_C19_unparsable_file_is_ignored(content: Seq<char>, code: Seq<char>)
    requires toml_parse(content) is None
    ensures parse_cfg(content) == empty_cfg(), !op_is_disabled(parse_cfg(content), code)
{}
//@tags C19
pub proof fn lemma_C19_valid_listed_code_is_disabled(r: RawV, code: Seq<char>)
    requires valid_code(code), r.disabled.contains(code),
    ensures op_is_disabled(op_from_raw(r), code),
{
    let i = choose|i: int| 0 <= i < r.disabled.len() && r.disabled[i] == code;
    r.disabled.lemma_filter_contains(valid_code_fn(), i);
}

/// ... and only those: a code is disabled iff it is one of the three and listed
//@tags C19
pub proof fn lemma_C19_disabled_iff(r: RawV, code: Seq<char>)
    ensures op_is_disabled(op_from_raw(r), code) == (valid_code(code) && r.disabled.contains(code)),
{
    if valid_code(code) && r.disabled.contains(code) { lemma_C19_valid_listed_code_is_disabled(r, code); }
    if op_is_disabled(op_from_raw(r), code) {
        let f = r.disabled.filter(valid_code_fn());
        let k = choose|k: int| 0 <= k < f.len() && f[k] == code;
        r.disabled.lemma_filter_contains_rev(valid_code_fn(), f[k]);
    }
}

/// an unknown code is never disabled (and so cannot switch anything off)
//@tags C19
pub proof fn lemma_C19_unknown_code_never_disabled(r: RawV, code: Seq<char>)
    requires !valid_code(code),
    ensures !op_is_disabled(op_from_raw(r), code),
{
    lemma_C19_disabled_iff(r, code);
}

/// "ignored individually": an unknown code anywhere in the list changes nothing — the result is the one
/// obtained without that entry; the same for an invalid glob in `exclude`
//@tags C19
pub proof fn lemma_C19_bad_entries_ignored_individually(r: RawV, a: Seq<Seq<char>>, bad: Seq<char>, b: Seq<Seq<char>>)
    ensures
        !valid_code(bad) && r.disabled == a + seq![bad] + b
            ==> op_from_raw(r) == op_from_raw(RawV { disabled: a + b, ..r }),
        !glob_valid(bad) && r.exclude == a + seq![bad] + b
            ==> op_from_raw(r) == op_from_raw(RawV { exclude: a + b, ..r }),
{
    broadcast use vstd::seq_lib::group_filter_ensures;
    reveal_with_fuel(Seq::filter, 3);
    assert(seq![bad].drop_last() =~= Seq::<Seq<char>>::empty());
    assert(seq![bad].last() == bad);
    if !valid_code(bad) {
        let p = valid_code_fn();
        assert(seq![bad].filter(p) =~= Seq::<Seq<char>>::empty());
        Seq::filter_distributes_over_add(a, seq![bad], p);
        Seq::filter_distributes_over_add(a + seq![bad], b, p);
        Seq::filter_distributes_over_add(a, b, p);
        assert((a + seq![bad] + b).filter(p) =~= (a + b).filter(p));
    }
    if !glob_valid(bad) {
        let p = glob_valid_fn();
        assert(seq![bad].filter(p) =~= Seq::<Seq<char>>::empty());
        Seq::filter_distributes_over_add(a, seq![bad], p);
        Seq::filter_distributes_over_add(a + seq![bad], b, p);
        Seq::filter_distributes_over_add(a, b, p);
        assert((a + seq![bad] + b).filter(p) =~= (a + b).filter(p));
    }
}

/// the four settings are independent: what `exclude` contains (valid or not) has no influence on the
/// disabled codes and vice versa; fixture_paths / skip_plugins always pass through
//@tags C19
pub proof fn lemma_C19_settings_independent(r1: RawV, r2: RawV)
    ensures
        r1.disabled == r2.disabled ==> op_from_raw(r1).disabled == op_from_raw(r2).disabled,
        r1.exclude == r2.exclude ==> op_from_raw(r1).exclude == op_from_raw(r2).exclude,
        op_from_raw(r1).fixture_paths == r1.fixture_paths, op_from_raw(r1).skip_plugins == r1.skip_plugins,
{}

/// order preserved, nothing invented: the kept codes are a sub-sequence of the listed ones, all valid;
/// the kept patterns are exactly the valid ones
//@tags C19
pub proof fn lemma_C19_kept_entries(r: RawV)
    ensures
        forall|c: Seq<char>| op_from_raw(r).disabled.contains(c) ==> valid_code(c) && r.disabled.contains(c),
        forall|g: Seq<char>| op_from_raw(r).exclude.contains(g) == (glob_valid(g) && r.exclude.contains(g)),
        op_from_raw(r).disabled.len() <= r.disabled.len(), op_from_raw(r).exclude.len() <= r.exclude.len(),
{
    assert forall|c: Seq<char>| op_from_raw(r).disabled.contains(c) implies valid_code(c) && r.disabled.contains(c) by {
        lemma_C19_disabled_iff(r, c);
    }
    assert forall|g: Seq<char>| op_from_raw(r).exclude.contains(g) == (glob_valid(g) && r.exclude.contains(g)) by {
        let f = r.exclude.filter(glob_valid_fn());
        if f.contains(g) {
            let k = choose|k: int| 0 <= k < f.len() && f[k] == g;
            r.exclude.lemma_filter_contains_rev(glob_valid_fn(), f[k]);
        }
        if glob_valid(g) && r.exclude.contains(g) {
            let i = choose|i: int| 0 <= i < r.exclude.len() && r.exclude[i] == g;
            r.exclude.lemma_filter_contains(glob_valid_fn(), i);
        }
    }
    r.disabled.lemma_filter_len(valid_code_fn());
    r.exclude.lemma_filter_len(glob_valid_fn());
}

// ---- vacuity guards: each of these must FAIL ---------------------------------------------------------
/// an unknown code is kept
proof fn canary_unknown_code_kept(r: RawV)
    ensures op_from_raw(r).disabled == r.disabled,
{}
/// one invalid glob empties the exclude list
proof fn canary_invalid_glob_drops_all(r: RawV, g: Seq<char>)
    requires r.exclude.contains(g), !glob_valid(g),
    ensures op_from_raw(r).exclude.len() == 0,
{}
/// the contracts of the extracted functions are not vacuous
proof fn canary_false_from_contracts(r: RawV)
    ensures op_is_disabled(op_from_raw(r), "undeclared-fixture"@),
{}

} // verus!
fn main() {}
