//@include prelude/header.rs
// Unit analyze (v2, COMPOSED): analyze_file_internal / analyze_file / analyze_file_fresh.
// Callee contracts that were hand-written external_body stubs and are now `//@stub` copies of PROVED contracts:
//   get_canonical_path, get_line_index   <- unit memo_keys  (under the cache invariants canon_cache_wf / li_cache_wf and
//                                            the no-collision hypothesis of the call; `canon` := canon_now)
//   evict_cache_if_needed                <- unit memo_v2    (memo tables only shrink, index / environment untouched)
//   visit_stmt                           <- unit visit_v2   (needs the environment hypothesis env_ok, gives vframe)
// New explicit hypotheses (requires of the three entry points, re-established as ensures, so they are INDUCTIVE over
// a sequence of analyses): env_ok (prelude/visit_env.rs), li_cache_wf(line_index_cache), canon_cache_wf(
// canonical_path_cache); and, per call, li_no_collision(line_index_cache, canon(file), content@) (H-ideal of unit memo_keys: the text
// analysed does not collide with the text the cached line index of the file was built from -- NOT re-established, it
// is a hypothesis about each (state, text) pair; hash_collides_with_nothing(text) implies it).
// The database struct lists every field except ast_cache (frames: prelude/index_dbspecs_all.rs, visit_env.rs).
// v3: `imports` and `undeclared_fixtures` are IN the contract (prelude/analyze_imports.rs):
//   collect_module_level_names   <- unit ast_helpers (`//@stub`: names grows by module_level_names(stmt)); the first pass
//                                   (@loop 1) has the real invariant  names == module_names(body.take(i))
//   success:  imports_post(old imports, new imports, f, ast): imports[f] is REPLACED by module_names(body) (removed in the
//             cleanup block -- unconditionally, not under cleanup_previous -- then inserted), no other entry touched;
//             undeclared_fixtures: every other file's entry untouched; f's entry is removed before the visitors run
//             (all that visit_stmt's contract lets us say about it afterwards: nothing, unless the body is empty)
//   failure:  both maps unchanged (as before)
// v4: f's OWN findings are in the contract (prelude/analyze_undecl.rs; visit_stmt's contract now says what it pushes):
//   success:  undecl_view(final) == push_undecl(undecl_view(old).remove(f), f, stmts_vundecl(body, f, text, d0, module_names(body)))
//             -- f's old list is dropped, then exactly the scans of THIS text are pushed, each against the definitions map
//             at the moment of the scan (d0 = the map the second pass starts from, + what the earlier statements recorded)
//             and the module-level names of THIS text; independent of what was filed under f before, for both values of
//             cleanup_previous.  @loop 2 carries it statement by statement.
//   L2 (analyze_undecl_l2.rs): lemma_C06_findings_are_current_text_only, lemma_C06_findings_superseded,
//             lemma_C17_no_finding_for_module_level_name (ONE theorem: first pass + visitors + scanner),
//             lemma_C19_findings_follow_content; canaries: accumulate / other file changes / survive an empty module.
use rustpython_parser::{parse, Mode};
use rustpython_parser::ast::{Stmt, Expr, Keyword, Identifier, Constant, ExceptHandler, ExprCall, Alias, Arguments, ArgWithDefault};
use rustpython_parser::text_size::TextRange;
verus! {
global size_of usize == 8;  // A6: 64-bit target
pub mod pre {
use super::*;
//@include prelude/path.rs
//@include prelude/path_ext.rs
//@include prelude/types.rs
//@include prelude/dashmap.rs
//@include prelude/hashset.rs
// (trusted base A3, already used by units imports_closure / scan_imports) HashSet::extend: only so that an
// `entry(..).or_default().extend(..)` rewrite of the imports write is DECIDED rather than a type error
//@include prelude/hashset_ext.rs
//@include prelude/atomic.rs
//@include prelude/dbview.rs
//@include prelude/hof.rs
//@include prelude/arc.rs
//@include prelude/index_spec.rs
//@include prelude/strings.rs
//@include prelude/iter_ext.rs
//@include prelude/iter_slice.rs
//@include prelude/bytes.rs
//@include build/astspec.rs
// extra AST / parser types needed by analyze_file_internal
#[verifier::external_type_specification] #[verifier::reject_recursive_types(R)] pub struct ExMod<R>(rustpython_parser::ast::Mod<R>);
#[verifier::external_type_specification] #[verifier::reject_recursive_types(R)] pub struct ExModModule<R>(rustpython_parser::ast::ModModule<R>);
#[verifier::external_type_specification] #[verifier::reject_recursive_types(R)] pub struct ExModInteractive<R>(rustpython_parser::ast::ModInteractive<R>);
#[verifier::external_type_specification] #[verifier::reject_recursive_types(R)] pub struct ExModExpression<R>(rustpython_parser::ast::ModExpression<R>);
#[verifier::external_type_specification] #[verifier::reject_recursive_types(R)] pub struct ExModFunctionType<R>(rustpython_parser::ast::ModFunctionType<R>);
#[verifier::external_type_specification] #[verifier::reject_recursive_types(R)] pub struct ExTypeIgnore<R>(rustpython_parser::ast::TypeIgnore<R>);
#[verifier::external_type_specification] #[verifier::reject_recursive_types(R)] pub struct ExTypeIgnoreTypeIgnore<R>(rustpython_parser::ast::TypeIgnoreTypeIgnore<R>);
#[verifier::external_type_specification] pub struct ExMode(rustpython_parser::Mode);
#[verifier::external_type_specification] #[verifier::external_body] #[verifier::reject_recursive_types(T)] pub struct ExBaseError<T>(rustpython_parser_core::BaseError<T>);
#[verifier::external_type_specification] #[verifier::external_body] pub struct ExParseErrorType(rustpython_parser::ParseErrorType);
//@include prelude/ast_spec.rs
//@include prelude/line_spec.rs
//@include prelude/visit_spec.rs
//@include prelude/analyze_spec.rs
//@include prelude/analyze_l2.rs
//@include prelude/analyze_imports.rs
//@include prelude/analyze_imports_l2.rs
// v4: the findings vocabulary: the scanner's spec (unit undeclared_scan), visit_undecl (unit visit_v3), the scanner's
// precision theorem (mechanical copy WITH proofs), and this unit's own contract / L2 about undeclared_fixtures
//@include prelude/undecl_avail_spec.rs
//@include prelude/undecl_spec.rs
//@include prelude/visit_undecl.rs
//@include prelude/undecl_precision.rs
//@include prelude/analyze_undecl.rs
//@include prelude/analyze_undecl_l2.rs
// vocabulary of unit memo_keys (src_line_index / parse_ok / ast_of are this unit's own uninterpreted functions)
//@include prelude/memokeys_spec.rs
//@include prelude/fs_canonical_decl.rs
//@include prelude/memokeys_canon_spec.rs
//@include prelude/memokeys_l2.rs
} // mod pre
use pre::*;

// (A3, prelude/hashset.rs) Default of the HashSet shim is the empty set: not needed by the code as it is (imports[f] is
// written with `insert`), only so that an `entry(..).or_default()` rewrite of that write is judged on its merits
broadcast use axiom_default_hashset;

#[verifier::external_type_specification] pub struct ExUndeclaredFixture(UndeclaredFixture);

#[verifier::external_type_specification] pub struct ExFixtureCycle(FixtureCycle);
//@item src/fixtures/mod.rs struct EditableInstall
//@dbstruct_arc definitions file_definitions usages usage_by_fixture definitions_version file_cache undeclared_fixtures imports canonical_path_cache line_index_cache cycle_cache available_fixtures_cache imported_fixtures_cache site_packages_paths editable_install_roots workspace_root plugin_fixture_files

//@include prelude/index_dbspecs_all.rs
//@include prelude/opt_pbv.rs
//@include prelude/classify_spec.rs
//@include prelude/visit_env.rs
//@include prelude/visit_dbspecs_v2.rs

/// canonicalisation of a path: what unit memo_keys PROVES get_canonical_path to return under canon_cache_wf --
/// `path.canonicalize()` in the ONE file-system state fs_canonical (A4), else the path itself
pub open spec fn canon(p: PV) -> PV { canon_now(p) }

pub assume_specification[ rustpython_parser::parse ](source: &str, mode: rustpython_parser::Mode, source_path: &str) -> (r: Result<rustpython_parser::ast::Mod, rustpython_parser::ParseError>)
    ensures match r {
        // A8: parser positions (module_pre, prelude/analyze_spec.rs)
        Ok(m) => parse_ok(source@) && m == ast_of(source@) && module_pre(body_of(m), src_line_index(source@)),
        Err(_) => !parse_ok(source@) };


impl FixtureDatabase {
    pub open spec fn texts(&self) -> Map<PV, Seq<char>> { self.file_cache.m().map_values(|a: Arc<String>| (*a)@) }

//@stub index_maint invalidate_cycle_cache
//@stub index_maint cleanup_usages_for_file
//@stub index_maint cleanup_definitions_for_file

    // ---- memoised getters: the contracts PROVED in unit memo_keys (cache invariant + no-collision hypothesis of the call)
//@stub memo_keys get_canonical_path
//@stub memo_keys get_line_index
    // ---- the contract PROVED in unit ast_helpers: names grows by module_level_names(stmt) (prelude/ast_spec.rs)
//@stub ast_helpers collect_module_level_names
    // A7 DISCHARGED: the contract of visit_stmt is the one PROVED in unit visit (v2: with env_ok / vframe; v3: with the
    // file's OWN findings: uv_rel(old findings, final findings, f, visit_undecl(..)), prelude/visit_undecl.rs)
//@stub visit visit_stmt
    // eviction: the contract PROVED in unit memo (v2: all memo tables only shrink, nothing else is written)
//@stub memo evict_cache_if_needed

/*@ extract src/fixtures/analyzer.rs analyze_file_internal
@tags C04 C06 C07 C10 C12 C19
@recv mut
@wrapexpr 1 `file_path .file_name() .map(|n| n == "conftest.py") .unwrap_or(false)` => `Self::vp_is_conftest(&file_path)` with fn vp_is_conftest(file_path: &PathBuf) -> bool
@sig
    requires old(self).version() < u64::MAX,
        // v2: environment hypothesis, cache invariants, and the H-ideal hypothesis for the text analysed
        old(self).env_ok(), li_cache_wf(old(self).line_index_cache.m()), canon_cache_wf(old(self).canonical_path_cache.m()),
        // H-ideal of unit memo_keys, for THIS call only: the line index cached for this file (if any) was built from a
        // text that does not collide with `content` (implied by hash_collides_with_nothing(content@): memokeys_l2.rs)
        li_no_collision(old(self).line_index_cache.m(), canon(pbv(&file_path)), content@),
        // no wrap-around of the u64 version counter during this analysis (one bump per recorded definition)
        parse_ok(content@) ==> old(self).version() + 1 + stmts_vdefs(body_of(ast_of(content@)), canon(pbv(&file_path)), content@).len() <= u64::MAX,
    ensures
        // O1 (C07): every analysis moves the version
        final(self).version() != old(self).version(),
        // v2: the hypotheses are inductive (they hold again afterwards)
        final(self).env_ok(), li_cache_wf(final(self).line_index_cache.m()), canon_cache_wf(final(self).canonical_path_cache.m()),
        // parse failure keeps the index (C06: the last valid version stays in effect)
        !parse_ok(content@) ==> final(self).defs() == old(self).defs() && final(self).fdefs() == old(self).fdefs()
            && final(self).uses() == old(self).uses() && final(self).byfix() == old(self).byfix()
            && final(self).undeclared_fixtures == old(self).undeclared_fixtures && final(self).imports == old(self).imports,
        // successful parse: the index is the old one minus this file's entries plus what the visitors record
        parse_ok(content@) ==> ({
            let f = canon(pbv(&file_path));
            let body = body_of(ast_of(content@));
            let d0 = if cleanup_previous { clean_defs_names(old(self).defs(), f, sbucket(old(self).fdefs(), f)) } else { old(self).defs() };
            let fd0 = if cleanup_previous { old(self).fdefs().remove(f) } else { old(self).fdefs() };
            &&& final(self).defs() == push_defs(d0, stmts_vdefs(body, f, content@))
            &&& final(self).fdefs() == add_fdefs(fd0, stmts_vdefs(body, f, content@))
            &&& final(self).uses() == push_uses(old(self).uses().remove(f), stmts_vuses(body, f, content@))
            &&& final(self).byfix() == push_byfix(clean_byfix(old(self).byfix(), f), stmts_vuses(body, f, content@))
        }),
        // v3 (C06 / C17) successful parse, `imports`: the entry of f = canon(file_path) is REPLACED by the module-level
        // names of THIS text (module_names = the first pass folded over the body; removed in the cleanup block, then
        // inserted) whatever it held before and whatever cleanup_previous is; no other file's stored set is touched
        parse_ok(content@) ==> imports_post(old(self).imports.m(), final(self).imports.m(), canon(pbv(&file_path)), ast_of(content@)),
        // v3 successful parse, `undeclared_fixtures`: every other file's findings are untouched; f's list is dropped
        // before the visitors run -- what they leave under f is NOT described by visit_stmt's contract (undecl_frame),
        // so the reset is visible here only when no visitor runs (no top-level statement)
        parse_ok(content@) ==> final(self).undeclared_fixtures.m().remove(canon(pbv(&file_path))) == old(self).undeclared_fixtures.m().remove(canon(pbv(&file_path))),
        parse_ok(content@) && body_of(ast_of(content@)).len() == 0 ==> !final(self).undeclared_fixtures.m().contains_key(canon(pbv(&file_path))),
        // v4 (C06 / C17 / C19) successful parse, f's OWN findings: the old list is dropped, then EXACTLY the scans of this text
        // are pushed (stmts_vundecl, prelude/analyze_undecl.rs: visit_undecl folded over the top-level statements; each scan
        // reads the definitions recorded so far on top of d0 and the module-level names of THIS text) -- no dependence on
        // what was filed under f before
        parse_ok(content@) ==> ({
            let f = canon(pbv(&file_path));
            let body = body_of(ast_of(content@));
            let d0 = if cleanup_previous { clean_defs_names(old(self).defs(), f, sbucket(old(self).fdefs(), f)) } else { old(self).defs() };
            undecl_view(final(self).undeclared_fixtures.m()) == push_undecl(undecl_view(old(self).undeclared_fixtures.m()).remove(f), f,
                stmts_vundecl(body, f, content@, d0, module_names(body)))
        }),
        // ... and the line index the positions of those findings were computed with is a line index (get_line_index, unit
        // memo_keys, under the no-collision hypothesis): the hypothesis of the scanner's precision theorem
        parse_ok(content@) ==> is_line_index(ints(src_line_index(content@))) && src_line_index(content@).len() <= usize::MAX,
@start
    let ghost f0 = canon(pbv(&file_path));
@after file_path 3
    let ghost f = pbv(&file_path);
    let ghost e0 = *self;   // state after get_canonical_path: only canonical_path_cache differs from old(self)
    proof { assert(e0.env_ok() && e0.line_index_cache == old(self).line_index_cache); }
@before is_conftest 1
    proof {
        // frames of the index-maintenance callees (rest() over all non-index fields) and of the direct map writes
        assert(self.line_index_cache == e0.line_index_cache && self.canonical_path_cache == e0.canonical_path_cache);
        assert(self.env_ok());
        assert(f == f0 && li_no_collision(self.line_index_cache.m(), f, content@));
    }
    let ghost d0 = self.defs();
    let ghost fd0 = self.fdefs();
    let ghost u0 = self.uses();
    let ghost b0 = self.byfix();
    proof {
        assert(u0 =~~= old(self).uses().remove(f));
        assert(b0 == clean_byfix(old(self).byfix(), f));
    }
    // v3: state of imports / undeclared_fixtures after the cleanup block (f's entries dropped, unconditionally)
    let ghost im0 = self.imports.m();
    let ghost un0 = self.undeclared_fixtures.m();
    proof {
        assert(im0.remove(f) =~= old(self).imports.m().remove(f));
        assert(un0.remove(f) =~= old(self).undeclared_fixtures.m().remove(f));
        // v4: f's old findings are GONE before the second pass
        assert(un0 =~= old(self).undeclared_fixtures.m().remove(f));
        lemma_undecl_view_remove(old(self).undeclared_fixtures.m(), f);
    }
@before for 1
    let ghost body = module.body@;
    proof {
        assert(body == body_of(ast_of(content@))); assert(f == f0);
        assert(is_module(ast_of(content@)));
        assert(body.take(0) =~= Seq::<Stmt>::empty());
        // get_line_index wrote line_index_cache only
        assert(self.imports.m() == im0 && self.undeclared_fixtures.m() == un0);
    }
@loopvar 1 it0
@loop 1
    invariant body == module.body@, it0.seq() == body.as_ref(),
        // the first pass IS the fold module_names over the statements seen so far
        module_level_names.s() == module_names(body.take(it0.index@ as int)),
@loopstart 1
    proof { let i = it0.index@ as int; assert(body[i] == *stmt); lemma_module_names_step(body, i); }
@after for 1
    let ghost names1 = module_level_names;
    proof { assert(body.take(body.len() as int) =~= body); assert(names1.s() == module_names(body)); }
@before for 2
    // state after the write of imports[f]
    let ghost im1 = self.imports.m();
    proof {
        assert(im1.contains_key(f) && im1[f].s() == module_names(body));
        assert(im1.remove(f) =~= old(self).imports.m().remove(f));
        assert(imports_view(im1) =~= imports_view(old(self).imports.m()).insert(f, module_names(body)));
        assert(imports_post(old(self).imports.m(), im1, f, ast_of(content@)));
    }
@loopvar 2 it
@loop 2
    invariant
        // C17: EVERY visitor call of the second pass (hence every undeclared-fixture scan) runs on a database whose
        // imports[f] already holds the module-level names of THIS text (stored before the second pass, framed by visit_stmt)
        self.imports.m() == im1, imports_entry(self.imports.m(), f) == module_names(body),
        self.undeclared_fixtures.m().remove(f) == old(self).undeclared_fixtures.m().remove(f),
        it.index@ == 0 ==> self.undeclared_fixtures.m() == un0,
        // v4: what is filed under f so far = the scans of the statements visited so far, pushed onto the EMPTIED entry
        undecl_view(self.undeclared_fixtures.m()) == push_undecl(undecl_view(un0), f,
            stmts_vundecl(body.take(it.index@ as int), f, content@, d0, module_names(body))),
        self.env_ok(), li_cache_wf(self.line_index_cache.m()), canon_cache_wf(self.canonical_path_cache.m()),
        f == pbv(&file_path), body == module.body@, it.seq() == body.as_ref(),
        (*line_index)@ == src_line_index(content@), is_line_index(ints((*line_index)@)), module_pre(body, (*line_index)@),
        old(self).version() + 1 + stmts_vdefs(body, f, content@).len() <= u64::MAX,
        self.version() == old(self).version() + 1 + stmts_vdefs(body.take(it.index@ as int), f, content@).len(),
        self.defs() == push_defs(d0, stmts_vdefs(body.take(it.index@ as int), f, content@)),
        self.fdefs() == add_fdefs(fd0, stmts_vdefs(body.take(it.index@ as int), f, content@)),
        self.uses() == push_uses(u0, stmts_vuses(body.take(it.index@ as int), f, content@)),
        self.byfix() == push_byfix(b0, stmts_vuses(body.take(it.index@ as int), f, content@)),
@loopstart 2
    let ghost i0 = it.index@ as int;
    let ghost uma = self.undeclared_fixtures.m();   // v4: what visit_stmt starts from
    let ghost dfa = self.defs();
    let ghost ima = self.imports.m();
    proof { assert(body[i0] == *stmt); assert(visit_pre(body[i0], (*line_index)@)); }
@loopend 2
    proof {
        assert(body[i0] == *stmt);
        let t0 = body.take(i0);
        let t1 = body.take(i0 + 1);
        assert(t1.drop_last() =~= t0);
        assert(t1.last() == body[i0]);
        lemma_push_defs_concat(d0, stmts_vdefs(t0, f, content@), vdefs(body[i0], f, content@));
        lemma_add_fdefs_concat(fd0, stmts_vdefs(t0, f, content@), vdefs(body[i0], f, content@));
        lemma_push_uses_concat(u0, stmts_vuses(t0, f, content@), vuses(body[i0], f, content@));
        lemma_push_byfix_concat(b0, stmts_vuses(t0, f, content@), vuses(body[i0], f, content@));
        lemma_stmts_vdefs_len_mono(body, i0 + 1, f, content@);
        lemma_bumpn_no_wrap((old(self).version() + 1 + stmts_vdefs(t0, f, content@).len()) as u64, vdefs(body[i0], f, content@).len() as int);
        // v4: visit_stmt's PROVED contract (unit visit_v3), spelled out ...
        lemma_uv_open(uma, self.undeclared_fixtures.m(), f, visit_undecl(body[i0], f, content@, (*line_index)@, dfa, imps_of(ima, f)));
        assert(imps_of(ima, f) == module_names(body) && dfa == push_defs(d0, stmts_vdefs(t0, f, content@)));
        // ... is one more round of the fold
        lemma_stmts_vundecl_step(body, i0, f, content@, d0, module_names(body));
        lemma_push_undecl_concat(undecl_view(un0), f, stmts_vundecl(t0, f, content@, d0, module_names(body)),
            visit_undecl(body[i0], f, content@, src_line_index(content@), push_defs(d0, stmts_vdefs(t0, f, content@)), module_names(body)));
    }
@after for 2
    proof { assert(body.take(body.len() as int) =~= body); }
@before evict_cache_if_needed 1
    let ghost lm0 = self.line_index_cache.m();
    proof {
        assert(li_cache_wf(lm0));
        // v4: the line index handed out for this text is one, and it is a Vec (length <= usize::MAX)
        assert((*line_index)@.len() == (*line_index).len());
        assert((*line_index)@ == src_line_index(content@) && is_line_index(ints((*line_index)@)));
        // v3: the parser handed back no Mod::Module: nothing was stored, f's entries stay removed (body_of == empty)
        if !is_module(ast_of(content@)) {
            assert(self.imports.m() == im0 && self.undeclared_fixtures.m() == un0);
            lemma_imports_view_remove(old(self).imports.m(), f);
            assert(imports_view(im0) =~= imports_view(old(self).imports.m()).remove(f));
        }
    }
@after evict_cache_if_needed 1
    proof {
        // the invariant survives removal of entries (memo_v2: line_index_cache only shrinks)
        let lm2 = self.line_index_cache.m();
        assert forall|g: PV| lm2.contains_key(g) implies li_entry_ok(#[trigger] lm2[g]) by {
            assert(lm2.dom().contains(g)); assert(lm0.dom().contains(g)); assert(lm2[g] == lm0[g]);
        }
    }
@*/

/*@ extract src/fixtures/analyzer.rs analyze_file
@tags C04 C06 C07 C10 C12 C19
@recv mut
@sig
    requires old(self).version() < u64::MAX,
        // v2: environment hypothesis, cache invariants, and the H-ideal hypothesis for the text analysed
        old(self).env_ok(), li_cache_wf(old(self).line_index_cache.m()), canon_cache_wf(old(self).canonical_path_cache.m()),
        // H-ideal of unit memo_keys, for THIS call only: the line index cached for this file (if any) was built from a
        // text that does not collide with `content` (implied by hash_collides_with_nothing(content@): memokeys_l2.rs)
        li_no_collision(old(self).line_index_cache.m(), canon(pbv(&file_path)), content@),
        parse_ok(content@) ==> old(self).version() + 1 + stmts_vdefs(body_of(ast_of(content@)), canon(pbv(&file_path)), content@).len() <= u64::MAX,
    ensures
        // the public entry points are exactly analyze_file_internal with cleanup_previous = true: no shortcut, no extra work
        final(self).version() != old(self).version(),
        // v2: the hypotheses are inductive (they hold again afterwards)
        final(self).env_ok(), li_cache_wf(final(self).line_index_cache.m()), canon_cache_wf(final(self).canonical_path_cache.m()),
        !parse_ok(content@) ==> final(self).defs() == old(self).defs() && final(self).fdefs() == old(self).fdefs()
            && final(self).uses() == old(self).uses() && final(self).byfix() == old(self).byfix()
            && final(self).undeclared_fixtures == old(self).undeclared_fixtures && final(self).imports == old(self).imports,
        parse_ok(content@) ==> ({
            let f = canon(pbv(&file_path));
            let body = body_of(ast_of(content@));
            let d0 = clean_defs_names(old(self).defs(), f, sbucket(old(self).fdefs(), f));
            let fd0 = old(self).fdefs().remove(f);
            &&& final(self).defs() == push_defs(d0, stmts_vdefs(body, f, content@))
            &&& final(self).fdefs() == add_fdefs(fd0, stmts_vdefs(body, f, content@))
            &&& final(self).uses() == push_uses(old(self).uses().remove(f), stmts_vuses(body, f, content@))
            &&& final(self).byfix() == push_byfix(clean_byfix(old(self).byfix(), f), stmts_vuses(body, f, content@))
        }),
        // v3 (C06 / C17) successful parse, `imports`: the entry of f = canon(file_path) is REPLACED by the module-level
        // names of THIS text (module_names = the first pass folded over the body; removed in the cleanup block, then
        // inserted) whatever it held before and whatever cleanup_previous is; no other file's stored set is touched
        parse_ok(content@) ==> imports_post(old(self).imports.m(), final(self).imports.m(), canon(pbv(&file_path)), ast_of(content@)),
        // v3 successful parse, `undeclared_fixtures`: every other file's findings are untouched; f's list is dropped
        // before the visitors run -- what they leave under f is NOT described by visit_stmt's contract (undecl_frame),
        // so the reset is visible here only when no visitor runs (no top-level statement)
        parse_ok(content@) ==> final(self).undeclared_fixtures.m().remove(canon(pbv(&file_path))) == old(self).undeclared_fixtures.m().remove(canon(pbv(&file_path))),
        parse_ok(content@) && body_of(ast_of(content@)).len() == 0 ==> !final(self).undeclared_fixtures.m().contains_key(canon(pbv(&file_path))),
        // v4 (C06 / C17 / C19) successful parse, f's OWN findings: the old list is dropped, then EXACTLY the scans of this text
        // are pushed (stmts_vundecl, prelude/analyze_undecl.rs: visit_undecl folded over the top-level statements; each scan
        // reads the definitions recorded so far on top of d0 and the module-level names of THIS text) -- no dependence on
        // what was filed under f before
        parse_ok(content@) ==> ({
            let f = canon(pbv(&file_path));
            let body = body_of(ast_of(content@));
            let d0 = clean_defs_names(old(self).defs(), f, sbucket(old(self).fdefs(), f));
            undecl_view(final(self).undeclared_fixtures.m()) == push_undecl(undecl_view(old(self).undeclared_fixtures.m()).remove(f), f,
                stmts_vundecl(body, f, content@, d0, module_names(body)))
        }),
        // ... and the line index the positions of those findings were computed with is a line index (get_line_index, unit
        // memo_keys, under the no-collision hypothesis): the hypothesis of the scanner's precision theorem
        parse_ok(content@) ==> is_line_index(ints(src_line_index(content@))) && src_line_index(content@).len() <= usize::MAX,
@*/

/*@ extract src/fixtures/analyzer.rs analyze_file_fresh
@tags C04 C06 C07 C10 C12 C19
@recv mut
@sig
    requires old(self).version() < u64::MAX,
        // v2: environment hypothesis, cache invariants, and the H-ideal hypothesis for the text analysed
        old(self).env_ok(), li_cache_wf(old(self).line_index_cache.m()), canon_cache_wf(old(self).canonical_path_cache.m()),
        // H-ideal of unit memo_keys, for THIS call only: the line index cached for this file (if any) was built from a
        // text that does not collide with `content` (implied by hash_collides_with_nothing(content@): memokeys_l2.rs)
        li_no_collision(old(self).line_index_cache.m(), canon(pbv(&file_path)), content@),
        parse_ok(content@) ==> old(self).version() + 1 + stmts_vdefs(body_of(ast_of(content@)), canon(pbv(&file_path)), content@).len() <= u64::MAX,
    ensures
        // the public entry points are exactly analyze_file_internal with cleanup_previous = false: no shortcut, no extra work
        final(self).version() != old(self).version(),
        // v2: the hypotheses are inductive (they hold again afterwards)
        final(self).env_ok(), li_cache_wf(final(self).line_index_cache.m()), canon_cache_wf(final(self).canonical_path_cache.m()),
        !parse_ok(content@) ==> final(self).defs() == old(self).defs() && final(self).fdefs() == old(self).fdefs()
            && final(self).uses() == old(self).uses() && final(self).byfix() == old(self).byfix()
            && final(self).undeclared_fixtures == old(self).undeclared_fixtures && final(self).imports == old(self).imports,
        parse_ok(content@) ==> ({
            let f = canon(pbv(&file_path));
            let body = body_of(ast_of(content@));
            let d0 = old(self).defs();
            let fd0 = old(self).fdefs();
            &&& final(self).defs() == push_defs(d0, stmts_vdefs(body, f, content@))
            &&& final(self).fdefs() == add_fdefs(fd0, stmts_vdefs(body, f, content@))
            &&& final(self).uses() == push_uses(old(self).uses().remove(f), stmts_vuses(body, f, content@))
            &&& final(self).byfix() == push_byfix(clean_byfix(old(self).byfix(), f), stmts_vuses(body, f, content@))
        }),
        // v3 (C06 / C17) successful parse, `imports`: the entry of f = canon(file_path) is REPLACED by the module-level
        // names of THIS text (module_names = the first pass folded over the body; removed in the cleanup block, then
        // inserted) whatever it held before and whatever cleanup_previous is; no other file's stored set is touched
        parse_ok(content@) ==> imports_post(old(self).imports.m(), final(self).imports.m(), canon(pbv(&file_path)), ast_of(content@)),
        // v3 successful parse, `undeclared_fixtures`: every other file's findings are untouched; f's list is dropped
        // before the visitors run -- what they leave under f is NOT described by visit_stmt's contract (undecl_frame),
        // so the reset is visible here only when no visitor runs (no top-level statement)
        parse_ok(content@) ==> final(self).undeclared_fixtures.m().remove(canon(pbv(&file_path))) == old(self).undeclared_fixtures.m().remove(canon(pbv(&file_path))),
        parse_ok(content@) && body_of(ast_of(content@)).len() == 0 ==> !final(self).undeclared_fixtures.m().contains_key(canon(pbv(&file_path))),
        // v4 (C06 / C17 / C19) successful parse, f's OWN findings: the old list is dropped, then EXACTLY the scans of this text
        // are pushed (stmts_vundecl, prelude/analyze_undecl.rs: visit_undecl folded over the top-level statements; each scan
        // reads the definitions recorded so far on top of d0 and the module-level names of THIS text) -- no dependence on
        // what was filed under f before
        parse_ok(content@) ==> ({
            let f = canon(pbv(&file_path));
            let body = body_of(ast_of(content@));
            let d0 = old(self).defs();
            undecl_view(final(self).undeclared_fixtures.m()) == push_undecl(undecl_view(old(self).undeclared_fixtures.m()).remove(f), f,
                stmts_vundecl(body, f, content@, d0, module_names(body)))
        }),
        // ... and the line index the positions of those findings were computed with is a line index (get_line_index, unit
        // memo_keys, under the no-collision hypothesis): the hypothesis of the scanner's precision theorem
        parse_ok(content@) ==> is_line_index(ints(src_line_index(content@))) && src_line_index(content@).len() <= usize::MAX,
@*/

// exec canary (must FAIL): the real analyze_file against 'imports[f] ACCUMULATES over the versions analysed (union)'
/*@ extract src/fixtures/analyzer.rs analyze_file
@tags C06 C17
@as canary_analyze_file_imports_accumulate
@recv mut
@sig
    requires old(self).version() < u64::MAX,
        old(self).env_ok(), li_cache_wf(old(self).line_index_cache.m()), canon_cache_wf(old(self).canonical_path_cache.m()),
        li_no_collision(old(self).line_index_cache.m(), canon(pbv(&file_path)), content@),
        parse_ok(content@) ==> old(self).version() + 1 + stmts_vdefs(body_of(ast_of(content@)), canon(pbv(&file_path)), content@).len() <= u64::MAX,
    ensures parse_ok(content@) && is_module(ast_of(content@)) ==> imports_entry(old(self).imports.m(), canon(pbv(&file_path))).subset_of(imports_entry(final(self).imports.m(), canon(pbv(&file_path)))),
@*/

// exec canary (must FAIL): the same for the scan entry point: cleanup_previous = false does NOT keep the old names either
/*@ extract src/fixtures/analyzer.rs analyze_file_fresh
@tags C06 C17
@as canary_analyze_file_fresh_imports_accumulate
@recv mut
@sig
    requires old(self).version() < u64::MAX,
        old(self).env_ok(), li_cache_wf(old(self).line_index_cache.m()), canon_cache_wf(old(self).canonical_path_cache.m()),
        li_no_collision(old(self).line_index_cache.m(), canon(pbv(&file_path)), content@),
        parse_ok(content@) ==> old(self).version() + 1 + stmts_vdefs(body_of(ast_of(content@)), canon(pbv(&file_path)), content@).len() <= u64::MAX,
    ensures parse_ok(content@) && is_module(ast_of(content@)) ==> imports_entry(old(self).imports.m(), canon(pbv(&file_path))).subset_of(imports_entry(final(self).imports.m(), canon(pbv(&file_path)))),
@*/

// exec canary (must FAIL): 'a successful analysis of f changes the imports entry of another file'
/*@ extract src/fixtures/analyzer.rs analyze_file
@tags C06 C17
@as canary_analyze_file_other_imports_change
@recv mut
@sig
    requires old(self).version() < u64::MAX,
        old(self).env_ok(), li_cache_wf(old(self).line_index_cache.m()), canon_cache_wf(old(self).canonical_path_cache.m()),
        li_no_collision(old(self).line_index_cache.m(), canon(pbv(&file_path)), content@),
        parse_ok(content@) ==> old(self).version() + 1 + stmts_vdefs(body_of(ast_of(content@)), canon(pbv(&file_path)), content@).len() <= u64::MAX,
    ensures parse_ok(content@) ==> final(self).imports.m().remove(canon(pbv(&file_path))) != old(self).imports.m().remove(canon(pbv(&file_path))),
@*/

// exec canary (must FAIL): 'a parse failure drops the file's imports entry'
/*@ extract src/fixtures/analyzer.rs analyze_file
@tags C06 C17
@as canary_analyze_file_parse_failure_resets_imports
@recv mut
@sig
    requires old(self).version() < u64::MAX,
        old(self).env_ok(), li_cache_wf(old(self).line_index_cache.m()), canon_cache_wf(old(self).canonical_path_cache.m()),
        li_no_collision(old(self).line_index_cache.m(), canon(pbv(&file_path)), content@),
        parse_ok(content@) ==> old(self).version() + 1 + stmts_vdefs(body_of(ast_of(content@)), canon(pbv(&file_path)), content@).len() <= u64::MAX,
    ensures !parse_ok(content@) ==> !final(self).imports.m().contains_key(canon(pbv(&file_path))),
@*/

// exec canary (must FAIL): 'the findings f had before are still there after analysing a text without statements' (the reset negated)
/*@ extract src/fixtures/analyzer.rs analyze_file
@tags C06 C17
@as canary_analyze_file_keeps_old_undeclared
@recv mut
@sig
    requires old(self).version() < u64::MAX,
        old(self).env_ok(), li_cache_wf(old(self).line_index_cache.m()), canon_cache_wf(old(self).canonical_path_cache.m()),
        li_no_collision(old(self).line_index_cache.m(), canon(pbv(&file_path)), content@),
        parse_ok(content@) ==> old(self).version() + 1 + stmts_vdefs(body_of(ast_of(content@)), canon(pbv(&file_path)), content@).len() <= u64::MAX,
    ensures parse_ok(content@) && body_of(ast_of(content@)).len() == 0 ==> final(self).undeclared_fixtures.m().contains_key(canon(pbv(&file_path))) == old(self).undeclared_fixtures.m().contains_key(canon(pbv(&file_path))),
@*/

// exec canary (must FAIL): 'the findings of f ACCUMULATE over analyses' (the old list is a lower bound of the new one)
/*@ extract src/fixtures/analyzer.rs analyze_file
@tags C06 C17 C19
@as canary_analyze_file_findings_accumulate
@recv mut
@sig
    requires old(self).version() < u64::MAX,
        old(self).env_ok(), li_cache_wf(old(self).line_index_cache.m()), canon_cache_wf(old(self).canonical_path_cache.m()),
        li_no_collision(old(self).line_index_cache.m(), canon(pbv(&file_path)), content@),
        parse_ok(content@) ==> old(self).version() + 1 + stmts_vdefs(body_of(ast_of(content@)), canon(pbv(&file_path)), content@).len() <= u64::MAX,
    ensures parse_ok(content@) ==> bucket(undecl_view(final(self).undeclared_fixtures.m()), canon(pbv(&file_path))).len() >= bucket(undecl_view(old(self).undeclared_fixtures.m()), canon(pbv(&file_path))).len(),
@*/

// exec canary (must FAIL): the same for the scan entry point (cleanup_previous = false does NOT keep the old findings either)
/*@ extract src/fixtures/analyzer.rs analyze_file_fresh
@tags C06 C17 C19
@as canary_analyze_file_fresh_findings_accumulate
@recv mut
@sig
    requires old(self).version() < u64::MAX,
        old(self).env_ok(), li_cache_wf(old(self).line_index_cache.m()), canon_cache_wf(old(self).canonical_path_cache.m()),
        li_no_collision(old(self).line_index_cache.m(), canon(pbv(&file_path)), content@),
        parse_ok(content@) ==> old(self).version() + 1 + stmts_vdefs(body_of(ast_of(content@)), canon(pbv(&file_path)), content@).len() <= u64::MAX,
    ensures parse_ok(content@) ==> bucket(undecl_view(final(self).undeclared_fixtures.m()), canon(pbv(&file_path))).len() >= bucket(undecl_view(old(self).undeclared_fixtures.m()), canon(pbv(&file_path))).len(),
@*/

// exec canary (must FAIL): 'a successful analysis of f changes the findings of another file'
/*@ extract src/fixtures/analyzer.rs analyze_file
@tags C06 C17 C19
@as canary_analyze_file_other_findings_change
@recv mut
@sig
    requires old(self).version() < u64::MAX,
        old(self).env_ok(), li_cache_wf(old(self).line_index_cache.m()), canon_cache_wf(old(self).canonical_path_cache.m()),
        li_no_collision(old(self).line_index_cache.m(), canon(pbv(&file_path)), content@),
        parse_ok(content@) ==> old(self).version() + 1 + stmts_vdefs(body_of(ast_of(content@)), canon(pbv(&file_path)), content@).len() <= u64::MAX,
    ensures parse_ok(content@) ==> undecl_view(final(self).undeclared_fixtures.m()).remove(canon(pbv(&file_path))) != undecl_view(old(self).undeclared_fixtures.m()).remove(canon(pbv(&file_path))),
@*/

/*@ extract src/fixtures/analyzer.rs analyze_file_internal
@tags C06
@as canary_analyze_keeps_old_usages
@recv mut
@wrapexpr 1 `file_path .file_name() .map(|n| n == "conftest.py") .unwrap_or(false)` => `Self::vp_is_conftest2(&file_path)` with fn vp_is_conftest2(file_path: &PathBuf) -> bool
@sig
    requires old(self).version() < u64::MAX,
        // v2: environment hypothesis, cache invariants, and the H-ideal hypothesis for the text analysed
        old(self).env_ok(), li_cache_wf(old(self).line_index_cache.m()), canon_cache_wf(old(self).canonical_path_cache.m()),
        // H-ideal of unit memo_keys, for THIS call only: the line index cached for this file (if any) was built from a
        // text that does not collide with `content` (implied by hash_collides_with_nothing(content@): memokeys_l2.rs)
        li_no_collision(old(self).line_index_cache.m(), canon(pbv(&file_path)), content@),
        // no wrap-around of the u64 version counter during this analysis (one bump per recorded definition)
        parse_ok(content@) ==> old(self).version() + 1 + stmts_vdefs(body_of(ast_of(content@)), canon(pbv(&file_path)), content@).len() <= u64::MAX,
    ensures parse_ok(content@) ==> final(self).uses() == old(self).uses(),
@start
    let ghost f0 = canon(pbv(&file_path));
@after file_path 3
    let ghost f = pbv(&file_path);
    let ghost e0 = *self;   // state after get_canonical_path: only canonical_path_cache differs from old(self)
    proof { assert(e0.env_ok() && e0.line_index_cache == old(self).line_index_cache); }
@before is_conftest 1
    proof {
        // frames of the index-maintenance callees (rest() over all non-index fields) and of the direct map writes
        assert(self.line_index_cache == e0.line_index_cache && self.canonical_path_cache == e0.canonical_path_cache);
        assert(self.env_ok());
        assert(f == f0 && li_no_collision(self.line_index_cache.m(), f, content@));
    }
    let ghost d0 = self.defs();
    let ghost fd0 = self.fdefs();
    let ghost u0 = self.uses();
    let ghost b0 = self.byfix();
    proof {
        assert(u0 =~~= old(self).uses().remove(f));
        assert(b0 == clean_byfix(old(self).byfix(), f));
    }
@before for 1
    let ghost body = module.body@;
    proof { assert(body == body_of(ast_of(content@))); assert(f == f0); }
@loopvar 1 it0
@loop 1
    invariant self.definitions == old(self).definitions || true,
@loopvar 2 it
@loop 2
    invariant
        self.env_ok(), li_cache_wf(self.line_index_cache.m()), canon_cache_wf(self.canonical_path_cache.m()),
        f == pbv(&file_path), body == module.body@, it.seq() == body.as_ref(),
        (*line_index)@ == src_line_index(content@), is_line_index(ints((*line_index)@)), module_pre(body, (*line_index)@),
        old(self).version() + 1 + stmts_vdefs(body, f, content@).len() <= u64::MAX,
        self.version() == old(self).version() + 1 + stmts_vdefs(body.take(it.index@ as int), f, content@).len(),
        self.defs() == push_defs(d0, stmts_vdefs(body.take(it.index@ as int), f, content@)),
        self.fdefs() == add_fdefs(fd0, stmts_vdefs(body.take(it.index@ as int), f, content@)),
        self.uses() == push_uses(u0, stmts_vuses(body.take(it.index@ as int), f, content@)),
        self.byfix() == push_byfix(b0, stmts_vuses(body.take(it.index@ as int), f, content@)),
@loopstart 2
    let ghost i0 = it.index@ as int;
    proof { assert(body[i0] == *stmt); assert(visit_pre(body[i0], (*line_index)@)); }
@loopend 2
    proof {
        assert(body[i0] == *stmt);
        let t0 = body.take(i0);
        let t1 = body.take(i0 + 1);
        assert(t1.drop_last() =~= t0);
        assert(t1.last() == body[i0]);
        lemma_push_defs_concat(d0, stmts_vdefs(t0, f, content@), vdefs(body[i0], f, content@));
        lemma_add_fdefs_concat(fd0, stmts_vdefs(t0, f, content@), vdefs(body[i0], f, content@));
        lemma_push_uses_concat(u0, stmts_vuses(t0, f, content@), vuses(body[i0], f, content@));
        lemma_push_byfix_concat(b0, stmts_vuses(t0, f, content@), vuses(body[i0], f, content@));
        lemma_stmts_vdefs_len_mono(body, i0 + 1, f, content@);
        lemma_bumpn_no_wrap((old(self).version() + 1 + stmts_vdefs(t0, f, content@).len()) as u64, vdefs(body[i0], f, content@).len() as int);
    }
@after for 2
    proof { assert(body.take(body.len() as int) =~= body); }
@before evict_cache_if_needed 1
    let ghost lm0 = self.line_index_cache.m();
    proof { assert(li_cache_wf(lm0)); }
@after evict_cache_if_needed 1
    proof {
        // the invariant survives removal of entries (memo_v2: line_index_cache only shrinks)
        let lm2 = self.line_index_cache.m();
        assert forall|g: PV| lm2.contains_key(g) implies li_entry_ok(#[trigger] lm2[g]) by {
            assert(lm2.dom().contains(g)); assert(lm0.dom().contains(g)); assert(lm2[g] == lm0[g]);
        }
    }
@*/

// exec canary: the same real body WITHOUT the H-ideal hypothesis for the text -- must FAIL at the precondition of
// get_line_index (the contract proved in unit memo_keys cannot be used without it)
/*@ extract src/fixtures/analyzer.rs analyze_file_internal
@tags C06
@as canary_analyze_without_no_collision_hypothesis
@recv mut
@wrapexpr 1 `file_path .file_name() .map(|n| n == "conftest.py") .unwrap_or(false)` => `Self::vp_is_conftest3(&file_path)` with fn vp_is_conftest3(file_path: &PathBuf) -> bool
@sig
    requires old(self).version() < u64::MAX,
        // v2: environment hypothesis, cache invariants, and the H-ideal hypothesis for the text analysed
        old(self).env_ok(), li_cache_wf(old(self).line_index_cache.m()), canon_cache_wf(old(self).canonical_path_cache.m()),
        // no wrap-around of the u64 version counter during this analysis (one bump per recorded definition)
        parse_ok(content@) ==> old(self).version() + 1 + stmts_vdefs(body_of(ast_of(content@)), canon(pbv(&file_path)), content@).len() <= u64::MAX,
    ensures true,
@start
    let ghost f0 = canon(pbv(&file_path));
@after file_path 3
    let ghost f = pbv(&file_path);
    let ghost e0 = *self;   // state after get_canonical_path: only canonical_path_cache differs from old(self)
    proof { assert(e0.env_ok() && e0.line_index_cache == old(self).line_index_cache); }
@before is_conftest 1
    proof {
        // frames of the index-maintenance callees (rest() over all non-index fields) and of the direct map writes
        assert(self.line_index_cache == e0.line_index_cache && self.canonical_path_cache == e0.canonical_path_cache);
        assert(self.env_ok());
    }
    let ghost d0 = self.defs();
    let ghost fd0 = self.fdefs();
    let ghost u0 = self.uses();
    let ghost b0 = self.byfix();
    proof {
        assert(u0 =~~= old(self).uses().remove(f));
        assert(b0 == clean_byfix(old(self).byfix(), f));
    }
@before for 1
    let ghost body = module.body@;
    proof { assert(body == body_of(ast_of(content@))); assert(f == f0); }
@loopvar 1 it0
@loop 1
    invariant self.definitions == old(self).definitions || true,
@loopvar 2 it
@loop 2
    invariant
        self.env_ok(), li_cache_wf(self.line_index_cache.m()), canon_cache_wf(self.canonical_path_cache.m()),
        f == pbv(&file_path), body == module.body@, it.seq() == body.as_ref(),
        (*line_index)@ == src_line_index(content@), is_line_index(ints((*line_index)@)), module_pre(body, (*line_index)@),
        old(self).version() + 1 + stmts_vdefs(body, f, content@).len() <= u64::MAX,
        self.version() == old(self).version() + 1 + stmts_vdefs(body.take(it.index@ as int), f, content@).len(),
        self.defs() == push_defs(d0, stmts_vdefs(body.take(it.index@ as int), f, content@)),
        self.fdefs() == add_fdefs(fd0, stmts_vdefs(body.take(it.index@ as int), f, content@)),
        self.uses() == push_uses(u0, stmts_vuses(body.take(it.index@ as int), f, content@)),
        self.byfix() == push_byfix(b0, stmts_vuses(body.take(it.index@ as int), f, content@)),
@loopstart 2
    let ghost i0 = it.index@ as int;
    proof { assert(body[i0] == *stmt); assert(visit_pre(body[i0], (*line_index)@)); }
@loopend 2
    proof {
        assert(body[i0] == *stmt);
        let t0 = body.take(i0);
        let t1 = body.take(i0 + 1);
        assert(t1.drop_last() =~= t0);
        assert(t1.last() == body[i0]);
        lemma_push_defs_concat(d0, stmts_vdefs(t0, f, content@), vdefs(body[i0], f, content@));
        lemma_add_fdefs_concat(fd0, stmts_vdefs(t0, f, content@), vdefs(body[i0], f, content@));
        lemma_push_uses_concat(u0, stmts_vuses(t0, f, content@), vuses(body[i0], f, content@));
        lemma_push_byfix_concat(b0, stmts_vuses(t0, f, content@), vuses(body[i0], f, content@));
        lemma_stmts_vdefs_len_mono(body, i0 + 1, f, content@);
        lemma_bumpn_no_wrap((old(self).version() + 1 + stmts_vdefs(t0, f, content@).len()) as u64, vdefs(body[i0], f, content@).len() as int);
    }
@after for 2
    proof { assert(body.take(body.len() as int) =~= body); }
@before evict_cache_if_needed 1
    let ghost lm0 = self.line_index_cache.m();
    proof { assert(li_cache_wf(lm0)); }
@after evict_cache_if_needed 1
    proof {
        // the invariant survives removal of entries (memo_v2: line_index_cache only shrinks)
        let lm2 = self.line_index_cache.m();
        assert forall|g: PV| lm2.contains_key(g) implies li_entry_ok(#[trigger] lm2[g]) by {
            assert(lm2.dom().contains(g)); assert(lm0.dom().contains(g)); assert(lm2[g] == lm0[g]);
        }
    }
@*/
}

/// canary: "the hypotheses of an analysis (environment, cache invariants, H-ideal for the text) are contradictory"
pub proof fn canary_analyze_hypotheses_contradictory(db: FixtureDatabase, t: Seq<char>)
    requires db.env_ok(), li_cache_wf(db.line_index_cache.m()), canon_cache_wf(db.canonical_path_cache.m()), hash_collides_with_nothing(t),
        forall|f: PV| li_no_collision(db.line_index_cache.m(), f, t),
    ensures false,
{}
} // verus!
fn main() {}
