//@include prelude/header.rs
use rustpython_parser::{parse, Mode};
use rustpython_parser::ast::{Stmt, Expr, Keyword, Identifier, Constant, ExceptHandler, ExprCall, Alias, Arguments, ArgWithDefault};
use rustpython_parser::text_size::TextRange;
verus! {
global size_of usize == 8;  // A6: 64-bit target
pub mod pre {
use super::*;
//@include prelude/path.rs
//@include prelude/types.rs
//@include prelude/dashmap.rs
//@include prelude/hashset.rs
//@include prelude/atomic.rs
//@include prelude/dbview.rs
//@include prelude/hof.rs
//@include prelude/arc.rs
//@include prelude/index_spec.rs
//@include prelude/strings.rs
//@include prelude/iter_ext.rs
//@include prelude/iter_slice.rs
//@include prelude/bytes.rs
//@include build/astspec.rs
// extra AST / parser types needed by analyze_file_internal
#[verifier::external_type_specification] #[verifier::reject_recursive_types(R)] pub struct ExMod<R>(rustpython_parser::ast::Mod<R>);
#[verifier::external_type_specification] #[verifier::reject_recursive_types(R)] pub struct ExModModule<R>(rustpython_parser::ast::ModModule<R>);
#[verifier::external_type_specification] #[verifier::reject_recursive_types(R)] pub struct ExModInteractive<R>(rustpython_parser::ast::ModInteractive<R>);
#[verifier::external_type_specification] #[verifier::reject_recursive_types(R)] pub struct ExModExpression<R>(rustpython_parser::ast::ModExpression<R>);
#[verifier::external_type_specification] #[verifier::reject_recursive_types(R)] pub struct ExModFunctionType<R>(rustpython_parser::ast::ModFunctionType<R>);
#[verifier::external_type_specification] #[verifier::reject_recursive_types(R)] pub struct ExTypeIgnore<R>(rustpython_parser::ast::TypeIgnore<R>);
#[verifier::external_type_specification] #[verifier::reject_recursive_types(R)] pub struct ExTypeIgnoreTypeIgnore<R>(rustpython_parser::ast::TypeIgnoreTypeIgnore<R>);
#[verifier::external_type_specification] pub struct ExMode(rustpython_parser::Mode);
#[verifier::external_type_specification] #[verifier::external_body] #[verifier::reject_recursive_types(T)] pub struct ExBaseError<T>(rustpython_parser_core::BaseError<T>);
#[verifier::external_type_specification] #[verifier::external_body] pub struct ExParseErrorType(rustpython_parser::ParseErrorType);
//@include prelude/ast_spec.rs
//@include prelude/line_spec.rs
//@include prelude/visit_spec.rs
//@include prelude/analyze_spec.rs
//@include prelude/analyze_l2.rs
} // mod pre
use pre::*;

#[verifier::external_type_specification] pub struct ExUndeclaredFixture(UndeclaredFixture);

//@dbstruct_arc definitions file_definitions usages usage_by_fixture definitions_version file_cache undeclared_fixtures imports

//@include prelude/index_dbspecs.rs
//@include prelude/visit_dbspecs.rs

/// canonicalisation of a path (file-system fact; get_canonical_path memoises it)
pub uninterp spec fn canon(p: PV) -> PV;

pub assume_specification[ rustpython_parser::parse ](source: &str, mode: rustpython_parser::Mode, source_path: &str) -> (r: Result<rustpython_parser::ast::Mod, rustpython_parser::ParseError>)
    ensures match r {
        // A8: parser positions (module_pre, prelude/analyze_spec.rs)
        Ok(m) => parse_ok(source@) && m == ast_of(source@) && module_pre(body_of(m), src_line_index(source@)),
        Err(_) => !parse_ok(source@) };


impl FixtureDatabase {
    pub open spec fn texts(&self) -> Map<PV, Seq<char>> { self.file_cache.m().map_values(|a: Arc<String>| (*a)@) }

//@stub index_maint invalidate_cycle_cache
//@stub index_maint cleanup_usages_for_file
//@stub index_maint cleanup_definitions_for_file

    // ---- callee contracts ASSUMED here (A4 / A7)
    #[verifier::external_body]
    pub(crate) fn get_canonical_path(&self, path: PathBuf) -> (r: PathBuf)
        ensures pbv(&r) == canon(pbv(&path))
    { unimplemented!() }
    #[verifier::external_body]
    /// memoised build_line_index (unit line_index proves is_line_index for build_line_index)
    pub(crate) fn get_line_index(&self, file_path: &Path, content: &str) -> (r: Arc<Vec<usize>>)
        ensures (*r)@ == src_line_index(content@), is_line_index(ints((*r)@)),
    { unimplemented!() }
    #[verifier::external_body]
    fn collect_module_level_names(&self, stmt: &Stmt, names: &mut HashSet<String>)
    { unimplemented!() }
    // A7 DISCHARGED: the contract of visit_stmt is the one PROVED in unit visit
//@stub visit visit_stmt
    #[verifier::external_body]
    pub(crate) fn evict_cache_if_needed(&mut self)
        ensures final(self).definitions == old(self).definitions, final(self).file_definitions == old(self).file_definitions,
            final(self).usages == old(self).usages, final(self).usage_by_fixture == old(self).usage_by_fixture,
            final(self).definitions_version == old(self).definitions_version,
            final(self).undeclared_fixtures == old(self).undeclared_fixtures, final(self).imports == old(self).imports,
            // eviction may drop cached texts (file_cache) — see C07.c
    { unimplemented!() }

/*@ extract src/fixtures/analyzer.rs analyze_file_internal
@tags C04 C06 C07 C10 C12 C19
@recv mut
@wrapexpr 1 `file_path .file_name() .map(|n| n == "conftest.py") .unwrap_or(false)` => `Self::vp_is_conftest(&file_path)` with fn vp_is_conftest(file_path: &PathBuf) -> bool
@sig
    requires old(self).version() < u64::MAX,
        // no wrap-around of the u64 version counter during this analysis (one bump per recorded definition)
        parse_ok(content@) ==> old(self).version() + 1 + stmts_vdefs(body_of(ast_of(content@)), canon(pbv(&file_path)), content@).len() <= u64::MAX,
    ensures
        // O1 (C07): every analysis moves the version
        final(self).version() != old(self).version(),
        // parse failure keeps the index (C06: the last valid version stays in effect)
        !parse_ok(content@) ==> final(self).defs() == old(self).defs() && final(self).fdefs() == old(self).fdefs()
            && final(self).uses() == old(self).uses() && final(self).byfix() == old(self).byfix()
            && final(self).undeclared_fixtures == old(self).undeclared_fixtures && final(self).imports == old(self).imports,
        // successful parse: the index is the old one minus this file's entries plus what the visitors record
        parse_ok(content@) ==> ({
            let f = canon(pbv(&file_path));
            let body = body_of(ast_of(content@));
            let d0 = if cleanup_previous { clean_defs_names(old(self).defs(), f, sbucket(old(self).fdefs(), f)) } else { old(self).defs() };
            let fd0 = if cleanup_previous { old(self).fdefs().remove(f) } else { old(self).fdefs() };
            &&& final(self).defs() == push_defs(d0, stmts_vdefs(body, f, content@))
            &&& final(self).fdefs() == add_fdefs(fd0, stmts_vdefs(body, f, content@))
            &&& final(self).uses() == push_uses(old(self).uses().remove(f), stmts_vuses(body, f, content@))
            &&& final(self).byfix() == push_byfix(clean_byfix(old(self).byfix(), f), stmts_vuses(body, f, content@))
        }),
@start
    let ghost f0 = canon(pbv(&file_path));
@after file_path 3
    let ghost f = pbv(&file_path);
@before is_conftest 1
    let ghost d0 = self.defs();
    let ghost fd0 = self.fdefs();
    let ghost u0 = self.uses();
    let ghost b0 = self.byfix();
    proof {
        assert(u0 =~~= old(self).uses().remove(f));
        assert(b0 == clean_byfix(old(self).byfix(), f));
    }
@before for 1
    let ghost body = module.body@;
    proof { assert(body == body_of(ast_of(content@))); assert(f == f0); }
@loopvar 1 it0
@loop 1
    invariant self.definitions == old(self).definitions || true,
@loopvar 2 it
@loop 2
    invariant
        f == pbv(&file_path), body == module.body@, it.seq() == body.as_ref(),
        (*line_index)@ == src_line_index(content@), is_line_index(ints((*line_index)@)), module_pre(body, (*line_index)@),
        old(self).version() + 1 + stmts_vdefs(body, f, content@).len() <= u64::MAX,
        self.version() == old(self).version() + 1 + stmts_vdefs(body.take(it.index@ as int), f, content@).len(),
        self.defs() == push_defs(d0, stmts_vdefs(body.take(it.index@ as int), f, content@)),
        self.fdefs() == add_fdefs(fd0, stmts_vdefs(body.take(it.index@ as int), f, content@)),
        self.uses() == push_uses(u0, stmts_vuses(body.take(it.index@ as int), f, content@)),
        self.byfix() == push_byfix(b0, stmts_vuses(body.take(it.index@ as int), f, content@)),
@loopstart 2
    let ghost i0 = it.index@ as int;
    proof { assert(body[i0] == *stmt); assert(visit_pre(body[i0], (*line_index)@)); }
@loopend 2
    proof {
        assert(body[i0] == *stmt);
        let t0 = body.take(i0);
        let t1 = body.take(i0 + 1);
        assert(t1.drop_last() =~= t0);
        assert(t1.last() == body[i0]);
        lemma_push_defs_concat(d0, stmts_vdefs(t0, f, content@), vdefs(body[i0], f, content@));
        lemma_add_fdefs_concat(fd0, stmts_vdefs(t0, f, content@), vdefs(body[i0], f, content@));
        lemma_push_uses_concat(u0, stmts_vuses(t0, f, content@), vuses(body[i0], f, content@));
        lemma_push_byfix_concat(b0, stmts_vuses(t0, f, content@), vuses(body[i0], f, content@));
        lemma_stmts_vdefs_len_mono(body, i0 + 1, f, content@);
        lemma_bumpn_no_wrap((old(self).version() + 1 + stmts_vdefs(t0, f, content@).len()) as u64, vdefs(body[i0], f, content@).len() as int);
    }
@after for 2
    proof { assert(body.take(body.len() as int) =~= body); }
@*/

/*@ extract src/fixtures/analyzer.rs analyze_file
@tags C04 C06 C07 C10 C12 C19
@recv mut
@sig
    requires old(self).version() < u64::MAX,
        parse_ok(content@) ==> old(self).version() + 1 + stmts_vdefs(body_of(ast_of(content@)), canon(pbv(&file_path)), content@).len() <= u64::MAX,
    ensures
        // the public entry points are exactly analyze_file_internal with cleanup_previous = true: no shortcut, no extra work
        final(self).version() != old(self).version(),
        !parse_ok(content@) ==> final(self).defs() == old(self).defs() && final(self).fdefs() == old(self).fdefs()
            && final(self).uses() == old(self).uses() && final(self).byfix() == old(self).byfix()
            && final(self).undeclared_fixtures == old(self).undeclared_fixtures && final(self).imports == old(self).imports,
        parse_ok(content@) ==> ({
            let f = canon(pbv(&file_path));
            let body = body_of(ast_of(content@));
            let d0 = clean_defs_names(old(self).defs(), f, sbucket(old(self).fdefs(), f));
            let fd0 = old(self).fdefs().remove(f);
            &&& final(self).defs() == push_defs(d0, stmts_vdefs(body, f, content@))
            &&& final(self).fdefs() == add_fdefs(fd0, stmts_vdefs(body, f, content@))
            &&& final(self).uses() == push_uses(old(self).uses().remove(f), stmts_vuses(body, f, content@))
            &&& final(self).byfix() == push_byfix(clean_byfix(old(self).byfix(), f), stmts_vuses(body, f, content@))
        }),
@*/

/*@ extract src/fixtures/analyzer.rs analyze_file_fresh
@tags C04 C06 C07 C10 C12 C19
@recv mut
@sig
    requires old(self).version() < u64::MAX,
        parse_ok(content@) ==> old(self).version() + 1 + stmts_vdefs(body_of(ast_of(content@)), canon(pbv(&file_path)), content@).len() <= u64::MAX,
    ensures
        // the public entry points are exactly analyze_file_internal with cleanup_previous = false: no shortcut, no extra work
        final(self).version() != old(self).version(),
        !parse_ok(content@) ==> final(self).defs() == old(self).defs() && final(self).fdefs() == old(self).fdefs()
            && final(self).uses() == old(self).uses() && final(self).byfix() == old(self).byfix()
            && final(self).undeclared_fixtures == old(self).undeclared_fixtures && final(self).imports == old(self).imports,
        parse_ok(content@) ==> ({
            let f = canon(pbv(&file_path));
            let body = body_of(ast_of(content@));
            let d0 = old(self).defs();
            let fd0 = old(self).fdefs();
            &&& final(self).defs() == push_defs(d0, stmts_vdefs(body, f, content@))
            &&& final(self).fdefs() == add_fdefs(fd0, stmts_vdefs(body, f, content@))
            &&& final(self).uses() == push_uses(old(self).uses().remove(f), stmts_vuses(body, f, content@))
            &&& final(self).byfix() == push_byfix(clean_byfix(old(self).byfix(), f), stmts_vuses(body, f, content@))
        }),
@*/

/*@ extract src/fixtures/analyzer.rs analyze_file_internal
@tags C06
@as canary_analyze_keeps_old_usages
@recv mut
@wrapexpr 1 `file_path .file_name() .map(|n| n == "conftest.py") .unwrap_or(false)` => `Self::vp_is_conftest2(&file_path)` with fn vp_is_conftest2(file_path: &PathBuf) -> bool
@sig
    requires old(self).version() < u64::MAX,
        // no wrap-around of the u64 version counter during this analysis (one bump per recorded definition)
        parse_ok(content@) ==> old(self).version() + 1 + stmts_vdefs(body_of(ast_of(content@)), canon(pbv(&file_path)), content@).len() <= u64::MAX,
    ensures parse_ok(content@) ==> final(self).uses() == old(self).uses(),
@start
    let ghost f0 = canon(pbv(&file_path));
@after file_path 3
    let ghost f = pbv(&file_path);
@before is_conftest 1
    let ghost d0 = self.defs();
    let ghost fd0 = self.fdefs();
    let ghost u0 = self.uses();
    let ghost b0 = self.byfix();
    proof {
        assert(u0 =~~= old(self).uses().remove(f));
        assert(b0 == clean_byfix(old(self).byfix(), f));
    }
@before for 1
    let ghost body = module.body@;
    proof { assert(body == body_of(ast_of(content@))); assert(f == f0); }
@loopvar 1 it0
@loop 1
    invariant self.definitions == old(self).definitions || true,
@loopvar 2 it
@loop 2
    invariant
        f == pbv(&file_path), body == module.body@, it.seq() == body.as_ref(),
        (*line_index)@ == src_line_index(content@), is_line_index(ints((*line_index)@)), module_pre(body, (*line_index)@),
        old(self).version() + 1 + stmts_vdefs(body, f, content@).len() <= u64::MAX,
        self.version() == old(self).version() + 1 + stmts_vdefs(body.take(it.index@ as int), f, content@).len(),
        self.defs() == push_defs(d0, stmts_vdefs(body.take(it.index@ as int), f, content@)),
        self.fdefs() == add_fdefs(fd0, stmts_vdefs(body.take(it.index@ as int), f, content@)),
        self.uses() == push_uses(u0, stmts_vuses(body.take(it.index@ as int), f, content@)),
        self.byfix() == push_byfix(b0, stmts_vuses(body.take(it.index@ as int), f, content@)),
@loopstart 2
    let ghost i0 = it.index@ as int;
    proof { assert(body[i0] == *stmt); assert(visit_pre(body[i0], (*line_index)@)); }
@loopend 2
    proof {
        assert(body[i0] == *stmt);
        let t0 = body.take(i0);
        let t1 = body.take(i0 + 1);
        assert(t1.drop_last() =~= t0);
        assert(t1.last() == body[i0]);
        lemma_push_defs_concat(d0, stmts_vdefs(t0, f, content@), vdefs(body[i0], f, content@));
        lemma_add_fdefs_concat(fd0, stmts_vdefs(t0, f, content@), vdefs(body[i0], f, content@));
        lemma_push_uses_concat(u0, stmts_vuses(t0, f, content@), vuses(body[i0], f, content@));
        lemma_push_byfix_concat(b0, stmts_vuses(t0, f, content@), vuses(body[i0], f, content@));
        lemma_stmts_vdefs_len_mono(body, i0 + 1, f, content@);
        lemma_bumpn_no_wrap((old(self).version() + 1 + stmts_vdefs(t0, f, content@).len()) as u64, vdefs(body[i0], f, content@).len() as int);
    }
@after for 2
    proof { assert(body.take(body.len() as int) =~= body); }
@*/
}
} // verus!
fn main() {}
