//@include prelude/strstruct_header.rs
// Unit strings_struct2 (properties C18 / C11 / C12): the TEXT FALLBACK of the completion context (resolver.rs 626-989, used when
// the document does not parse) under contract at the structural level; same method and trusted base as unit strings_struct
// (prelude/strstruct_prims.rs P0..P15) plus prelude/strstruct_prims2.rs (P16 split, P17 identifier prefix).
//   L1  has_fixture_decorator_above          r == op_has_deco(lines, def_line_idx)      (requires def_line_idx <= lines.len())
//       get_completion_context_from_text     opt_ccv(r) == op_text_ctx(content, target_line)
//         requires: the lines of the text hold at most i32::MAX characters (the parenthesis counter is an i32: `+= 1` per '(')
//         callees get_usefixtures_context_from_text / extract_fixture_scope_from_text: ASSUMED functions usefx_ctx / scope_txt
//         of (lines, index) (char-level paren counting + byte slicing: Kani's), called within their index precondition
//   L2  lemma_C18_* (only tests / fixtures, def at most 50 lines above, always a signature context; FINDINGs: no body
//       completion in unparsable text, open parenthesis in the body reads as signature, parameters after the first ')' are
//       not "declared"; declared = identifier prefixes of the comma separated pieces)
//   4 canaries must FAIL.  Unit completion_ctx leaves this function abstract (`text_ctx`): op_text_ctx is its definition.
verus! {
pub mod pre {
use super::*;
//@include prelude/path.rs
//@include prelude/dashmap.rs
//@include prelude/strstruct_prims.rs
//@include prelude/strstruct_db.rs
//@include prelude/strstruct_prims2.rs
//@include prelude/strstruct3_prims.rs
} // mod pre
use pre::*;
broadcast use {lemma_fits, axiom_ts_n, axiom_te_n, axiom_pat_str, axiom_pat_char, axiom_out_str, axiom_get_from};

#[verifier::external_type_specification] pub struct ExFixtureScope(FixtureScope);
#[verifier::external_type_specification] pub struct ExCompletionContext(CompletionContext);
//@dbstruct file_cache

// ---- views of the result (same shape as prelude/completion_ctx_spec.rs, so that `text_ctx` there can be read as op_text_ctx)
pub struct FnCtxV {
    pub in_signature: bool,
    pub name: Seq<char>, pub line: int, pub is_fixture: bool,
    pub declared: Seq<Seq<char>>, pub scope: Option<FixtureScope>,
}
pub enum CtxV { Func(FnCtxV), Usefixtures, Parametrize }
pub open spec fn ccv(c: CompletionContext) -> CtxV {
    match c {
        CompletionContext::FunctionSignature { function_name, function_line, is_fixture, declared_params, fixture_scope } =>
            CtxV::Func(FnCtxV { in_signature: true, name: function_name@, line: function_line as int, is_fixture,
                                declared: ssv(declared_params@), scope: fixture_scope }),
        CompletionContext::FunctionBody { function_name, function_line, is_fixture, declared_params, fixture_scope } =>
            CtxV::Func(FnCtxV { in_signature: false, name: function_name@, line: function_line as int, is_fixture,
                                declared: ssv(declared_params@), scope: fixture_scope }),
        CompletionContext::UsefixturesDecorator => CtxV::Usefixtures,
        CompletionContext::ParametrizeIndirect => CtxV::Parametrize,
    }
}
pub open spec fn opt_ccv(o: Option<CompletionContext>) -> Option<CtxV> {
    match o { Some(c) => Some(ccv(c)), None => None }
}

pub open spec fn is_blank(l: Seq<char>) -> bool { trim_v(l).len() == 0 }
pub open spec fn is_word(c: char) -> bool { is_alnum(c) || c == '_' }
pub open spec fn word_end(s: Seq<char>, e: int) -> int
    decreases s.len() - e
{
    if 0 <= e < s.len() && is_word(s[e]) { word_end(s, e + 1) } else { e }
}
/// longest prefix of word characters
pub open spec fn word_prefix(s: Seq<char>) -> Seq<char> { s.take(word_end(s, 0)) }
pub open spec fn starts(s: Seq<char>, t: Seq<char>) -> bool { occurs_at(s, PatV::Str(t), 0) }

// ---- has_fixture_decorator_above ------------------------------------------------------------------------------------------
pub open spec fn is_fixture_deco_text(t: Seq<char>) -> bool {
    find_k(t, PatV::Str("pytest.fixture"@)) is Some || starts(t, "@fixture"@)
}
/// scanning upwards from line i: blank lines and other decorator lines are skipped, the first other line stops the scan
pub open spec fn deco_above_from(ls: Seq<Seq<char>>, i: int) -> bool
    decreases i + 1
{
    if i < 0 || i >= ls.len() { false } else {
        let t = trim_v(ls[i]);
        if t.len() == 0 { deco_above_from(ls, i - 1) }
        else if occurs_at(t, PatV::Ch('@'), 0) { if is_fixture_deco_text(t) { true } else { deco_above_from(ls, i - 1) } }
        else { false }
    }
}
pub open spec fn op_has_deco(ls: Seq<Seq<char>>, d: int) -> bool { if d <= 0 { false } else { deco_above_from(ls, d - 1) } }


// ---- get_completion_context_from_text: operational specification --------------------------------------------------------
/// get_usefixtures_context_from_text / extract_fixture_scope_from_text (char-level paren counting and quote search with
/// byte slicing: Kani's): left abstract, functions of (lines, index)
//@include prelude/strstruct3_spec.rs
pub open spec fn usefx_ctx(ls: Seq<Seq<char>>, cur: int) -> Option<CtxV> { op_usefx_ctx(ls, cur) }
pub open spec fn scope_txt(ls: Seq<Seq<char>>, d: int) -> Option<FixtureScope> { op_scope_txt(ls, d) }

pub open spec fn def_lit() -> Seq<char> { "def "@ }
pub open spec fn async_lit() -> Seq<char> { "async def "@ }
/// the default `python_functions` prefix of pytest: a function whose name starts with `test` is collected (F-03f repaired)
pub open spec fn test_lit() -> Seq<char> { "test"@ }
/// `str::lines` drops the empty line after a final '\n'; the function puts it back
pub open spec fn lines_ext(c: Seq<char>) -> Seq<Seq<char>> {
    if occurs_at(c, PatV::Ch('\n'), c.len() - 1) { lines_v(c).push(Seq::empty()) } else { lines_v(c) }
}
pub open spec fn is_def_line(l: Seq<char>) -> bool { starts(trim_v(l), def_lit()) || starts(trim_v(l), async_lit()) }
/// nearest `def` / `async def` line at or above i, looking no further up than line `limit` (and line 0)
pub open spec fn def_scan(ls: Seq<Seq<char>>, i: int, limit: int) -> Option<int>
    decreases i + 1
{
    if i < 0 || i >= ls.len() { None } else if is_def_line(ls[i]) { Some(i) } else if i == 0 || i <= limit { None } else { def_scan(ls, i - 1, limit) }
}
pub open spec fn def_name(l: Seq<char>) -> Seq<char> {
    let t = trim_v(l);
    word_prefix(t.skip(if starts(t, async_lit()) { 10int } else { 4int }))
}
// parenthesis state while scanning the lines def..=cursor
pub struct PS { pub depth: int, pub found: bool, pub closed: bool, pub inside: bool }
pub open spec fn ps0() -> PS { PS { depth: 0, found: false, closed: false, inside: false } }
pub open spec fn ps_char(st: PS, ch: char, cl: bool) -> PS {
    if ch == '(' { PS { depth: st.depth + 1, found: st.found || st.depth + 1 == 1, closed: st.closed, inside: st.inside } }
    else if ch == ')' { PS { depth: st.depth - 1, found: st.found, closed: st.closed || (st.depth - 1 == 0 && st.found && !cl), inside: st.inside } }
    else { st }
}
pub open spec fn ps_chars(st: PS, s: Seq<char>, n: int, cl: bool) -> PS
    decreases n
{
    if n <= 0 { st } else { ps_char(ps_chars(st, s, n - 1, cl), s[n - 1], cl) }
}
pub open spec fn ps_line(st: PS, s: Seq<char>, cl: bool) -> PS {
    let a = ps_chars(st, s, s.len() as int, cl);
    if cl && a.found && a.depth > 0 { PS { depth: a.depth, found: a.found, closed: a.closed, inside: true } } else { a }
}
/// state after the first n lines of the window that starts at line d (cur = the cursor line)
pub open spec fn ps_lines(ls: Seq<Seq<char>>, d: int, n: int, cur: int) -> PS
    decreases n
{
    if n <= 0 { ps0() } else { ps_line(ps_lines(ls, d, n - 1, cur), ls[d + n - 1], d + n - 1 == cur) }
}
// text between the outermost parentheses
pub struct DP { pub text: Seq<char>, pub open: bool, pub close: bool }
pub open spec fn dp0() -> DP { DP { text: Seq::empty(), open: false, close: false } }
pub open spec fn dp_char(st: DP, ch: char) -> DP {
    if st.close { st }
    else if st.open { if ch == ')' { DP { text: st.text, open: st.open, close: true } } else { DP { text: st.text.push(ch), open: st.open, close: st.close } } }
    else if ch == '(' { DP { text: st.text, open: true, close: st.close } }
    else { st }
}
pub open spec fn dp_chars(st: DP, s: Seq<char>, n: int) -> DP
    decreases n
{
    if n <= 0 { st } else { dp_char(dp_chars(st, s, n - 1), s[n - 1]) }
}
pub open spec fn dp_line(st: DP, s: Seq<char>) -> DP {
    let a = dp_chars(st, s, s.len() as int);
    if a.open && !a.close { DP { text: a.text.push(' '), open: a.open, close: a.close } } else { a }
}
pub open spec fn dp_lines(ls: Seq<Seq<char>>, d: int, n: int) -> DP
    decreases n
{
    if n <= 0 { dp0() } else { dp_line(dp_lines(ls, d, n - 1), ls[d + n - 1]) }
}
/// names of the first n comma separated pieces: the leading identifier of each trimmed piece, empty ones dropped
pub open spec fn names_of(pieces: Seq<Seq<char>>, n: int) -> Seq<Seq<char>>
    decreases n
{
    if n <= 0 { Seq::empty() } else {
        let nm = word_prefix(trim_v(pieces[n - 1]));
        if nm.len() > 0 { names_of(pieces, n - 1).push(nm) } else { names_of(pieces, n - 1) }
    }
}
pub open spec fn declared_v(ls: Seq<Seq<char>>, d: int, cur: int) -> Seq<Seq<char>> {
    let pieces = split_v(dp_lines(ls, d, cur - d + 1).text, ',');
    names_of(pieces, pieces.len() as int)
}
pub open spec fn sat_sub(a: int, b: int) -> int { if a >= b { a - b } else { 0 } }
pub open spec fn op_text_ctx(c: Seq<char>, tl: usize) -> Option<CtxV> {
    let ls = lines_ext(c);
    if tl == 0 || tl > ls.len() { None } else {
        let cur = tl - 1;
        match usefx_ctx(ls, cur) {
            Some(x) => Some(x),
            None => match def_scan(ls, cur, sat_sub(cur, 50)) {
                None => None,
                Some(d) => {
                    let name = def_name(ls[d]);
                    let is_test = starts(name, test_lit());
                    let is_fix = op_has_deco(ls, d);
                    let ps = ps_lines(ls, d, cur - d + 1, cur);
                    if name.len() == 0 || (!is_test && !is_fix) || (ps.closed && !ps.inside) { None } else {
                        Some(CtxV::Func(FnCtxV {
                            in_signature: true, name: name, line: d + 1, is_fixture: is_fix,
                            declared: if ps.found { declared_v(ls, d, cur) } else { Seq::empty() },
                            scope: if is_fix { Some(match scope_txt(ls, d) { Some(sc) => sc, None => FixtureScope::Function }) } else { None },
                        }))
                    }
                }
            },
        }
    }
}
pub open spec fn ps_of(depth: i32, found: bool, closed: bool, inside: bool) -> PS { PS { depth: depth as int, found, closed, inside } }
pub open spec fn dp_of(text: Seq<char>, open: bool, close: bool) -> DP { DP { text, open, close } }
/// total number of characters of the first n lines
pub open spec fn chars_upto(ls: Seq<Seq<char>>, n: int) -> int
    decreases n
{
    if n <= 0 { 0 } else { chars_upto(ls, n - 1) + ls[n - 1].len() }
}
pub proof fn lemma_chars_upto_mono(ls: Seq<Seq<char>>, a: int, b: int)
    requires 0 <= a <= b <= ls.len(),
    ensures 0 <= chars_upto(ls, a) <= chars_upto(ls, b),
    decreases b,
{
    if a < b { lemma_chars_upto_mono(ls, a, b - 1); } else if a > 0 { lemma_chars_upto_mono(ls, a - 1, a - 1); }
}
pub proof fn lemma_chars_upto_push(ls: Seq<Seq<char>>, x: Seq<char>, n: int)
    requires 0 <= n <= ls.len(),
    ensures chars_upto(ls.push(x), n) == chars_upto(ls, n),
    decreases n,
{
    if n > 0 { lemma_chars_upto_push(ls, x, n - 1); assert(ls.push(x)[n - 1] == ls[n - 1]); }
}
pub proof fn lemma_def_scan_hit(ls: Seq<Seq<char>>, i: int, limit: int)
    ensures match def_scan(ls, i, limit) { Some(d) => 0 <= d <= i && d < ls.len() && is_def_line(ls[d]), None => true },
    decreases i + 1,
{
    if 0 <= i < ls.len() && !is_def_line(ls[i]) && !(i == 0 || i <= limit) { lemma_def_scan_hit(ls, i - 1, limit); }
}
/// a literal prefix p of t ends at a char boundary: byte offset blen(p) is character |p|
pub proof fn lemma_prefix_boundary(t: Seq<char>, p: Seq<char>)
    requires starts(t, p),
    ensures boff(t, p.len() as int) == blen(p), is_bnd(t, blen(p) as int), cidx(t, blen(p) as int) == p.len(), blen(p) <= blen(t),
{
    assert(t.take(p.len() as int) =~= t.subrange(0, p.len() as int));
    lemma_cidx(t, p.len() as int);
    lemma_blen_split(t, p.len() as int);
}
pub proof fn lemma_lits()
    ensures blen(def_lit()) == 4, def_lit().len() == 4, blen(async_lit()) == 10, async_lit().len() == 10, ""@ =~= Seq::<char>::empty(),
{
    reveal_strlit("def "); reveal_strlit("async def "); reveal_strlit("");
    lemma_ascii_blen("def "@); lemma_ascii_blen("async def "@);
}

impl FixtureDatabase {
    // callees: the contracts PROVED in unit strings_struct3 (composition)
//@stub strings_struct3 get_usefixtures_context_from_text
//@stub strings_struct3 extract_fixture_scope_from_text

/*@ extract src/fixtures/resolver.rs get_completion_context_from_text
@tags C18 C11 C12
@ret r
@rename enumerate vp_enumerate
@rename split vp_split_c
@wrapexpr 1 `remaining .chars() .take_while(|c| c.is_alphanumeric() || *c == '_') .collect()` => `Self::vp_ident_prefix(remaining)` with fn vp_ident_prefix(remaining: &str) -> (r: String) ensures r@ == word_prefix(remaining@)
@wrapexpr 1 `param .trim() .chars() .take_while(|c| c.is_alphanumeric() || *c == '_') .collect()` => `Self::vp_ident_prefix_trim(param)` with fn vp_ident_prefix_trim(param: &str) -> (r: String) ensures r@ == word_prefix(trim_v(param@))
@replace 1 `let mut def_line_idx = None;` => `let mut def_line_idx: Option<usize> = None;`
@replace 1 `let mut declared_params = Vec::new();` => `let mut declared_params: Vec<String> = Vec::new();`
@wrapexpr 1 `content.lines().collect()` => `Self::vp_lines_str(content)` with fn vp_lines_str<'a>(content: &'a str) -> (r: Vec<&'a str>) ensures sv(r@) == lines_v(content@)
@wrapexpr_opt 1 `&def_line[name_start..]` => `Self::vp_from(def_line, name_start)` with fn vp_from<'a>(def_line: &'a str, name_start: usize) -> (r: &'a str) requires name_start <= blen(def_line@), is_bnd(def_line@, name_start as int) ensures r@ == def_line@.skip(cidx(def_line@, name_start as int))
@sig
    requires chars_upto(lines_v(content@), lines_v(content@).len() as int) <= i32::MAX,
    ensures opt_ccv(r) == op_text_ctx(content@, target_line),
@before cursor_idx 2
    proof {
        lemma_chars_upto_mono(ls, 0, sat_sub(cursor_idx as int, 10));
        lemma_chars_upto_mono(ls, cursor_idx + 1, ls.len() as int);
        assert(ufx_fits(ls, cursor_idx as int));
    }
@before if 2
    let ghost ls = sv(lines@);
    proof {
        lemma_lits();
        assert(ls =~= lines_ext(content@));
        if occurs_at(content@, PatV::Ch('\n'), content@.len() - 1) {
            lemma_chars_upto_push(lines_v(content@), Seq::<char>::empty(), lines_v(content@).len() as int);
        }
        assert(chars_upto(ls, ls.len() as int) <= i32::MAX);
    }
@loop 1
    invariant_except_break def_line_idx is None,
    invariant i <= cursor_idx < lines@.len(), ls == sv(lines@), scan_limit == sat_sub(cursor_idx as int, 50),
        def_scan(ls, cursor_idx as int, scan_limit as int) == def_scan(ls, i as int, scan_limit as int),
    ensures (match def_line_idx { Some(d) => def_scan(ls, cursor_idx as int, scan_limit as int) == Some(d as int) && d <= cursor_idx, None => def_scan(ls, cursor_idx as int, scan_limit as int) is None }),
    decreases i
@before name_start 1
    let ghost d = def_line_idx as int;
    let ghost cur = cursor_idx as int;
    let ghost t = def_line@;
    proof {
        assert(t == trim_v(ls[d]));
        assert(is_def_line(ls[d])) by { lemma_def_scan_hit(ls, cur, sat_sub(cur, 50)); }
        if starts(t, async_lit()) { lemma_prefix_boundary(t, async_lit()); } else { lemma_prefix_boundary(t, def_lit()); }
    }
@before for 1
    let ghost total = chars_upto(ls, ls.len() as int);
    proof { lemma_chars_upto_mono(ls, 0, d); lemma_chars_upto_mono(ls, d, d); }
@loopvar 2 it2
@loop 2
    invariant ls == sv(lines@), d == def_line_idx, cur == cursor_idx, 0 <= d <= cur < lines@.len(),
        total == chars_upto(ls, ls.len() as int), total <= i32::MAX, 0 <= chars_upto(ls, d),
        it2.seq().len() == cur - d + 1,
        forall|k: int| 0 <= k < it2.seq().len() ==> (#[trigger] it2.seq()[k]).0 == k && *it2.seq()[k].1 == lines@[d + k],
        ps_of(paren_depth, found_open, signature_closed, cursor_inside_parens) == ps_lines(ls, d, it2.index@ as int, cur),
        -(chars_upto(ls, d + it2.index@) - chars_upto(ls, d)) <= paren_depth <= chars_upto(ls, d + it2.index@) - chars_upto(ls, d),
@before for 2
    let ghost k = it2.index@ as int;
    let ghost st0 = ps_of(paren_depth, found_open, signature_closed, cursor_inside_parens);
    let ghost c0 = chars_upto(ls, d + k) - chars_upto(ls, d);
    proof {
        assert(line@ == ls[d + k]);
        lemma_chars_upto_mono(ls, d + k + 1, ls.len() as int);
        lemma_chars_upto_mono(ls, d, d + k);
        assert(chars_upto(ls, d + k + 1) == chars_upto(ls, d + k) + ls[d + k].len());
    }
@loopvar 3 it3
@loop 3
    invariant it3.seq() == line@, is_cursor_line == (d + k == cur), 0 <= c0, c0 + line@.len() <= i32::MAX,
        ps_of(paren_depth, found_open, signature_closed, cursor_inside_parens) == ps_chars(st0, line@, it3.index@ as int, is_cursor_line),
        -(c0 + it3.index@) <= paren_depth <= c0 + it3.index@,
@loopend 2
    proof {
        assert(ps_lines(ls, d, k + 1, cur) == ps_line(ps_lines(ls, d, k, cur), ls[d + k], d + k == cur));
    }
@before declared_params 1
    let ghost ps = ps_of(paren_depth, found_open, signature_closed, cursor_inside_parens);
    proof { assert(ps == ps_lines(ls, d, cur - d + 1, cur)); }
@loopvar 4 it4
@loop 4
    invariant ls == sv(lines@), d == def_line_idx, cur == cursor_idx, 0 <= d <= cur < lines@.len(),
        it4.seq().len() == cur - d + 1,
        forall|k: int| 0 <= k < it4.seq().len() ==> *(#[trigger] it4.seq()[k]) == lines@[d + k],
        dp_of(param_text@, past_open, past_close) == dp_lines(ls, d, it4.index@ as int),
@before for 4
    let ghost k4 = it4.index@ as int;
    let ghost dst0 = dp_of(param_text@, past_open, past_close);
    let ghost mut j: int = 0;
    proof { assert(line@ == ls[d + k4]); }
@forloop 5 it5
    proof { assert(j == line@.len()); }
@loop 5
    invariant 0 <= j <= line@.len(), it5.remaining() =~= line@.skip(j),
        dp_of(param_text@, past_open, past_close) == dp_chars(dst0, line@, j),
    ensures dp_of(param_text@, past_open, past_close) == dp_chars(dst0, line@, line@.len() as int),
    decreases line@.len() - j
@loopstart 5
    proof { assert(ch == line@[j]); j = j + 1; }
@loopend 4
    proof {
        assert(dp_lines(ls, d, k4 + 1) == dp_line(dp_lines(ls, d, k4), ls[d + k4]));
    }
@loopvar 6 it6
@loop 6
    invariant sv(it6.seq()) == split_v(param_text@, ','),
        ssv(declared_params@) =~= names_of(split_v(param_text@, ','), it6.index@ as int),
@loopstart 6
    let ghost i6 = it6.index@ as int;
    let ghost before6 = declared_params@;
    proof { assert(param@ == split_v(param_text@, ',')[i6]); }
@loopend 6
    proof {
        let pieces = split_v(param_text@, ',');
        let nm = word_prefix(trim_v(pieces[i6]));
        if nm.len() > 0 {
            assert(declared_params@.drop_last() =~= before6);
            assert(ssv(declared_params@) =~= ssv(before6).push(nm));
        } else {
            assert(declared_params@ == before6);
        }
    }
@return tail
    assert(usefx_ctx(ls, cur) is None);
    assert(def_scan(ls, cur, sat_sub(cur, 50)) == Some(d));
    assert(func_name@ == def_name(ls[d]));
    assert(is_test == starts(func_name@, test_lit()));
    assert(is_fixture == op_has_deco(ls, d));
    assert(ps == ps_lines(ls, d, cur - d + 1, cur));
    assert(!(ps.closed && !ps.inside));
    assert(ssv(declared_params@) =~= (if ps.found { declared_v(ls, d, cur) } else { Seq::<Seq<char>>::empty() }));
@*/

/*@ extract src/fixtures/resolver.rs has_fixture_decorator_above
@tags C18 C11 C12
@ret r
@sig
    requires def_line_idx <= lines@.len(),
    ensures r == op_has_deco(sv(lines@), def_line_idx as int),
@before loop 1
    let ghost ls = sv(lines@);
@loop 1
    invariant 0 <= i < lines@.len(), ls == sv(lines@), def_line_idx >= 1,
        deco_above_from(ls, def_line_idx - 1) == deco_above_from(ls, i as int),
    ensures !deco_above_from(ls, def_line_idx - 1),
    decreases i
@break 1
    assert(!deco_above_from(ls, -1));
    assert(deco_above_from(ls, 0) == deco_above_from(ls, -1));
@break 2
    assert(!deco_above_from(ls, -1));
    assert(deco_above_from(ls, 0) == deco_above_from(ls, -1));
@*/
}


// ======== L2 (C18, text fallback) ==========================================================================================
proof fn lemma_def_scan_range(ls: Seq<Seq<char>>, i: int, limit: int)
    requires 0 <= limit <= i,
    ensures match def_scan(ls, i, limit) { Some(d) => limit <= d <= i && d < ls.len() && is_def_line(ls[d]), None => true },
    decreases i + 1,
{
    if 0 <= i < ls.len() && !is_def_line(ls[i]) && !(i == 0 || i <= limit) { lemma_def_scan_range(ls, i - 1, limit); }
}
/// C18 (only when): a function context from the text fallback always names a `def` / `async def` line at most 50 lines above
/// the cursor (and not below it), whose name is non-empty and starts with `test` (pytest's default python_functions prefix) or which has a fixture decorator above;
/// it is always a SIGNATURE context (the fallback never answers FunctionBody)
//@tags C18
pub proof fn lemma_C18_text_ctx_only_for_tests_and_fixtures(c: Seq<char>, tl: usize)
    ensures match op_text_ctx(c, tl) {
        Some(CtxV::Func(f)) => usefx_ctx(lines_ext(c), tl - 1) is None ==> ({
            let ls = lines_ext(c);
            &&& 1 <= tl <= ls.len() && tl - 51 <= f.line - 1 <= tl - 1 && is_def_line(ls[f.line - 1])
            &&& f.name == def_name(ls[f.line - 1]) && f.name.len() > 0
            &&& (starts(f.name, test_lit()) || f.is_fixture)
            &&& f.is_fixture == op_has_deco(ls, f.line - 1)
            &&& f.in_signature
            &&& (f.scope is Some) == f.is_fixture
        }),
        _ => true,
    },
{
    let ls = lines_ext(c);
    if !(tl == 0 || tl > ls.len()) {
        let cur = tl - 1;
        lemma_def_scan_range(ls, cur, sat_sub(cur, 50));
    }
}
/// C03 / C18 (which functions are tests): the text fallback applies pytest's default `python_functions` prefix `test`, with
/// no underscore required: `testlogin` and the bare name `test` count as tests, `test_login` still does
//@tags C03 C18
pub proof fn lemma_C18_test_prefix_without_underscore()
    ensures starts("testlogin"@, test_lit()), starts("test"@, test_lit()), starts("test_login"@, test_lit()),
        test_lit().len() == 4,
{
    reveal_strlit("test"); reveal_strlit("testlogin"); reveal_strlit("test_login");
    assert("testlogin"@.subrange(0, 4) =~= "test"@);
    assert("test"@.subrange(0, 4) =~= "test"@);
    assert("test_login"@.subrange(0, 4) =~= "test"@);
}
/// C18 FINDING (the "when" direction fails in documents that do not parse): once the signature's parentheses are closed on an
/// earlier line and the cursor line leaves no parenthesis open, the text fallback answers None - no fixture completion in
/// the BODY of a test while the file is syntactically incomplete (e.g. `def test_a(x):` / `    x.`, cursor on line 2)
//@tags C18
pub proof fn lemma_C18_FINDING_no_body_completion_in_unparsable_text(c: Seq<char>, tl: usize)
    requires 1 <= tl <= lines_ext(c).len(), usefx_ctx(lines_ext(c), tl - 1) is None,
        def_scan(lines_ext(c), tl - 1, sat_sub(tl - 1, 50)) is Some,
        ({ let ls = lines_ext(c); let d = def_scan(ls, tl - 1, sat_sub(tl - 1, 50))->0; let ps = ps_lines(ls, d, tl - 1 - d + 1, tl - 1); ps.closed && !ps.inside }),
    ensures op_text_ctx(c, tl) is None,
{ }
/// C18 FINDING: ... and when the body line does leave a parenthesis open (`    y = foo(`), the answer is a SIGNATURE context
//@tags C18
pub proof fn lemma_C18_FINDING_open_paren_in_body_reads_as_signature(st: PS, s: Seq<char>)
    requires st.closed, st.found, ps_chars(st, s, s.len() as int, true).depth > 0, ps_chars(st, s, s.len() as int, true).found,
    ensures ps_line(st, s, true).inside,
{ }
proof fn lemma_dp_chars_closed(st: DP, s: Seq<char>, n: int)
    requires st.close, 0 <= n <= s.len(),
    ensures dp_chars(st, s, n) == st,
    decreases n,
{
    if n > 0 { lemma_dp_chars_closed(st, s, n - 1); }
}
/// C18 FINDING ("minus names already declared" is computed from the text up to the FIRST ')' only): after the first closing
/// parenthesis - e.g. the one of a default value `x=f()` - nothing more is collected, so parameters declared after it
/// (`def test_a(x=f(), db,`) are not in declared_params and are offered again
//@tags C18
pub proof fn lemma_C18_FINDING_params_after_first_close_paren_ignored(st: DP, s: Seq<char>)
    requires st.close,
    ensures dp_line(st, s) == st,
{
    lemma_dp_chars_closed(st, s, s.len() as int);
}
/// C18: what declared_params IS: the leading identifiers of the comma separated pieces of that text (so a comma inside a
/// subscript or call - `x: Dict[str, int]` - produces the extra "parameter" `int`)
//@tags C18
pub proof fn lemma_C18_declared_are_piece_prefixes(pieces: Seq<Seq<char>>, n: int)
    requires 0 <= n <= pieces.len(),
    ensures forall|i: int| 0 <= i < names_of(pieces, n).len() ==> exists|k: int| 0 <= k < n && #[trigger] names_of(pieces, n)[i] == word_prefix(trim_v(pieces[k])) && names_of(pieces, n)[i].len() > 0,
    decreases n,
{
    if n > 0 {
        lemma_C18_declared_are_piece_prefixes(pieces, n - 1);
        let prev = names_of(pieces, n - 1);
        let cur = names_of(pieces, n);
        assert forall|i: int| 0 <= i < cur.len() implies exists|k: int| 0 <= k < n && #[trigger] cur[i] == word_prefix(trim_v(pieces[k])) && cur[i].len() > 0 by {
            if i < prev.len() {
                assert(cur[i] == prev[i]);
                let k = choose|k: int| 0 <= k < n - 1 && prev[i] == word_prefix(trim_v(pieces[k])) && prev[i].len() > 0;
                assert(0 <= k < n && cur[i] == word_prefix(trim_v(pieces[k])));
            } else {
                assert(cur[i] == word_prefix(trim_v(pieces[n - 1])));
            }
        }
    }
}

// ======== vacuity guards: must FAIL ==========================================================================================
/// the fallback distinguishes signature from body
proof fn canary_text_ctx_can_be_body(c: Seq<char>, tl: usize)
    requires op_text_ctx(c, tl) is Some, op_text_ctx(c, tl)->0 is Func, usefx_ctx(lines_ext(c), tl - 1) is None,
    ensures !(op_text_ctx(c, tl)->0->Func_0.in_signature),
{ }
/// a def line anywhere above the cursor is found
proof fn canary_def_found_any_distance(ls: Seq<Seq<char>>, cur: int, d: int)
    requires 0 <= d <= cur < ls.len(), is_def_line(ls[d]), forall|j: int| d < j <= cur ==> !is_def_line(#[trigger] ls[j]),
    ensures def_scan(ls, cur, sat_sub(cur, 50)) == Some(d),
{
    lemma_def_scan_range(ls, cur, sat_sub(cur, 50));
}
/// every decorator above makes a fixture
proof fn canary_any_decorator_is_fixture(ls: Seq<Seq<char>>, d: int)
    requires 1 <= d <= ls.len(), occurs_at(trim_v(ls[d - 1]), PatV::Ch('@'), 0),
    ensures op_has_deco(ls, d),
{ }
/// a name that merely contains `test`, or a proper prefix of it, is a test name
proof fn canary_tes_or_atest_is_test()
    ensures starts("tes"@, test_lit()) || starts("atest"@, test_lit()),
{
    reveal_strlit("test"); reveal_strlit("tes"); reveal_strlit("atest");
}
/// the assumed specifications (incl. split / chars) are not contradictory
fn canary_false_from_assumed_specs2(a: &str, n: usize)
    ensures false,
{
    let t = a.trim();
    let s = a.starts_with("def ");
    let e = a.ends_with('\n');
    let mut it = a.vp_split_c(',');
    let x = it.next();
    let c = 'c'.is_alphanumeric();
    proof { lemma_lits(); }
}

} // verus!
fn main() {}
