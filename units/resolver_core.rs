//@include prelude/header.rs
verus! {
pub mod pre {
use super::*;
//@include prelude/path.rs
//@include prelude/types.rs
//@include prelude/dashmap.rs
//@include prelude/hashset.rs
//@include prelude/atomic.rs
//@include prelude/dbview.rs
//@include prelude/hof.rs
//@include prelude/resolve_spec.rs
//@include prelude/resolve_l2.rs
//@include prelude/refs_l2_min.rs
//@include prelude/order_l2.rs
} // mod pre
use pre::*;

//@dbstruct definitions file_cache

//@include prelude/db_specs.rs

broadcast use {axiom_has_parent_nonempty, axiom_str_as_path, axiom_vp_le_usize};

impl FixtureDatabase {
/*@ extract src/fixtures/resolver.rs find_closest_definition_with_filter
@tags C01 C02 C04 C05 C08 C16 C17 C20
@rename max_by_key vp_max_by_key
@rename filter vp_filter
@ret r
@closure filter:1 |def: &&FixtureDefinition| -> (b: bool) requires call_requires(filter, (*def,)) ensures b ==> pbv(&def.file_path) == pv(file_path) && call_ensures(filter, (*def,), true), !b ==> pbv(&def.file_path) != pv(file_path) || call_ensures(filter, (*def,), false)
@closure max_by_key:1 |def: &&FixtureDefinition| -> (k: usize) ensures k == def.line
@closure find:1 |def: &&FixtureDefinition| -> (b: bool) requires call_requires(filter, (*def,)) ensures call_ensures(filter, (*def,), b)
@sig
    requires forall|d: &FixtureDefinition| #[trigger] call_requires(filter, (d,)),
    ensures forall|fs: spec_fn(DefV) -> bool| consistent(filter, fs) ==>
        #[trigger] resolve_post(r, bucket(self.defs(), fixture_name@), pv(file_path), self.prov(fixture_name@), fs),
@start
    proof { lemma_resolve_empty(); }
    let ghost prov = self.prov(fixture_name@);
    let ghost file = pv(file_path);
@after definitions 1
    let ghost dsx = definitions.r@;
    let ghost ds = dvs(dsx);
    proof { assert(ds == bucket(self.defs(), fixture_name@)); }
@return 1
    assert forall|fs: spec_fn(DefV) -> bool| #[trigger] consistent(filter, fs) implies
        Some(dv(last_def)) == op_resolve(ds, file, prov, fs) by {
        let s = dsx.as_ref();
        let i = vp_witness(s, last_def);
        assert forall|j: int| 0 <= j < ds.len() && p_same(file, fs)(#[trigger] ds[j]) implies ds[j].line <= ds[i].line by { let y = s[j]; }
        assert forall|j: int| i < j < ds.len() && p_same(file, fs)(#[trigger] ds[j]) implies ds[j].line < ds[i].line by { let y = s[j]; }
        assert(ds[i] == dv(last_def));
        lemma_best_idx(ds, p_same(file, fs), i);
    }
@before current_dir 1
    proof {
        assert forall|fs: spec_fn(DefV) -> bool| #[trigger] consistent(filter, fs) implies
            best_same(ds, p_same(file, fs)) is None by {
            let s = dsx.as_ref();
            assert forall|j: int| 0 <= j < ds.len() implies !p_same(file, fs)(#[trigger] ds[j]) by { let y = s[j]; }
            lemma_best_none(ds, p_same(file, fs));
        }
    }
@loop 1
    invariant_except_break
        forall|fs: spec_fn(DefV) -> bool| #[trigger] consistent(filter, fs) ==>
            walk(ds, file.drop_last(), prov, fs) == walk(ds, pv(current_dir), prov, fs),
    invariant
        forall|d: &FixtureDefinition| #[trigger] call_requires(filter, (d,)),
        dsx == definitions.r@, ds == dvs(dsx), prov == self.prov(fixture_name@), file == pv(file_path),
        ds == bucket(self.defs(), fixture_name@),
        pv_has_parent(file), file.len() > 0,
        forall|fs: spec_fn(DefV) -> bool| #[trigger] consistent(filter, fs) ==> best_same(ds, p_same(file, fs)) is None,
    ensures
        forall|fs: spec_fn(DefV) -> bool| #[trigger] consistent(filter, fs) ==> walk(ds, file.drop_last(), prov, fs) is None,
    decreases pv(current_dir).len(),
@after conftest_path 1
    let ghost c = pbv(&conftest_path);
    proof { assert(c == conftest_of(pv(current_dir))); }
@loopvar 2 it
@loop 2
    invariant
        forall|d: &FixtureDefinition| #[trigger] call_requires(filter, (d,)),
        dsx == definitions.r@, ds == dvs(dsx), c == pbv(&conftest_path), file == pv(file_path),
        prov == self.prov(fixture_name@), ds == bucket(self.defs(), fixture_name@),
        it.seq() == dsx.as_ref(),
        forall|fs: spec_fn(DefV) -> bool| #[trigger] consistent(filter, fs) ==> best_same(ds, p_same(file, fs)) is None,
        forall|fs: spec_fn(DefV) -> bool| #[trigger] consistent(filter, fs) ==>
            walk(ds, file.drop_last(), prov, fs) == walk(ds, pv(current_dir), prov, fs),
        c == conftest_of(pv(current_dir)), pv_has_parent(file), file.len() > 0,
        forall|j: int| 0 <= j < it.index@ ==> pbv(&(#[trigger] dsx[j]).file_path) != c || call_ensures(filter, (&dsx[j],), false),
@return 2
    assert forall|fs: spec_fn(DefV) -> bool| #[trigger] consistent(filter, fs) implies
        Some(dv(def)) == op_resolve(ds, file, prov, fs) by {
        let i = it.index@ as int;
        assert(dsx[i] == *def);
        assert forall|j: int| 0 <= j < i implies !p_same(c, fs)(#[trigger] ds[j]) by { let y = dsx[j]; }
        lemma_first_idx(ds, p_same(c, fs), i);
    }
@before conftest_in_cache 1
    proof {
        assert forall|fs: spec_fn(DefV) -> bool| #[trigger] consistent(filter, fs) implies
            first_match(ds, p_same(c, fs)) is None by {
            assert forall|j: int| 0 <= j < ds.len() implies !p_same(c, fs)(#[trigger] ds[j]) by { let y = dsx[j]; }
            lemma_first_none(ds, p_same(c, fs));
        }
    }
@return 3
    assert(prov(c));
    assert forall|fs: spec_fn(DefV) -> bool| #[trigger] consistent(filter, fs) implies
        Some(dv(def)) == op_resolve(ds, file, prov, fs) by {
        let s = dsx.as_ref();
        let i = choose|i: int| 0 <= i < s.len() && s[i] == def && (forall|j: int| 0 <= j < i ==> call_ensures(filter, (#[trigger] s[j],), false));
        assert forall|j: int| 0 <= j < i implies !fs(#[trigger] ds[j]) by { let y = s[j]; }
        lemma_first_idx(ds, fs, i);
    }
@loopvar 3 it
@loop 3
    invariant
        forall|d: &FixtureDefinition| #[trigger] call_requires(filter, (d,)),
        dsx == definitions.r@, ds == dvs(dsx), file == pv(file_path),
        prov == self.prov(fixture_name@), ds == bucket(self.defs(), fixture_name@),
        it.seq() == dsx.as_ref(), pv_has_parent(file), file.len() > 0,
        forall|fs: spec_fn(DefV) -> bool| #[trigger] consistent(filter, fs) ==> best_same(ds, p_same(file, fs)) is None,
        forall|fs: spec_fn(DefV) -> bool| #[trigger] consistent(filter, fs) ==> walk(ds, file.drop_last(), prov, fs) is None,
        forall|j: int| 0 <= j < it.index@ ==> !((#[trigger] dsx[j]).is_plugin && !dsx[j].is_third_party) || call_ensures(filter, (&dsx[j],), false),
@return 4
    assert forall|fs: spec_fn(DefV) -> bool| #[trigger] consistent(filter, fs) implies
        Some(dv(def)) == op_resolve(ds, file, prov, fs) by {
        let i = it.index@ as int;
        assert(dsx[i] == *def);
        assert forall|j: int| 0 <= j < i implies !p_plugin(fs)(#[trigger] ds[j]) by { let y = dsx[j]; }
        lemma_first_idx(ds, p_plugin(fs), i);
    }
@loopvar 4 it
@loop 4
    invariant
        forall|d: &FixtureDefinition| #[trigger] call_requires(filter, (d,)),
        dsx == definitions.r@, ds == dvs(dsx), file == pv(file_path),
        prov == self.prov(fixture_name@), ds == bucket(self.defs(), fixture_name@),
        it.seq() == dsx.as_ref(), pv_has_parent(file), file.len() > 0,
        forall|fs: spec_fn(DefV) -> bool| #[trigger] consistent(filter, fs) ==> best_same(ds, p_same(file, fs)) is None,
        forall|fs: spec_fn(DefV) -> bool| #[trigger] consistent(filter, fs) ==> walk(ds, file.drop_last(), prov, fs) is None,
        forall|fs: spec_fn(DefV) -> bool| #[trigger] consistent(filter, fs) ==> first_match(ds, p_plugin(fs)) is None,
        forall|j: int| 0 <= j < it.index@ ==> !(#[trigger] dsx[j]).is_third_party || call_ensures(filter, (&dsx[j],), false),
@before for 3
    proof {
        assert forall|fs: spec_fn(DefV) -> bool| #[trigger] consistent(filter, fs) implies
            first_match(ds, p_plugin(fs)) is None by {
            assert forall|j: int| 0 <= j < ds.len() implies !p_plugin(fs)(#[trigger] ds[j]) by { let y = dsx[j]; }
            lemma_first_none(ds, p_plugin(fs));
        }
    }
@return 5
    assert forall|fs: spec_fn(DefV) -> bool| #[trigger] consistent(filter, fs) implies
        Some(dv(def)) == op_resolve(ds, file, prov, fs) by {
        let i = it.index@ as int;
        assert(dsx[i] == *def);
        assert forall|j: int| 0 <= j < i implies !p_third(fs)(#[trigger] ds[j]) by { let y = dsx[j]; }
        lemma_first_idx(ds, p_third(fs), i);
    }
@return tail
    assert forall|fs: spec_fn(DefV) -> bool| #[trigger] consistent(filter, fs) implies
        None::<DefV> == op_resolve(ds, file, prov, fs) by {
        assert forall|j: int| 0 <= j < ds.len() implies !p_third(fs)(#[trigger] ds[j]) by { let y = dsx[j]; }
        lemma_first_none(ds, p_third(fs));
    }
@before parent 2
    proof {
        let cur = pv(current_dir);
        assert forall|fs: spec_fn(DefV) -> bool| #[trigger] consistent(filter, fs) implies
            walk(ds, cur, prov, fs) == (if pv_has_parent(cur) && cur.len() > 0 { walk(ds, cur.drop_last(), prov, fs) } else { None::<DefV> }) by {
            if prov(c) {
                let s = dsx.as_ref();
                assert forall|j: int| 0 <= j < ds.len() implies !fs(#[trigger] ds[j]) by { let y = s[j]; }
                lemma_first_none(ds, fs);
            }
        }
    }
@*/

/*@ extract src/fixtures/resolver.rs find_closest_definition
@tags C01 C04 C05 C16 C17 C20
@ret r
@closure find_closest_definition_with_filter:1 |_d: &FixtureDefinition| -> (b: bool) ensures b == true
@sig
    ensures resolve_post(r, bucket(self.defs(), fixture_name@), pv(file_path), self.prov(fixture_name@), fs_true()),
@*/

/*@ extract src/fixtures/resolver.rs find_closest_definition_excluding
@tags C02 C04 C20
@ret r
@closure find_closest_definition_with_filter:1 |def: &FixtureDefinition| -> (b: bool) ensures b == fs_excl(opt_ref_dv(exclude))(dv(def))
@derefcmp def excluded
@sig
    ensures resolve_post(r, bucket(self.defs(), fixture_name@), pv(file_path), self.prov(fixture_name@), fs_excl(opt_ref_dv(exclude))),
@*/
}

} // verus!
fn main() {}
