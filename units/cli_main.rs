//@include prelude/header.rs
//@include prelude/clitree_fmt_macro.rs
// Unit cli_main: the CLI front end of src/main.rs, handle_fixtures_unused and handle_fixtures_list, under contract
// (property C20 "CLI reports agree with the server").  A unit of its own because it composes with unit cli_unused,
// whose database model (//@dbstruct, Arc stripped) differs from the one unit handlers_main needs (//@dbstruct_arc +
// AST vocabulary of unit analyze).
//   The functions return nothing: their obligations are PRECONDITIONS of the stand-ins for println! / process::exit
//   (prelude/cli_main_shims.rs): every entry of get_unused_fixtures() is printed, with its path shown relative to the
//   scanned root when it lies below it and unchanged otherwise (strip_prefix(root).unwrap_or(path)), in both output
//   formats; the exit status is 1 iff the list is non-empty.
// v3 (composed with unit cli_tree): handle_fixtures_list calls print_fixtures_tree through `//@stub cli_tree
//   print_fixtures_tree`, i.e. against the contract PROVED for the real cli.rs function (list_post over the modelled stdout
//   `out()`, prelude/clitree_out.rs).  Its preconditions (unique_at_line, total usages <= usize::MAX) are OBLIGATIONS at the
//   call site, discharged from what the scanner stand-in is assumed to establish (scanned_ok).  What the command does is
//   stated as list_cmd_post (below) and proved at the end of the real body; lemma_C20_list_command_* compose it with
//   cli_tree's L2 (the output is a function of the index).
verus! {
global size_of usize == 8;  // A6: 64-bit target
pub mod pre {
use super::*;
//@include prelude/path.rs
//@include prelude/path_ext.rs
//@include prelude/types.rs
//@include prelude/dashmap.rs
//@include prelude/hashset.rs
//@include prelude/hashmap.rs
//@include prelude/hashmap_ext.rs
//@include prelude/option_ext.rs
//@include prelude/atomic.rs
//@include prelude/dbview.rs
//@include prelude/hof.rs
//@include prelude/iter_ext.rs
//@include prelude/resolve_spec.rs
//@include prelude/text.rs
//@include prelude/refs_spec.rs
//@include prelude/resolve_l2.rs
//@include prelude/cli_spec.rs
//@include prelude/cli_l2.rs
//@include prelude/cli_main_shims.rs
//@include prelude/cli_main_fmt.rs
//@include prelude/cli_main_l2.rs
// contract vocabulary of unit cli_tree (read-only; prelude/path_strip.rs is NOT included: its two assumed specifications,
// Path::strip_prefix and Result::unwrap_or, are already stated by prelude/cli_main_shims.rs)
//@include prelude/clitree_btree.rs
//@include prelude/clitree_shims.rs
//@include prelude/clitree_spec.rs
//@include prelude/clitree_list_spec.rs
//@include prelude/clitree_list_l1.rs
//@include prelude/clitree_l2.rs
//@include prelude/clitree_l2_order.rs
} // mod pre
use pre::*;

// src/fixtures/mod.rs, taken from the source at generation time (as in unit cli_tree)
//@item src/fixtures/mod.rs struct EditableInstall

//@dbstruct definitions file_cache usages usage_by_fixture editable_install_roots workspace_root

//@include prelude/db_specs.rs
//@include prelude/clitree_out.rs

broadcast use {axiom_pathbuf_ref_as_path2, vstd::std_specs::iter::map_postcondition};

/// uninterpreted file-system functions of the path handling at the top of both commands
pub uninterp spec fn abs_pv(p: PV) -> PV;          // `path` if absolute, else current_dir().join(path)
pub uninterp spec fn fs_canon(p: PV) -> PV;        // `canonicalize().unwrap_or(self)`
/// ASSUMED about the scanner (src/fixtures/scanner.rs, not under contract here): the database it leaves satisfies the
/// preconditions of get_unused_fixtures: W4 (at most one definition per (file, line)) and the usage total fits a usize
pub open spec fn scanned_ok(db: FixtureDatabase) -> bool { unique_at_line(db.defs()) && total_usages(db.uses()) <= usize::MAX }
pub uninterp spec fn scanned_from(db: FixtureDatabase, root: PV) -> bool;

impl FixtureDatabase {
    pub open spec fn byfix(&self) -> Map<Seq<char>, Seq<(PV, UseV)>> { byfix_view(self.usage_by_fixture.m()) }
    pub open spec fn uses(&self) -> Map<PV, Seq<UseV>> { usages_view(self.usages.m()) }
    pub open spec fn provf(&self) -> spec_fn(Seq<char>) -> spec_fn(PV) -> bool { |n: Seq<char>| self.prov(n) }

    #[verifier::external_body]
    pub fn new() -> (r: Self) { unimplemented!() }
    // ASSUMED (scanner.rs): see scanned_ok
    #[verifier::external_body]
    pub fn scan_workspace(&mut self, root_path: &Path)
        ensures scanned_ok(*final(self)), scanned_from(*final(self), pv(root_path))
    { unimplemented!() }
//@stub cli_unused get_unused_fixtures
//@stub cli_tree print_fixtures_tree
}

/// what `fixtures list <path> [--skip-unused] [--only-unused]` does, as a relation between the database the scan left
/// (db1) and the database value when the command returns (db2; `out()` is the modelled stdout, prelude/clitree_out.rs):
/// db1 was scanned from the canonicalised absolute path; the index is untouched by the printing; and for every input li read
/// off db1 FOR THAT ROOT AND THE TWO FLAGS AS GIVEN, what was appended to stdout is print_fixtures_tree's output (list_post,
/// the contract proved in unit cli_tree)
pub open spec fn list_cmd_post(path: PV, skip: bool, only: bool, db1: FixtureDatabase, db2: FixtureDatabase) -> bool {
    let root = fs_canon(abs_pv(path));
    &&& scanned_from(db1, root)
    &&& scanned_ok(db1)
    &&& same_index(db2, db1)
    &&& forall|li: ListIn| list_inputs(li, db1.defs(), db1.uses(), db1.provf(), instvs(db1.editable_install_roots@),
            opt_pbv(db1.workspace_root), root, skip, only) ==> #[trigger] list_post(db1.out(), db2.out(), li)
}

/*@ extract src/main.rs handle_fixtures_unused
@tags C20 C11 C12
@replace 1 `use colored::Colorize;` => ``
@wrapexpr 1 `if path.is_absolute() { path } else { std::env::current_dir() .unwrap_or_else(|_| PathBuf::from(".")) .join(&path) }` => `vp_absolute_u(path)` with fn vp_absolute_u(path: PathBuf) -> (r: PathBuf) ensures pbv(&r) == abs_pv(pbv(&path))
@wrapexpr 1 `absolute_path.canonicalize().unwrap_or(absolute_path)` => `vp_canonical_u(absolute_path)` with fn vp_canonical_u(absolute_path: PathBuf) -> (r: PathBuf) ensures pbv(&r) == fs_canon(pbv(&absolute_path))
@replace 1 `eprintln!("Error: Path does not exist: {}", absolute_path.display())` => `vp_eprint_missing_f(&absolute_path)`
@replace 1 `eprintln!( "Error: Path is not a directory: {}", absolute_path.display() )` => `vp_eprint_not_dir_f(&absolute_path)`
@replace 1 `std::process::exit(` => `return vp_exit(Ghost(1int), Ghost(true), `
@replace 2 `std::process::exit(` => `return vp_exit(Ghost(1int), Ghost(true), `
@replace 3 `std::process::exit(` => `return vp_exit(Ghost(expected_exit(unused@)), Ghost(true), `
@replace 4 `std::process::exit(` => `return vp_exit(Ghost(expected_exit(unused@)), Ghost(printed == expected_entries(unused@, root)), `
@replace 1 `let fixture_db = FixtureDatabase::new();` => `let mut fixture_db = FixtureDatabase::new();`
@replace 1 `println!("[]")` => `vp_print_json_empty_f(Ghost(wants_json(format@)))`
@replace 1 `println!("{}", "No unused fixtures found.".green())` => `vp_print_none_found_f(Ghost(wants_json(format@)))`
@rename to_string_lossy vp_to_string_lossy
@closure map:1 |e: &(PathBuf, String)| -> (v: serde_json::Value) ensures serde_json::jv(v) == entry_of(*e, pbv(&canonical_path))
@closurelet map:1 let file_path = &e.0; let fixture_name = &e.1;
@replace 1 `serde_json::json!({ "file": relative_path, "fixture": fixture_name })` => `vp_json_entry(relative_path, fixture_name)`
@replace 1 `println!("{}", serde_json::to_string_pretty(&json_output).unwrap())` => `vp_print_json_f(&json_output, Ghost(expected_entries(unused@, root)), Ghost(wants_json(format@)))`
@replace 1 `println!( "{} {} unused fixture(s):\n", "Found".red().bold(), unused.len() )` => `vp_print_header_f(unused.len(), Ghost(unused@.len()), Ghost(wants_json(format@)))`
@replace 1 `println!( "  {} {} in {}", "•".red(), fixture_name.yellow(), relative_path.dimmed() )` => `vp_print_entry(fixture_name, &relative_path, Ghost(entry_of(unused@[i - 1], root)))`
@replace 1 `println!( "\n{}", "Tip: Remove unused fixtures or add tests that use them.".dimmed() )` => `vp_print_tip()`
@after canonical_path 1
    let ghost root = pbv(&canonical_path);
    let ghost mut printed: Seq<EntryV> = Seq::empty();
    let ghost mut i: int = 0;
@after json_output 1
    proof { assert(serde_json::jvs(json_output@) =~= expected_entries(unused@, root)); }
@after to_string_pretty 1
    proof { printed = expected_entries(unused@, root); }
@forloop 1 it
    proof { assert(expected_entries(unused@, root).take(i) =~= expected_entries(unused@, root)); }
@loop 1
    invariant 0 <= i <= unused@.len(), it.remaining() == unused@.as_ref().skip(i), root == pbv(&canonical_path),
        printed =~= expected_entries(unused@, root).take(i),
    ensures printed =~= expected_entries(unused@, root),
    decreases unused@.len() - i
@loopstart 1
    proof {
        assert(*file_path == unused@[i].0 && *fixture_name == unused@[i].1);
        i = i + 1;
    }
@after dimmed 1
    proof {
        printed = printed.push(entry_of(unused@[i - 1], root));
        assert(expected_entries(unused@, root).take(i) =~= expected_entries(unused@, root).take(i - 1).push(entry_of(unused@[i - 1], root)));
    }
@*/

/*@ extract src/main.rs handle_fixtures_list
@tags C20 C11
@wrapexpr 1 `if path.is_absolute() { path } else { std::env::current_dir() .unwrap_or_else(|_| PathBuf::from(".")) .join(&path) }` => `vp_absolute_l(path)` with fn vp_absolute_l(path: PathBuf) -> (r: PathBuf) ensures pbv(&r) == abs_pv(pbv(&path))
@wrapexpr 1 `absolute_path.canonicalize().unwrap_or(absolute_path)` => `vp_canonical_l(absolute_path)` with fn vp_canonical_l(absolute_path: PathBuf) -> (r: PathBuf) ensures pbv(&r) == fs_canon(pbv(&absolute_path))
@replace 1 `eprintln!("Error: Path does not exist: {}", absolute_path.display())` => `vp_eprint_missing_f(&absolute_path)`
@replace 1 `eprintln!( "Error: Path is not a directory: {}", absolute_path.display() )` => `vp_eprint_not_dir_f(&absolute_path)`
@replace 1 `std::process::exit(` => `return vp_exit(Ghost(1int), Ghost(true), `
@replace 2 `std::process::exit(` => `return vp_exit(Ghost(1int), Ghost(true), `
@replace 1 `let fixture_db = FixtureDatabase::new();` => `let mut fixture_db = FixtureDatabase::new();`
@start
    let ghost g_path = pbv(&path);
    let ghost mut db1: Option<FixtureDatabase> = None;
@after scan_workspace 1
    proof { db1 = Some(fixture_db); }
@end
    proof { assert(db1 is Some && list_cmd_post(g_path, skip_unused, only_unused, db1->0, fixture_db)); }
@*/

// ---- L2 (C20) for `fixtures list`: list_cmd_post composed with unit cli_tree's L2 -------------------------------------
//@tags C20
/// C20 — what `fixtures list` prints IS the output of print_fixtures_tree (the contract proved in unit cli_tree) on the
/// database scanned from the canonicalised absolute path, for that root and for (skip_unused, only_unused) exactly as given
/// on the command line: the input li the output is computed from carries that root and those flags; the events appended to
/// stdout are op_list_out(li, ..) for some valid enumeration orders of the two hash tables (list_post); and - composed with
/// cli_tree's lemma_C20_list_output_is_a_function_of_the_index - they are the ONLY event sequence print_fixtures_tree can
/// append on that database: the output is determined by (scanned index, root, flags)
pub proof fn lemma_C20_list_command_prints_the_tree(path: PV, skip: bool, only: bool, db1: FixtureDatabase, db2: FixtureDatabase, li: ListIn)
    requires list_cmd_post(path, skip, only, db1, db2),
        list_inputs(li, db1.defs(), db1.uses(), db1.provf(), instvs(db1.editable_install_roots@), opt_pbv(db1.workspace_root),
            fs_canon(abs_pv(path)), skip, only),
    ensures
        scanned_from(db1, fs_canon(abs_pv(path))),
        li.root == fs_canon(abs_pv(path)) && li.skip == skip && li.only == only,
        counts_post(li.cm0, db1.defs(), db1.uses(), db1.provf()),
        list_post(db1.out(), db2.out(), li),
        exists|kss: Seq<Seq<CKey>>, akss: Seq<Seq<CKey>>| db2.out() == db1.out() + #[trigger] op_list_out(li, op_cm(li, kss), op_au(li, akss)),
        forall|o2: Seq<Ev>| #[trigger] list_post(db1.out(), o2, li) ==> o2 == db2.out(),
        db2.out().len() >= db1.out().len() + 2,
        db2.out()[db1.out().len() as int] == (Ev::Header { root: fs_canon(abs_pv(path)) }),
        same_index(db2, db1),
{
    assert(list_post(db1.out(), db2.out(), li));
    assert forall|o2: Seq<Ev>| #[trigger] list_post(db1.out(), o2, li) implies o2 == db2.out() by {
        lemma_C20_list_output_is_a_function_of_the_index(db1.out(), db2.out(), o2, li);
    }
    let (kss, akss) = choose|kss: Seq<Seq<CKey>>, akss: Seq<Seq<CKey>>|
        valid_orders(kss, li.cm0.dom(), op_rv(li).len() as int) && valid_orders(akss, li.au0, op_rv(li).len() as int)
        && db2.out() == db1.out() + #[trigger] op_list_out(li, op_cm(li, kss), op_au(li, akss));
    let app = op_list_out(li, op_cm(li, kss), op_au(li, akss));
    assert(app.len() >= 2 && app[0] == (Ev::Header { root: li.root }));
}
//@tags C20
/// C20 "repeated runs print identical output", at the level of the command: two runs of `fixtures list` with the same
/// command line whose scans left the same index views (and that start from the same stdout) print the same events
pub proof fn lemma_C20_list_command_deterministic(path: PV, skip: bool, only: bool, a1: FixtureDatabase, a2: FixtureDatabase,
        b1: FixtureDatabase, b2: FixtureDatabase, li: ListIn)
    requires list_cmd_post(path, skip, only, a1, a2), list_cmd_post(path, skip, only, b1, b2),
        a1.out() == b1.out(),
        list_inputs(li, a1.defs(), a1.uses(), a1.provf(), instvs(a1.editable_install_roots@), opt_pbv(a1.workspace_root), fs_canon(abs_pv(path)), skip, only),
        list_inputs(li, b1.defs(), b1.uses(), b1.provf(), instvs(b1.editable_install_roots@), opt_pbv(b1.workspace_root), fs_canon(abs_pv(path)), skip, only),
    ensures a2.out() == b2.out(),
{
    assert(list_post(a1.out(), a2.out(), li));
    assert(list_post(b1.out(), b2.out(), li));
    lemma_C20_list_output_is_a_function_of_the_index(a1.out(), a2.out(), b2.out(), li);
}
// ---- vacuity guards for the composition: each must FAIL
/// "the flags may be handed over swapped"
proof fn canary_list_cmd_flags_swapped(path: PV, skip: bool, only: bool, db1: FixtureDatabase, db2: FixtureDatabase)
    requires list_cmd_post(path, skip, only, db1, db2)
    ensures list_cmd_post(path, only, skip, db1, db2)
{}
/// "the tree is printed for the path as typed, not for the canonical root"
proof fn canary_list_cmd_root_is_path_as_given(path: PV, skip: bool, only: bool, db1: FixtureDatabase, db2: FixtureDatabase, li: ListIn)
    requires list_cmd_post(path, skip, only, db1, db2),
        list_inputs(li, db1.defs(), db1.uses(), db1.provf(), instvs(db1.editable_install_roots@), opt_pbv(db1.workspace_root), path, skip, only),
    ensures list_post(db1.out(), db2.out(), li)
{}
/// "the command prints nothing"
proof fn canary_list_cmd_prints_nothing(path: PV, skip: bool, only: bool, db1: FixtureDatabase, db2: FixtureDatabase, li: ListIn)
    requires list_cmd_post(path, skip, only, db1, db2),
        list_inputs(li, db1.defs(), db1.uses(), db1.provf(), instvs(db1.editable_install_roots@), opt_pbv(db1.workspace_root), fs_canon(abs_pv(path)), skip, only),
    ensures db2.out() == db1.out()
{}
/// "list_cmd_post is unsatisfiable / the stub contract together with the assumed scanner contract is contradictory"
proof fn canary_list_cmd_post_contradictory(path: PV, skip: bool, only: bool, db1: FixtureDatabase, db2: FixtureDatabase)
    requires list_cmd_post(path, skip, only, db1, db2)
    ensures false
{}

// ---- exec vacuity guards (must FAIL): the real body of handle_fixtures_list under deliberately wrong end obligations
/*@ extract src/main.rs handle_fixtures_list
@as canary_exec_list_prints_nothing
@wrapexpr 1 `if path.is_absolute() { path } else { std::env::current_dir() .unwrap_or_else(|_| PathBuf::from(".")) .join(&path) }` => `vp_absolute_lc1(path)` with fn vp_absolute_lc1(path: PathBuf) -> (r: PathBuf) ensures pbv(&r) == abs_pv(pbv(&path))
@wrapexpr 1 `absolute_path.canonicalize().unwrap_or(absolute_path)` => `vp_canonical_lc1(absolute_path)` with fn vp_canonical_lc1(absolute_path: PathBuf) -> (r: PathBuf) ensures pbv(&r) == fs_canon(pbv(&absolute_path))
@replace 1 `eprintln!("Error: Path does not exist: {}", absolute_path.display())` => `vp_eprint_missing(&absolute_path)`
@replace 1 `eprintln!( "Error: Path is not a directory: {}", absolute_path.display() )` => `vp_eprint_not_dir(&absolute_path)`
@replace 1 `std::process::exit(` => `return vp_exit(Ghost(1int), Ghost(true), `
@replace 2 `std::process::exit(` => `return vp_exit(Ghost(1int), Ghost(true), `
@replace 1 `let fixture_db = FixtureDatabase::new();` => `let mut fixture_db = FixtureDatabase::new();`
@start
    let ghost mut db1: Option<FixtureDatabase> = None;
@after scan_workspace 1
    proof { db1 = Some(fixture_db); }
@end
    proof { assert(db1 is Some && fixture_db.out() == db1->0.out()); }
@*/
/*@ extract src/main.rs handle_fixtures_list
@as canary_exec_list_end_unreachable
@wrapexpr 1 `if path.is_absolute() { path } else { std::env::current_dir() .unwrap_or_else(|_| PathBuf::from(".")) .join(&path) }` => `vp_absolute_lc2(path)` with fn vp_absolute_lc2(path: PathBuf) -> (r: PathBuf) ensures pbv(&r) == abs_pv(pbv(&path))
@wrapexpr 1 `absolute_path.canonicalize().unwrap_or(absolute_path)` => `vp_canonical_lc2(absolute_path)` with fn vp_canonical_lc2(absolute_path: PathBuf) -> (r: PathBuf) ensures pbv(&r) == fs_canon(pbv(&absolute_path))
@replace 1 `eprintln!("Error: Path does not exist: {}", absolute_path.display())` => `vp_eprint_missing(&absolute_path)`
@replace 1 `eprintln!( "Error: Path is not a directory: {}", absolute_path.display() )` => `vp_eprint_not_dir(&absolute_path)`
@replace 1 `std::process::exit(` => `return vp_exit(Ghost(1int), Ghost(true), `
@replace 2 `std::process::exit(` => `return vp_exit(Ghost(1int), Ghost(true), `
@replace 1 `let fixture_db = FixtureDatabase::new();` => `let mut fixture_db = FixtureDatabase::new();`
@end
    proof { assert(false); }
@*/

// ---- exec vacuity guard (must FAIL): the real body, the final exit constrained to status 0
/*@ extract src/main.rs handle_fixtures_unused
@as canary_exec_unused_exits_zero
@replace 1 `use colored::Colorize;` => ``
@wrapexpr 1 `if path.is_absolute() { path } else { std::env::current_dir() .unwrap_or_else(|_| PathBuf::from(".")) .join(&path) }` => `vp_absolute_c(path)` with fn vp_absolute_c(path: PathBuf) -> (r: PathBuf) ensures pbv(&r) == abs_pv(pbv(&path))
@wrapexpr 1 `absolute_path.canonicalize().unwrap_or(absolute_path)` => `vp_canonical_c(absolute_path)` with fn vp_canonical_c(absolute_path: PathBuf) -> (r: PathBuf) ensures pbv(&r) == fs_canon(pbv(&absolute_path))
@replace 1 `eprintln!("Error: Path does not exist: {}", absolute_path.display())` => `vp_eprint_missing(&absolute_path)`
@replace 1 `eprintln!( "Error: Path is not a directory: {}", absolute_path.display() )` => `vp_eprint_not_dir(&absolute_path)`
@replace 1 `std::process::exit(` => `return vp_exit(Ghost(1int), Ghost(true), `
@replace 2 `std::process::exit(` => `return vp_exit(Ghost(1int), Ghost(true), `
@replace 3 `std::process::exit(` => `return vp_exit(Ghost(0int), Ghost(true), `
@replace 4 `std::process::exit(` => `return vp_exit(Ghost(0int), Ghost(true), `
@replace 1 `let fixture_db = FixtureDatabase::new();` => `let mut fixture_db = FixtureDatabase::new();`
@replace 1 `println!("[]")` => `vp_print_json_empty()`
@replace 1 `println!("{}", "No unused fixtures found.".green())` => `vp_print_none_found()`
@rename to_string_lossy vp_to_string_lossy
@closure map:1 |e: &(PathBuf, String)| -> (v: serde_json::Value)
@closurelet map:1 let file_path = &e.0; let fixture_name = &e.1;
@replace 1 `serde_json::json!({ "file": relative_path, "fixture": fixture_name })` => `vp_json_entry(relative_path, fixture_name)`
@replace 1 `println!("{}", serde_json::to_string_pretty(&json_output).unwrap())` => `vp_print_tip()`
@replace 1 `println!( "{} {} unused fixture(s):\n", "Found".red().bold(), unused.len() )` => `vp_print_tip()`
@replace 1 `println!( "  {} {} in {}", "•".red(), fixture_name.yellow(), relative_path.dimmed() )` => `vp_print_tip()`
@replace 1 `println!( "\n{}", "Tip: Remove unused fixtures or add tests that use them.".dimmed() )` => `vp_print_tip()`
@before for 1
    let ghost mut i: int = 0;
@forloop 1 it
@loop 1
    invariant 0 <= i <= unused@.len(), it.remaining() == unused@.as_ref().skip(i),
    decreases unused@.len() - i
@loopstart 1
    proof { i = i + 1; }
@*/

} // verus!
fn main() {}
