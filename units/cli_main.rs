//@include prelude/header.rs
// Unit cli_main: the CLI front end of src/main.rs, handle_fixtures_unused and handle_fixtures_list, under contract
// (property C20 "CLI reports agree with the server").  A unit of its own because it composes with unit cli_unused,
// whose database model (//@dbstruct, Arc stripped) differs from the one unit handlers_main needs (//@dbstruct_arc +
// AST vocabulary of unit analyze).
//   The functions return nothing: their obligations are PRECONDITIONS of the stand-ins for println! / process::exit
//   (prelude/cli_main_shims.rs): every entry of get_unused_fixtures() is printed, with its path shown relative to the
//   scanned root when it lies below it and unchanged otherwise (strip_prefix(root).unwrap_or(path)), in both output
//   formats; the exit status is 1 iff the list is non-empty.
verus! {
global size_of usize == 8;  // A6: 64-bit target
pub mod pre {
use super::*;
//@include prelude/path.rs
//@include prelude/types.rs
//@include prelude/dashmap.rs
//@include prelude/hashset.rs
//@include prelude/hashmap.rs
//@include prelude/option_ext.rs
//@include prelude/atomic.rs
//@include prelude/dbview.rs
//@include prelude/hof.rs
//@include prelude/resolve_spec.rs
//@include prelude/text.rs
//@include prelude/refs_spec.rs
//@include prelude/resolve_l2.rs
//@include prelude/cli_spec.rs
//@include prelude/path_ext.rs
//@include prelude/cli_main_shims.rs
//@include prelude/cli_main_l2.rs
} // mod pre
use pre::*;

//@dbstruct definitions file_cache usages usage_by_fixture

//@include prelude/db_specs.rs

broadcast use {axiom_pathbuf_ref_as_path2, vstd::std_specs::iter::map_postcondition};

/// uninterpreted file-system functions of the path handling at the top of both commands
pub uninterp spec fn abs_pv(p: PV) -> PV;          // `path` if absolute, else current_dir().join(path)
pub uninterp spec fn fs_canon(p: PV) -> PV;        // `canonicalize().unwrap_or(self)`
/// ASSUMED about the scanner (src/fixtures/scanner.rs, not under contract here): the database it leaves satisfies the
/// preconditions of get_unused_fixtures: W4 (at most one definition per (file, line)) and the usage total fits a usize
pub open spec fn scanned_ok(db: FixtureDatabase) -> bool { unique_at_line(db.defs()) && total_usages(db.uses()) <= usize::MAX }
pub uninterp spec fn scanned_from(db: FixtureDatabase, root: PV) -> bool;

impl FixtureDatabase {
    pub open spec fn byfix(&self) -> Map<Seq<char>, Seq<(PV, UseV)>> { byfix_view(self.usage_by_fixture.m()) }
    pub open spec fn uses(&self) -> Map<PV, Seq<UseV>> { usages_view(self.usages.m()) }
    pub open spec fn provf(&self) -> spec_fn(Seq<char>) -> spec_fn(PV) -> bool { |n: Seq<char>| self.prov(n) }

    #[verifier::external_body]
    pub fn new() -> (r: Self) { unimplemented!() }
    // ASSUMED (scanner.rs): see scanned_ok
    #[verifier::external_body]
    pub fn scan_workspace(&mut self, root_path: &Path)
        ensures scanned_ok(*final(self)), scanned_from(*final(self), pv(root_path))
    { unimplemented!() }
//@stub cli_unused get_unused_fixtures
    /// cli.rs print_fixtures_tree (not under contract): obligation = it runs on the database scanned from the canonical
    /// root, with that root and the two flags of the command line, unchanged
    #[verifier::external_body]
    pub fn vp_print_tree(&self, Ghost(root): Ghost<PV>, Ghost(flags): Ghost<(bool, bool)>, root_path: &Path, skip_unused: bool, only_unused: bool)
        requires scanned_from(*self, root), pv(root_path) == root, (skip_unused, only_unused) == flags
    { }
}

/*@ extract src/main.rs handle_fixtures_unused
@tags C20 C11 C12
@replace 1 `use colored::Colorize;` => ``
@wrapexpr 1 `if path.is_absolute() { path } else { std::env::current_dir() .unwrap_or_else(|_| PathBuf::from(".")) .join(&path) }` => `vp_absolute_u(path)` with fn vp_absolute_u(path: PathBuf) -> (r: PathBuf) ensures pbv(&r) == abs_pv(pbv(&path))
@wrapexpr 1 `absolute_path.canonicalize().unwrap_or(absolute_path)` => `vp_canonical_u(absolute_path)` with fn vp_canonical_u(absolute_path: PathBuf) -> (r: PathBuf) ensures pbv(&r) == fs_canon(pbv(&absolute_path))
@replace 1 `eprintln!("Error: Path does not exist: {}", absolute_path.display())` => `vp_eprint_missing(&absolute_path)`
@replace 1 `eprintln!( "Error: Path is not a directory: {}", absolute_path.display() )` => `vp_eprint_not_dir(&absolute_path)`
@replace 1 `std::process::exit(` => `return vp_exit(Ghost(1int), Ghost(true), `
@replace 2 `std::process::exit(` => `return vp_exit(Ghost(1int), Ghost(true), `
@replace 3 `std::process::exit(` => `return vp_exit(Ghost(expected_exit(unused@)), Ghost(true), `
@replace 4 `std::process::exit(` => `return vp_exit(Ghost(expected_exit(unused@)), Ghost(printed == expected_entries(unused@, root)), `
@replace 1 `let fixture_db = FixtureDatabase::new();` => `let mut fixture_db = FixtureDatabase::new();`
@replace 1 `println!("[]")` => `vp_print_json_empty()`
@replace 1 `println!("{}", "No unused fixtures found.".green())` => `vp_print_none_found()`
@rename to_string_lossy vp_to_string_lossy
@closure map:1 |e: &(PathBuf, String)| -> (v: serde_json::Value) ensures serde_json::jv(v) == entry_of(*e, pbv(&canonical_path))
@closurelet map:1 let file_path = &e.0; let fixture_name = &e.1;
@replace 1 `serde_json::json!({ "file": relative_path, "fixture": fixture_name })` => `vp_json_entry(relative_path, fixture_name)`
@replace 1 `println!("{}", serde_json::to_string_pretty(&json_output).unwrap())` => `vp_print_json(&json_output, Ghost(expected_entries(unused@, root)))`
@replace 1 `println!( "{} {} unused fixture(s):\n", "Found".red().bold(), unused.len() )` => `vp_print_header(unused.len(), Ghost(unused@.len()))`
@replace 1 `println!( "  {} {} in {}", "•".red(), fixture_name.yellow(), relative_path.dimmed() )` => `vp_print_entry(fixture_name, &relative_path, Ghost(entry_of(unused@[i - 1], root)))`
@replace 1 `println!( "\n{}", "Tip: Remove unused fixtures or add tests that use them.".dimmed() )` => `vp_print_tip()`
@after canonical_path 1
    let ghost root = pbv(&canonical_path);
    let ghost mut printed: Seq<EntryV> = Seq::empty();
    let ghost mut i: int = 0;
@after json_output 1
    proof { assert(serde_json::jvs(json_output@) =~= expected_entries(unused@, root)); }
@after to_string_pretty 1
    proof { printed = expected_entries(unused@, root); }
@forloop 1 it
    proof { assert(expected_entries(unused@, root).take(i) =~= expected_entries(unused@, root)); }
@loop 1
    invariant 0 <= i <= unused@.len(), it.remaining() == unused@.as_ref().skip(i), root == pbv(&canonical_path),
        printed =~= expected_entries(unused@, root).take(i),
    ensures printed =~= expected_entries(unused@, root),
    decreases unused@.len() - i
@loopstart 1
    proof {
        assert(*file_path == unused@[i].0 && *fixture_name == unused@[i].1);
        i = i + 1;
    }
@after dimmed 1
    proof {
        printed = printed.push(entry_of(unused@[i - 1], root));
        assert(expected_entries(unused@, root).take(i) =~= expected_entries(unused@, root).take(i - 1).push(entry_of(unused@[i - 1], root)));
    }
@*/

/*@ extract src/main.rs handle_fixtures_list
@tags C20 C11
@wrapexpr 1 `if path.is_absolute() { path } else { std::env::current_dir() .unwrap_or_else(|_| PathBuf::from(".")) .join(&path) }` => `vp_absolute_l(path)` with fn vp_absolute_l(path: PathBuf) -> (r: PathBuf) ensures pbv(&r) == abs_pv(pbv(&path))
@wrapexpr 1 `absolute_path.canonicalize().unwrap_or(absolute_path)` => `vp_canonical_l(absolute_path)` with fn vp_canonical_l(absolute_path: PathBuf) -> (r: PathBuf) ensures pbv(&r) == fs_canon(pbv(&absolute_path))
@replace 1 `eprintln!("Error: Path does not exist: {}", absolute_path.display())` => `vp_eprint_missing(&absolute_path)`
@replace 1 `eprintln!( "Error: Path is not a directory: {}", absolute_path.display() )` => `vp_eprint_not_dir(&absolute_path)`
@replace 1 `std::process::exit(` => `return vp_exit(Ghost(1int), Ghost(true), `
@replace 2 `std::process::exit(` => `return vp_exit(Ghost(1int), Ghost(true), `
@replace 1 `let fixture_db = FixtureDatabase::new();` => `let mut fixture_db = FixtureDatabase::new();`
@replace 1 `fixture_db.print_fixtures_tree(` => `fixture_db.vp_print_tree(Ghost(fs_canon(abs_pv(g_path))), Ghost((skip_unused, only_unused)), `
@start
    let ghost g_path = pbv(&path);
@*/

// ---- exec vacuity guard (must FAIL): the real body, the final exit constrained to status 0
/*@ extract src/main.rs handle_fixtures_unused
@as canary_exec_unused_exits_zero
@replace 1 `use colored::Colorize;` => ``
@wrapexpr 1 `if path.is_absolute() { path } else { std::env::current_dir() .unwrap_or_else(|_| PathBuf::from(".")) .join(&path) }` => `vp_absolute_c(path)` with fn vp_absolute_c(path: PathBuf) -> (r: PathBuf) ensures pbv(&r) == abs_pv(pbv(&path))
@wrapexpr 1 `absolute_path.canonicalize().unwrap_or(absolute_path)` => `vp_canonical_c(absolute_path)` with fn vp_canonical_c(absolute_path: PathBuf) -> (r: PathBuf) ensures pbv(&r) == fs_canon(pbv(&absolute_path))
@replace 1 `eprintln!("Error: Path does not exist: {}", absolute_path.display())` => `vp_eprint_missing(&absolute_path)`
@replace 1 `eprintln!( "Error: Path is not a directory: {}", absolute_path.display() )` => `vp_eprint_not_dir(&absolute_path)`
@replace 1 `std::process::exit(` => `return vp_exit(Ghost(1int), Ghost(true), `
@replace 2 `std::process::exit(` => `return vp_exit(Ghost(1int), Ghost(true), `
@replace 3 `std::process::exit(` => `return vp_exit(Ghost(0int), Ghost(true), `
@replace 4 `std::process::exit(` => `return vp_exit(Ghost(0int), Ghost(true), `
@replace 1 `let fixture_db = FixtureDatabase::new();` => `let mut fixture_db = FixtureDatabase::new();`
@replace 1 `println!("[]")` => `vp_print_json_empty()`
@replace 1 `println!("{}", "No unused fixtures found.".green())` => `vp_print_none_found()`
@rename to_string_lossy vp_to_string_lossy
@closure map:1 |e: &(PathBuf, String)| -> (v: serde_json::Value)
@closurelet map:1 let file_path = &e.0; let fixture_name = &e.1;
@replace 1 `serde_json::json!({ "file": relative_path, "fixture": fixture_name })` => `vp_json_entry(relative_path, fixture_name)`
@replace 1 `println!("{}", serde_json::to_string_pretty(&json_output).unwrap())` => `vp_print_tip()`
@replace 1 `println!( "{} {} unused fixture(s):\n", "Found".red().bold(), unused.len() )` => `vp_print_tip()`
@replace 1 `println!( "  {} {} in {}", "•".red(), fixture_name.yellow(), relative_path.dimmed() )` => `vp_print_tip()`
@replace 1 `println!( "\n{}", "Tip: Remove unused fixtures or add tests that use them.".dimmed() )` => `vp_print_tip()`
@before for 1
    let ghost mut i: int = 0;
@forloop 1 it
@loop 1
    invariant 0 <= i <= unused@.len(), it.remaining() == unused@.as_ref().skip(i),
    decreases unused@.len() - i
@loopstart 1
    proof { i = i + 1; }
@*/

} // verus!
fn main() {}
