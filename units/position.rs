//@include prelude/header.rs
// Unit position (properties C04 / C15 / C11, cursor -> fixture NAME queries between the LSP handlers and the index):
//   L1 (operational specification: prelude/position_spec.rs; the receivers are `&self`: a write to an index field
//       does not compile)
//       find_fixture_at_position     opt_sv(r) == op_name_at(file_cache, defs, uses, file, line, ch): name of the FIRST
//                                    recorded usage of the file (list order) on line+1 with start_char <= ch < end_char;
//                                    else the word under the cursor if a definition with that name is registered on
//                                    that line of the file (under ANY key: independent of the hash order); else None.
//                                    `line as usize + 1` cannot overflow (64-bit usize, A6)
//       find_fixture_references      refs_by_name_post: for SOME duplicate-free enumeration ks of the files of the
//                                    usages map, r == concat over ks of (uses[k] filtered by name), in list order
//       get_undeclared_fixtures      undecl_post (object level) + PROVED lemma_undecl_post_view: r == bucket(undecl, file)
//       extract_word_at_position     delegation: opt_sv(r) == word_at(line, ch)
//       find_function_name_position  (analyzer.rs wrapper) delegation: r == name_pos(content, line, func_name)
//   L2  prelude/position_l2.rs: lemma_C15_cursor_attributed_by_span, lemma_C15_span_half_open,
//       lemma_C15_definition_branch_is_word, lemma_C04_position_names_the_usage (composes with unit refs_goto: op_goto /
//       lemma_C04_d_goto_resolves_usage / op_refs), lemma_C04_by_name_multiplicity, lemma_C04_by_name_order_independent,
//       lemma_C15_by_name_no_duplicates; 5 proof canaries + 2 exec canaries (@as).
// ASSUMED here (each stated at its stub):
//   A-pos1 string_utils::extract_word_at_position / find_function_name_position are functions word_at / name_pos of
//          their arguments (string code: Kani)
//   A-pos2 get_file_content == file_content(file_cache, path) — same text as in unit refs_goto; implied by the contract
//          PROVED for get_file_content in unit memo
//   A-pos3 `word == &def.name` (`&String == &String`, no vstd specification) compares the contents (wrapexpr_opt)
//   A-pos4 derive(Clone) on UndeclaredFixture clones every field (prelude/position_spec.rs)
//   A-pos5 build_line_index returns a non-empty vector starting with 0 (weaker than what unit line_index proves; NOT
//          used by the real code — declared so that a wrapper variant that re-slices the text is judged by Verus)
//   `str[range]`: vstd's IndexSpec::index_req has no model for str, so any range-slice of a str in an extracted body
//   is an obligation that always fails (conservative; the extracted functions contain none).
verus! {
global size_of usize == 8;  // A6: 64-bit target (`line as usize + 1` with line: u32 cannot overflow)
pub mod pre {
use super::*;
//@include prelude/path.rs
//@include prelude/types.rs
//@include prelude/dashmap.rs
//@include prelude/hashset.rs
//@include prelude/atomic.rs
//@include prelude/dbview.rs
//@include prelude/hof.rs
//@include prelude/strings.rs
//@include prelude/bytes.rs
//@include prelude/resolve_spec.rs
//@include prelude/refs_spec.rs
//@include prelude/text.rs
//@include prelude/refs_l2.rs
//@include prelude/position_spec.rs
//@include prelude/position_l2.rs
} // mod pre
use pre::*;

#[verifier::external_type_specification] pub struct ExUndeclaredFixture(UndeclaredFixture);

//@dbstruct definitions file_cache usages usage_by_fixture undeclared_fixtures

//@include prelude/db_specs.rs

broadcast use {axiom_has_parent_nonempty, axiom_str_as_path};

// ---- string code: ASSUMED callee contracts (src/fixtures/string_utils.rs; bounded checking: Kani) ------------
pub mod string_utils {
use super::*;
    #[verifier::external_body]
    pub(crate) fn extract_word_at_position(line: &str, character: usize) -> (r: Option<String>)
        ensures opt_sv(r) == word_at(line@, character as int)
    { unimplemented!() }
    #[verifier::external_body]
    pub(crate) fn find_function_name_position(content: &str, line: usize, func_name: &str) -> (r: (usize, usize))
        ensures r == name_pos(content@, line, func_name@)
    { unimplemented!() }
}

pub mod resolver {
use super::*;
impl FixtureDatabase {
    pub open spec fn uses(&self) -> Map<PV, Seq<UseV>> { usages_view(self.usages.m()) }
    pub open spec fn undecl(&self) -> Map<PV, Seq<UndeclV>> { undecl_view(self.undeclared_fixtures.m()) }

    // callee contract assumed here exactly as in unit refs_goto (it follows from the contract PROVED for
    // get_file_content in unit memo: the result is a function of file_cache and the path only)
    #[verifier::external_body]
    pub(crate) fn get_file_content(&self, file_path: &Path) -> (r: Option<Arc<String>>)
        ensures (match r { Some(a) => Some(a.v@), None => None::<Seq<char>> }) == file_content(self.file_cache.m(), pv(file_path))
    { unimplemented!() }

/*@ extract src/fixtures/resolver.rs extract_word_at_position
@tags C04 C15 C11
@ret r
@sig
    ensures opt_sv(r) == word_at(line@, character as int),
@*/

/*@ extract src/fixtures/resolver.rs find_fixture_at_position
@tags C04 C15 C11
@ret r
@rename lines vp_lines
@wrapexpr_opt 1 `word == &def.name` => `Self::vp_word_is_name(word, def)` with fn vp_word_is_name(word: &String, def: &FixtureDefinition) -> (r: bool) ensures r == (word@ == def.name@)
@sig
    ensures opt_sv(r) == op_name_at(self.file_cache.m(), self.defs(), self.uses(), pv(file_path), line, character),
@start
    let ghost m0 = self.definitions.m();
    let ghost mut done: Set<Seq<char>> = Set::empty();
    let ghost cov = covers(line as int + 1, character as int);
@before for 1
    let ghost ux = usages.r@;
    proof { assert(uvs(ux) == bucket(self.uses(), pv(file_path))); }
@loopvar 1 it
@loop 1
    invariant
        ux == usages.r@, it.seq() == ux.as_ref(), uvs(ux) == bucket(self.uses(), pv(file_path)),
        cov == covers(line as int + 1, character as int), target_line == line as int + 1,
        file_content(self.file_cache.m(), pv(file_path)) == Some(content.v@),
        line_of(content.v@, line as int) == Some(line_content@),
        forall|j: int| 0 <= j < it.index@ ==> !cov(uv(&(#[trigger] ux[j]))),
@return 1
    let i = it.index@ as int;
    assert(ux[i] == *usage);
    assert forall|j: int| 0 <= j < i implies !cov(#[trigger] uvs(ux)[j]) by { let y = ux[j]; }
    lemma_first_use_idx(uvs(ux), cov, i);
@after for 1
    proof {
        let us = bucket(self.uses(), pv(file_path));
        assert forall|j: int| 0 <= j < us.len() implies !cov(#[trigger] us[j]) by { let y = ux[j]; }
        lemma_first_use_none(us, cov);
    }
@before for 2
    proof {
        if !self.uses().contains_key(pv(file_path)) { lemma_first_use_none(bucket(self.uses(), pv(file_path)), cov); }
        assert(first_use(bucket(self.uses(), pv(file_path)), cov) is None);
    }
@loopvar 2 it2
@loop 2
    invariant
        m0 == self.definitions.m(), target_line == line as int + 1,
        cov == covers(line as int + 1, character as int),
        file_content(self.file_cache.m(), pv(file_path)) == Some(content.v@),
        line_of(content.v@, line as int) == Some(line_content@),
        opt_sv(word_at_cursor) == word_at(line_content@, character as int),
        first_use(bucket(self.uses(), pv(file_path)), cov) is None,
        forall|j: int| 0 <= j < it2.seq().len() ==> m0.contains_key((#[trigger] it2.seq()[j]).k@) && *it2.seq()[j].v == m0[it2.seq()[j].k@],
        forall|j: int| 0 <= j < it2.index@ ==> done.contains((#[trigger] it2.seq()[j]).k@),
        forall|key: Seq<char>| m0.contains_key(key) ==> exists|j: int| 0 <= j < it2.seq().len() && (#[trigger] it2.seq()[j]).k@ == key,
        forall|k: Seq<char>, i: int| done.contains(k) && m0.contains_key(k) && 0 <= i < m0[k]@.len() && word_at_cursor is Some ==>
            !(pbv(&(#[trigger] m0[k]@[i]).file_path) == pv(file_path) && m0[k]@[i].line == target_line && m0[k]@[i].name@ == word_at_cursor->0@),
@loopvar 3 it3
@loop 3
    invariant
        m0 == self.definitions.m(), target_line == line as int + 1,
        cov == covers(line as int + 1, character as int),
        file_content(self.file_cache.m(), pv(file_path)) == Some(content.v@),
        line_of(content.v@, line as int) == Some(line_content@),
        opt_sv(word_at_cursor) == word_at(line_content@, character as int),
        first_use(bucket(self.uses(), pv(file_path)), cov) is None,
        m0.contains_key(entry.k@), *entry.v == m0[entry.k@],
        it3.seq() == entry.v@.as_ref(),
        forall|i: int| 0 <= i < it3.index@ && word_at_cursor is Some ==>
            !(pbv(&(#[trigger] entry.v@[i]).file_path) == pv(file_path) && entry.v@[i].line == target_line && entry.v@[i].name@ == word_at_cursor->0@),
@return 2
    assert(word_at_cursor is Some && def_named_at(self.defs(), pv(file_path), line as int + 1, word_at_cursor->0@)) by {
        let n = entry.k@; let i = it3.index@ as int;
        assert(entry.v@[i] == *def);
        assert(self.defs().contains_key(n) && self.defs()[n][i] == dv(def));
    }
@loopend 2
    proof { done = done.insert(entry.k@); }
@return tail
    if word_at_cursor is Some {
        let w = word_at_cursor->0@;
        assert(no_def_named_at(self.defs(), pv(file_path), line as int + 1, w)) by {
            assert forall|n: Seq<char>, i: int| self.defs().contains_key(n) && 0 <= i < self.defs()[n].len() implies
                !((#[trigger] self.defs()[n][i]).file == pv(file_path) && self.defs()[n][i].line == line as int + 1 && self.defs()[n][i].name == w) by {
                assert(done.contains(n));
                let y = m0[n]@[i];
            }
        }
        lemma_no_def_named(self.defs(), pv(file_path), line as int + 1, w);
    }
@*/

// exec canary: the same real body under the claim "only a covering usage ever produces a name" (the definition
// branch would be dead): must FAIL
/*@ extract src/fixtures/resolver.rs find_fixture_at_position
@tags C04 C15
@as canary_at_position_usage_branch_only
@ret r
@rename lines vp_lines
@wrapexpr_opt 1 `word == &def.name` => `Self::vp_word_is_name2(word, def)` with fn vp_word_is_name2(word: &String, def: &FixtureDefinition) -> (r: bool) ensures r == (word@ == def.name@)
@sig
    ensures r is Some ==> first_use(bucket(self.uses(), pv(file_path)), covers(line as int + 1, character as int)) is Some,
@start
    let ghost m0 = self.definitions.m();
    let ghost mut done: Set<Seq<char>> = Set::empty();
    let ghost cov = covers(line as int + 1, character as int);
@before for 1
    let ghost ux = usages.r@;
    proof { assert(uvs(ux) == bucket(self.uses(), pv(file_path))); }
@loopvar 1 it
@loop 1
    invariant
        ux == usages.r@, it.seq() == ux.as_ref(), uvs(ux) == bucket(self.uses(), pv(file_path)),
        cov == covers(line as int + 1, character as int), target_line == line as int + 1,
        file_content(self.file_cache.m(), pv(file_path)) == Some(content.v@),
        line_of(content.v@, line as int) == Some(line_content@),
        forall|j: int| 0 <= j < it.index@ ==> !cov(uv(&(#[trigger] ux[j]))),
@return 1
    let i = it.index@ as int;
    assert(ux[i] == *usage);
    assert forall|j: int| 0 <= j < i implies !cov(#[trigger] uvs(ux)[j]) by { let y = ux[j]; }
    lemma_first_use_idx(uvs(ux), cov, i);
@after for 1
    proof {
        let us = bucket(self.uses(), pv(file_path));
        assert forall|j: int| 0 <= j < us.len() implies !cov(#[trigger] us[j]) by { let y = ux[j]; }
        lemma_first_use_none(us, cov);
    }
@before for 2
    proof {
        if !self.uses().contains_key(pv(file_path)) { lemma_first_use_none(bucket(self.uses(), pv(file_path)), cov); }
        assert(first_use(bucket(self.uses(), pv(file_path)), cov) is None);
    }
@loopvar 2 it2
@loop 2
    invariant
        m0 == self.definitions.m(), target_line == line as int + 1,
        cov == covers(line as int + 1, character as int),
        file_content(self.file_cache.m(), pv(file_path)) == Some(content.v@),
        line_of(content.v@, line as int) == Some(line_content@),
        opt_sv(word_at_cursor) == word_at(line_content@, character as int),
        first_use(bucket(self.uses(), pv(file_path)), cov) is None,
        forall|j: int| 0 <= j < it2.seq().len() ==> m0.contains_key((#[trigger] it2.seq()[j]).k@) && *it2.seq()[j].v == m0[it2.seq()[j].k@],
        forall|j: int| 0 <= j < it2.index@ ==> done.contains((#[trigger] it2.seq()[j]).k@),
        forall|key: Seq<char>| m0.contains_key(key) ==> exists|j: int| 0 <= j < it2.seq().len() && (#[trigger] it2.seq()[j]).k@ == key,
        forall|k: Seq<char>, i: int| done.contains(k) && m0.contains_key(k) && 0 <= i < m0[k]@.len() && word_at_cursor is Some ==>
            !(pbv(&(#[trigger] m0[k]@[i]).file_path) == pv(file_path) && m0[k]@[i].line == target_line && m0[k]@[i].name@ == word_at_cursor->0@),
@loopvar 3 it3
@loop 3
    invariant
        m0 == self.definitions.m(), target_line == line as int + 1,
        cov == covers(line as int + 1, character as int),
        file_content(self.file_cache.m(), pv(file_path)) == Some(content.v@),
        line_of(content.v@, line as int) == Some(line_content@),
        opt_sv(word_at_cursor) == word_at(line_content@, character as int),
        first_use(bucket(self.uses(), pv(file_path)), cov) is None,
        m0.contains_key(entry.k@), *entry.v == m0[entry.k@],
        it3.seq() == entry.v@.as_ref(),
        forall|i: int| 0 <= i < it3.index@ && word_at_cursor is Some ==>
            !(pbv(&(#[trigger] entry.v@[i]).file_path) == pv(file_path) && entry.v@[i].line == target_line && entry.v@[i].name@ == word_at_cursor->0@),
@return 2
    assert(word_at_cursor is Some && def_named_at(self.defs(), pv(file_path), line as int + 1, word_at_cursor->0@)) by {
        let n = entry.k@; let i = it3.index@ as int;
        assert(entry.v@[i] == *def);
        assert(self.defs().contains_key(n) && self.defs()[n][i] == dv(def));
    }
@loopend 2
    proof { done = done.insert(entry.k@); }
@return tail
    if word_at_cursor is Some {
        let w = word_at_cursor->0@;
        assert(no_def_named_at(self.defs(), pv(file_path), line as int + 1, w)) by {
            assert forall|n: Seq<char>, i: int| self.defs().contains_key(n) && 0 <= i < self.defs()[n].len() implies
                !((#[trigger] self.defs()[n][i]).file == pv(file_path) && self.defs()[n][i].line == line as int + 1 && self.defs()[n][i].name == w) by {
                assert(done.contains(n));
                let y = m0[n]@[i];
            }
        }
        lemma_no_def_named(self.defs(), pv(file_path), line as int + 1, w);
    }
@*/

/*@ extract src/fixtures/resolver.rs find_fixture_references
@tags C04 C15 C11
@ret r
@sig
    ensures refs_by_name_post(self.uses(), fixture_name@, uvs(r@)),
@start
    let ghost m0 = self.usages.m();
    let ghost us = self.uses();
    let ghost n = fixture_name@;
    let ghost mut ks: Seq<PV> = Seq::empty();
@loopvar 1 it
@loop 1
    invariant
        m0 == self.usages.m(), us == self.uses(), n == fixture_name@,
        forall|j: int| 0 <= j < it.seq().len() ==> m0.contains_key(pbv((#[trigger] it.seq()[j]).k)) && *it.seq()[j].v == m0[pbv(it.seq()[j].k)],
        forall|i: int, j: int| 0 <= i < j < it.seq().len() ==> pbv((#[trigger] it.seq()[i]).k) != pbv((#[trigger] it.seq()[j]).k),
        forall|key: PV| m0.contains_key(key) ==> exists|j: int| 0 <= j < it.seq().len() && pbv((#[trigger] it.seq()[j]).k) == key,
        ks.len() == it.index@, it.seq().len() == m0.dom().len(),
        forall|j: int| 0 <= j < ks.len() ==> (#[trigger] ks[j]) == pbv(it.seq()[j].k),
        ks.no_duplicates(),
        forall|j: int| 0 <= j < ks.len() ==> m0.contains_key(#[trigger] ks[j]),
        uvs(all_references@) =~= refs_by_name(us, ks, n),
@before for 2
    let ghost fu = uvs(usages@);
    let ghost base = refs_by_name(us, ks, n);
    proof { assert(fu == bucket(us, pbv(entry.k))); }
@loopvar 2 it2
@loop 2
    invariant
        n == fixture_name@, it2.seq() == usages@.as_ref(), fu == uvs(usages@),
        uvs(all_references@) =~= base + fu.take(it2.index@ as int).filter(named(n)),
@loopstart 2
    let ghost i0 = it2.index@ as int;
    let ghost before = all_references@;
    proof { assert(usages@[i0] == *usage); assert(fu[i0] == uv(usage)); }
@loopend 2
    proof {
        let p = named(n);
        let t1 = fu.take(i0 + 1);
        assert(t1.drop_last() =~= fu.take(i0));
        assert(t1.last() == fu[i0]);
        reveal_with_fuel(Seq::filter, 2);
        let f1 = fu.take(i0).filter(p);
        if p(fu[i0]) {
            assert(t1.filter(p) =~= f1.push(fu[i0]));
            assert(all_references@.len() == before.len() + 1);
            assert(all_references@.drop_last() =~= before);
            assert(uv(&all_references@.last()) == uv(usage));
            assert(uvs(all_references@) =~= uvs(before).push(uv(usage)));
        } else {
            assert(t1.filter(p) =~= f1);
            assert(all_references@ == before);
        }
    }
@loopend 1
    proof {
        let k = pbv(entry.k);
        assert(fu.take(fu.len() as int) =~= fu);
        let ks1 = ks.push(k);
        assert(ks1.drop_last() =~= ks);
        assert(ks1.last() == k);
        assert(refs_by_name(us, ks1, n) == base + bucket(us, k).filter(named(n)));
        ks = ks1;
    }
@return tail
    assert(ks.len() == m0.dom().len());
    assert(us.dom() =~= m0.dom());
    lemma_injective_seq_covers(ks, us.dom());
    assert(enumerates(ks, us));
    assert(refs_by_name_post(us, n, uvs(all_references@)));
@*/

// exec canary: the same real body (same loop invariants) under the claim "some reference is always found": must FAIL
/*@ extract src/fixtures/resolver.rs find_fixture_references
@tags C04 C15
@as canary_references_of_unused_name_nonempty
@ret r
@sig
    ensures r@.len() > 0,
@start
    let ghost m0 = self.usages.m();
    let ghost us = self.uses();
    let ghost n = fixture_name@;
    let ghost mut ks: Seq<PV> = Seq::empty();
@loopvar 1 it
@loop 1
    invariant
        m0 == self.usages.m(), us == self.uses(), n == fixture_name@,
        forall|j: int| 0 <= j < it.seq().len() ==> m0.contains_key(pbv((#[trigger] it.seq()[j]).k)) && *it.seq()[j].v == m0[pbv(it.seq()[j].k)],
        forall|i: int, j: int| 0 <= i < j < it.seq().len() ==> pbv((#[trigger] it.seq()[i]).k) != pbv((#[trigger] it.seq()[j]).k),
        forall|key: PV| m0.contains_key(key) ==> exists|j: int| 0 <= j < it.seq().len() && pbv((#[trigger] it.seq()[j]).k) == key,
        ks.len() == it.index@, it.seq().len() == m0.dom().len(),
        forall|j: int| 0 <= j < ks.len() ==> (#[trigger] ks[j]) == pbv(it.seq()[j].k),
        ks.no_duplicates(),
        forall|j: int| 0 <= j < ks.len() ==> m0.contains_key(#[trigger] ks[j]),
        uvs(all_references@) =~= refs_by_name(us, ks, n),
@before for 2
    let ghost fu = uvs(usages@);
    let ghost base = refs_by_name(us, ks, n);
    proof { assert(fu == bucket(us, pbv(entry.k))); }
@loopvar 2 it2
@loop 2
    invariant
        n == fixture_name@, it2.seq() == usages@.as_ref(), fu == uvs(usages@),
        uvs(all_references@) =~= base + fu.take(it2.index@ as int).filter(named(n)),
@loopstart 2
    let ghost i0 = it2.index@ as int;
    let ghost before = all_references@;
    proof { assert(usages@[i0] == *usage); assert(fu[i0] == uv(usage)); }
@loopend 2
    proof {
        let p = named(n);
        let t1 = fu.take(i0 + 1);
        assert(t1.drop_last() =~= fu.take(i0));
        assert(t1.last() == fu[i0]);
        reveal_with_fuel(Seq::filter, 2);
        let f1 = fu.take(i0).filter(p);
        if p(fu[i0]) {
            assert(t1.filter(p) =~= f1.push(fu[i0]));
            assert(all_references@.len() == before.len() + 1);
            assert(all_references@.drop_last() =~= before);
            assert(uv(&all_references@.last()) == uv(usage));
            assert(uvs(all_references@) =~= uvs(before).push(uv(usage)));
        } else {
            assert(t1.filter(p) =~= f1);
            assert(all_references@ == before);
        }
    }
@loopend 1
    proof {
        let k = pbv(entry.k);
        assert(fu.take(fu.len() as int) =~= fu);
        let ks1 = ks.push(k);
        assert(ks1.drop_last() =~= ks);
        assert(ks1.last() == k);
        assert(refs_by_name(us, ks1, n) == base + bucket(us, k).filter(named(n)));
        ks = ks1;
    }
@return tail
    assert(ks.len() == m0.dom().len());
    assert(us.dom() =~= m0.dom());
    lemma_injective_seq_covers(ks, us.dom());
    assert(enumerates(ks, us));
    assert(refs_by_name_post(us, n, uvs(all_references@)));
@*/

/*@ extract src/fixtures/resolver.rs get_undeclared_fixtures
@tags C11
@ret r
@closure 1 |entry: Ref<'_, PathBuf, Vec<UndeclaredFixture>>| -> (v: Vec<UndeclaredFixture>) ensures same_undecl(v@, entry.r@)
@sig
    ensures undecl_post(self.undeclared_fixtures.m(), pv(file_path), r@),
@*/
}
} // mod resolver

pub mod analyzer {
use super::*;
impl FixtureDatabase {
    // sibling of the wrapper below (PROVED in unit line_index with a stronger contract: r == op_line_index(bytes)).
    // The real wrapper does not call it; it is declared so that a variant of the wrapper that re-slices the text
    // with a line index is judged by Verus (index / slice obligations) instead of being rejected by rustc.
    #[verifier::external_body]
    pub(crate) fn build_line_index(content: &str) -> (r: Vec<usize>)
        ensures r@.len() >= 1, r@[0] == 0, forall|k: int| 0 <= k < r@.len() ==> (#[trigger] r@[k]) <= str_bytes(content).len(),
    { unimplemented!() }
/*@ extract src/fixtures/analyzer.rs find_function_name_position
@tags C15 C11
@ret r
@sig
    ensures r == name_pos(content@, line, func_name@),
@*/
}
} // mod analyzer
} // verus!
fn main() {}
