//@include prelude/header.rs
use rustpython_parser::ast::{Expr, Stmt, Keyword, Identifier, Constant};
use rustpython_parser::text_size::TextRange;
verus! {
pub mod pre {
use super::*;
//@include build/astspec.rs
//@include prelude/path.rs
//@include prelude/types.rs
//@include prelude/hof.rs
//@include prelude/strings.rs
//@include prelude/iter_ext.rs
//@include prelude/iter_slice.rs
} // mod pre
use pre::*;

broadcast use axiom_string_to_string;

// ---- the documented decorator forms (README "Supported Fixture Patterns"), as functions of the AST ----
/// `fixture` | `pytest.fixture` | `pytest_asyncio.fixture` | any of these CALLED (any number of times)
pub open spec fn spec_is_fixture_decorator(e: &Expr) -> bool
    decreases e
{
    match e {
        Expr::Name(n) => idv(&n.id) == "fixture"@,
        Expr::Attribute(a) => match &*a.value {
            Expr::Name(v) => (idv(&v.id) == "pytest"@ || idv(&v.id) == "pytest_asyncio"@) && idv(&a.attr) == "fixture"@,
            _ => false,
        },
        Expr::Call(c) => spec_is_fixture_decorator(&*c.func),
        _ => false,
    }
}
/// `pytest.mark.<marker>` | `mark.<marker>` | any of these CALLED (any number of times)
pub open spec fn spec_is_mark(e: &Expr, marker: Seq<char>) -> bool
    decreases e
{
    match e {
        Expr::Call(c) => spec_is_mark(&*c.func, marker),
        Expr::Attribute(a) => idv(&a.attr) == marker && match &*a.value {
            Expr::Attribute(inner) => idv(&inner.attr) == "mark"@ && match &*inner.value {
                Expr::Name(n) => idv(&n.id) == "pytest"@,
                _ => false,
            },
            Expr::Name(n) => idv(&n.id) == "mark"@,
            _ => false,
        },
        _ => false,
    }
}

pub open spec fn kw_is(kw: Keyword, name: Seq<char>) -> bool {
    match kw.arg { Some(a) => idv(&a) == name, None => false }
}
pub open spec fn is_true_const(e: Expr) -> bool {
    match e { Expr::Constant(c) => (match c.value { Constant::Bool(b) => b, _ => false }), _ => false }
}
/// autouse: the decorator is a CALL of a fixture decorator with some keyword `autouse=True` (literal True)
pub open spec fn spec_autouse(e: &Expr) -> bool {
    match e {
        Expr::Call(c) => spec_is_fixture_decorator(&*c.func)
            && exists|i: int| 0 <= i < c.keywords@.len() && kw_is(#[trigger] c.keywords@[i], "autouse"@) && is_true_const(c.keywords@[i].value),
        _ => false,
    }
}

/// the text of a string literal, None for anything else (non-constant values are ignored)
pub open spec fn str_const(e: Expr) -> Option<Seq<char>> {
    match e { Expr::Constant(c) => (match c.value { Constant::Str(s) => Some(s@), _ => None }), _ => None }
}
pub open spec fn kw_str_fn(name: Seq<char>) -> spec_fn(Keyword) -> Option<Seq<char>> {
    |kw: Keyword| if kw_is(kw, name) { str_const(kw.value) } else { None }
}
/// `FixtureScope::parse` (src/fixtures/types.rs: `to_lowercase()` + literal match) as a function of the text
pub uninterp spec fn scope_parse(s: Seq<char>) -> Option<FixtureScope>;
pub assume_specification[ FixtureScope::parse ](s: &str) -> (r: Option<FixtureScope>)
    ensures r == scope_parse(s@);
pub open spec fn scope_of_value(e: Expr) -> Option<FixtureScope> {
    match str_const(e) { Some(s) => scope_parse(s), None => None }
}
pub open spec fn kw_scope_fn() -> spec_fn(Keyword) -> Option<FixtureScope> {
    |kw: Keyword| if kw_is(kw, "scope"@) { scope_of_value(kw.value) } else { None }
}
/// what the keyword extractors establish about their result (object level; lifted by lemma_kw_post)
pub open spec fn kw_post<V>(e: &Expr, g: spec_fn(Keyword) -> Option<V>, r: Option<V>) -> bool {
    match e {
        Expr::Call(c) => if spec_is_fixture_decorator(&*c.func) { find_map_post(c.keywords@.as_ref(), g, r) } else { r is None },
        _ => r is None,
    }
}
/// `name=`: the FIRST keyword called `name` whose value is a string literal
pub open spec fn spec_kw<V>(e: &Expr, g: spec_fn(Keyword) -> Option<V>) -> Option<V> {
    match e {
        Expr::Call(c) => if spec_is_fixture_decorator(&*c.func) { first_some(c.keywords@, g, 0) } else { None },
        _ => None,
    }
}
pub proof fn lemma_kw_post<V>(e: &Expr, g: spec_fn(Keyword) -> Option<V>, r: Option<V>)
    requires kw_post(e, g, r),
    ensures r == spec_kw(e, g),
{
    match e {
        Expr::Call(c) => { if spec_is_fixture_decorator(&*c.func) { lemma_find_map_post(c.keywords@, g, r); } }
        _ => {}
    }
}

pub open spec fn autouse_kw_fn() -> spec_fn(Keyword) -> bool { |kw: Keyword| kw_is(kw, "autouse"@) && is_true_const(kw.value) }
pub open spec fn autouse_post(e: &Expr, r: bool) -> bool {
    match e {
        Expr::Call(c) => if spec_is_fixture_decorator(&*c.func) { any_post(c.keywords@.as_ref(), autouse_kw_fn(), r) } else { !r },
        _ => !r,
    }
}
pub proof fn lemma_autouse_post(e: &Expr, r: bool)
    requires autouse_post(e, r),
    ensures r == spec_autouse(e),
{
    match e {
        Expr::Call(c) => { if spec_is_fixture_decorator(&*c.func) { lemma_any_post(c.keywords@, autouse_kw_fn(), r); } }
        _ => {}
    }
}

/// a string literal with its source range, None for anything else
pub open spec fn str_const_r(e: Expr) -> Option<(Seq<char>, TextRange)> {
    match e { Expr::Constant(c) => (match c.value { Constant::Str(s) => Some((s@, c.range)), _ => None }), _ => None }
}
pub open spec fn str_const_r_fn() -> spec_fn(Expr) -> Option<(Seq<char>, TextRange)> { |e: Expr| str_const_r(e) }
pub open spec fn pair_view_fn() -> spec_fn((String, TextRange)) -> (Seq<char>, TextRange) { |p: (String, TextRange)| (p.0@, p.1) }
pub open spec fn pairs_v(r: Seq<(String, TextRange)>) -> Seq<(Seq<char>, TextRange)> { r.map_values(pair_view_fn()) }
/// usefixtures: the decorator is a CALL of `pytest.mark.usefixtures` / `mark.usefixtures` (possibly itself called);
/// the names are its positional arguments that are string literals, in order, each with the literal's range
pub open spec fn spec_usefixtures(e: &Expr) -> Seq<(Seq<char>, TextRange)> {
    match e {
        Expr::Call(c) => if spec_is_mark(&*c.func, "usefixtures"@) { filter_map_spec(c.args@, str_const_r_fn()) } else { Seq::empty() },
        _ => Seq::empty(),
    }
}
pub open spec fn usefix_post(e: &Expr, r: Seq<(String, TextRange)>) -> bool {
    match e {
        Expr::Call(c) => if spec_is_mark(&*c.func, "usefixtures"@) { filter_map_post(c.args@.as_ref(), str_const_r_fn(), pair_view_fn(), r) } else { r.len() == 0 },
        _ => r.len() == 0,
    }
}
pub proof fn lemma_usefix_post(e: &Expr, r: Seq<(String, TextRange)>)
    requires usefix_post(e, r),
    ensures pairs_v(r) =~= spec_usefixtures(e),
{
    match e {
        Expr::Call(c) => { if spec_is_mark(&*c.func, "usefixtures"@) { lemma_filter_map_post(c.args@, str_const_r_fn(), pair_view_fn(), r); } }
        _ => {}
    }
}

/// pytestmark values: a usefixtures call, or a list / tuple whose elements are such values (any nesting)
pub open spec fn spec_usefixtures_from_expr(e: &Expr) -> Seq<(Seq<char>, TextRange)>
    decreases e, 0int
{
    match e {
        Expr::Call(_) => spec_usefixtures(e),
        Expr::List(l) => ufe_from(l.elts@, 0),
        Expr::Tuple(t) => ufe_from(t.elts@, 0),
        _ => Seq::empty(),
    }
}
pub open spec fn ufe_from(es: Seq<Expr>, k: int) -> Seq<(Seq<char>, TextRange)>
    decreases es, es.len() - k
{
    if k < 0 || k >= es.len() { Seq::empty() } else { spec_usefixtures_from_expr(&es[k]) + ufe_from(es, k + 1) }
}
pub open spec fn ufe_post(e: &Expr, r: Seq<(String, TextRange)>) -> bool
    decreases e, 0int
{
    match e {
        Expr::Call(_) => usefix_post(e, r),
        Expr::List(l) => ufe_list_post(l.elts@, r),
        Expr::Tuple(t) => ufe_list_post(t.elts@, r),
        _ => r.len() == 0,
    }
}
pub open spec fn ufe_list_post(es: Seq<Expr>, r: Seq<(String, TextRange)>) -> bool
    decreases es, 1int
{
    exists|o: Seq<Vec<(String, TextRange)>>| #![trigger flat(o)] o.len() == es.len()
        && (forall|j: int| 0 <= j < o.len() ==> ufe_post(&es[j], (#[trigger] o[j])@)) && r == flat(o)
}

pub mod decorators {
use super::*;
broadcast use axiom_string_to_string;
/*@ extract src/fixtures/decorators.rs is_fixture_decorator
@tags C03 C12
@ret r
@sig
    ensures r == spec_is_fixture_decorator(expr),
    decreases expr,
@*/

/*@ extract src/fixtures/decorators.rs is_pytest_mark_decorator
@tags C03 C12
@ret r
@sig
    ensures r == spec_is_mark(expr, marker_name@),
    decreases expr,
@*/

/*@ extract src/fixtures/decorators.rs is_usefixtures_decorator
@tags C03
@ret r
@sig
    ensures r == spec_is_mark(expr, "usefixtures"@),
@*/

/*@ extract src/fixtures/decorators.rs is_parametrize_decorator
@tags C03
@ret r
@sig
    ensures r == spec_is_mark(expr, "parametrize"@),
@*/

/*@ extract src/fixtures/decorators.rs extract_fixture_autouse
@tags C03
@ret r
@rename filter vp_filter
@rename any vp_any
@closure 1 |kw: &&Keyword| -> (b: bool) ensures b == kw_is(**kw, "autouse"@)
@closure 2 |a: &Identifier| -> (b: bool) ensures b == (idv(a) == "autouse"@)
@closure 3 |kw: &Keyword| -> (b: bool) ensures b == is_true_const(kw.value)
@sig
    ensures autouse_post(expr, r),
@*/

/*@ extract src/fixtures/decorators.rs extract_fixture_name_from_decorator
@tags C03
@ret r
@rename filter vp_filter
@rename find_map vp_find_map
@closure 1 |kw: &&Keyword| -> (b: bool) ensures b == kw_is(**kw, "name"@)
@closure 2 |a: &Identifier| -> (b: bool) ensures b == (idv(a) == "name"@)
@closure 3 |kw: &Keyword| -> (o: Option<String>) ensures opt_sv(o) == str_const(kw.value)
@sig
    ensures kw_post(expr, kw_str_fn("name"@), opt_sv(r)),
@*/

/*@ extract src/fixtures/decorators.rs extract_fixture_scope
@tags C03
@ret r
@rename filter vp_filter
@rename find_map vp_find_map
@closure 1 |kw: &&Keyword| -> (b: bool) ensures b == kw_is(**kw, "scope"@)
@closure 2 |a: &Identifier| -> (b: bool) ensures b == (idv(a) == "scope"@)
@closure 3 |kw: &Keyword| -> (o: Option<FixtureScope>) ensures o == scope_of_value(kw.value)
@sig
    ensures kw_post(expr, kw_scope_fn(), r),
@*/

/*@ extract src/fixtures/decorators.rs extract_usefixtures_names
@tags C03
@ret r
@rename filter_map vp_filter_map
@closure 1 |arg: &Expr| -> (o: Option<(String, TextRange)>) ensures opt_map(o, pair_view_fn()) == str_const_r(*arg)
@sig
    ensures usefix_post(expr, r@),
@*/

/*@ extract src/fixtures/decorators.rs extract_usefixtures_from_expr
@tags C03 C12
@ret r
@rename flat_map vp_flat_map
@sig
    ensures ufe_post(expr, r@),
    decreases expr,
@*/
} // mod decorators

} // verus!
fn main() {}
