//@include prelude/header.rs
use rustpython_parser::ast::{Expr, Stmt, Keyword, Identifier, Constant};
verus! {
pub mod pre {
use super::*;
//@include build/astspec.rs
//@include prelude/path.rs
//@include prelude/types.rs
//@include prelude/hof.rs
//@include prelude/strings.rs
//@include prelude/iter_ext.rs
//@include prelude/iter_slice.rs
} // mod pre
use pre::*;

// ---- the documented decorator forms (README "Supported Fixture Patterns"), as functions of the AST ----
/// `fixture` | `pytest.fixture` | `pytest_asyncio.fixture` | any of these CALLED (any number of times)
pub open spec fn spec_is_fixture_decorator(e: &Expr) -> bool
    decreases e
{
    match e {
        Expr::Name(n) => idv(&n.id) == "fixture"@,
        Expr::Attribute(a) => match &*a.value {
            Expr::Name(v) => (idv(&v.id) == "pytest"@ || idv(&v.id) == "pytest_asyncio"@) && idv(&a.attr) == "fixture"@,
            _ => false,
        },
        Expr::Call(c) => spec_is_fixture_decorator(&*c.func),
        _ => false,
    }
}
/// `pytest.mark.<marker>` | `mark.<marker>` | any of these CALLED (any number of times)
pub open spec fn spec_is_mark(e: &Expr, marker: Seq<char>) -> bool
    decreases e
{
    match e {
        Expr::Call(c) => spec_is_mark(&*c.func, marker),
        Expr::Attribute(a) => idv(&a.attr) == marker && match &*a.value {
            Expr::Attribute(inner) => idv(&inner.attr) == "mark"@ && match &*inner.value {
                Expr::Name(n) => idv(&n.id) == "pytest"@,
                _ => false,
            },
            Expr::Name(n) => idv(&n.id) == "mark"@,
            _ => false,
        },
        _ => false,
    }
}

pub open spec fn kw_is(kw: Keyword, name: Seq<char>) -> bool {
    match kw.arg { Some(a) => idv(&a) == name, None => false }
}
pub open spec fn is_true_const(e: Expr) -> bool {
    match e { Expr::Constant(c) => (match c.value { Constant::Bool(b) => b, _ => false }), _ => false }
}
/// autouse: the decorator is a CALL of a fixture decorator with some keyword `autouse=True` (literal True)
pub open spec fn spec_autouse(e: &Expr) -> bool {
    match e {
        Expr::Call(c) => spec_is_fixture_decorator(&*c.func)
            && exists|i: int| 0 <= i < c.keywords@.len() && kw_is(#[trigger] c.keywords@[i], "autouse"@) && is_true_const(c.keywords@[i].value),
        _ => false,
    }
}

pub mod decorators {
use super::*;
/*@ extract src/fixtures/decorators.rs is_fixture_decorator
@tags C03 C12
@ret r
@sig
    ensures r == spec_is_fixture_decorator(expr),
    decreases expr,
@*/

/*@ extract src/fixtures/decorators.rs is_pytest_mark_decorator
@tags C03 C12
@ret r
@sig
    ensures r == spec_is_mark(expr, marker_name@),
    decreases expr,
@*/

/*@ extract src/fixtures/decorators.rs is_usefixtures_decorator
@tags C03
@ret r
@sig
    ensures r == spec_is_mark(expr, "usefixtures"@),
@*/

/*@ extract src/fixtures/decorators.rs is_parametrize_decorator
@tags C03
@ret r
@sig
    ensures r == spec_is_mark(expr, "parametrize"@),
@*/

/*@ extract src/fixtures/decorators.rs extract_fixture_autouse
@tags C03
@ret r
@closure 1 |kw: &&Keyword| -> (b: bool) ensures b == kw_is(**kw, "autouse"@)
@closure 2 |a: &Identifier| -> (b: bool) ensures b == (idv(a) == "autouse"@)
@closure 3 |kw: &Keyword| -> (b: bool) ensures b == is_true_const(kw.value)
@sig
    ensures r == spec_autouse(expr),
@*/
} // mod decorators

} // verus!
fn main() {}
